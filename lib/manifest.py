"""Regenerates /verif/MANIFEST.json from the PROP records in lib/props/*.py (./check --manifest)."""
import json, os
import core

NOT_APPLICABLE = {}  # property id -> reason (kept current by hand; empty means every property is claimed)


def write(ids, load):
    checks = []
    for pid in ids:
        p = load(pid).PROP
        checks.append(dict(
            property_id=pid,
            quick_cmd="./check %s --tier quick" % pid,
            thorough_cmd="./check %s --tier thorough" % pid,
            evidence_file="/verif/evidence/%s.json" % pid,
            replay_cmd_template="./check %s --replay {path}" % pid,
            engine="lean4-model+go-harness",
            level_claimed=dict(category=p.get("level", "proof"), text=p["level_text"], design_ref=p.get("design_ref", "DESIGN.md section 6, " + pid)),
            level_note=p["level_note"],
            technique=p.get("technique", "Lean 4 theorems over an executable model; model tied to the code by regenerated facts and differential correspondence"),
        ))
    props = [json.loads(l)["id"] for l in open(os.path.join(core.VERIF, "properties.jsonl"))]
    na = [dict(property_id=i, reason=NOT_APPLICABLE.get(i, "check not built yet in this round (see DESIGN.md build order); not claimed"))
          for i in props if i not in ids]
    man = dict(
        version=1,
        setup_cmd="./setup.sh",
        hooks=dict(
            guard="verif",
            enable="go build -tags verif -overlay /verif/.build/overlay.json ./cmd/wtfverif  (hook files live in /verif/harness/hooks and are overlaid into their packages; see DESIGN.md section 8)",
            baseline_off_cmd="cd /repo && GOFLAGS=-mod=mod GOPROXY=off go test -vet=off -count=1 ./...",
            source_commits=json.load(open(os.path.join(core.VERIF, "hooks_commits.json"))) if os.path.exists(os.path.join(core.VERIF, "hooks_commits.json")) else [],
            add_only=True,
        ),
        engines=[
            dict(name="lean4-model+go-harness", path="/verif/lean, /verif/harness, /verif/xlate, /verif/lib",
                 serves_properties=ids, kind_free_text="Lean 4 model + theorems (lake), Go translator regenerating WtfModel/Gen, Go harness driving the real code, Python orchestrator"),
        ],
        checks=checks,
        not_applicable=na,
        notes="All checks: ./check <ID> --tier quick|thorough; replay with ./check <ID> --replay <file>. Known findings: /verif/known_findings.json.",
    )
    json.dump(man, open(os.path.join(core.VERIF, "MANIFEST.json"), "w"), indent=1)
