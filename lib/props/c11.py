"""C11 — concurrent searches on one database are race-free and answer as if alone."""
import hashlib
import json
import os
import re
import subprocess
import time

import core
from props import lrucode

PROP = dict(
    id="C11",
    level="proof",
    technique=("Lean 4: (a) lock discipline decided on lock/access facts regenerated from the Go sources by a go/types extractor; "
               "(b) a small-step reader/writer-lock model with non-atomic critical sections, mutual exclusion and a generic commit-point "
               "linearizability theorem instantiated with the sequential LRU model of C12; (c) atomic-counter and lock-free-reader theorems. "
               "Dynamic support: race-detector stress runs, per-call comparison with solitary answers, metric totals, and recorded LRU "
               "call/return histories checked for linearizability by the Lean driver"),
    level_text=("Kernel-checked theorems (WtfModel/Props/C11.lean). On the CURRENT SOURCE, via Gen/LockFacts.lean regenerated on every run: every "
                "method of LRUCache/SearchCache/Manager/Collector/Histogram/Counter/Gauge/Timer/PerformanceMonitor reachable from the operations C11 "
                "quantifies over has a regular lock protocol, performs every ordinary store to receiver state (directly, through container/list "
                "mutators, map stores, delete, or through pointers read out of the receiver, including its lock-free helpers) under the exclusive lock, "
                "reads without a lock only fields no in-scope operation writes, and touches sync/atomic fields only atomically (`discipline`); every LRU "
                "operation is exactly one critical section and the five mutating ones take the exclusive lock (`lru_ops_atomic`); outside the guarded "
                "lazy rebuild no function reachable from SearchUniversal stores to memory reachable from a Database or to a package-level variable "
                "(`search_writes_nothing`). On the MODEL, for every thread count, program and interleaving: an exclusive holder excludes every other "
                "holder (`mutex`); under the discipline every complete history has a sequential witness consistent with real time that is a run of "
                "the sequential `step` with the same outputs and final state (`linearizable`, generic; `linearizable_lru` for Wtf.Lru.step with the lock "
                "modes read off the regenerated facts; `cached_hits_agree`); lock-free readers of unwritten state read what they read alone "
                "(`search_alone`); atomic adds lose nothing, non-atomic ones can (`counter_*`). PARTIAL: the Go memory model and scheduler are not "
                "modelled; instruction-level data-race freedom rests on the discipline above plus race-detector runs, which are support, not proof."),
    level_note=("Trusted: Lean kernel; axioms propext/Classical.choice/Quot.sound only; the extractor xlate/x_lockfacts.go (its classification of "
                "accesses, lock phases, call graph and shared-state writes; it is conservative: unclassified shapes are reported as irregular or as writes); "
                "the modelling step from 'holds sync.RWMutex exclusively / shared' to the model's lock, from sync/atomic to one atomic step, and from "
                "'no store to shared state' to 'reads are stable'; container/list, sync and sync/atomic at their documented semantics; the sequential "
                "LRU model of C12 (tied to the code by C12's correspondence and here by the `linearize` domain, where the real cache run sequentially "
                "and the Lean model must give the same verdict on every history). NOT covered: Enable (Manager/SearchCache/PerformanceMonitor) and "
                "Collector.Reset write plain fields that in-scope operations read without a lock; they are outside the operation set of C11 and are "
                "listed in the evidence (`documented_exceptions`). The race-detector / stress part only sees the interleavings that occurred."),
    design_ref="DESIGN.md section 6, C11",
    rule=("(1) synthetic LRU histories: random interleavings of invoke/apply/respond of 2-4 virtual threads, 2-9 operations over 1-3 keys, capacities 1-3, "
          "one third with a corrupted output or stamp; decided by the Go checker (real cache as sequential spec) and the Lean checker (model), answers diffed. "
          "(2) real histories recorded from 2-4 goroutines on one cache.LRUCache (global atomic stamps), <= 8 operations each. "
          "(3) stress: 12-24 goroutines x direct/cached/monitored search + invalidate/sweep/stats/report on a generated, loaded database, and raw LRU load "
          "with capacities {1,2,3,5,64} and lifetimes {0, 0.2ms, 1ms, 50ms}, under the race detector. A history is non-trivial if at least two of its "
          "operations overlap in real time and it has >= 3 operations; distinct = distinct op lines (stamps included)"),
    assumptions=["Go memory model / scheduler not modelled: data-race freedom at instruction level is supported by race-detector runs only",
                 "sync.RWMutex, sync/atomic and container/list behave as documented",
                 "the database is loaded (uIndex != nil and N == len(Commands)): the lazy rebuild at the top of SearchUniversal is not race-free and is outside C11",
                 "Enable / Collector.Reset are not called concurrently with the operations (they are not among the operations C11 quantifies over)",
                 "that a cache key determines the answer is C05's subject; that the sequential LRU is correct is C12's"],
    keep_prefix={"linearize": 1},
)

THEOREMS = ["Wtf.C11." + t for t in (
    "discipline", "lru_ops_atomic", "discipline_exceptions_documented", "mutex", "lock_state", "linearizable", "lru_readers_pure",
    "linearizable_lru", "cached_hits_agree", "checker_correct", "search_writes_nothing", "search_alone", "search_torn_if_written",
    "counter_no_loss", "counter_total", "counter_total_inc", "counter_lossy")]

TRACKED = ["LRUCache", "SearchCache", "Manager", "Counter", "Gauge", "Histogram", "Timer", "Collector", "PerformanceMonitor"]
REQUIRED = (["lockfacts:module", "lockfacts:typecheck", "lockfacts:no-dynamic-calls", "lockfacts:Database", "lockfacts:lazy-build-guard",
             "lockfacts:methods", "lockfacts:scope"] + ["lockfacts:type:" + t for t in TRACKED] + ["lockfacts:struct:" + t for t in TRACKED])

RACE_BIN = core.HARNESS_BIN + "-race"

# fixed histories with a known verdict: the checkers must be able to say no
SELFTEST = [
    (["new 2 synthetic", "op 0 0 1 put k0 10 = ok", "op 1 2 3 get k0 = none", "check"], "not-linearizable"),
    (["new 2 synthetic", "op 0 0 3 put k0 10 = ok", "op 1 1 2 get k0 = none", "check"], "linearizable"),
    (["new 1 synthetic", "op 0 0 1 put k0 10 = ok", "op 1 2 3 put k1 11 = ok", "op 0 4 5 get k0 = some 10", "check"], "not-linearizable"),
    (["new 1 synthetic", "op 0 0 3 put k0 10 = ok", "op 1 1 2 put k1 11 = ok", "op 0 4 5 get k0 = some 10", "check"], "linearizable"),
    (["new 2 synthetic", "op 0 0 1 put k0 10 = ok", "op 1 2 5 get k0 = some 10", "op 2 3 4 size = 2", "check"], "not-linearizable"),
    (["new 3 synthetic", "op 0 0 1 put k0 10 = ok", "op 1 2 3 get k0 = some 10", "op 2 4 5 stats = 0 0 0 1 3", "check"], "not-linearizable"),
    (["new 3 synthetic", "op 0 0 1 put k0 10 = ok", "op 1 2 3 get k0 = some 10", "op 2 4 5 stats = 1 0 0 1 3", "check"], "linearizable"),
]


def nontrivial(tags, ops, impl):
    return tags.get("overlap", 0) > 0 and len(ops) >= 5  # new + >=3 ops + check


def _all_lockfacts_assertions(ctx):
    """Every lockfacts:* assertion the translator made must hold (not only the ones named above)."""
    p = os.path.join(core.BUILD, "facts.json")
    if not os.path.exists(p):
        return
    seen = set(o["name"] for o in ctx.obligations)
    for a in json.load(open(p)).get("assertions", []):
        name = "translator:" + a["site"]
        if a["site"].startswith(("lockfacts:", "extractor:lockfacts")) and name not in seen:
            seen.add(name)
            ctx.oblige(name, "translator", a.get("ok", False), a.get("msg", ""))


def _exceptions(ctx):
    """Lists the lock-discipline failures outside the scope of C11 (documented exceptions) in the evidence."""
    with core.BuildLock():
        rc, out = core.sh(["lake", "env", "lean", os.path.join("WtfModel", "Audit", "C11Exceptions.lean")], cwd=core.LEAN, timeout=600)
    res = {}
    for tag in ("C11-IN-SCOPE", "C11-ALL"):
        m = re.search(tag + r" \[(.*?)\]\s*$", out, re.M)
        res[tag] = [x.strip() for x in m.group(1).split(",") if x.strip()] if m else None
    ctx.cov["documented_exceptions"] = dict(
        note="lock-discipline failures of methods OUTSIDE the operation set of C11 (Enable, Collector.Reset and the lock-free readers of the fields they write); "
             "theorem discipline_exceptions_documented bounds them to the documented fields",
        outside_scope=res["C11-ALL"], inside_scope=res["C11-IN-SCOPE"])
    ok = rc == 0 and res["C11-IN-SCOPE"] == []
    ctx.oblige("facts:no-discipline-violation-in-scope(evaluated)", "theorem-support", ok,
               "in scope: %s" % res["C11-IN-SCOPE"] if rc == 0 else out[-1500:])
    dbf = ctx.facts.get("lockfacts.db") or {}
    ctx.cov["search_write_set"] = dict(guard=dbf.get("guard"), unguarded_writes=dbf.get("unguardedWrites"),
                                       guarded_writes=[w["target"] for w in (dbf.get("guardedWrites") or [])][:40],
                                       reachable_functions=len(dbf.get("reachable") or []), shared_types=dbf.get("sharedTypes"))
    ctx.oblige("facts:search-writes-no-shared-state-outside-the-lazy-build(evaluated)", "theorem-support",
               bool(dbf) and dbf.get("guardFound") is True and not dbf.get("unguardedWrites"),
               "unguarded writes: %s" % json.dumps(dbf.get("unguardedWrites")))


def _first_race(stderr):
    i = stderr.find("WARNING: DATA RACE")
    if i < 0:
        return ""
    j = stderr.find("==================", i)
    return stderr[i:(j if j > 0 else i + 4000)][:4000]


def stress(ctx, seed, dur_ms, name):
    out_dir = os.path.join(ctx.rundir, name)
    os.makedirs(out_dir, exist_ok=True)
    env = core.go_env()
    env["GORACE"] = "halt_on_error=0 exitcode=66"
    cmd = [RACE_BIN, "tool", "c11stress", "-seed", str(seed), "-dur", str(dur_ms), "-out", out_dir, "-tier", ctx.tier, "-repo", core.REPO]
    t0 = time.time()
    try:
        p = subprocess.run(cmd, stdout=subprocess.PIPE, stderr=subprocess.PIPE, env=env, timeout=dur_ms / 1000.0 * 6 + 600)
        rc, so, se = p.returncode, p.stdout.decode(errors="replace"), p.stderr.decode(errors="replace")
    except subprocess.TimeoutExpired as e:
        rc, so, se = -9, "", "timeout: " + str(e)
    ctx.log("stress %s: rc=%s %.1fs %s" % (name, rc, time.time() - t0, so.strip()[-200:]))
    replay_base = dict(kind="impl-counterexample", domain="c11stress", seed=seed, dur_ms=dur_ms, tier=ctx.tier, cmd=" ".join(cmd))
    races = se.count("WARNING: DATA RACE")
    if races:
        ctx.hit("data-race", "data race reported by the race detector (%d reports)" % races,
                dict(replay_base, **{"class": "data-race"}, detail=_first_race(se), reports=races))
    ctx.oblige("support:%s:race-detector-silent" % name, "support", races == 0 and rc in (0,), "rc=%s races=%d %s" % (rc, races, se[-600:] if rc != 0 else ""))
    rp = os.path.join(out_dir, "report.json")
    if not os.path.exists(rp):
        ctx.oblige("support:%s:completed" % name, "support", False, "no report written; stderr: " + se[-1500:])
        return None
    rep = json.load(open(rp))
    if rep.get("stalls"):
        ctx.hit("deadlock-under-concurrency", rep["stalls"][0][:300], dict(replay_base, **{"class": "deadlock-under-concurrency"}, detail=rep["stalls"]))
    ctx.oblige("support:%s:no-stall" % name, "support", not rep.get("stalls"), json.dumps(rep.get("stalls")))
    if rep.get("panics"):
        ctx.hit("panic-under-concurrency", "panic under concurrency: %s" % rep["panics"][0][:300], dict(replay_base, **{"class": "panic-under-concurrency"}, detail=rep["panics"]))
    if rep.get("mismatch_count", 0):
        m = (rep.get("mismatches") or [{}])[0]
        ctx.hit("concurrent-search-differs", "%s returned a different answer concurrently than alone for query %r" % (m.get("path"), m.get("query")),
                dict(replay_base, **{"class": "concurrent-search-differs"}, detail=m, count=rep["mismatch_count"]))
    ctx.oblige("support:%s:every-concurrent-answer-equals-solitary-answer" % name, "support", rep.get("mismatch_count", 0) == 0,
               "%d mismatches over %d calls" % (rep.get("mismatch_count", 0), sum(rep["calls"].get(k, 0) for k in ("SearchUniversal", "SearchWithOptionsAndCache", "SearchWithOptionsAndMonitoring"))))
    if rep.get("order_failures"):
        ctx.hit("cache-op-takes-effect-after-return", rep["order_failures"][0][:400],
                dict(replay_base, **{"class": "cache-op-takes-effect-after-return"}, detail=rep["order_failures"]))
    ctx.oblige("support:%s:returned-operations-have-taken-effect" % name, "support", not rep.get("order_failures"), json.dumps(rep.get("order_failures")))
    if rep.get("metric_failures"):
        ctx.hit("metric-increment-lost", "metric totals differ from the number of calls: %s" % rep["metric_failures"][0],
                dict(replay_base, **{"class": "metric-increment-lost"}, detail=rep["metric_failures"], metrics=rep.get("metrics")))
    ctx.oblige("support:%s:metric-totals-equal-calls" % name, "support", not rep.get("metric_failures"), json.dumps(rep.get("metrics")))
    if rep.get("lru_failures"):
        ctx.hit("lru-invariant-broken-under-concurrency", rep["lru_failures"][0][:300],
                dict(replay_base, **{"class": "lru-invariant-broken-under-concurrency"}, detail=rep["lru_failures"]))
    ctx.oblige("support:%s:lru-invariants-under-load" % name, "support", not rep.get("lru_failures"), json.dumps(rep.get("lru")))
    calls = rep.get("calls", {})
    enough = all(calls.get(k, 0) >= 50 for k in ("SearchUniversal", "SearchWithOptionsAndCache", "SearchWithOptionsAndMonitoring")) and \
        all(calls.get(k, 0) >= 3 for k in ("InvalidateCache", "CleanupExpiredCache", "GetCacheStats")) and rep.get("histories_with_overlap", 0) >= 20 \
        and rep.get("metrics", {}).get("cache_hits_total", 0) > 0 and rep.get("nonempty_results", 0) > 0
    ctx.oblige("support:%s:exercised" % name, "support", enough, json.dumps(dict(calls=calls, overlap=rep.get("histories_with_overlap"), excluded=rep.get("excluded"))))
    ctx.add_distribution({"stress." + k: v for k, v in calls.items()})
    ctx.add_distribution({"stress.excluded." + k: v for k, v in (rep.get("excluded") or {}).items()})
    ctx.add_distribution({"stress.lru." + k: v for k, v in (rep.get("lru") or {}).items()})
    ctx.add_distribution({"stress.cache_hits": int(rep.get("metrics", {}).get("cache_hits_total", 0)), "stress.db_size": rep.get("db_size", 0),
                          "stress.cases": rep.get("cases", 0), "stress.nonempty_results": rep.get("nonempty_results", 0)})
    ctx.cov["evaluations"] += sum(calls.values())
    return os.path.join(out_dir, "hist.txt")


def real_histories(ctx, hist_path, name):
    """Recorded histories: Go checker (real cache as sequential spec) and Lean checker (model) must both accept."""
    r = core.Run(ctx, name)
    r.set_ops(open(hist_path).read())
    r.exec_impl()
    r.exec_model()
    r.load()
    bad = r.diff()
    n = len(r.order)
    ctx.cov["evaluations"] += n
    ctx.cov["traces_validated_against_impl"] += n - len(bad)
    tot, per_case = r.tags()
    ctx.add_distribution({name + "." + k: v for k, v in tot.items()})
    rejected = []
    for idx in r.order:
        ops = r.ops[idx]
        if nontrivial(per_case.get(idx, {}), ops, None):
            ctx.distinct.add(hashlib.sha1("\n".join(ops).encode()).hexdigest())
        verdicts = ((r.impl.get(idx) or ["?"])[-1], (r.model.get(idx) or ["?"])[-1])
        if verdicts != ("linearizable", "linearizable"):
            rejected.append((idx, verdicts))
    shown = 0
    for idx in r.order:
        if shown < 2 and per_case.get(idx, {}).get("overlap"):
            ctx.cov["samples"].append(dict(domain="linearize", recorded_from="real goroutines on cache.LRUCache", ops=r.ops[idx], verdict_real_code_as_spec=r.impl[idx][-1], verdict_lean_model=r.model[idx][-1]))
            shown += 1
    if bad:
        idx, k, a, b = bad[0]
        ctx.oblige("correspondence:%s" % name, "correspondence", False,
                   dict(domain="linearize", case=idx, op_index=k, impl_line=a, model_line=b, ops=r.ops.get(idx, []), mismatching_cases=len(bad)))
    else:
        ctx.oblige("correspondence:%s" % name, "correspondence", True, "%d recorded histories: both checkers agree" % n)
    for idx, v in reversed(rejected[:20]):
        # a recorded history is the one finding that replays deterministically: put it first
        ctx.hits.insert(0, dict(cls="lru-history-not-linearizable",
                                what="recorded LRU history is not linearizable (real-code spec: %s, Lean model: %s)" % v,
                                replay=dict(kind="impl-counterexample", domain="linearize", case=idx, ops=r.ops[idx],
                                            verdicts=dict(real_code_as_spec=v[0], lean_model=v[1]), **{"class": "lru-history-not-linearizable"})))
    ctx.oblige("support:%s:every-recorded-history-linearizable" % name, "support", not rejected, "%d of %d rejected" % (len(rejected), n))
    if r.impl_rc != 0 or r.model_rc != 0:
        ctx.oblige("correspondence:%s:exit" % name, "correspondence", False, (r.impl_err + r.model_err)[-1500:])


def selftest(ctx):
    r = core.Run(ctx, "selftest")
    r.set_ops("".join("case %d linearize\n%s\n" % (i, "\n".join(ops)) for i, (ops, _) in enumerate(SELFTEST)))
    r.exec_impl()
    r.exec_model()
    r.load()
    wrong = []
    for i, (ops, want) in enumerate(SELFTEST):
        got = ((r.impl.get(str(i)) or ["?"])[-1], (r.model.get(str(i)) or ["?"])[-1])
        if got != (want, want):
            wrong.append((i, want, got))
    ctx.oblige("selftest:linearizability-checkers-accept-and-reject", "support", not wrong, json.dumps(wrong))


def run(ctx):
    # the sequential LRU steps the linearizability theorems are stated over are the source's control flow (Gen/LruCode.lean, Props/C12b.lean)
    ctx.stage_xlate(required_assertions=list(REQUIRED) + lrucode.ASSERTIONS)
    _all_lockfacts_assertions(ctx)
    ctx.stage_prove(THEOREMS)
    _exceptions(ctx)
    if not ctx.stage_build():
        return
    thorough = ctx.tier == "thorough"
    selftest(ctx)
    ctx.correspond("linearize", 30000 if thorough else 2000, nontrivial=nontrivial)
    with core.BuildLock():
        ok, out = core.build_harness(race=True)
    ctx.oblige("build:harness(-race)", "build", ok, out)
    if not ok:
        return
    runs = [(ctx.seed, 3500)] if not thorough else [(ctx.seed, 30000), (ctx.seed + 101, 15000), (ctx.seed + 202, 15000)]
    for i, (seed, dur) in enumerate(runs):
        hist = stress(ctx, seed, dur, "stress%d" % i)
        if hist and os.path.exists(hist):
            real_histories(ctx, hist, "linearize-real%d" % i)
    fresh_series(ctx)


def fresh_series(ctx):
    """"No metric increment is lost" also covers the FIRST concurrent use of a series (get-or-create under contention):
    the long-running stress creates each series once, so this is exercised with the metrics tool `c18race`, which
    releases goroutines from a barrier over thousands of fresh series / monitors and compares totals with call counts."""
    import json, subprocess
    env = core.go_env()
    env["GORACE"] = "halt_on_error=0 exitcode=66"
    args = ["-seed", str(ctx.seed), "-g", "16", "-n", "8000" if ctx.tier == "quick" else "60000"]
    p = subprocess.run([RACE_BIN, "tool", "c18race"] + args, stdout=subprocess.PIPE, stderr=subprocess.PIPE, env=env, timeout=1800)
    out, err = p.stdout.decode(errors="replace"), p.stderr.decode(errors="replace")
    rep = None
    for l in reversed(out.strip().split("\n")):
        try:
            rep = json.loads(l)
            break
        except Exception:
            continue
    races = err.count("WARNING: DATA RACE")
    ok = p.returncode == 0 and races == 0
    ctx.cov["evaluations"] += 1
    ctx.oblige("support:fresh-series:totals=calls,race-detector-silent", "support", ok, "rc=%s races=%d %s" % (p.returncode, races, json.dumps((rep or {}).get("failures", []))[:400]))
    if not ok:
        cls = "data-race" if races else "metric-increment-lost"
        ctx.hit(cls, "%s on first concurrent use of a series: c18race %s rc=%s %s" % (cls, " ".join(args), p.returncode, json.dumps((rep or {}).get("failures", []))[:300]),
                dict(kind="impl-counterexample", domain="c18race", tool="c18race", args=args, exit_status=p.returncode, reports=races, **{"class": cls}))


def replay(ctx, rep):
    """./check C11 --replay file: a recorded history is re-decided by both checkers; a stress finding
    (race, differing answer, lost increment) is re-run with its seed -- scheduling is not reproducible,
    so a clean re-run does not refute the finding."""
    f = rep.get("failing") or {}
    items = [f] if f else []
    for o in rep.get("broken_obligations", []):
        if isinstance(o.get("detail"), dict) and "ops" in o["detail"]:
            items.append(o["detail"])
    rc = 0
    ctx.stage_build()
    for it in items:
        if it.get("domain") == "linearize" and it.get("ops"):
            mm, il, ml, hits = core.run_single_case(ctx, "replay", "linearize", it["ops"])
            print("history:")
            for l in it["ops"]:
                print("   ", l)
            print("real cache as sequential specification:", il[-1:] or il)
            print("Lean model as sequential specification:", ml[-1:] or ml)
            if mm or hits or (il[-1:] != ["linearizable"]):
                rc = 1
        elif it.get("domain") == "c11stress":
            with core.BuildLock():
                core.build_harness(race=True)
            ctx.tier = it.get("tier", ctx.tier)
            n0 = len(ctx.hits)
            stress(ctx, it.get("seed", 1), it.get("dur_ms", 3500), "replay-stress")
            for h in ctx.hits[n0:]:
                print("reproduced:", h["what"])
                print(json.dumps(h["replay"].get("detail"), indent=1)[:3000])
                rc = 1
            if len(ctx.hits) == n0:
                print("not reproduced in this run (the finding depends on the interleaving); recorded finding:")
                print(json.dumps(it.get("detail"), indent=1)[:3000])
    if not items:
        print(json.dumps(rep, indent=1)[:4000])
    return rc
