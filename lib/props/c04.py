"""C04 — platform and pipeline filters hold for every result on every path."""
import json
import os
import subprocess

import core

PROP = dict(
    id="C04",
    level="proof",
    technique=("Lean 4 theorems over the executable model of SearchUniversal (every exit: lexical, NLP, typo fallback, empty) and of the gate; "
               "gate tables regenerated from the source; differential correspondence of the gate and of whole searches with the real code; "
               "independent monitor written from the property statement on every result of every search; CLI runs of the real binary"),
    level_text=("Kernel-checked theorems (WtfModel/Props/C04.lean), for all databases, queries, option records and all values of the model's "
                "parameters: the engine's gate equals the property's two clauses (passes_iff: `Allowed` is written from the statement); every entry "
                "returned by the model of SearchUniversal on every path is a database command that `Allowed` admits (platform) and, in pipeline-only "
                "searches, a pipeline command (pipeline, fuzzy_path); the same for the CLI's filtered recovery answer (cli_recovery), the legacy "
                "pipeline search's pipeline clause (legacy_pipeline) and any answer equal to a fresh one (cached, via C05). The alias / tool tables "
                "are regenerated from checkPlatformVariant / crossPlatformTools on every run and pinned by table_* facts. The model is tied to "
                "the code by the `passes` op (model gate vs passesFilters, exhaustive over the tag pool x command kinds x all switch combinations) "
                "and by bit-level correspondence of complete searches, including a directed stream of mixed-platform databases with fuzzy-only "
                "queries under all 16 switch combinations."),
    level_note=("Trusted: Lean kernel; axioms propext/Quot.sound only; the translator (tables + the shape sites c04:*); the harness; the model "
                "parameters (idf, NLP analysis, TF-IDF ranking, fuzzy sort order, Unicode facts) are universally quantified in the theorems, so "
                "nothing is assumed about them. The legacy pipeline clause is proved on a local transliteration of SearchWithPipelineOptions' "
                "loop (translator site c04:legacy-pipeline-gate), not on a correspondence-validated model. The cached clause rests on C05. "
                "Host platform: the harness runs on linux; other hosts are covered by the theorems (host is a parameter) and by the "
                "`--platform` requests, not by execution on those hosts."),
    design_ref="DESIGN.md section 6, C04",
    rule=("search cases = generated database + 2-6 queries (each with the oracle values of the real NLP/TF-IDF/fuzzy code) run under generated or "
          "enumerated option records; stream c04: databases containing every tag list of the pool, queries answered lexically, by NLP and only by "
          "the typo fallback (letters dropped from a rare word that occurs in exactly one platform-bound entry), each under all 16 combinations of "
          "all-platforms / no-cross-platform / pipeline-only / platforms given; a case is non-trivial if some search returned results while the "
          "database held entries the request excludes; distinct = distinct op sequences. Stream c04x enumerates the gate over tag lists x command "
          "kinds x every switch combination x platform requests. CLI runs: real binary, generated YAML database, 10 flag sets; the first six runs ask for a rare tool that only an excluded entry has (the CLI's recovery search is what would print it)."),
    assumptions=["cached answers: C05 (`Wtf.C05.transparent`) — an answer served from the cache equals the fresh answer for the same request",
                 "legacy `wtf pipeline` search: pipeline clause only (it has no platform notion; DESIGN.md scope note)"],
)

THEOREMS = ["Wtf.C04." + t for t in (
    "passes_iff", "platform", "pipeline", "fuzzy_path", "legacy_pipeline", "cli_recovery", "cached",
    "table_linux", "table_macos", "table_windows", "table_several", "table_cross", "table_pipeline")]

ASSERTIONS = ["platform:crossPlatformTools", "platform:checkPlatformVariant-shape", "c04:gate-shape", "c04:lexical-gate", "c04:fuzzy-gate",
              "c04:recovery-gate", "c04:legacy-pipeline-gate", "c04:cli-options", "c04:cli-recovery-gate", "c07:fallback-sites"]

# ---- legacy entry points with their own gates (Props/C04b.lean; correspondence domain legacy2) ----
THEOREMS += ["Wtf.C04." + t for t in ("hostOnly_is_default", "legacy_pipeline_modelled", "search_with_options_platform",
                                      "search_with_fuzzy_platform")]
ASSERTIONS += ["legacyscore:shape:" + s for s in ("SearchWithOptions", "SearchWithPipelineOptions", "db.calculateCommandScore", "isPipelineCommand",
                                                  "isCrossPlatformTool", "SearchWithFuzzy", "performFuzzySearch", "combineAndDeduplicateResults")]
PROP["level_text"] += (" Props/C04b.lean, on the correspondence-validated models of the legacy entry points (domain legacy2): pipeline clause for "
                       "SearchWithPipelineOptions with the scorer modelled; every result of SearchWithOptions satisfies `Allowed` for the host with no "
                       "platform request; every result of SearchWithFuzzy does so or passes the gate of the caller's options (typo half).")
PROP["assumptions"] += ["SearchWithOptions / exact half of SearchWithFuzzy (exported, unused by CLI and cache): only the host gate is claimed; the options "
                        "Platforms / NoCrossPlatform / AllPlatforms / PipelineOnly are not read there (counted under out-of-scope:* tags)"]


def nontrivial(tags, ops, impl):
    return any(k.startswith("c04-filtered-answer-") and v > 0 for k, v in tags.items())


def cli_stream(ctx, runs):
    """The real binary with --platform / --no-cross-platform / -a on a generated database."""
    with core.BuildLock():
        ok, out, wtf = core.build_wtf_binary()
    ctx.oblige("build:wtf-binary", "build", ok, out)
    if not ok:
        return
    work = os.path.join(ctx.rundir, "cli")
    os.makedirs(work, exist_ok=True)
    p = subprocess.run([core.HARNESS_BIN, "tool", "c04cli", wtf, work, str(ctx.seed), str(runs)], stdout=subprocess.PIPE,
                       stderr=subprocess.PIPE, env=core.go_env(), timeout=600)
    lines = [json.loads(l) for l in p.stdout.decode(errors="replace").split("\n") if l.strip().startswith("{")]
    errs = [l for l in lines if l.get("error")]
    ctx.oblige("cli:c04-runs", "cli", p.returncode == 0 and len(lines) == runs and not errs,
               "rc=%d runs=%d errors=%s %s" % (p.returncode, len(lines), json.dumps(errs)[:600], p.stderr.decode(errors="replace")[-600:]))
    dist = {}
    for l in lines:
        ctx.cov["evaluations"] += 1
        dist["cli.runs"] = dist.get("cli.runs", 0) + 1
        if l.get("printed"):
            dist["cli.nonempty"] = dist.get("cli.nonempty", 0) + 1
            if l.get("db_entries_excluded"):
                dist["cli.filtered-answer"] = dist.get("cli.filtered-answer", 0) + 1
                ctx.distinct.add("cli:" + json.dumps([l["args"], l["query"]]))
        if l.get("recovery"):
            dist["cli.recovery-answer"] = dist.get("cli.recovery-answer", 0) + 1
        if not l.get("printed") and l.get("db_entries_excluded"):
            dist["cli.nothing-printed-with-excluded-entries"] = dist.get("cli.nothing-printed-with-excluded-entries", 0) + 1
        if l.get("violations"):
            cls = "cli-recovery-ignores-filters" if l.get("recovery") else "cli-platform-filter-violated"
            ctx.hit(cls, "%s: wtf %s %r printed %s" % (cls, " ".join(l["args"]), l["query"], l["violations"][:3]),
                    dict(kind="impl-counterexample", domain="cli", seed=ctx.seed, **{"class": cls},
                         cmd="wtfverif tool c04cli <wtf> <dir> %d %d" % (ctx.seed, runs), run=l))
    ctx.add_distribution(dist)
    if lines:
        ctx.cov["samples"].append(dict(domain="cli", run=lines[0]))


def gate_vs_predicate(ctx):
    """passesFilters against the monitor's predicate (written from the property statement) over the finite pool."""
    p = subprocess.run([core.HARNESS_BIN, "tool", "c04gate", ctx.tier], stdout=subprocess.PIPE, stderr=subprocess.PIPE,
                       env=core.go_env(), timeout=600)
    try:
        res = json.loads(p.stdout.decode())
    except Exception:
        res = {}
    n = res.get("checked", 0)
    ctx.cov["evaluations"] += n
    ctx.add_distribution({"gate.enumerated-combinations": n})
    ctx.oblige("gate:engine-gate-equals-property-predicate(pool x switches)", "monitor",
               n > 0 and not res.get("admits_disallowed") and not res.get("rejects_allowed"), json.dumps(res)[:1500])
    for row in res.get("admits_disallowed") or []:
        ctx.hit("gate-admits-disallowed-command", "passesFilters admits %s" % json.dumps(row),
                dict(kind="impl-counterexample", domain="gate", **{"class": "gate-admits-disallowed-command"}, input=row,
                     cmd="wtfverif tool c04gate " + ctx.tier))


def run(ctx):
    ctx.stage_xlate(required_assertions=ASSERTIONS)
    ctx.stage_prove(THEOREMS, extra_targets=["WtfModel.Props.C04b"])
    if not ctx.stage_build():
        return
    quick = ctx.tier == "quick"
    # the gate itself: model vs passesFilters over tag lists x command kinds x all switch combinations
    ctx.correspond("search", 1, name="search-c04x", args={"stream": "c04x"}, shrink=False, nontrivial=lambda *a: True, sample_n=0)
    if not quick:
        ctx.exhaustive = True  # stream c04x (thorough pool): complete enumeration of its finite space
    gate_vs_predicate(ctx)
    # directed: mixed-platform databases, fuzzy-only queries, all 16 switch combinations
    ctx.correspond("search", 150 if quick else 800, name="search-c04", args={"stream": "c04"}, shrink=False, nontrivial=nontrivial)
    # the general generator of the search family (random options, paired runs, odd text)
    ctx.correspond("search", 1200 if quick else 8000, name="search", shrink=False, nontrivial=nontrivial, seed_offset=3, sample_n=1)
    cli_stream(ctx, 16 if quick else 80)
    # legacy entry points: host gate of SearchWithOptions, both halves of SearchWithFuzzy, pipeline gate of SearchWithPipelineOptions
    ctx.correspond("legacy2", 250 if quick else 4000, nontrivial=lambda tags, ops, impl: tags.get("legacy2.platform-excluded", 0) > 0 and tags.get("nonempty", 0) > 0,
                   shrink=False, seed_offset=31)


def replay(ctx, rep):
    """./check C04 --replay <file>: re-execute the recorded failing input on the current tree (real code and model)."""
    if not ctx.stage_build():
        print("build failed")
        return 1
    items = []
    if "failing" in rep:
        items.append(rep["failing"])
    for o in rep.get("broken_obligations", []):
        if isinstance(o.get("detail"), dict) and "ops" in o["detail"]:
            items.append(o["detail"])
    rc = 0
    for it in items:
        if it.get("domain") == "gate":
            p = subprocess.run([core.HARNESS_BIN, "tool", "c04gate", ctx.tier], stdout=subprocess.PIPE, env=core.go_env(), timeout=600)
            print("recorded:", json.dumps(it.get("input")))
            print("now     :", p.stdout.decode(errors="replace")[:1500])
            if '"admits_disallowed":null' not in p.stdout.decode(errors="replace"):
                rc = 1
            continue
        if it.get("domain") == "cli":
            ok, out, wtf = core.build_wtf_binary()
            work = os.path.join(ctx.rundir, "cli")
            os.makedirs(work, exist_ok=True)
            runs = int(it["cmd"].split(" ")[-1])
            p = subprocess.run([core.HARNESS_BIN, "tool", "c04cli", wtf, work, str(it.get("seed", ctx.seed)), str(runs)],
                               stdout=subprocess.PIPE, env=core.go_env(), timeout=600)
            for l in p.stdout.decode(errors="replace").split("\n"):
                if l.strip().startswith("{"):
                    d = json.loads(l)
                    if d.get("violations") or d.get("error"):
                        rc = 1
                        print("wtf", " ".join(d["args"]), repr(d["query"]), "->", d.get("violations"), d.get("error", ""))
            print("recorded run:", json.dumps(it.get("run")))
            continue
        mm, il, ml, hits = core.run_single_case(ctx, "replay", it["domain"], it["ops"])
        print("ops:")
        for l in it["ops"]:
            print("   ", core.pretty(l))
        print("impl :", il)
        print("model:", ml)
        hits = [h for h in hits if h.get("prop") == "C04"]
        print("monitor hits:", json.dumps(hits))
        if mm or hits:
            rc = 1
    if not items:
        print(json.dumps(rep, indent=1)[:4000])
    return rc
