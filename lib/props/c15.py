import os
"""C15 — loading always ends with a usable database, without futile retries."""
import hashlib
import core

PROP = dict(
    id="C15",
    level="proof",
    technique=("Lean 4 theorems over an executable model of LoadDatabaseWithFallback (error chains, decision table, retry loop, back-off over exact "
               "rationals, fallback ladder); decision table / retry predicates / ladder order / built-in databases / default configuration regenerated "
               "from the source; differential correspondence with the real loader over the complete file-fault table; independent monitor on the real outputs"),
    level_text=("Kernel-checked theorems (WtfModel/Props/C15.lean) over a model of recovery.NewDatabaseRecovery(cfg).LoadDatabaseWithFallback, for EVERY "
                "retry configuration the caller may pass (attempts, base delay, cap: any integers; factor: any rational, +-Inf or NaN -- the model includes "
                "the sanitisation done by NewDatabaseRecovery), every state of the backup file and every sequence of load attempts (which covers every "
                "combination of faults on main and personal file, also faults that change between attempts): the result is a database and no error, "
                "namely main entries followed by notebook entries exactly when the main file loads and the notebook loads or is absent, otherwise a "
                "non-empty built-in list; a missing or permission-denied main file (or a permission-denied notebook beside a good main file) is tried "
                "exactly once; at least one and never more attempts than configured, exactly that many for persistent directory / malformed / other "
                "read faults; the sleeps are calculateDelay(1..attempts-1), non-decreasing, non-negative and never above the configured cap; k transient "
                "failures below the permitted number of attempts are survived after k+1 attempts.  The decision table of NewDatabaseErrorWithContext, the "
                "predicates (errors.Is vs os.IsNotExist) and error types used by shouldRetry, the ladder order, the embedded / minimal command lists and "
                "DefaultRetryConfig are regenerated from the source on every run and the theorems are re-checked against them; the sanitisation, loop, "
                "delay formula (incl. NaN guard), loader and ladder shapes are asserted by the translator.  The model is tied to the code by running the "
                "real LoadDatabaseWithFallback (attempts counted exactly by the verif observer) over the complete 6x6x6 table of file faults {missing, "
                "permission-denied, directory, malformed, unreadable (symlink loop), good} on main x personal x backup for sampled retry configurations, "
                "plus transient-fault, nonsensical-configuration and error-chain streams."),
    level_note=("Trusted: Lean kernel; axioms propext/Classical.choice/Quot.sound only; the translator (xlate/x_recovery.go) and its shape assertions; the "
                "harness (EACCES is obtained by setfsuid(65534) on the locked thread because the sandbox runs as root; transient faults are produced by "
                "rewriting files from the attempt observer; stdout is redirected during the call); os / syscall / yaml.v3 error texts and errors.Is / "
                "os.IsNotExist semantics as exercised by the correspondence; float64 rounding in calculateDelay is not modelled (exact rationals, "
                "compared with 1 ns / 1e-9 tolerance; overflow of the power to +Inf is modelled at the threshold 2^1024, values near that threshold are "
                "not generated); database paths are assumed not to contain the decision table's needles ('permission denied', ...).  The unsanitised_* "
                "theorems record what the step functions do on a configuration that bypassed NewDatabaseRecovery (why each clamp is needed)."),
    design_ref="DESIGN.md section 6, C15",
    rule=("stream `table`: for each sampled retry configuration (attempts 1-5, microsecond delays, factor from a pool) the COMPLETE table of 6x6x6 "
          "file-fault combinations on main x personal x backup is executed on the real loader (exhaustive=true refers to this finite table; "
          "configurations are sampled); streams `transient` (files repaired after j attempts), `excluded` (configurations NewDatabaseRecovery must sanitise: "
          "MaxAttempts <= 0, factor < 1 / NaN / -Inf, negative delays, zero base with overflowing factor, +Inf factor), `errs` (LoadDatabaseWithPersonal, shouldRetry on synthetic error chains, decision table on synthetic messages), `default` "
          "(DefaultRetryConfig).  evaluations = op lines executed on the real code; a load is non-trivial if at least one of the three files is faulty "
          "or flaky; distinct = distinct (configuration line, op line) pairs"),
    assumptions=[
        "database paths do not contain one of the decision table's needles (the model prints causes with the path replaced by P)",
        "float64 rounding of calculateDelay is not modelled: delays are compared with 1 ns / 1e-9 tolerance; math.Pow overflows to +Inf exactly at 2^1024 in the model",
        "a DatabaseRecovery is only ever built by NewDatabaseRecovery (translator assertion NewDatabaseRecovery:only-constructor)",
    ],
    trusted_extra=["setfsuid(2)-based EACCES injection and the attempt-observer file rewriting in harness/dom_retry.go",
                   "hook recovery.VerifAttemptObserver / VerifCalculateDelay (in /repo) and VerifShouldRetry (harness/hooks/internal-recovery__verif_c15.go)"],
    keep_prefix={"retry": 1},
)

THEOREMS = ["Wtf.C15." + t for t in (
    "embedded_nonempty", "minimal_nonempty", "default_config_ok", "sanitize_keeps_sane", "sanitize_sane", "fallback_builtin", "total", "real",
    "real_notebook_absent", "real_only_if", "once", "once_notebook_denied", "at_most", "exactly_max", "delays", "transient",
    "unsanitised_nonpositive_max_attempts", "unsanitised_factor_below_one", "unsanitised_negative_base", "sanitised_examples")]

ASSERTIONS = ["recovery:" + s for s in (
    "error-types", "AppError.Unwrap", "classify:func", "classify:prologue", "classify:switch", "classify:default", "classify:has-default",
    "LoadDatabase:func", "LoadDatabase:shape", "LoadDatabaseWithPersonal:func", "LoadDatabaseWithPersonal:shape",
    "DefaultRetryConfig:func", "DefaultRetryConfig:values", "loadWithRetry:func", "loadWithRetry:shape", "loadWithRetry:observer-first",
    "shouldRetry:func", "shouldRetry:shape", "calculateDelay:func", "calculateDelay:shape",
    "NewDatabaseRecovery:func", "NewDatabaseRecovery:shape", "NewDatabaseRecovery:only-constructor",
    "ladder:func", "ladder:primary", "ladder:strategies", "ladder:loop", "ladder:exhausted",
    "embedded:func", "embedded:literal", "embedded:always-succeeds", "minimal:func", "minimal:literal", "minimal:always-succeeds",
    "backup:func", "backup:shape", "cli:default-config", "all")]


def _dtok(t):
    try:
        return int(t[2:])
    except ValueError:
        return None


def comparator(a, b):
    """Line equality; `d:<ns>` tokens (durations computed in float64 by the code, in exact rationals by the model) may differ by 1 ns / 1e-9."""
    if a == b:
        return True
    ta, tb = a.split(" "), b.split(" ")
    if len(ta) != len(tb):
        return False
    for x, y in zip(ta, tb):
        if x == y:
            continue
        if x.startswith("d:") and y.startswith("d:"):
            u, v = _dtok(x), _dtok(y)
            if u is not None and v is not None and abs(u - v) <= 1 + 1e-9 * max(abs(u), abs(v)):
                continue
        if core.tok_equal(x, y):
            continue
        return False
    return True


def _faulty(op):
    f = op.split(" ")
    if f[0] != "load":
        return f[0] in ("lwp", "sr", "cls")
    return any(not s.startswith("good") for s in f[1:4])


def _account(ctx, r):
    """distinct non-trivial (configuration, op) pairs; evaluations = op lines executed on the real code"""
    nops = 0
    for idx in r.order:
        cfg = ""
        for op in r.ops[idx]:
            nops += 1
            if op.startswith("cfg "):
                cfg = op
                continue
            if _faulty(op):
                ctx.distinct.add(hashlib.sha1((cfg + "|" + op).encode()).hexdigest())
    ctx.cov["evaluations"] += nops - len(r.order)  # correspond() already counted one per case


def run(ctx):
    os.environ.setdefault("VERIF_STALL_S", "25")   # every load of this domain takes milliseconds: a stall is a retry loop that never ends
    ctx.stage_xlate(required_assertions=ASSERTIONS)
    ctx.stage_prove(THEOREMS)
    if not ctx.stage_build():
        return
    quick = ctx.tier == "quick"
    never = lambda tags, ops, impl: False  # noqa: E731  (non-triviality is counted per op in _account)
    streams = [
        # name, mode, cases quick, cases thorough, seed offset
        ("retry-table", "table", 60, 600, 0),
        ("retry-transient", "transient", 120, 1500, 11),
        ("retry-excluded", "excluded", 60, 600, 23),
        ("retry-errs", "errs", 400, 4000, 37),
        ("retry-default-config", "default", 1, 3, 41),
    ]
    for name, mode, nq, nt, off in streams:
        r = ctx.correspond("retry", nq if quick else nt, name=name, args={"mode": mode}, comparator=comparator,
                           nontrivial=never, seed_offset=off, sample_n=1)
        _account(ctx, r)
        if mode == "table":
            # every case of this stream runs the complete 6x6x6 fault table
            loads = sum(1 for idx in r.order for op in r.ops[idx] if op.startswith("load "))
            # (plus five loads whose paths are other spellings of missing / unreadable files)
            complete = all(sum(1 for op in r.ops[idx] if op.startswith("load ")) >= 216 for idx in r.order) and len(r.order) > 0
            ctx.oblige("coverage:fault-table-complete", "coverage", complete, "%d loads in %d cases (at least the 216 of the table per case)" % (loads, len(r.order)))
            ctx.exhaustive = complete
            eacces = ctx.cov["distribution"].get(name + ".eacces-via-setfsuid", 0)
            ctx.oblige("coverage:permission-denied-exercised", "coverage", eacces > 0, "%d loads ran with a genuinely unreadable file (EACCES)" % eacces)
        if mode == "transient":
            rec = ctx.cov["distribution"].get(name + ".transient-recovered", 0)
            ctx.oblige("coverage:transient-recovery-exercised", "coverage", rec > 0, "%d loads recovered the real database after transient failures" % rec)
        if mode == "excluded":
            d = ctx.cov["distribution"]
            kinds = ["cfg.nonpositive-max-attempts", "cfg.factor-below-one-or-nan", "cfg.negative-base", "cfg.zero-base-float-overflow"]
            got = {k: d.get(name + "." + k, 0) for k in kinds}
            ctx.oblige("coverage:sanitised-configurations-exercised", "coverage", all(v > 0 for v in got.values()), str(got))
