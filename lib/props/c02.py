"""C02 — same database, query and options always give the same ranked answer."""
import hashlib, os, subprocess
import core

PROP = dict(
    id="C02",
    level="proof",
    technique="Lean 4 theorems over regenerated map-iteration/sort site facts (go/types extraction) + schedule-independence lemma; model search is a function; repetition / reload / cross-process bitwise comparison on the real engine",
    level_text=("The translator re-derives on every run every map-range, sort and other nondeterminism site reachable from the search, "
                "suggestion, load and metric-key entry points, with a conservative order-sensitivity classification; Lean checks (decide) "
                "that none is order-sensitive, that all sorts on the path are stable and that there are no goroutines/clocks/random sources, "
                "and proves the lemma that makes sorted-key walks schedule-independent (sorting any enumeration of a key set yields the same list). "
                "The executable model of SearchUniversal consequently has no schedule input and is validated bit-for-bit against the real engine. "
                "Dynamic support: every generated request is repeated in-process (the runtime re-randomises map order per loop), on an independently "
                "re-built database, and in separate processes; answers must agree bitwise (ids and float bits); suggestions likewise."),
    level_note=("Trusted: the site classifier in /verif/xlate/x_sites.go (conservative: unknown shapes count as sensitive) and its call-graph "
                "reachability by resolved callee; Go's sort.SliceStable/sort.Strings/sort.Ints contracts; float arithmetic is deterministic for a fixed "
                "operation order (same binary, same machine). Repetition runs are support, not proof."),
    design_ref="DESIGN.md section 6, C02",
    rule=("random and tie-heavy databases (k identical / near-identical entries, k >= limit+1), queries from database words, NLP on/off; a case is "
          "non-trivial if some answer contains tied scores or more candidates than the limit; distinct = distinct op sequences"),
    assumptions=["same binary and machine across compared processes", "cross-process runs use the same seed and compare full impl output"],
)

PROP["level_text"] += (" Props/C02b.lean: the tie rule of the typo fallback, whose order comes from the fuzzy library's sort.Stable with a non-strict "
                       "Less (the library contract says nothing about ties there): with Go's algorithm transliterated (Model/GoSort.lean) the answer is "
                       "proved to list equal library scores in reverse database order, and that order is proved to be the unique such permutation "
                       "(fallback_ties_fixed_rule, fuzzy_order_unique); tie: gosort correspondence domain (C07) and the compared fz line of every search case.")

THEOREMS = ["Wtf.C02." + t for t in ("sites_clean", "no_other_nondeterminism", "sorts_stable", "sorted_enumeration_unique",
                                     "sort_ints_sched_indep", "collect_sched_indep", "search_function",
                                     # Props/C02b.lean: the tie rule of the typo fallback (model of Go's sort.Stable, Model/GoSort.lean)
                                     "fallback_ties_fixed_rule", "fuzzy_order_unique")]


def nontrivial(tags, ops, impl):
    return tags.get("answer-with-ties", 0) > 0 or tags.get("nonempty", 0) > 0


def run(ctx):
    ctx.stage_xlate(required_assertions=["sites:typecheck:internal/database", "sites:typecheck:internal/nlp",
                                         "sites:typecheck:internal/metrics", "sites:entry:SearchUniversal",
                                         "sites:entry:GetSuggestions", "sites:entry:metricKey"])
    # a sensitive site is reported with its location even though the theorem failure would also show it
    for s in ctx.facts.get("sites", []) or []:
        if s.get("Class") == "sensitive":
            ctx.log("order-sensitive site: %s %s:%s %s" % (s.get("Func"), s.get("File"), s.get("Line"), s.get("Why")))
    ctx.stage_prove(THEOREMS, extra_targets=["WtfModel.Props.C02b"])
    if not ctx.stage_build():
        return
    quick = ctx.tier == "quick"
    R = 5 if quick else 30
    os.environ["VERIF_REPEAT"] = str(R)
    try:
        r1 = ctx.correspond("search", 150 if quick else 3000, name="search-ties", args={"stream": "c02"}, shrink=False, nontrivial=nontrivial)
        ctx.correspond("search", 150 if quick else 3000, name="search-random", shrink=False, nontrivial=nontrivial, seed_offset=11)
    finally:
        os.environ.pop("VERIF_REPEAT", None)
    # cross-process: the same ops executed in K fresh processes must give byte-identical output
    K = 3 if quick else 6
    digests = []
    for k in range(K):
        with open(r1.ops_path, "rb") as i:
            p = subprocess.run([core.HARNESS_BIN, "exec"], stdin=i, stdout=subprocess.PIPE, stderr=subprocess.PIPE, env=core.go_env())
        digests.append(hashlib.sha256(p.stdout).hexdigest())
    ctx.oblige("determinism:cross-process(%d processes)" % K, "correspondence", len(set(digests)) == 1, "digests=%s" % digests)
    if len(set(digests)) != 1:
        ctx.hit("nondeterministic-ranking", "separate processes produced different answers for the same ops",
                dict(kind="impl-counterexample", domain="search", seed=ctx.seed, ops_file="stream c02", digests=digests))
    ctx.cov["evaluations"] += K
    # suggestions
    n = 150 if quick else 2000
    outs = []
    for k in range(2):
        p = subprocess.run([core.HARNESS_BIN, "tool", "c02suggest", str(ctx.seed), str(n)], stdout=subprocess.PIPE, stderr=subprocess.PIPE,
                           env=core.go_env(), text=True)
        outs.append((p.returncode, p.stdout))
    ok = all(rc == 0 for rc, _ in outs) and outs[0][1] == outs[1][1]
    ctx.oblige("determinism:suggestions(repeat, rebuild, 2 processes)", "correspondence", ok, outs[0][1][-600:])
    if not ok:
        ctx.hit("nondeterministic-suggestions", outs[0][1][-300:], dict(kind="impl-counterexample", tool="c02suggest", seed=ctx.seed, output=outs[0][1][-2000:]))
    ctx.cov["evaluations"] += n * 4
    ctx.add_distribution({"suggest.requests": n * 4})
    # the optional embedding layer: query embeddings and semantic scores repeated (monitor class nondeterministic-embedding)
    ctx.correspond("embed", 150 if quick else 3000, name="embed-sem", args={"stream": "sem"}, shrink=False, seed_offset=41, hit_props=["C02"])
    # a database of the shipped size with exactly tied entries, NLP searches repeated and re-loaded
    outs = []
    for k in range(2):
        p = subprocess.run([core.HARNESS_BIN, "tool", "c02big", str(ctx.seed), "5000" if quick else "9000"], stdout=subprocess.PIPE, stderr=subprocess.PIPE,
                           env=core.go_env(), text=True, timeout=1800)
        outs.append((p.returncode, p.stdout))
    ok = all(rc == 0 for rc, _ in outs) and outs[0][1] == outs[1][1]
    ctx.oblige("determinism:large-database(repeat, reload, 2 processes)", "correspondence", ok, outs[0][1][-600:] + (outs[1][1][-300:] if outs[0][1] != outs[1][1] else ""))
    if not ok:
        ctx.hit("nondeterministic-ranking", "large database: " + (outs[0][1] if outs[0][0] else outs[1][1])[-300:], dict(kind="impl-counterexample", tool="c02big", seed=ctx.seed, output=outs[0][1][-2000:], second_process=outs[1][1][-2000:]))
    ctx.cov["evaluations"] += 12
    ctx.add_distribution({"large-db.requests": 12})
