"""C12 — the result cache is a correct bounded LRU with a staleness limit."""
from props import lrucode

PROP = dict(
    id="C12",
    level="proof",
    technique="Lean 4 invariant + history theorems over an executable LRU model; step-by-step differential correspondence with cache.LRUCache; independent shadow monitor on the real code",
    level_text=("Kernel-checked theorems (WtfModel/Props/C12.lean) over a hand-written model of LRUCache, for every key/value type, "
                "capacity, lifetime and operation history: capacity bound and key uniqueness in every reachable state, victim = least "
                "recently used entry, lookups return the latest stored value and never one older than the lifetime, sweeps remove only "
                "expired entries, statistics equal the events of the visible trace. The model is tied to the code by step-by-step "
                "correspondence of every method's return value (and of the internal recency order through a verif hook) on random histories, "
                "and the default capacity is regenerated from the source on every run."),
    level_note=("Trusted: Lean kernel; axioms propext/Classical.choice/Quot.sound only; the translator fact `defaultCapacity`; the harness and the "
                "ageing hook (time is advanced by making real entries older); container/list and sync.RWMutex semantics; wall-clock drift during a case "
                "(< 0.5 s, lifetimes are chosen so no comparison sits within that margin). Concurrency is C11's subject, not this check's."),
    design_ref="DESIGN.md section 6, C12",
    rule=("random op histories over 1-8 keys, capacities {-1,0,1,2,3,7} (+ a default-capacity stream), lifetimes {unlimited, long, 10.5 s, 2.5 s}; "
          "a case is non-trivial if it contains at least one eviction, expiry on lookup, or non-empty sweep; distinct = distinct op sequences"),
    assumptions=["clock is monotone (Mono) for the staleness clause", "SearchCache/Manager wrappers are covered by C05"],
    keep_prefix={"lru": 1},
)

THEOREMS = ["Wtf.C12." + t for t in (
    "default_capacity_pos", "bounded", "effCap_spec", "reachable_inv", "victim", "no_eviction_unless_full",
    "latest_and_fresh", "sweep_only_expired", "stats_hits_misses", "stats_evictions_size")]


# the model is the source's control flow: method bodies translated statement by statement (Gen/LruCode.lean) and shown to be the model
THEOREMS += lrucode.THEOREMS
PROP["level_text"] += (" Props/C12b.lean: the bodies of Get, Put, Delete, Clear, CleanupExpired, Size and evictOldest are TRANSLATED statement by statement "
                       "into a small statement language on every run (Gen/LruCode.lean, xlate/x_lrucode.go, which also asserts removeElement and that no other "
                       "method stores to the cache's fields); running the translated programs on the abstract state is the hand-written model for every state, "
                       "time, argument (`step_regenerated`) and history (`run_regenerated`), so every theorem above speaks about them (`bounded_regenerated`).")


def nontrivial(tags, ops, impl):
    return any(tags.get(k, 0) > 0 for k in ("evict", "expired-on-get", "swept"))


def run(ctx):
    ctx.stage_xlate(required_assertions=["lru:NewLRUCache", "lru:default-capacity"] + lrucode.ASSERTIONS)
    ctx.stage_prove(THEOREMS, extra_targets=["WtfModel.Props.C12b"])
    if not ctx.stage_build():
        return
    n = 600 if ctx.tier == "quick" else 20000
    ctx.correspond("lru", n, nontrivial=nontrivial)
    ctx.correspond("lru", 20 if ctx.tier == "quick" else 300, name="lru-defaultcap", args={"bigcap": "1"}, nontrivial=nontrivial, seed_offset=7)
