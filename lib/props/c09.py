"""C09 — an interrupted or failed write never damages the notebook or the history."""
import hashlib
import json
import os
import random
import re
import shutil
import signal
import subprocess
import threading
import time
from concurrent.futures import ThreadPoolExecutor

import core

PROP = dict(
    id="C09",
    level="proof",
    technique=("Lean 4 theorems over a system-call model of the file-replacement protocol, stated on the program regenerated from "
               "utils.WriteFileAtomic's body; the model is fed the strace of the real binary; its predictions are validated by "
               "exhaustive byte-offset fault injection (RLIMIT_FSIZE), injected call failures and SIGKILLs on the real binary"),
    level_text=("Kernel-checked theorems (WtfModel/Props/C09.lean) over a system-call-level model: for EVERY file system state, new content, "
                "target and temp path, and for every way a run of the regenerated WriteFileAtomic program can end - killed before/inside/after "
                "any call (inside the write at any byte offset), any call failing after any short write, clean-up killed or failing - the "
                "target holds the complete old or the complete new content; a run with a failed call never reports success and leaves the "
                "target unchanged; success implies the new content is in place; old and new loadable implies every outcome loadable; only "
                "the target and the temp name are touched and the temp name differs from the target. The in-place program (os.WriteFile) is "
                "proved unsafe by a concrete witness. The program the theorems speak about is re-derived from the source on every run (call "
                "order, error tests, clean-up, call sites in save.go/history.go) and compared with the system calls the running binary makes."),
    level_note=("Partial: durability across power loss / directory fsync and kernel or file-system behaviour beyond 'a write may stop at any "
                "byte, every other call is all-or-nothing, rename within a directory is atomic' are outside the model. 'Reports failure' is "
                "the message printed (the handlers exit 0 on error). Trusted: Lean kernel; the translator's reading of WriteFileAtomic; the "
                "strace-to-SysOp translation in lib/props/c09.py; strace/prlimit."),
    design_ref="DESIGN.md section 6, C09",
    rule=("scenarios = {save, save-pipeline, search history update} x {missing, small, populated old file}; per scenario every RLIMIT_FSIZE "
          "cut k in 0..len(new)+1 (sampled incl. all edges when len(new) > limit in quick tier), ENOSPC on the n-th write for every n, "
          "injected failure of fchmod/fsync/close/rename, SIGKILL at the entry of every protocol call and at seeded random times; plus "
          "in-process WriteFileAtomic/history.Save runs with the write cut at k. A case is non-trivial if the fault hit the file write "
          "protocol (error reported, process killed, or cut < len(new)); distinct = distinct (scenario, fault) pairs / op sequences"),
    assumptions=["kernel: a failed or killed write leaves a prefix; other calls all-or-nothing; same-directory rename is atomic",
                 "durability across power loss is not claimed",
                 "yaml.v3 / encoding/json decoders: 'loads' is a parameter of earlier_loadable (old and new are checked to load on the real code)"],
    trusted_extra=["strace 6.x syscall decoding and fault injection (-e inject), prlimit(1) RLIMIT_FSIZE semantics",
                   "lib/props/c09.py: translation of strace lines into SysOp lines"],
)

THEOREMS = ["Wtf.C09." + t for t in (
    "shape", "call_sites", "atomic", "atomic_crash", "inplace_unsafe", "inplace_unsafe_reported", "reports",
    "reported_error_means_unchanged", "no_success_without_effect", "earlier_loadable", "temp_left_behind",
    "temp_garbage_possible", "temp_name_ne_target")]

ASSERTIONS = ["atomic:WriteFileAtomic", "atomic:shape", "atomic:order", "atomic:errors-checked", "atomic:temp-in-target-dir",
              "atomic:temp-pattern", "atomic:site:notebook", "atomic:site:notebook:uses-WriteFileAtomic",
              "atomic:site:notebook:no-direct-write", "atomic:site:notebook:outer", "atomic:site:history",
              "atomic:site:history:uses-WriteFileAtomic", "atomic:site:history:no-direct-write", "atomic:site:history:package"]

SUCCESS_LINES = ("Command saved successfully!", "Pipeline saved successfully!")
TRACE = "openat,write,rename,renameat,renameat2,ftruncate,fsync,fdatasync,close,unlink,unlinkat,fchmod"
SMALL_DB = """- command: ls -la
  description: list files in long format
  keywords: [list, files]
  pipeline: false
- command: grep -r foo .
  description: search text recursively
  keywords: [search, text]
  pipeline: false
- command: tar -czf out.tgz dir
  description: create compressed archive
  keywords: [archive, compress]
  pipeline: false
"""


def hx(b):
    return "-" if not b else b.hex()


def nontrivial(tags, ops, impl):
    return any(tags.get(k, 0) > 0 for k in ("write-cut", "createtemp-fails", "history-write-cut"))


# ---------------------------------------------------------------------------------------------
# scenarios
# ---------------------------------------------------------------------------------------------

class Scenario:
    def __init__(self, name, kind, argv, prep, big=False):
        self.name, self.kind, self.argv, self.prep, self.big = name, kind, argv, prep, big

    def target(self, d):
        if self.kind == "notebook":
            return os.path.join(d, "home", ".config", "cmd-finder", "personal.yml")
        return os.path.join(d, "xdg", "wtf", "search_history.json")


def child_env(d):
    return {"HOME": os.path.join(d, "home"), "XDG_CONFIG_HOME": os.path.join(d, "xdg"), "PATH": os.environ.get("PATH", "/usr/bin:/bin"),
            "NO_COLOR": "1"}


def make_dir(d):
    os.makedirs(os.path.join(d, "home"))
    os.makedirs(os.path.join(d, "xdg"))
    os.makedirs(os.path.join(d, "cwd"))
    open(os.path.join(d, "small.yml"), "w").write(SMALL_DB)


def run_cmd(wtf, d, argv, wrapper=(), timeout=60):
    p = subprocess.run(list(wrapper) + [wtf] + argv, cwd=os.path.join(d, "cwd"), env=child_env(d), stdin=subprocess.DEVNULL,
                       stdout=subprocess.PIPE, stderr=subprocess.PIPE, timeout=timeout)
    return p.returncode, p.stdout.decode("utf-8", "replace"), p.stderr.decode("utf-8", "replace")


def read_opt(p):
    try:
        return open(p, "rb").read()
    except FileNotFoundError:
        return None


def stray_temps(target):
    d, b = os.path.dirname(target), os.path.basename(target)
    try:
        return sorted(f for f in os.listdir(d) if f != b)
    except FileNotFoundError:
        return []


def scenarios(tier):
    db = ["--database", "../small.yml"]
    save_small = [["save", "echo one", "first entry", "--keywords", "alpha,beta"],
                  ["save-pipeline", "count-lines", "cat f | wc -l", "--category", "text"]]
    many = [["save", "cmd-%d --flag value%d | sort" % (i, i), "description number %d: with 'quotes' and # hash" % i, "--keywords", "k%d,common" % i,
             "--platforms", "linux,macos"] for i in range(30)]
    hist_small = [db + ["list files"], db + ["search text"]]
    hist_many = [db + ["query number %d about files" % i] for i in range(100 if tier == "thorough" else 40)]
    return [
        Scenario("save/missing-notebook", "notebook", ["save", "tar -czf b.tgz /home", "make a backup", "--keywords", "tar,backup"], []),
        Scenario("save/small-notebook", "notebook", ["save", "find . -name '*.go'", "find go files: all", "--category", "dev", "--pipeline"], save_small),
        Scenario("save/replace-existing", "notebook", ["save", "echo one", "replaced entry with a longer description text", "--platforms", "linux"], save_small),
        Scenario("save-pipeline/small-notebook", "notebook", ["save-pipeline", "errs", "grep ERROR app.log | sort | uniq -c", "--keywords", "logs"], save_small),
        Scenario("save/30-entry-notebook", "notebook", ["save", "docker ps -a --format '{{.Names}}'", "show containers", "--keywords", "docker"], many, big=True),
        Scenario("save-pipeline/30-entry-notebook", "notebook", ["save-pipeline", "top", "find . -type f | head -10 | sort"], many, big=True),
        Scenario("search/missing-history", "history", db + ["compress archive"], []),
        Scenario("search/small-history", "history", db + ["compress archive"], hist_small),
        Scenario("search/repeat-last-query", "history", db + ["search text"], hist_small),
        Scenario("search/long-history", "history", db + ["list files"], hist_many, big=True),
    ]


# ---------------------------------------------------------------------------------------------
# strace -> SysOp lines
# ---------------------------------------------------------------------------------------------

def unhex_c(s):
    """strace -xx string body (\\xNN sequences) -> bytes"""
    return bytes(int(x, 16) for x in re.findall(r"\\x([0-9a-f]{2})", s))


def merge_unfinished(lines):
    pend, out = {}, []
    for l in lines:
        m = re.match(r"^(\d+)\s+(.*)$", l.rstrip("\n"))
        if not m:
            continue
        pid, rest = m.group(1), m.group(2)
        if rest.endswith("<unfinished ...>"):
            pend[pid] = rest[:-len("<unfinished ...>")]
            continue
        r = re.match(r"^<\.\.\. \w+ resumed>\s?(.*)$", rest)
        if r:
            rest = pend.pop(pid, "") + r.group(1)
        out.append((pid, rest))
    return out


def trace_to_ops(path, watch_dirs, target):
    """Returns (op lines for the driver, problems, temp path id map, raw summary)."""
    fds, ids, ops, problems, raw = {}, {target: 0}, [], [], []

    def pid_of(p):
        if p not in ids:
            ids[p] = len(ids)
        return ids[p]

    def watched(p):
        return any(os.path.dirname(p) == w for w in watch_dirs)

    for _, l in merge_unfinished(open(path, errors="replace")):
        m = re.match(r"^(\w+)\((.*)\)\s+= (-?\d+|\?)(.*)$", l)
        if not m:
            continue
        name, args, ret = m.group(1), m.group(2), m.group(3)
        if ret == "?" or int(ret) < 0:
            continue
        ret = int(ret)
        if name == "openat":
            a = re.match(r'^AT_FDCWD, "((?:\\x[0-9a-f]{2})*)", ([A-Z_|0-9x]+)', args)
            if not a:
                continue
            p = unhex_c(a.group(1)).decode("utf-8", "replace")
            fds.pop(ret, None)
            if not watched(p):
                continue
            flags = a.group(2).split("|")
            if "O_DIRECTORY" in flags:
                continue
            if "O_CREAT" in flags and "O_EXCL" in flags:
                fds[ret] = p
                ops.append("op createTemp %d" % pid_of(p))
            elif "O_TRUNC" in flags and ("O_WRONLY" in flags or "O_RDWR" in flags):
                fds[ret] = p
                ops.append("op openTrunc %d" % pid_of(p))
            elif "O_WRONLY" in flags or "O_RDWR" in flags or "O_APPEND" in flags:
                fds[ret] = p
                problems.append("unmodelled open for writing without O_TRUNC/O_EXCL: %s %s" % (p, a.group(2)))
            else:
                continue
            raw.append("%s(%s, %s)" % (name, os.path.basename(p), a.group(2)))
        elif name == "write":
            a = re.match(r'^(\d+), "((?:\\x[0-9a-f]{2})*)"(\.\.\.)?, (\d+)$', args)
            if not a or int(a.group(1)) not in fds:
                continue
            data = unhex_c(a.group(2))
            if a.group(3) or len(data) != int(a.group(4)):
                problems.append("write data truncated in trace")
            p = fds[int(a.group(1))]
            ops.append("op write %d %s" % (pid_of(p), hx(data[:ret])))
            raw.append("write(%s, %d bytes) = %d" % (os.path.basename(p), int(a.group(4)), ret))
        elif name in ("fchmod", "fsync", "fdatasync", "close", "ftruncate"):
            a = re.match(r"^(\d+)", args)
            if not a or int(a.group(1)) not in fds:
                continue
            p = fds[int(a.group(1))]
            if name == "ftruncate":
                problems.append("unmodelled ftruncate on %s" % p)
            else:
                k = {"fchmod": "chmod", "fsync": "fsync", "fdatasync": "fsync", "close": "close"}[name]
                ops.append("op %s %d" % (k, pid_of(p)))
            raw.append("%s(%s)" % (name, os.path.basename(p)))
            if name == "close":
                del fds[int(a.group(1))]
        elif name in ("rename", "renameat", "renameat2"):
            ps = [unhex_c(x).decode("utf-8", "replace") for x in re.findall(r'"((?:\\x[0-9a-f]{2})*)"', args)]
            if len(ps) != 2 or not (watched(ps[0]) or watched(ps[1])):
                continue
            if os.path.dirname(ps[0]) != os.path.dirname(ps[1]):
                problems.append("rename across directories: %s -> %s" % (ps[0], ps[1]))
            ops.append("op rename %d %d" % (pid_of(ps[0]), pid_of(ps[1])))
            raw.append("%s(%s -> %s)" % (name, os.path.basename(ps[0]), os.path.basename(ps[1])))
        elif name in ("unlink", "unlinkat"):
            ps = [unhex_c(x).decode("utf-8", "replace") for x in re.findall(r'"((?:\\x[0-9a-f]{2})*)"', args)]
            if len(ps) != 1 or not watched(ps[0]):
                continue
            ops.append("op unlink %d" % pid_of(ps[0]))
            raw.append("%s(%s)" % (name, os.path.basename(ps[0])))
    return ops, problems, ids, raw


def driver_case(lines):
    p = subprocess.run([core.DRIVER_BIN], input=("case 0 atomicwrite\n" + "\n".join(lines) + "\n").encode(), stdout=subprocess.PIPE,
                       stderr=subprocess.PIPE, timeout=900)
    cases, _, _ = core.parse_cases(p.stdout.decode())
    return cases.get("0", [])


# ---------------------------------------------------------------------------------------------
# the check
# ---------------------------------------------------------------------------------------------

class Lab:
    def __init__(self, ctx, wtf):
        self.ctx, self.wtf = ctx, wtf
        self.root = os.path.join(ctx.rundir, "lab")
        os.makedirs(self.root, exist_ok=True)
        self.n = 0
        self.lock = threading.Lock()
        self.tags = {}
        self.samples = []

    def tag(self, k, n=1):
        self.tags[k] = self.tags.get(k, 0) + n

    def fresh(self, template=None):
        with self.lock:
            self.n += 1
            n = self.n
        d = os.path.join(self.root, "r%d-%d" % (os.getpid(), n))
        if template:
            shutil.copytree(template, d, symlinks=True)
        else:
            make_dir(d)
        return d

    def tool(self, name, path):
        rc, out = core.sh([core.HARNESS_BIN, "tool", name, path], env=core.go_env(), timeout=120)
        try:
            return json.loads(out.strip().split("\n")[-1])
        except Exception:
            return {"ok": False, "error": "tool failed: " + out[-300:]}


def history_queries(b):
    try:
        j = json.loads(b.decode("utf-8"))
        if not isinstance(j, dict) or not isinstance(j.get("entries"), list) or not isinstance(j.get("max_size"), int):
            return None
        return [e["query"] for e in j["entries"]]
    except Exception:
        return None


def prepare(lab, s):
    """Builds the old state with the real binary, takes the reference (fault-free, straced) run."""
    ctx = lab.ctx
    tmpl = lab.fresh()
    for argv in s.prep:
        rc, out, err = run_cmd(lab.wtf, tmpl, argv)
        if rc != 0:
            ctx.oblige("scenario:%s:prep" % s.name, "fault-injection", False, "rc=%d %s %s" % (rc, out[-300:], err[-300:]))
            return None
    s.tmpl = tmpl
    s.old = read_opt(s.target(tmpl))
    ref = lab.fresh(tmpl)
    tr = os.path.join(ref, "trace.txt")
    rc, out, err = run_cmd(lab.wtf, ref, s.argv, wrapper=["strace", "-f", "-xx", "-s", "10000000", "-e", "trace=" + TRACE, "-o", tr])
    s.ref_out, s.new = out, read_opt(s.target(ref))
    s.trace = tr
    s.ref_dir = ref
    ok = rc == 0 and s.new is not None and s.new != s.old
    if s.kind == "notebook":
        ok = ok and any(x in out for x in SUCCESS_LINES)
        # old and new load, and new keeps every earlier entry (C09: "everything saved earlier remains loadable")
        ln = lab.tool("loadnb", s.target(ref))
        lo = lab.tool("loadnb", s.target(tmpl)) if s.old is not None else {"ok": True, "entries": []}
        ok = ok and ln.get("ok") and lo.get("ok")
        if ok:
            newcmds = [e["command"] for e in ln["entries"]]
            saved = s.argv[2 if s.argv[0] == "save-pipeline" else 1].encode().hex()
            for e in lo["entries"]:
                if e["command"] != saved and e not in ln["entries"]:
                    ok = False
            ok = ok and saved in newcmds
        s.new_queries = None
    else:
        lo = lab.tool("loadhist", s.target(tmpl)) if s.old is not None else {"ok": True, "queries": []}
        ln = lab.tool("loadhist", s.target(ref))
        ok = ok and lo.get("ok") and ln.get("ok")
        oq = [bytes.fromhex(q).decode() if q != "-" else "" for q in lo.get("queries", [])]
        q = s.argv[-1]
        exp = (oq[:-1] if oq and oq[-1] == q else oq) + [q]
        exp = exp[-100:]
        s.new_queries = exp
        ok = ok and history_queries(s.new) == exp
    ctx.oblige("scenario:%s:reference-run" % s.name, "fault-injection", ok,
               "rc=%d old=%s new=%s stdout=%r" % (rc, None if s.old is None else len(s.old), None if s.new is None else len(s.new), out[:200]))
    return ok


def classify(s, post):
    """old | new | other"""
    if post == s.old:
        return "old"
    if s.kind == "notebook":
        return "new" if post == s.new else "other"
    if post is not None and history_queries(post) == s.new_queries and post.rstrip().endswith(b"}"):
        return "new"
    return "other"


def strace_stage(lab, s):
    ctx = lab.ctx
    tgt = s.target(s.ref_dir)
    ops, problems, ids, raw = trace_to_ops(s.trace, [os.path.dirname(tgt)], tgt)
    lines = (["file 0 " + hx(s.old)] if s.old is not None else []) + ops
    tmp_ids = [i for p, i in ids.items() if i != 0]
    lines += ["analyze 0 " + hx(s.new), "kinds", "genshape", "matches %d 0 %s" % (tmp_ids[0] if tmp_ids else 1, hx(s.new))]
    t0 = time.time()
    res = driver_case(lines)
    an, kinds, gen, mt = res[-4:] if len(res) == len(lines) else ("driver-failed", "", "", "0")
    lab.samples.append(dict(scenario=s.name, observed_calls=raw[:12], model_verdict=an, old_len=None if s.old is None else len(s.old), new_len=len(s.new)))
    ctx.oblige("strace:%s:translated" % s.name, "trace-translation", not problems and bool(ops), "; ".join(problems) or "%d calls on the %s directory" % (len(ops), s.kind))
    safe = an.startswith("safe") and an.endswith("final=new")
    ctx.oblige("strace:%s:all-crash-states-old-or-new" % s.name, "model-on-observed-trace", safe, "%s  calls: %s" % (an, " ; ".join(raw[:10])))
    ctx.oblige("strace:%s:matches-regenerated-program" % s.name, "model-on-observed-trace", mt == "1" and kinds == gen,
               "observed: %s | regenerated from source: %s" % (kinds, gen))
    m = re.search(r"states=(\d+)", an)
    if m:
        lab.tag("crash-states-enumerated-by-model", int(m.group(1)))
    ctx.cov["evaluations"] += 1
    s.predicted_cut = None
    m = re.search(r"first=(\d+):(\d+) content=(\S+)", an)
    if m:
        s.predicted_cut = (int(m.group(1)), int(m.group(2)))
    return safe


def one_fault(lab, s, fault):
    """fault = (kind, param).  Returns dict(result fields)."""
    kind, par = fault
    d = lab.fresh(s.tmpl)
    wrapper, killer = [], None
    if kind == "fsize":
        wrapper = ["prlimit", "--fsize=%d" % par, "--"]
    elif kind == "inject":
        sysc, what, when = par
        spec = "%s:%s" % (sysc, what) + (":when=%s" % when if when else "")
        wrapper = ["strace", "-f", "-o", "/dev/null", "-e", "trace=" + sysc, "-e", "inject=" + spec]
    elif kind == "kill-after":
        killer = par
    try:
        if kind == "fsize-transient":
            # a write that fails after `par` bytes because of a limit that is gone a moment later (a quota raised, space freed):
            # code that retries the write must not leave the bytes of the first attempt in front of the second
            import resource
            tgt0 = s.target(d)
            p = subprocess.Popen(["prlimit", "--fsize=%d" % par, "--", lab.wtf] + s.argv, cwd=os.path.join(d, "cwd"), env=child_env(d),
                                 stdin=subprocess.DEVNULL, stdout=subprocess.PIPE, stderr=subprocess.PIPE)
            t_end = time.time() + 2.0
            while time.time() < t_end and p.poll() is None:
                hit = False
                for f in stray_temps(tgt0):
                    try:
                        if os.path.getsize(os.path.join(os.path.dirname(tgt0), f)) >= par:
                            hit = True
                    except OSError:
                        pass
                if hit:
                    time.sleep(0.004)   # let the failing write return
                    try:
                        resource.prlimit(p.pid, resource.RLIMIT_FSIZE, (resource.RLIM_INFINITY, resource.RLIM_INFINITY))
                    except (ProcessLookupError, PermissionError, ValueError):
                        pass
                    break
                time.sleep(0.001)
            o, e = p.communicate(timeout=60)
            rc, out, err = p.returncode, o.decode("utf-8", "replace"), e.decode("utf-8", "replace")
        elif killer is None:
            rc, out, err = run_cmd(lab.wtf, d, s.argv, wrapper=wrapper)
        else:
            p = subprocess.Popen([lab.wtf] + s.argv, cwd=os.path.join(d, "cwd"), env=child_env(d), stdin=subprocess.DEVNULL,
                                 stdout=subprocess.PIPE, stderr=subprocess.PIPE)
            time.sleep(killer)
            try:
                p.send_signal(signal.SIGKILL)
            except ProcessLookupError:
                pass
            o, e = p.communicate(timeout=60)
            rc, out, err = p.returncode, o.decode("utf-8", "replace"), e.decode("utf-8", "replace")
    except subprocess.TimeoutExpired:
        rc, out, err = 999, "", "timeout"
    tgt = s.target(d)
    post = read_opt(tgt)
    temps = stray_temps(tgt)
    res = dict(fault=[kind, par], rc=rc, cls=classify(s, post), success=any(x in out for x in SUCCESS_LINES),
               error_reported=("Error saving" in out), temps=len(temps), post=post, out=out[-300:], err=err[-200:], dir=d)
    if "panic:" in err or "goroutine " in err:
        res["panic"] = True
    return res


def judge(lab, s, r):
    ctx = lab.ctx
    kind, par = r["fault"]
    rep = dict(kind="impl-counterexample", scenario=s.name, argv=s.argv, prep=s.prep, fault=[kind, par], rc=r["rc"], stdout=r["out"], stderr=r["err"],
               old_len=None if s.old is None else len(s.old), new_len=len(s.new),
               post_len=None if r["post"] is None else len(r["post"]), post_hex_head=None if r["post"] is None else r["post"][:200].hex(),
               how="HOME/XDG_CONFIG_HOME isolated dir; old state built by `prep` commands; fault applied to `argv` (fsize: prlimit --fsize=k; inject: strace -e inject=...)")
    what = "%s %s fault=%s:%s -> file is %s (old %s bytes, new %d bytes, found %s bytes)" % (
        s.name, " ".join(s.argv[:2]), kind, par, r["cls"], rep["old_len"], rep["new_len"], rep["post_len"])
    if r["cls"] == "other":
        loads = None
        if r["post"] is not None:
            tool = "loadnb" if s.kind == "notebook" else "loadhist"
            loads = lab.tool(tool, s.target(r["dir"]))
            rep["loads"] = {k: v for k, v in loads.items() if k in ("ok", "error")}
            if loads.get("ok"):
                rep["entries_after"] = len(loads.get("entries", loads.get("queries", [])))
        cls = "torn-write"
        if loads is not None and not loads.get("ok"):
            cls = "torn-write-unloadable"
        ctx.hit(cls, what + (" loads=%s" % (rep.get("loads"),)), dict(rep, **{"class": cls}))
    if s.kind == "notebook" and r["success"] and r["cls"] != "new":
        ctx.hit("success-without-effect", what + " but the success line was printed", dict(rep, **{"class": "success-without-effect"}))
    if r.get("panic"):
        ctx.hit("panic", what + " panic: " + r["err"][:200], dict(rep, **{"class": "panic"}))
    if r["error_reported"] and r["cls"] != "old":
        ctx.hit("error-but-changed", what + " though an error was reported", dict(rep, **{"class": "error-but-changed"}))
    if r["error_reported"] and r["temps"] and not (kind == "inject" and par[0] in ("unlinkat", "unlink")):
        ctx.hit("temp-left-after-error", what + " stray temp after a reported error", dict(rep, **{"class": "temp-left-after-error"}))
    # distribution
    lab.tag("fault." + kind)
    lab.tag("result." + r["cls"])
    if r["rc"] < 0 or r["rc"] in (137, 153):
        lab.tag("outcome.killed")
    elif r["error_reported"]:
        lab.tag("outcome.error-reported")
    elif r["success"]:
        lab.tag("outcome.success-reported")
    else:
        lab.tag("outcome.silent" if s.kind == "notebook" else "outcome.search-completed")
    if r["temps"]:
        lab.tag("stray-temp-after-kill")
    nt = r["rc"] != 0 or r["error_reported"] or r["temps"] > 0 or (kind == "fsize" and par < len(s.new)) or r["cls"] == "old"
    if nt:
        ctx.distinct.add(hashlib.sha1(("%s|%s|%s" % (s.name, kind, par)).encode()).hexdigest())
    shutil.rmtree(r["dir"], ignore_errors=True)
    r["post"] = None


def fault_plan(ctx, s, rng):
    """All faults for one scenario."""
    n = len(s.new)
    fs = []
    full = ctx.tier == "thorough" or n <= 700
    if full:
        ks = list(range(0, n + 2))
    else:
        edge = set(range(0, 40)) | set(range(n - 40, n + 2))
        if s.old is not None:
            edge |= set(range(max(0, len(s.old) - 8), len(s.old) + 8))
        edge |= set(rng.sample(range(0, n), 120))
        ks = sorted(k for k in edge if 0 <= k <= n + 1)
    if getattr(s, "predicted_cut", None):
        ks = sorted(set(ks) | {s.predicted_cut[1], max(1, n // 2)})
    fs += [("fsize", k) for k in ks]
    nwrites = 8 if s.kind == "notebook" else 30
    fs += [("inject", ("write", "error=ENOSPC", str(i))) for i in range(1, nwrites + 1)]
    fs += [("inject", ("write", "error=EIO", "1+"))]
    for sysc, err in (("fchmod", "EPERM"), ("fsync", "EIO"), ("renameat", "EXDEV"), ("renameat", "ENOSPC"), ("unlinkat", "EPERM")):
        fs.append(("inject", (sysc, "error=" + err, "")))
    for i in range(1, 40):
        fs.append(("inject", ("close", "error=EIO", str(i))))
    for sysc, cnt in (("fchmod", 1), ("fsync", 1), ("renameat", 1), ("write", nwrites), ("close", 40), ("openat", 45)):
        for i in range(1, cnt + 1):
            fs.append(("inject", (sysc, "signal=SIGKILL", str(i))))
    fs += [("fsize-transient", k) for k in sorted(set([1, 2, max(1, n // 3), max(1, n // 2), max(1, n - 1)] + (rng.sample(range(1, max(2, n)), min(6, max(1, n - 1))) if n > 2 else [])))]
    nk = 12 if ctx.tier == "quick" else 60
    fs += [("kill-after", round(rng.uniform(0.0, 0.006), 5)) for _ in range(nk)]
    return fs


def after_kill_still_usable(lab, s):
    """A stray temp file left by a kill must not disturb later saves / loads."""
    ctx = lab.ctx
    d = lab.fresh(s.tmpl)
    run_cmd(lab.wtf, d, s.argv, wrapper=["strace", "-f", "-o", "/dev/null", "-e", "trace=fsync", "-e", "inject=fsync:signal=SIGKILL"])
    tgt = s.target(d)
    temps = stray_temps(tgt)
    rc, out, err = run_cmd(lab.wtf, d, s.argv)
    post = read_opt(tgt)
    ok = classify(s, post) == "new" and (s.kind != "notebook" or any(x in out for x in SUCCESS_LINES))
    if not ok:
        ctx.hit("unusable-after-kill", "%s: after a kill at fsync (stray temps %s) the same command no longer takes effect" % (s.name, temps),
                dict(kind="impl-counterexample", scenario=s.name, argv=s.argv, prep=s.prep, stdout=out[-300:], **{"class": "unusable-after-kill"}))
    lab.tag("rerun-after-kill-with-stray-temp" if temps else "rerun-after-kill")
    ctx.cov["evaluations"] += 1
    shutil.rmtree(d, ignore_errors=True)
    # the same with a kill in the MIDDLE of the write: a file-size limit makes the first write stop after k bytes and the
    # process is killed when it comes back for the rest, so a temporary file holding a prefix of the new content is left
    # behind (a prefix of a YAML list or of an indented JSON document often still parses).  Whatever a later run makes of
    # that file, the same command afterwards must produce exactly the new content.
    n = len(s.new)
    ks = sorted(set(k for k in (n - 1, n - 3, n - 9, n - 20, n - 40, (2 * n) // 3, n // 2) if 0 < k < n))
    for k in ks:
        for when in ("2", "3", "1"):
            d = lab.fresh(s.tmpl)
            run_cmd(lab.wtf, d, s.argv, wrapper=["prlimit", "--fsize=%d" % k, "--", "strace", "-f", "-o", "/dev/null", "-e", "trace=write",
                                                 "-e", "inject=write:signal=SIGKILL:when=%s" % when])
            tgt = s.target(d)
            partial = [f for f in stray_temps(tgt) if os.path.getsize(os.path.join(os.path.dirname(tgt), f)) == k]
            if not partial:
                shutil.rmtree(d, ignore_errors=True)
                continue
            lab.tag("killed-mid-write-with-partial-temp")
            rc, out, err = run_cmd(lab.wtf, d, s.argv)
            post = read_opt(tgt)
            ctx.cov["evaluations"] += 1
            if classify(s, post) != "new":
                ctx.hit("unusable-after-kill", "%s: a run killed after %d of %d bytes left the prefix in %s; the same command afterwards does not produce the new content (file is %s)" % (
                            s.name, k, n, partial, classify(s, post)),
                        dict(kind="impl-counterexample", scenario=s.name, argv=s.argv, prep=s.prep, cut=k, stdout=out[-300:], found=(post or b"")[-400:].decode("utf-8", "replace"),
                             **{"class": "unusable-after-kill"}))
            shutil.rmtree(d, ignore_errors=True)
            break


def model_agreement(lab, s, results):
    """The model's planned-fault run predicts the RLIMIT_FSIZE outcomes: write cut after k < len(new) bytes => error, target old."""
    if s.kind != "notebook":
        return
    ctx = lab.ctx
    fsz = [r for r in results if r["fault"][0] == "fsize"]
    lines = []
    for r in fsz:
        k = r["fault"][1]
        lines.append("plan %s %s %d %d" % (hx(s.old) if s.old is not None else "none", hx(s.new), 1 if k < len(s.new) else -1, min(k, len(s.new))))
    out = driver_case(lines)
    bad = []
    for r, o in zip(fsz, out):
        f = o.split(" ")
        want_cls = "new" if f[1] == hx(s.new) else ("old" if (f[1] == "none" and s.old is None) or (s.old is not None and f[1] == hx(s.old)) else "other")
        want_success = f[0] == "success"
        if want_cls != r["cls"] or want_success != r["success"]:
            bad.append((r["fault"], o[:40], r["cls"], r["success"]))
    ctx.cov["traces_validated_against_impl"] += len(fsz) - len(bad)
    ctx.oblige("fault-injection:%s:agrees-with-model" % s.name, "correspondence", not bad and len(out) == len(fsz),
               "%d RLIMIT_FSIZE cuts predicted by runPlan; mismatches: %s" % (len(fsz), bad[:3]))


def run(ctx):
    global SUCCESS_LINES
    ctx.stage_xlate(required_assertions=ASSERTIONS)
    ctx.stage_prove(THEOREMS)
    if not ctx.stage_build():
        return
    # the wording of the success lines is the source's (regenerated fact), not a literal of this file
    SUCCESS_LINES = tuple(ctx.facts.get("savecmds.successLines") or SUCCESS_LINES)
    # in-process: WriteFileAtomic / history.Save under a write cut, against the model's planned-fault run
    ctx.correspond("atomicwrite", 150 if ctx.tier == "quick" else 3000, nontrivial=nontrivial)
    with core.BuildLock():
        ok, out, wtf0 = core.build_wtf_binary()
        wtf = os.path.join(ctx.rundir, "wtf")
        if ok:
            shutil.copy2(wtf0, wtf)
    ctx.oblige("build:wtf-binary", "build", ok, out)
    if not ok:
        return
    for t in ("strace", "prlimit"):
        if not shutil.which(t):
            ctx.oblige("tool:" + t, "build", False, "not installed")
            return
    lab = Lab(ctx, wtf)
    rng = random.Random(ctx.seed * 7919 + 17)
    scs = scenarios(ctx.tier)
    for s in scs:
        if not prepare(lab, s):
            continue
        strace_stage(lab, s)
        plan = fault_plan(ctx, s, rng)
        with ThreadPoolExecutor(max_workers=min(12, os.cpu_count() or 4)) as ex:
            results = list(ex.map(lambda f: one_fault(lab, s, f), plan))
        model_agreement(lab, s, results)
        for r in results:
            judge(lab, s, r)
        ctx.cov["evaluations"] += len(results)
        after_kill_still_usable(lab, s)
        ctx.log("%s: %d faults injected (old %s bytes, new %d bytes)" % (s.name, len(results), None if s.old is None else len(s.old), len(s.new)))
    # the most readable counterexample first: a fault on the real binary, preferably one that leaves an unloadable file
    rank = {"torn-write-unloadable": 0, "torn-write": 1, "success-without-effect": 2}
    ctx.hits.sort(key=lambda h: (0 if "scenario" in h["replay"] else 1, rank.get(h["cls"], 5)))
    ctx.add_distribution({"binary." + k: v for k, v in lab.tags.items()})
    ctx.cov["samples"] = lab.samples[:6] + ctx.cov["samples"]
    ctx.cov["fault_kinds"] = sorted(k for k in lab.tags if k.startswith("fault.") or k.startswith("outcome."))
    ctx.exhaustive = False


def replay(ctx, rep):
    """./check C09 --replay <file>: re-executes the recorded fault against the current tree and prints what the file holds."""
    f = rep.get("failing") or {}
    if "scenario" not in f:
        ctx.stage_build()
        items = [f] if "ops" in f else [o["detail"] for o in rep.get("broken_obligations", []) if isinstance(o.get("detail"), dict) and "ops" in o["detail"]]
        if not items:
            print(json.dumps(rep, indent=1)[:6000])
            return 0
        rc = 0
        for it in items:
            mm, il, ml, hits = core.run_single_case(ctx, "replay", it["domain"], it["ops"])
            for o, a, b in zip(it["ops"], il, ml):
                print("op   :", o[:300], "\nimpl :", a[:300], "\nmodel:", b[:300])
            print("monitor hits:", json.dumps(hits)[:2000])
            rc = 1 if (mm or hits) else rc
        return rc
    ctx.stage_build()
    ok, out, wtf = core.build_wtf_binary()
    if not ok:
        print(out)
        return 2
    lab = Lab(ctx, wtf)
    s = Scenario(f["scenario"], "notebook" if f["argv"][0].startswith("save") else "history", f["argv"], f["prep"])
    if not prepare(lab, s):
        print("reference run failed", [o for o in ctx.obligations if not o["ok"]])
        return 2
    fault = (f["fault"][0], tuple(f["fault"][1]) if isinstance(f["fault"][1], list) else f["fault"][1])
    r = one_fault(lab, s, fault)
    print("scenario :", s.name, "\ncommand  : wtf", " ".join(repr(a) for a in s.argv), "\nfault    :", fault)
    print("old file :", None if s.old is None else "%d bytes" % len(s.old), "\nnew file :", "%d bytes" % len(s.new))
    print("after    :", None if r["post"] is None else "%d bytes" % len(r["post"]), "->", r["cls"], "| exit", r["rc"], "| success line:", r["success"], "| error line:", r["error_reported"])
    if r["post"] is not None and r["cls"] == "other":
        print("loads    :", lab.tool("loadnb" if s.kind == "notebook" else "loadhist", s.target(r["dir"])))
    print("stdout   :", r["out"])
    shutil.rmtree(ctx.rundir, ignore_errors=True)
    return 1 if (r["cls"] == "other" or (r["success"] and r["cls"] != "new")) else 0
