"""C17 — every CLI command runs, and search output matches the engine's answer."""
import base64
import json
import os
import random
import re
import resource
import shutil
import subprocess
import tempfile
import time

import core

PROP = dict(
    id="C17",
    level="proof",
    technique=("Lean 4 theorems over an executable model of the search command's decision pipeline whose rendering branches and constants are "
               "regenerated from internal/cli/search.go (go/ast) and over the regenerated cobra flag table; the real `wtf` binary run in an isolated "
               "home over generated databases x queries x flags, its stdout compared byte for byte with the model's result block and, independently, "
               "parsed and compared with the engine's answer computed in-process from the same tree; every sub-command executed with generated argument vectors"),
    level_text=("Kernel-checked theorems (WtfModel/Props/C17.lean) over `Wtf.Cli.cliSearch`, a model of searchCmd.Run as a function of the flags, NO_COLOR, "
                "the validated query, the load result, the engine (a function of the option record), the recovery answer, the platform gate and the loaded "
                "history: for ALL such inputs the printed results are exactly the engine's answer when that is non-empty, else the gate-filtered recovery answer "
                "cut to the limit, in that order (`prints_engine`, hypothesis: the answer is sorted by score, non-increasing); never more than the limit in force "
                "(`limit`, hypothesis: the engine respects Limit — C01); the JSON result block has one object per result with exactly the members "
                "command, description, keywords*, category*, platforms*, score* (* omitted when empty; keywords / platforms / score only with --verbose) "
                "(`json_shape`); with --no-color or NO_COLOR no ESC byte is printed (`no_escapes`, hypotheses: no printed database field contains ESC, "
                "the strconv / encoding/json formatters emit none); a search that passes validation and loading makes exactly one AddEntry with the validated "
                "query and the number of results, the log grows by one (cut to its maximum) or an equal last entry is replaced, and nothing is recorded when "
                "validation, the limit check or loading fails (`history_one`, `history_untouched`); no command of the regenerated cobra tree can panic while "
                "its flag sets are merged (`starts`, by evaluation of the flag table). The rendering branches (list / table / json) are regenerated from the "
                "source as step lists and interpreted by the model; `spec_recognised` shows every expression of those steps has a meaning. Tie to the code: 23 "
                "translator shape assertions pin the order validate < limit < load < engine < recovery(filter, truncate) < one AddEntry < nothing-found return "
                "< stable re-sort < format switch, the colour helper and the NO_COLOR test; on every generated run the model's result block and history are "
                "compared with the real binary's stdout bytes and history file, and independent monitors evaluate the property on the real outputs. "
                "Props/C17b.lean: the JSON block is a JSON TEXT. With the string encoder fixed to `jsonStrModel` (Model/KeyJson.lean's model of encoding/json's "
                "appendString with EscapeHTML on, shared with C05's cache key) and the float encoder only assumed to write number tokens (`NumOK`), the block "
                "parses, completely, with the RFC 8259 recogniser of Model/JsonText.lean to one array with one object per printed result whose members are those of "
                "`json_shape` by name and order and whose strings read back as the database text with every invalid byte replaced by U+FFFD (`json_wellformed`, "
                "`json_text_of_items`, `json_object`; for ALL byte strings: quotes, backslashes, controls, <>&, U+2028/9, invalid UTF-8, any rune); the indentation "
                "bytes and the json names come from the regenerated tables (`layout_ok`, `names_ok`). Tie: the driver renders every string with `jsonStrModel` (the "
                "real json.Marshal renderings are compared with it line by line), checks `NumOK` on the real rendering of every printed score and parses its own "
                "block back on every run; the block bytes are compared with the binary's stdout; the real blocks are judged by Python's parser and by Go's "
                "encoding/json (tool c17jsonparse: valid, UTF-8, array of objects, one per result, strings round-trip)."),
    level_note=("PARTIAL. Outside the model: process start-up, cobra/pflag argument parsing and flag merging (only the shorthand-clash panic condition is "
                "modelled), the terminal, strconv and encoding/json's float encoder (number renderings enter as oracle values from the same tree; `NumOK`), yaml.v3, the "
                "wall clock. Database text that contains ESC is printed raw by the list and table formats (hypothesis of `no_escapes`; generated, run and "
                "counted as `esc-in-printed-field`). The table format cuts long commands / categories at a byte offset and may print invalid UTF-8 "
                "(observed, counted as `table-cut-inside-rune`; not part of the property). Sub-commands other than search are exercised for termination and "
                "absence of panics only (generated argument vectors, closed or piped stdin, timeout); their outputs are C08/C09/C16's subject. Text outside the "
                "result block (preamble, loader / recovery warnings, suggestions, timing line) is not modelled: its wording is free, the monitors only require that it "
                "carries no ESC when colour is off and the database has none. Well-formedness of the JSON text is proved for the modelled string encoder (Props/C17b); "
                "the recogniser rejects \\uD800..\\uDFFF escapes (never written by the encoder), so it accepts a subset of RFC 8259; a NaN / Inf score would make Encode fail and "
                "print nothing (outside `NumOK`; engine scores are finite, C10). "
                "With --format json and an empty answer the command prints its prose suggestions and no array (observed, not covered by the property's wording)."),
    design_ref="DESIGN.md section 6, C17",
    rule=("sessions of 3-7 `wtf [search]` runs sharing an isolated HOME: generated --database files (valid lists with duplicates, platform tags, ESC / newline / "
          "quote / unicode / over-long fields; texts that need every class of encoding/json escape: quotes, backslashes, <>&, U+2028/9, controls, DEL, runes outside the BMP, "
          "invalid UTF-8 carried as !!binary scalars; one fixed session prints such an entry as JSON with and without -v; empty list; empty file; missing file; malformed or wrong-shaped YAML -> embedded fallback database; optional personal "
          "notebook) x queries (words of the database, misspellings, recovery-only fragments, nothing-found, rejected: empty / metacharacters / too long / "
          "control-only; padded, multi-argument, unicode) x --limit {absent,0,1,2,3,5,100,101,-1} x --format {absent,list,table,json,JSON,Table,bogus,empty} x -v x "
          "--no-color / NO_COLOR (also set-but-empty) x --platform / -p / --all-platforms / --no-cross-platform, flag spellings (--k=v, -kv, before/after the query, "
          "`search` or root), pre-seeded history files (absent, valid, same last query, small or negative max_size, malformed); plus every sub-command with generated "
          "argument vectors. A search run is non-trivial if it printed at least one result or exercised a rejection / nothing-found path with a pre-existing history; "
          "distinct = distinct (database, argv, environment, history-before) tuples"),
    assumptions=["engine answers are sorted by score, non-increasing (C01; re-checked on every run: `hypothesis:answers-sorted`)",
                 "the engine returns at most Limit results (C01; re-checked on every run)",
                 "no printed database field contains ESC (for `no_escapes`; violated on purpose by some generated databases, which are then only compared with the model)",
                 "`json_wellformed`: the string encoder is `jsonStrModel` (compared with json.Marshal on every printed string) and the float encoder writes number tokens "
                 "(`NumOK`, checked by the driver on every printed score)"],
    trusted_extra=["cobra/pflag parsing and flag-set merging; strconv / encoding/json float renderings (oracle values taken from the same tree; strings are modelled); "
                   "the harness tools c17expect and c17jsonparse"],
)

THEOREMS = ["Wtf.C17." + t for t in (
    "starts", "spec_recognised", "limit_in_force_pos", "rejects_bad_limit", "limit", "prints_engine", "prints_engine_ids", "block_of_answer",
    "json_shape", "json_members", "no_escapes", "history_one", "history_untouched",
    # Props/C17b.lean: the JSON block is a JSON text (string encoder modelled, parsed back by the recogniser of Model/JsonText.lean)
    "layout_ok", "names_ok", "json_text_of_items", "json_wellformed", "json_object", "toValid_ascii")]

ASSERTIONS = ["flags:commands-found", "flags:registrations", "flags:single-root",
              "cli:search-run", "cli:validate-query-first", "cli:validate-limit", "cli:flag-reads", "cli:load-with-recovery",
              "cli:search-options-literal", "cli:search-options-known-fields", "cli:engine-call", "cli:recovery-filtered-and-truncated",
              "cli:history-one-addentry", "cli:nothing-found-returns", "cli:no-color-detection", "cli:escapes-only-through-color-helper",
              "cli:stable-resort-before-render", "cli:nothing-but-timing-after-render", "cli:format-switch",
              "cli:render-list", "cli:render-table", "cli:render-json", "cli:config-default-max-results"]

ESC = b"\x1b"
COMMAND_NAMES = ("search", "alias", "setup", "save", "wizard", "pipeline", "save-pipeline", "history", "help", "completion")
PANIC_RE = re.compile(rb"panic:|goroutine \d+ \[|fatal error:|runtime error")

# ---------------------------------------------------------------------------------------------
# generators
# ---------------------------------------------------------------------------------------------

WORDS = ["compress", "archive", "directory", "list", "files", "network", "docker", "container", "commit", "branch", "process", "kill",
         "disk", "usage", "lookup", "text", "replace", "copy", "move", "remove", "permission", "user", "install", "package", "update",
         "download", "server", "port", "memory", "backup", "restore", "image", "convert", "video", "monitor", "kelvin", "folder", "create"]
TOOLS = ["tar", "ls", "git", "docker", "find", "grep", "curl", "ffmpeg", "rsync", "chmod", "ps", "du", "sed", "awk", "zip", "scp", "dir", "robocopy"]
NICHES = ["", "", "files", "network", "git", "docker", "sys admin", "données", "a-very-long-category-name-over-24-bytes"]
PLATFORMS = [None, None, ["linux"], ["windows"], ["macos"], ["linux", "macos"], ["cross-platform"], ["windows", "cross-platform"], ["LINUX"], ["windows", "linux"]]
HOSTILE = ["\x1b[31mred\x1b[0m", "line1\nline2", 'say "hi"', "it's", "back\\slash", "tab\there", "日本語", "café ü", "\U0001F600 smile",
           "{json: [1,2]}", "%s %d %!", "<b>&amp;</b>", "a: b #c", " sep", "\x07bell"]


# Texts that exercise encoding/json's string encoder (Props/C17b, Model/JsonText.lean): quotes, backslashes, the HTML set,
# U+2028 / U+2029, control bytes (short escapes, \u00XX, DEL which is copied), runes outside the BMP, U+FFFD itself, and
# INVALID UTF-8 (lone FF, truncated sequences, an overlong form, an encoded surrogate, a lead beyond F4).  Invalid bytes are
# carried in the Python strings as surrogate escapes (U+DC80..U+DCFF) and written to the YAML file as `!!binary` scalars
# (yaml.v3 decodes those into a Go string, whatever the bytes); everything else travels as a double-quoted YAML scalar with
# the characters YAML would fold or refuse written as \uXXXX escapes.
HOSTILE_JSON = ['q"uo"te', "back" + chr(92) + "slash" + chr(92), chr(92) + '"' + chr(92) + "n", "<script>&amp;</script>", "a<b>c&d",
                "ls" + chr(0x2028) + "sep" + chr(0x2029) + "end", chr(0x2028), "\x01\x02ctl\x1f", "del\x7f", "\x08\x0c\x0b", "nul\x00byte",
                "\U0001F600\U00010348", "max\U0010FFFF", "repl" + chr(0xFFFD) + "acement", "\u00e9\u0100\u0800\uffee",
                "\udcff", "caf\udcc3", "\udce2\udc80 trunc", "\udce2\udc80", "\udced\udca0\udc80", "\udcc0\udcaf", "\udcf5\udc80\udc80\udc80",
                "\udcf0\udc9f\udc98", "mixed \udcfe\u00e9\udc80<" + chr(0x2029) + '"', "\udce2\udc80\udca8"[:2] + chr(0x2028)]


def yaml_scalar(s):
    """one scalar of the database file (see HOSTILE_JSON)"""
    if re.search("[\udc80-\udcff]", s):
        return '!!binary "%s"' % base64.b64encode(s.encode("utf-8", "surrogateescape")).decode()
    return re.sub("[\x7f-\x9f\u2028\u2029\ufeff\ufffe\uffff]", lambda m: chr(92) + "u%04x" % ord(m.group(0)), json.dumps(s, ensure_ascii=False))


def yaml_flow_entry(e):
    parts = ['"command": %s' % yaml_scalar(e["command"]), '"description": %s' % yaml_scalar(e["description"]),
             '"keywords": [%s]' % ", ".join(yaml_scalar(k) for k in e["keywords"])]
    if "niche" in e:
        parts.append('"niche": %s' % yaml_scalar(e["niche"]))
    if "platform" in e:
        parts.append('"platform": [%s]' % ", ".join(yaml_scalar(k) for k in e["platform"]))
    parts.append('"pipeline": %s' % ("true" if e.get("pipeline") else "false"))
    return " {" + ", ".join(parts) + "}"


def go_to_valid(b):
    """what encoding/json makes of a Go string: every byte utf8.DecodeRune rejects becomes U+FFFD (one per BYTE; Python's
    'replace' handler gives one per maximal invalid subpart)"""
    out, i = [], 0
    while i < len(b):
        c = b[i]
        n = 1 if c < 0x80 else 2 if 0xC2 <= c < 0xE0 else 3 if 0xE0 <= c < 0xF0 else 4 if 0xF0 <= c < 0xF5 else 0
        chunk = b[i:i + n]
        try:
            if n == 0 or len(chunk) < n:
                raise ValueError
            out.append(chunk.decode("utf-8"))
            i += n
        except ValueError:   # UnicodeDecodeError is a ValueError
            out.append(chr(0xFFFD))
            i += 1
    return "".join(out)


def json_escapes_needed(b):
    """the escape classes encoding/json needs for this text (distribution tags)"""
    ks = set()
    if b'"' in b or bytes([92]) in b:
        ks.add("quote-backslash")
    if any(c in b for c in b"<>&"):
        ks.add("html")
    if any(c < 0x20 for c in b):
        ks.add("control")
    if b"\xe2\x80\xa8" in b or b"\xe2\x80\xa9" in b:
        ks.add("u2028")
    try:
        b.decode("utf-8")
    except UnicodeDecodeError:
        ks.add("invalid-utf8")
    t = go_to_valid(b)
    if any(ord(ch) > 0xFFFF for ch in t):
        ks.add("astral")
    if any(ord(ch) > 0x7F for ch in t):
        ks.add("non-ascii")
    return ks


def gen_entry(rnd, hostile):
    ws = rnd.sample(WORDS, rnd.randint(2, 5))
    cmd = rnd.choice(TOOLS) + " " + rnd.choice(["-a", "-rf", "--all", "-x 1", ""]) + " " + ws[0]
    desc = " ".join([ws[0].capitalize()] + ws[1:] + [rnd.choice(["quickly", "safely", "now", ""])]).strip()
    e = dict(command=cmd.replace("  ", " ").strip(), description=desc, keywords=rnd.sample(ws, rnd.randint(1, len(ws))), pipeline=rnd.random() < 0.15)
    n = rnd.choice(NICHES)
    if n:
        e["niche"] = n
    p = rnd.choice(PLATFORMS)
    if p:
        e["platform"] = list(p)
    if rnd.random() < 0.15:
        # long in bytes, short in characters (multi-byte script): byte- and rune-based truncation of the table cells disagree
        e["command"] = e["command"].split(" ")[0] + " " + ws[0] + " " + "".join(rnd.choice("日本語検索結果表示") for _ in range(rnd.randint(14, 20)))
        if rnd.random() < 0.5:
            e["niche"] = "".join(rnd.choice("分類名前") for _ in range(rnd.randint(9, 14)))
    if rnd.random() < 0.12:   # printf-style verbs in the text: output code that passes text as a format string mangles them
        e["command"] += rnd.choice([" +%Y-%m-%d", " '%s %d'", " 100%", " %!v(MISSING)", " %%"])
        if rnd.random() < 0.5:
            e["description"] += rnd.choice([" 50% done", " %s", " %d items"])
    if hostile and rnd.random() < 0.4:
        hj = rnd.choice(HOSTILE_JSON)
        f = rnd.choice(["command", "description", "niche", "keyword", "platform"])
        if f == "command":
            e["command"] += " " + hj
        elif f == "description":
            e["description"] += " " + hj
        elif f == "niche":
            e["niche"] = (e.get("niche", "") + hj)
        elif f == "keyword":
            e["keywords"] = e["keywords"] + [hj]
        else:
            e["platform"] = (e.get("platform") or ["linux"]) + [hj]
    if hostile and rnd.random() < 0.45:
        h = rnd.choice(HOSTILE)
        f = rnd.choice(["command", "description", "niche", "keyword", "platform", "long", "longmb", "mbshort"])
        if f == "command":
            e["command"] += " " + h
        elif f == "description":
            e["description"] += " " + h
        elif f == "niche":
            e["niche"] = (e.get("niche", "") + " " + h).strip()
        elif f == "keyword":
            e["keywords"] = e["keywords"] + [h]
        elif f == "platform":
            e["platform"] = (e.get("platform") or ["linux"]) + [h.replace("\n", " ")]
        elif f == "long":
            e["command"] += " " + " ".join(rnd.choice(WORDS) for _ in range(8))
        elif f == "mbshort":  # long in bytes, short in characters: byte- and rune-based truncation disagree
            e["command"] = e["command"].split(" ")[0] + " " + "".join(rnd.choice("日本語検索結果表示") for _ in range(rnd.randint(16, 22)))
            e["niche"] = "".join(rnd.choice("分類名前") for _ in range(rnd.randint(9, 14)))
        else:  # multi-byte characters around the table's cut offset (45 bytes)
            e["command"] = (e["command"] + " ")[:40].ljust(40, "x") + "日本語ééé " + rnd.choice(WORDS)
            e["niche"] = "café-" * 4 + "éééé"
    return e


def quoting_entry():
    """every field needs encoding/json's escapes: quotes, backslash, the HTML set, U+2028/9, controls, DEL, a rune outside the
    BMP, and invalid UTF-8 (lone FF, truncated E2 80, a lone C3, an overlong C0 AF, a lead F5)"""
    return dict(command='quoting "escape" ' + chr(92) + ' <tag> & ' + chr(0x2028) + ' \x01\x7f \U0001F600 \udcff \udce2\udc80 tail',
                description='Quoting every escape class: "q" ' + chr(92) + chr(92) + ' <> & ' + chr(0x2029) + ' \t \udcc3',
                keywords=["quoting", "escape", 'k"w', "k\udcfew", "k" + chr(0x2028)], niche='esc"<\udcc0\udcaf>',
                platform=["linux", "cross-platform", "p&\udcf5"], pipeline=False)


def gen_db(rnd, kind):
    """returns (file content bytes or None for a missing file, list of entries as written)"""
    if kind == "missing":
        return None, []
    if kind == "emptylist":
        return b"[]\n", []
    if kind == "emptyfile":
        return b"", []
    if kind == "malformed":
        return rnd.choice([b"- command: [unclosed\n  description: x\n", b"\tnot yaml: [\n", b"- command: 'a\n"]), []
    if kind == "wrongshape":
        return rnd.choice([b"command: ls\ndescription: not a list\n", b"- 1\n- 2\n", b"just a scalar\n"]), []
    n = rnd.choice([1, 2, 3, 5, 8, 12, 20, 30])
    es = [gen_entry(rnd, kind == "hostile") for _ in range(n)]
    if kind == "hostile" and rnd.random() < 0.3:  # degenerate entries
        es.insert(rnd.randrange(len(es) + 1), rnd.choice([dict(command="", description="", keywords=[], pipeline=False),
                                                           dict(command="", description="only a description " + rnd.choice(WORDS), keywords=[], pipeline=False),
                                                           dict(command=rnd.choice(TOOLS), description="", keywords=[rnd.choice(WORDS)], pipeline=True)]))
    # duplicates of whole entries (score ties) and near-duplicates
    for _ in range(rnd.randint(0, 3)):
        es.insert(rnd.randrange(len(es) + 1), dict(rnd.choice(es)))
    if rnd.random() < 0.3:  # many entries sharing one word: answers longer than any limit
        w = rnd.choice(WORDS)
        for k in range(rnd.randint(6, 12)):
            es.append(dict(command="%s %s%d" % (rnd.choice(TOOLS), w, k), description="%s number %d" % (w, k), keywords=[w], pipeline=False))
    if kind == "hostile" and rnd.random() < 0.7:  # an entry whose text carries escape sequences (printed raw by list / table)
        es.insert(rnd.randrange(len(es) + 1), dict(command="printf '\x1b[31mcrimson\x1b[0m' paint", description="Paint crimson \x1b[1mglyphs\x1b[0m on the terminal",
                                                    keywords=["crimson", "paint", "\x1b[5mglyph"], niche="term\x1b[0m", platform=["linux", "cross-platform"], pipeline=False))
    if kind == "hostile" and rnd.random() < 0.7:  # an entry whose every field needs encoding/json's escapes (Props/C17b)
        es.insert(rnd.randrange(len(es) + 1), quoting_entry())
    if kind == "block":
        out = []
        for e in es:
            out.append("- command: %s" % yaml_scalar(e["command"]))
            out.append("  description: %s" % yaml_scalar(e["description"]))
            out.append("  keywords: [%s]" % ", ".join(yaml_scalar(k) for k in e["keywords"]))
            if "niche" in e:
                out.append("  niche: %s" % yaml_scalar(e["niche"]))
            if "platform" in e:
                out.append("  platform: [%s]" % ", ".join(yaml_scalar(k) for k in e["platform"]))
            out.append("  pipeline: %s" % ("true" if e["pipeline"] else "false"))
        return ("\n".join(out) + "\n").encode(), es
    return ("[\n" + ",\n".join(yaml_flow_entry(e) for e in es) + "\n]\n").encode(), es  # a YAML flow sequence (JSON plus !!binary scalars)


def misspell(rnd, w):
    if len(w) < 4:
        return w
    i = rnd.randrange(1, len(w) - 1)
    return rnd.choice([w[:i] + w[i + 1:], w[:i] + w[i + 1] + w[i] + w[i + 2:], w[:i] + w[i] + w[i:]])


def db_words(entries, rnd):
    ws = []
    for e in entries:
        ws += [w for w in re.findall(r"[a-z]{3,}", (e["description"] + " " + " ".join(e["keywords"])).lower())]
    return ws or WORDS


def gen_query(rnd, entries):
    """returns (class, list of argv words)"""
    c = rnd.choices(["lexical", "fuzzy", "recovery", "recovery-many", "nothing", "rejected", "weird", "subprefix"], [32, 14, 14, 8, 6, 10, 16, 5])[0]
    ws = db_words(entries, rnd)
    if c == "subprefix":
        # a query whose first word is the beginning of a sub-command's name ("pipe", "hist", "wiz", "comp"): it is a query like any
        # other - `wtf hist` searches for "hist", it does not list the history
        name = rnd.choice([n for n in COMMAND_NAMES if len(n) > 3])
        pre = name[:rnd.randint(2, len(name) - 1)]
        return c, rnd.choice([[pre], [pre], [pre, rnd.choice(ws)], [pre + " " + rnd.choice(ws)]])
    if c == "recovery-many":
        # a fragment of the word most commands share: the recovery strategies answer with more entries than a small limit
        cnt = {}
        for e in entries:
            for w in set(re.findall(r"[a-z]{4,}", e["command"].lower())):
                cnt[w] = cnt.get(w, 0) + 1
        if not cnt:
            c = "recovery"
        else:
            w = max(sorted(cnt), key=lambda k: cnt[k])
            return c, [rnd.choice(["qzxj", "zzqj"]) + " " + w[:max(3, len(w) - 2)]]
    if c == "lexical":
        if "crimson" in ws and rnd.random() < 0.3:
            return c, [rnd.choice(["paint crimson", "crimson glyphs", "paint terminal"])]
        if "quoting" in ws and rnd.random() < 0.35:
            return c, [rnd.choice(["quoting escape", "quoting", "escape class"])]
        return c, [" ".join(rnd.sample(ws, min(len(ws), rnd.randint(1, 3))))]
    if c == "fuzzy":
        return c, [" ".join(misspell(rnd, w) for w in rnd.sample(ws, min(len(ws), rnd.randint(1, 2))))]
    if c == "recovery":
        frag = rnd.choice(ws)
        if entries and rnd.random() < 0.6:
            frag = rnd.choice(rnd.choice(entries)["command"].split() or [frag])
        i = rnd.randrange(0, max(1, len(frag) - 3))
        return c, [rnd.choice(["qzxj", "jqxz", "zzqj"]) + " " + (frag[i:i + rnd.randint(3, 6)] or "ab")] if rnd.random() < 0.7 else [frag[:max(2, len(frag) // 2)] + "qz"]
    if c == "nothing":
        return c, [rnd.choice(["qqqqq zzzzz", "xkcdqq", "日本", "zzzz9999 qqq", "!!!"])]
    if c == "rejected":
        return c, [rnd.choice(["", "   ", "\t", "a|b", "x;y", "$HOME", "<tag>", "a & b", "x" * 1001, "\x01\x02", "list files > out", "é" * 501])]
    w = rnd.sample(ws, min(len(ws), 2))
    return c, rnd.choice([
        ["  " + w[0] + "   " + w[-1] + " "], [w[0], w[-1]], [w[0].upper()], ["\t" + w[0] + "\n"], [w[0] + "\x07\x1b" + w[-1]], [w[0] + " 日本語"],
        ["--", "-" + w[0]], [w[0] + "," + w[-1] + "."], [w[0] + " \udcff\udcfe"], ["\udce9" + w[0]], ["x" * 1000], [w[0], "", w[-1]], ["'" + w[0] + "' \"" + w[-1] + "\""], [w[0] + " %s %d"]])


def gen_flags(rnd):
    """returns (argv fragment list, dict of the values in force as the CLI will see them, env additions)"""
    fl = dict(limit=0, verbose=False, format="list", nocolor=False, platforms=[], all=False, nocross=False)
    parts, env = [], {}
    lim = rnd.choice([None, None, None, None, 0, 1, 1, 2, 3, 3, 5, 100, 100, 101, -1])
    if lim is not None:
        fl["limit"] = lim
        parts.append(rnd.choice([["--limit", str(lim)], ["--limit=%d" % lim], ["-l", str(lim)], ["-l%d" % lim] if lim >= 0 else ["-l=%d" % lim]]))
    f = rnd.choice([None, None, "list", "table", "table", "json", "json", "json", "JSON", "Table", "bogus", "", "jsoń"])
    if f is not None:
        fl["format"] = f
        parts.append(rnd.choice([["--format", f], ["--format=" + f]]))
    if rnd.random() < 0.45:
        fl["verbose"] = True
        parts.append([rnd.choice(["-v", "--verbose", "--verbose=true"])])
    r = rnd.random()
    if r < 0.3:
        fl["nocolor"] = True
        parts.append([rnd.choice(["--no-color", "--no-color=true"])])
    elif r < 0.55:
        env["NO_COLOR"] = rnd.choice(["1", "", "0", "true"])
    elif r < 0.6:
        parts.append(["--no-color=false"])
    r = rnd.random()
    if r < 0.2:
        fl["all"] = True
        parts.append([rnd.choice(["-a", "--all-platforms"])])
    elif r < 0.5:
        ps = rnd.choice([["linux"], ["windows"], ["macos"], ["windows", "macos"], ["cross-platform"], ["plan9"], ["Linux"]])
        fl["platforms"] = ps
        parts.append(rnd.choice([["--platform", ",".join(ps)], ["-p", ",".join(ps)], ["--platform=" + ",".join(ps)]]) if rnd.random() < 0.7 or len(ps) == 1
                     else [x for p in ps for x in ("-p", p)])
        if rnd.random() < 0.4:
            fl["nocross"] = True
            parts.append(["--no-cross-platform"])
    elif r < 0.55:
        fl["nocross"] = True
        parts.append(["--no-cross-platform"])
    rnd.shuffle(parts)
    return parts, fl, env


def gen_history(rnd, upcoming):
    """pre-seeded history file: returns bytes or None (absent)"""
    def ent(q, n):
        return dict(query=q, timestamp="2024-0%d-1%dT0%d:04:05Z" % (rnd.randint(1, 9), rnd.randint(0, 9), rnd.randint(0, 9)), results_count=n, context="seeded")
    k = rnd.choice(["absent", "absent", "keep", "keep", "keep", "valid", "same-last", "small-max", "negative-max", "malformed", "wrongshape", "emptyfile", "full100"])
    if k == "absent":
        return "absent", None
    if k == "keep":
        return "keep", None
    if k == "emptyfile":
        return k, b""
    if k == "malformed":
        return k, rnd.choice([b"{not json", b'{"entries": [', b"\x00\x01"])
    if k == "wrongshape":
        return k, rnd.choice([b"[1,2]", b'{"entries": "x", "max_size": 5}', b'{"entries": [{"query": 5}]}'])
    qs = [rnd.choice(WORDS) + " " + rnd.choice(WORDS) for _ in range(rnd.randint(0, 4))]
    if k == "valid":
        return k, json.dumps(dict(entries=[ent(q, rnd.randint(0, 5)) for q in qs], max_size=100)).encode()
    if k == "same-last":
        return k, json.dumps(dict(entries=[ent(q, 1) for q in qs] + [ent(upcoming, 42)], max_size=100)).encode()
    if k == "small-max":
        m = rnd.choice([1, 2, 3])
        return k, json.dumps(dict(entries=[ent("old %d" % i, i) for i in range(m)], max_size=m)).encode()
    if k == "negative-max":
        return k, json.dumps(dict(entries=[ent(q, 2) for q in qs], max_size=rnd.choice([0, -1, -5]))).encode()
    return k, json.dumps(dict(entries=[ent("q%d" % i, i % 7) for i in range(100)], max_size=100)).encode()


# ---------------------------------------------------------------------------------------------
# Go-side behaviours the spec needs (emulated independently of the model)
# ---------------------------------------------------------------------------------------------

def load_history(data):
    """history.Load as the CLI uses it: (entries [(query bytes, count)], max) ; any error -> empty, 100"""
    if not data:
        return [], 100
    try:
        d = json.loads(data.decode("utf-8"))
        if not isinstance(d, dict):
            return [], 100
        es = d.get("entries") or []
        out = []
        for e in es:
            if not isinstance(e, dict) or not isinstance(e.get("query", ""), str) or not isinstance(e.get("results_count", 0), int):
                return [], 100
            # encoding/json turns an escaped lone surrogate into U+FFFD
            out.append((re.sub("[\ud800-\udfff]", "\ufffd", e.get("query", "")).encode(), e.get("results_count", 0)))
        m = d.get("max_size", 0)
        if not isinstance(m, int) or isinstance(m, bool):
            return [], 100
        return out, (m if m > 0 else 100)
    except Exception:
        return [], 100


def go_rune_count(b):
    return len(b.decode("utf-8", "surrogateescape"))


def go_pad(b, width):
    return b + b" " * max(0, width - go_rune_count(b))


def unhex(h):
    return bytes.fromhex(h)


class Doc:
    def __init__(self, d):
        self.command, self.description, self.niche = unhex(d["command"]), unhex(d["description"]), unhex(d["niche"])
        self.keywords, self.platform = [unhex(x) for x in d["keywords"]], [unhex(x) for x in d["platform"]]
        self.raw = d


def tok(b):
    return b.hex() if b else "-"


def toks(bs_):
    return ",".join((b.hex() if b else "_") for b in bs_) if bs_ else "-"


# ---------------------------------------------------------------------------------------------
# stdout parsing (item grammar)
# ---------------------------------------------------------------------------------------------

def list_regex(colors):
    B, R, C, Y = (re.escape(colors[k]) for k in ("bold", "reset", "cyan", "yellow"))
    return re.compile(
        rb"(?s)" + B + rb"(?P<n>\d+)\." + R + rb" " + C + rb"(?P<cmd>.*?)" + R + rb"\n   " + Y + rb"Description:" + R + rb" (?P<desc>.*?)\n"
        rb"(?:   " + Y + rb"Keywords:" + R + rb" (?P<kw>.*?)\n)?(?:   " + Y + rb"Category:" + R + rb" (?P<cat>.*?)\n)?"
        rb"(?:   " + Y + rb"Platforms:" + R + rb" (?P<plat>.*?)\n)?(?:   " + Y + rb"Relevance:" + R + rb" (?P<rel>[^\n]*)\n)?\n")


def find_block(out):
    """locate the result block by its structure: returns (format, start offset) or (None, -1)"""
    cands = []
    m = re.search(rb"(?m)^Found (\d+) matching command\(s\):\n\n", out)
    if m:
        cands.append((m.start(), "list"))
    m = re.search(rb"(?m)^(?:\x1b\[1m)?#   Command +Category +Score", out)
    if m:
        cands.append((m.start(), "table"))
    m = re.search(rb"(?m)^\[", out)  # a line that opens an array, however the encoder indents
    if m:
        cands.append((m.start(), "json"))
    if not cands:
        return None, -1
    s, f = min(cands)
    return f, s


def strip_tail(fmt, block, verbose):
    """the timing line printed after the block with --verbose (recognised by the block's own structure, not by its wording)"""
    if not verbose or not block.endswith(b"\n"):
        return block
    i = block[:-1].rfind(b"\n")
    last = block[i + 1:-1]
    if fmt == "json" and last != b"]":
        return block[:i + 1]
    if fmt == "list" and last != b"":
        return block[:i + 1]
    if fmt == "table" and not re.match(rb"\d+ ", last) and not last.startswith(b"-") and b"Command" not in last:
        return block[:i + 1]
    return block


def parse_list(block, colors_on, colors_off):
    m = re.match(rb"Found (\d+) matching command\(s\):\n\n", block)
    if not m:
        return None, "no header"
    n_hdr, pos = int(m.group(1)), m.end()
    for cols in (colors_on, colors_off):
        rx, items, p = list_regex(cols), [], pos
        while p < len(block):
            mm = rx.match(block, p)
            if not mm:
                break
            items.append(mm.groupdict())
            p = mm.end()
        if p == len(block) and items:
            if n_hdr != len(items) or [int(i["n"]) for i in items] != list(range(1, len(items) + 1)):
                return None, "numbering: header says %d, items %s" % (n_hdr, [i["n"] for i in items])
            return items, ("color" if cols is colors_on else "plain")
    return None, "item grammar does not tile the block"


def expected_list_items(printed, docs, verbose):
    out = []
    for k, h in enumerate(printed):
        d = docs[h["id"]]
        out.append(dict(n=str(k + 1).encode(), cmd=d.command, desc=d.description,
                        kw=(b", ".join(d.keywords) if verbose and d.keywords else None), cat=(d.niche if d.niche else None),
                        plat=(b", ".join(d.platform) if verbose and d.platform else None), rel=(h["f1"].encode() if verbose else None)))
    return out


def clip(b, mx, keep):
    return b[:keep] + b"..." if len(b) > mx else b


def expected_table_rows(printed, docs, verbose):
    rows = []
    for k, h in enumerate(printed):
        d = docs[h["id"]]
        rows.append(go_pad(str(k + 1).encode(), 3) + b" " + go_pad(clip(d.command, 48, 45), 48) + b" " + go_pad(clip(d.niche, 24, 21), 24) + b" " +
                    go_pad(h["f1"].encode() if verbose else b"", 10) + b"\n")
    return rows


def expected_json(printed, docs, verbose):
    out = []
    for h in printed:
        d = docs[h["id"]]
        o = dict(command=go_to_valid(d.command), description=go_to_valid(d.description))
        if verbose and d.keywords:
            o["keywords"] = [go_to_valid(x) for x in d.keywords]
        if d.niche:
            o["category"] = go_to_valid(d.niche)
        if verbose and d.platform:
            o["platforms"] = [go_to_valid(x) for x in d.platform]
        if verbose and h["score"] != 0:
            o["score"] = h["score"]
        out.append(o)
    return out


# ---------------------------------------------------------------------------------------------
# the search stream
# ---------------------------------------------------------------------------------------------

class SearchRun:
    pass


def _child_limits():
    # a command that loops while printing must not fill the disk or our memory: output goes to files capped at 32 MB
    resource.setrlimit(resource.RLIMIT_FSIZE, (32 << 20, 32 << 20))
    resource.setrlimit(resource.RLIMIT_CORE, (0, 0))


def run_binary(wtf, argv, env, cwd, stdin=None, timeout=20):
    """runs the built binary; returns (exit status, stdout, stderr, timed out).  Scratch files live next to the binary (ctx.rundir).
    A process that could not create a thread (EAGAIN from clone: the machine's budget, seen once under heavy load) is run again."""
    for attempt in range(4):
        r = _run_binary_once(wtf, argv, env, cwd, stdin, timeout)
        if r[0] not in (0, 1) and not r[1] and any(x in r[2] for x in (b"pthread_create failed", b"failed to create new OS thread")):
            time.sleep(0.5 + attempt)
            continue
        break
    return r


def _run_binary_once(wtf, argv, env, cwd, stdin=None, timeout=20):
    tmp = os.path.dirname(wtf)
    with tempfile.TemporaryFile(dir=tmp) as fo, tempfile.TemporaryFile(dir=tmp) as fe:
        p = subprocess.Popen([wtf] + argv, env=env, cwd=cwd, stdin=(subprocess.PIPE if stdin is not None else subprocess.DEVNULL),
                             stdout=fo, stderr=fe, preexec_fn=_child_limits)
        timed_out = False
        try:
            p.communicate(stdin, timeout=timeout)
        except subprocess.TimeoutExpired:
            p.kill()
            p.communicate()
            timed_out = True
        fo.seek(0)
        fe.seek(0)
        return (-9 if timed_out else p.returncode), fo.read(16 << 20), fe.read(16 << 20), timed_out


def base_env(home):
    env = {k: v for k, v in os.environ.items() if k not in ("NO_COLOR", "XDG_CONFIG_HOME", "HOME", "WTF_REPO", "VERIF_SEED")}
    env["HOME"] = home
    env["XDG_CONFIG_HOME"] = os.path.join(home, ".config")
    return env


def printable(b, n=300):
    return b[:n].decode("utf-8", "backslashreplace")


def search_stream(ctx, wtf, n_sessions, opts_fact, colors):
    rnd = random.Random(ctx.seed * 1000003 + 17)
    root = os.path.join(ctx.rundir, "cli")
    os.makedirs(root, exist_ok=True)
    runs = []
    kinds = ["plain"] * 5 + ["hostile"] * 5 + ["block"] * 2 + ["emptylist", "emptyfile", "missing"]
    slow = 0
    for s in range(n_sessions):
        sd = os.path.join(root, "s%d" % s)
        home = os.path.join(sd, "a", "b", "home")
        cwd = os.path.join(sd, "cwd")
        os.makedirs(os.path.join(home, ".config"), exist_ok=True)
        os.makedirs(cwd, exist_ok=True)
        kind = rnd.choice(kinds)
        # databases that cannot be parsed are retried by the loader (300 ms each): a handful per run
        if rnd.random() < 0.08 and slow < (4 if ctx.tier == "quick" else 30):
            kind = rnd.choice(["malformed", "wrongshape"])
            slow += 1
        content, entries = gen_db(rnd, kind)
        dbpath = os.path.join(sd, "db.yml")
        if content is not None:
            open(dbpath, "wb").write(content)
        dbarg = rnd.choice([dbpath, os.path.relpath(dbpath, cwd)]) if kind != "nodb" else ""
        ctxkind = "none"
        if rnd.random() < 0.25:  # a project context: the boosts must flow into the engine call
            ctxkind = rnd.choice(["git", "docker", "go", "node"])
            if ctxkind == "git":
                os.makedirs(os.path.join(cwd, ".git"), exist_ok=True)
            else:
                open(os.path.join(cwd, {"docker": "Dockerfile", "go": "go.mod", "node": "package.json"}[ctxkind]), "w").write(
                    {"docker": "FROM scratch\n", "go": "module x\n", "node": "{\"scripts\": {\"build\": \"x\"}}"}[ctxkind])
        personal = False
        if rnd.random() < 0.2 and kind in ("plain", "hostile", "block", "emptylist"):
            personal = True
            pd = os.path.join(home, ".config", "cmd-finder")
            os.makedirs(pd, exist_ok=True)
            pc, pe = gen_db(rnd, "plain")
            open(os.path.join(pd, "personal.yml"), "wb").write(pc)
            entries = entries + pe
        fallback_entries = [dict(command=c, description=d, keywords=k) for c, d, k in (
            ("ls", "List directory contents", ["list", "directory", "files"]), ("cd", "Change directory", ["change", "directory"]),
            ("mkdir", "Create directory", ["create", "folder"]), ("rm", "Remove files and directories", ["delete", "remove"]),
            ("cp", "Copy files and directories", ["copy", "files"]), ("mv", "Move/rename files and directories", ["move", "rename"]))]
        qsource = entries if kind not in ("missing", "malformed", "wrongshape") else fallback_entries
        hpath = os.path.join(home, ".config", "wtf", "search_history.json")
        prev_args = None
        for k in range(rnd.randint(3, 7) if kind not in ("malformed", "wrongshape") else 2):
            qclass, qargs = gen_query(rnd, qsource)
            if prev_args is not None and rnd.random() < 0.2:
                qclass, qargs = prev_args  # the same query twice in a row: the newest entry is replaced
            prev_args = (qclass, qargs)
            parts, fl, envx = gen_flags(rnd)
            joined = " ".join(qargs)
            # (what validation will roughly make of the words: each invalid byte becomes '?', white space is collapsed; only a
            #  hint for pre-filling the history with "the same query" -- the expected answers come from the real code)
            hk, hdata = gen_history(rnd, " ".join(re.sub("[\udc80-\udcff]", "?", joined).split()))
            if hk == "absent":
                if os.path.exists(hpath):
                    os.remove(hpath)
            elif hk != "keep":
                os.makedirs(os.path.dirname(hpath), exist_ok=True)
                open(hpath, "wb").write(hdata)
            hist_before = open(hpath, "rb").read() if os.path.exists(hpath) else None
            flag_argv = [x for p in parts for x in p]
            dbflag = rnd.choice([["--database", dbarg], ["-d", dbarg], ["--database=" + dbarg]])
            sub = ["search"] if rnd.random() < 0.4 or (qargs and qargs[0] in COMMAND_NAMES) else []
            q_has_dash = any(a.startswith("-") for a in qargs)
            if q_has_dash or rnd.random() < 0.6:
                argv = sub + dbflag + flag_argv + ([] if qargs[:1] == ["--"] else (["--"] if q_has_dash else [])) + qargs
            else:
                argv = sub + qargs + dbflag + flag_argv
            if qargs[:1] == ["--"]:
                joined = " ".join(qargs[1:])
            env = base_env(home)
            env.update(envx)
            rc, out, err, timed_out = run_binary(wtf, argv, env, cwd)
            r = SearchRun()
            r.session, r.k, r.kind, r.qclass, r.argv, r.env_extra, r.fl, r.query = s, k, kind, qclass, argv, envx, fl, joined
            r.home, r.cwd, r.dbarg, r.dbpath, r.rc, r.out, r.err, r.timed_out = home, cwd, dbarg, dbpath, rc, out, err, timed_out
            r.hist_kind, r.hist_before, r.ctxkind, r.personal = hk, hist_before, ctxkind, personal
            r.hist_after = open(hpath, "rb").read() if os.path.exists(hpath) else None
            r.env_nocolor = "NO_COLOR" in envx
            r.db_content = content
            runs.append(r)
    # ---- one more session that is not drawn from the stream: the entry whose every field needs escaping, printed as JSON with and
    #      without --verbose (so that every class of `json-string.*` below is reached at every seed)
    sd = os.path.join(root, "sjson")
    home, cwd = os.path.join(sd, "home"), os.path.join(sd, "cwd")
    os.makedirs(os.path.join(home, ".config"), exist_ok=True)
    os.makedirs(cwd, exist_ok=True)
    jes = [dict(command="ls -la files", description="List files plainly", keywords=["list", "files"], pipeline=False), quoting_entry(),
           dict(command="tar czf a.tgz dir", description="Compress a directory", keywords=["compress"], niche="files", pipeline=False)]
    content = ("[\n" + ",\n".join(yaml_flow_entry(e) for e in jes) + "\n]\n").encode()
    dbpath = os.path.join(sd, "db.yml")
    open(dbpath, "wb").write(content)
    hpath = os.path.join(home, ".config", "wtf", "search_history.json")
    for k, (parts, verbose) in enumerate(((["--format", "json", "-v"], True), (["--format", "JSON"], False))):
        fl = dict(limit=0, verbose=verbose, format=parts[1], nocolor=False, platforms=[], all=False, nocross=False)
        argv = ["--database", dbpath] + parts + ["quoting", "escape"]
        hist_before = open(hpath, "rb").read() if os.path.exists(hpath) else None
        rc, out, err, timed_out = run_binary(wtf, argv, base_env(home), cwd)
        r = SearchRun()
        r.session, r.k, r.kind, r.qclass, r.argv, r.env_extra, r.fl, r.query = n_sessions, k, "hostile", "lexical", argv, {}, fl, "quoting escape"
        r.home, r.cwd, r.dbarg, r.dbpath, r.rc, r.out, r.err, r.timed_out = home, cwd, dbpath, dbpath, rc, out, err, timed_out
        r.hist_kind, r.hist_before, r.ctxkind, r.personal = ("absent" if k == 0 else "keep"), hist_before, "none", False
        r.hist_after = open(hpath, "rb").read() if os.path.exists(hpath) else None
        r.env_nocolor = False
        r.db_content = content
        runs.append(r)
    # ---- expected answers, in-process, same tree
    reqs = [json.dumps(dict(home=r.home, cwd=r.cwd, db=r.dbarg, query_hex=r.query.encode("utf-8", "surrogateescape").hex(), limit=r.fl["limit"],
                            platforms=r.fl["platforms"], all=r.fl["all"], nocross=r.fl["nocross"], opts=opts_fact)) for r in runs]
    p = subprocess.run([core.HARNESS_BIN, "tool", "c17expect", ctx.rundir], input=("\n".join(reqs) + "\n").encode(), stdout=subprocess.PIPE,
                       stderr=subprocess.PIPE, env=core.go_env(), timeout=3600)
    lines = [l for l in p.stdout.decode().split("\n") if l.strip()]
    ok = p.returncode == 0 and len(lines) == len(runs)
    ctx.oblige("tool:c17expect", "build", ok, "rc=%d, %d responses for %d requests; stderr: %s" % (p.returncode, len(lines), len(runs), p.stderr.decode(errors="replace")[-1500:]))
    if not ok:
        return
    for r, l in zip(runs, lines):
        r.exp = json.loads(l)
    evaluate(ctx, runs, colors, bool(opts_fact.get("UseFuzzy")))


def replay_of(r, **extra):
    d = dict(kind="impl-counterexample", cli=True, argv=r.argv, env=r.env_extra, cwd_context=r.ctxkind, database_kind=r.kind,
             database=(r.db_content.decode("utf-8", "backslashreplace") if r.db_content is not None else None),
             history_before=(r.hist_before.decode("utf-8", "backslashreplace") if r.hist_before is not None else None),
             exit_status=r.rc, stdout=printable(r.out, 3000), stderr=printable(r.err, 1500),
             history_after=(r.hist_after.decode("utf-8", "backslashreplace")[-1500:] if r.hist_after is not None else None))
    d.update(extra)
    return d


def in_rank_order(block, pairs):
    """layout-independent reading of "prints exactly the engine's results in rank order": every (command, description) of the
    answer occurs in the block, one after the other"""
    pos = 0
    for cmd, desc in pairs:
        for part in (cmd, desc):
            if not part:
                continue
            i = block.find(part, pos)
            if i < 0:
                return False
            pos = i + len(part)
    return True


def evaluate(ctx, runs, colors, use_fuzzy=True):
    layout_diffs = []
    colors_on = {k: v.encode("latin-1") for k, v in colors.items()}
    colors_off = {k: b"" for k in colors}
    ops, impl = [], []
    dist = {}

    def tag(k, n=1):
        dist[k] = dist.get(k, 0) + n

    n_hyp_bad = 0
    json_blocks = []
    for idx, r in enumerate(runs):
        e, fl = r.exp, r.fl
        ctx.cov["evaluations"] += 1
        what = "wtf %s" % " ".join(json.dumps(a) for a in r.argv)
        hit = lambda cls, msg, **x: ctx.hit(cls, "%s: %s [%s]" % (cls, msg, what[:400]), replay_of(r, **x))
        if getattr(ctx, "c17_facts_stale", False):
            def hit(cls, msg, _r=r, _what=what, **x):
                has_esc = _r.db_content is None or b"\\u001b" in _r.db_content or b"\\x1b" in _r.db_content or ESC in _r.db_content
                if cls == "cli-crash" or (cls == "cli-escape-with-no-color" and not has_esc):
                    ctx.hit(cls, "%s: %s [%s]" % (cls, msg, _what[:400]), replay_of(_r, **x))
        # ---- crash
        if r.timed_out or r.rc != 0 or PANIC_RE.search(r.out) or PANIC_RE.search(r.err) or e.get("panic"):
            hit("cli-crash", "exit status %s%s%s" % (r.rc, " (timeout)" if r.timed_out else "", " in-process: " + e.get("panic", "") if e.get("panic") else ""))
            tag("crash")
            continue
        docs = {int(k): Doc(v) for k, v in e["docs"].items()}
        accepted = e["query_ok"] and e["limit_ok"] and e["load_ok"]
        limit = e["limit_in_force"]
        verbose = fl["verbose"]
        nocolor = fl["nocolor"] or r.env_nocolor
        # ---- the answer the CLI must print (spec, independent of the model)
        path = "rejected"
        answer = []
        if accepted:
            if e["engine"]:
                answer, path = e["engine"], ("engine" if e["engine_without_fuzzy"] > 0 else "fuzzy")
            else:
                passing = [] if e["recovery_err"] else [h for h in e["recovery"] if h["pass"]]
                rec = passing[:limit]
                answer, path = rec, ("recovery" if rec else "nothing")
                if len(passing) > limit:
                    tag("recovery.cut-by-limit")
                if len(passing) < len(e["recovery"]):
                    tag("recovery.gated-by-platform")
            for name, hs in (("engine", e["engine"]), ("recovery", e["recovery"])):
                if any(hs[i]["score"] < hs[i + 1]["score"] for i in range(len(hs) - 1)):
                    n_hyp_bad += 1
                    hit("cli-hypothesis-answer-not-sorted", "%s answer is not sorted by score: %s" % (name, [h["score"] for h in hs]))
            if len(e["engine"]) > limit:
                n_hyp_bad += 1
                hit("cli-hypothesis-engine-exceeds-limit", "engine returned %d results for Limit %d" % (len(e["engine"]), limit))
        tag("path." + path)
        tag("db." + r.kind)
        tag("query." + r.qclass)
        if e.get("fallback"):
            tag("db.fallback-database-used")
        if r.ctxkind != "none" and e.get("boosts"):
            tag("context-boosts-in-force")
        if r.personal:
            tag("personal-notebook")
        # ---- locate and parse the block
        fmt_obs, start = find_block(r.out)
        want_fmt = {"json": "json", "table": "table"}.get(fl["format"].lower(), "list")
        block = strip_tail(fmt_obs, r.out[start:], verbose) if fmt_obs else b""
        printed_ids = None
        if not answer:
            if fmt_obs is not None:
                hit("cli-output-differs-from-engine", "a %s result block is printed although the expected answer is empty (%s)" % (fmt_obs, path))
        else:
            tag("format." + want_fmt)
            tag("printed.%s" % ("1" if len(answer) == 1 else "2-5" if len(answer) <= 5 else "6+"))
            if len(answer) == limit:
                tag("answer-fills-limit")
            if len(set((docs[h["id"]].command, h["score"]) for h in answer)) < len(answer):
                tag("ties-in-answer")
            pairs_all = [(docs[h["id"]].command[:20] if want_fmt == "table" else docs[h["id"]].command,
                          b"" if want_fmt == "table" else docs[h["id"]].description) for h in answer]
            if fmt_obs is None:
                if want_fmt != "json" and in_rank_order(r.out, pairs_all):
                    # the results are on stdout, in rank order, in a layout whose first line the block finder does not know
                    layout_diffs.append("%s: no block in a known layout on stdout, but the engine's results are printed in rank order" % what[:200])
                    printed_ids = [h["id"] for h in answer]
                else:
                    hit("cli-output-differs-from-engine", "no result block on stdout; expected %d result(s) via %s" % (len(answer), path), expected=[docs[h["id"]].command.decode("utf-8", "replace") for h in answer])
            elif fmt_obs != want_fmt:
                if want_fmt != "json" and fmt_obs != "json" and in_rank_order(r.out[start:], pairs_all):
                    layout_diffs.append("%s: the block finder reads the block as %s (flags ask for %s); the engine's results are printed in rank order" % (what[:200], fmt_obs, want_fmt))
                    printed_ids = [h["id"] for h in answer]
                else:
                    hit("cli-output-differs-from-engine", "result block has format %s, flags ask for %s" % (fmt_obs, want_fmt))
            elif fmt_obs == "json":
                # judged a second time, after the loop, by Go's encoding/json (tool c17jsonparse)
                json_blocks.append((r, block, [[tok(x) for x in [docs[h["id"]].command, docs[h["id"]].description, docs[h["id"]].niche] +
                                                docs[h["id"]].keywords + docs[h["id"]].platform] for h in answer], what))
                for h in answer:
                    d = docs[h["id"]]
                    for f in [d.command, d.description, d.niche] + ((d.keywords + d.platform) if verbose else []):
                        for k in json_escapes_needed(f):
                            tag("json-string." + k)
                try:
                    arr = json.loads(block.decode("utf-8"))
                    if not isinstance(arr, list) or not all(isinstance(o, dict) for o in arr):
                        raise ValueError("not an array of objects")
                except Exception as ex:
                    arr = None
                    hit("cli-json-malformed", "result block does not parse as a JSON array of objects: %s" % ex)
                if arr is not None:
                    if len(arr) > limit:
                        hit("cli-more-than-limit", "%d JSON objects, limit in force %d (%s path)" % (len(arr), limit, path))
                    if len(arr) != len(answer):
                        hit("cli-json-object-count", "%d JSON objects for %d results (%s path)" % (len(arr), len(answer), path))
                    exp = expected_json(answer, docs, verbose)
                    ident = lambda objs: [(o.get("command"), o.get("description")) for o in objs]
                    if ident(arr) != ident(exp):
                        # the property's clause: exactly the engine's results, in rank order
                        k = next((i for i in range(min(len(arr), len(exp))) if ident(arr)[i] != ident(exp)[i]), min(len(arr), len(exp)))
                        hit("cli-output-differs-from-engine", "JSON object %d differs: printed %s expected %s" % (
                            k, json.dumps(arr[k])[:300] if k < len(arr) else "<none>", json.dumps(exp[k])[:300] if k < len(exp) else "<none>"))
                    elif arr != exp:
                        # the right results in the right order, but other members than the rendering oracle expects (say a new
                        # omitempty member): the tie to the regenerated rendering is broken, the property is not
                        k = next((i for i in range(min(len(arr), len(exp))) if arr[i] != exp[i]), min(len(arr), len(exp)))
                        layout_diffs.append("%s: JSON object %d has other members than the rendering oracle: printed %s expected %s" % (
                            what[:200], k, json.dumps(arr[k])[:300], json.dumps(exp[k])[:300]))
                        printed_ids = [h["id"] for h in answer]
                    else:
                        printed_ids = [h["id"] for h in answer]
            elif fmt_obs == "list":
                items, mode = parse_list(block, colors_on, colors_off)
                if items is None:
                    if in_rank_order(block, [(docs[h["id"]].command, docs[h["id"]].description) for h in answer]):
                        layout_diffs.append("%s: list block not in the layout the rendering oracle knows (%s); the results are there, in rank order" % (what[:200], mode))
                    else:
                        hit("cli-output-differs-from-engine", "list block unparsable: %s" % mode)
                else:
                    if len(items) > limit:
                        hit("cli-more-than-limit", "%d items printed, limit in force %d (%s path)" % (len(items), limit, path))
                    exp = expected_list_items(answer, docs, verbose)
                    got = [{k: it[k] for k in ("n", "cmd", "desc", "kw", "cat", "plat", "rel")} for it in items]
                    lid = lambda its: [(it["n"], it["cmd"], it["desc"]) for it in its]
                    if lid(got) != lid(exp):
                        k = next((i for i in range(min(len(got), len(exp))) if lid(got)[i] != lid(exp)[i]), min(len(got), len(exp)))
                        hit("cli-output-differs-from-engine", "%d items printed, %d expected (%s path); first difference at item %d: printed %s expected %s" % (
                            len(got), len(exp), path, k + 1, got[k] if k < len(got) else None, exp[k] if k < len(exp) else None))
                    elif got != exp:
                        # numbering, commands and descriptions are the engine's; a secondary line (keywords, category, platforms,
                        # relevance) is rendered otherwise than the oracle expects
                        k = next(i for i in range(len(got)) if got[i] != exp[i])
                        layout_diffs.append("%s: list item %d: printed %s, rendering oracle %s" % (what[:200], k + 1, got[k], exp[k]))
                        printed_ids = [h["id"] for h in answer]
                    else:
                        printed_ids = [h["id"] for h in answer]
                    if mode == "color" and nocolor:
                        hit("cli-escape-with-no-color", "items are decorated with escape sequences although %s" % ("--no-color" if fl["nocolor"] else "NO_COLOR is set"))
            else:  # table
                lines = block.split(b"\n", 2)
                body = lines[2] if len(lines) == 3 else b""
                exp_rows = expected_table_rows(answer, docs, verbose)
                got_rows = len(re.findall(rb"(?m)^\d+ +", body))
                if got_rows > limit:
                    hit("cli-more-than-limit", "%d table rows, limit in force %d (%s path)" % (got_rows, limit, path))
                if body != b"".join(exp_rows):
                    if got_rows == len(answer) and in_rank_order(body, [(docs[h["id"]].command[:20], b"") for h in answer]):  # whatever the column width: the start of each command
                        layout_diffs.append("%s: table rows are the engine's results in rank order but not byte for byte the rendering oracle's: printed %r expected %r" % (
                            what[:200], body[:300], b"".join(exp_rows)[:300]))
                        printed_ids = [h["id"] for h in answer]
                    else:
                        hit("cli-output-differs-from-engine", "table rows differ (%s path): printed %r expected %r" % (path, body[:400], b"".join(exp_rows)[:400]))
                else:
                    printed_ids = [h["id"] for h in answer]
                for h in answer:
                    for f, mx, keep in ((docs[h["id"]].command, 48, 45), (docs[h["id"]].niche, 24, 21)):
                        if len(f) > mx:
                            try:
                                f[:keep].decode("utf-8")
                            except UnicodeDecodeError:
                                tag("table-cut-inside-rune")
        # ---- escapes
        fields_esc = 0
        for h in answer:
            d = docs[h["id"]]
            if want_fmt == "list":
                fs = [d.command, d.description, d.niche] + ((d.keywords + d.platform) if verbose else [])
            elif want_fmt == "table":
                fs = [clip(d.command, 48, 45), clip(d.niche, 24, 21)]
            else:
                fs = []
            fields_esc += sum(f.count(ESC) for f in fs)
        if fields_esc:
            tag("esc-in-printed-field")
        if nocolor:
            tag("no-color." + ("flag" if fl["nocolor"] else "env"))
            db_has_esc = r.db_content is not None and (b"\\u001b" in r.db_content or ESC in r.db_content)
            if answer and fmt_obs and block.count(ESC) > fields_esc:
                hit("cli-escape-with-no-color", "%d ESC bytes in the result block, %d come from database fields" % (block.count(ESC), fields_esc))
            elif not db_has_esc and not e.get("fallback") and r.out.count(ESC) > 0:
                hit("cli-escape-with-no-color", "%d ESC bytes on stdout, none in the database" % r.out.count(ESC))
        elif answer and fmt_obs in ("list", "table") and fmt_obs == want_fmt:
            tag("colored")
        # ---- history
        before, hmax = load_history(r.hist_before)
        after_loaded = load_history(r.hist_after) if r.hist_after is not None else ([], 100)
        after = after_loaded[0]
        tag("history-before." + r.hist_kind)
        if accepted:
            clean = unhex(e["clean_hex"])
            new = (clean, len(answer))
            if before and before[-1][0] == clean:
                want_hist = before[:-1] + [new]
                tag("history.replaced-equal-last")
            else:
                want_hist = (before + [new])[-hmax:]
                if len(before) + 1 > hmax:
                    tag("history.trimmed")
            if r.hist_after is None or after != want_hist:
                hit("cli-history-not-one-newest-entry", "history after the search is %s, expected %s" % (
                    [(q.decode("utf-8", "replace"), n) for q, n in after[-3:]], [(q.decode("utf-8", "replace"), n) for q, n in want_hist[-3:]]))
        else:
            want_hist = before
            tag("history.must-stay-untouched")
            if r.hist_after != r.hist_before:
                hit("cli-history-not-one-newest-entry", "history file changed although the search was rejected before it ran")
        # ---- the same run on the model
        nontrivial = bool(answer) or (not accepted and before) or (accepted and not answer and before)
        if nontrivial:
            ctx.distinct.add(core.hashlib.sha1(repr((r.db_content, r.argv, sorted(r.env_extra.items()), r.hist_before, r.ctxkind)).encode()).hexdigest())
        case_ops, case_impl = [], []
        for i in sorted(docs):
            d = docs[i]
            case_ops.append("doc %d %s %s %s %s %s %s %s %s %s %s" % (
                i, tok(d.command), tok(d.description), tok(d.niche), toks(d.keywords), toks(d.platform),
                d.raw["j_command"], d.raw["j_description"], d.raw["j_niche"],
                ",".join(d.raw["j_keywords"]) or "-", ",".join(d.raw["j_platform"]) or "-"))
            case_impl.append("ok")
        case_ops.append("hist %d %s" % (hmax, ",".join("%s:%d" % (tok(q), n) for q, n in before) or "-"))
        case_impl.append("ok")
        hs = lambda hs_, p: ",".join("%d:%s:%s:%s%s" % (h["id"], h["bits"], tok(h["f1"].encode()), tok(h["json_score"].encode()), (":%d" % h["pass"]) if p else "") for h in hs_) or "-"
        case_ops.append("search %d %d %s %d %d %s %d %s %s %s" % (
            fl["limit"], verbose, tok(fl["format"].encode()), fl["nocolor"], r.env_nocolor,
            (e["clean_hex"] or "-") if e["query_ok"] else "!", e["load_ok"] if e["query_ok"] and e["limit_ok"] else 1, e.get("ctx_desc_hex") or "-",
            hs(e["engine"], False), "!" if e["recovery_err"] else hs(e["recovery"], True)))
        stage = "printed" if fmt_obs else ("nothing" if (r.hist_after != r.hist_before) else "rejected")
        ids_tok = ",".join(str(i) for i in printed_ids) if printed_ids else ("-" if not fmt_obs else "?")
        esc_tok = "x" if fields_esc else ("1" if (fmt_obs and ESC in block) else "0")
        hist_tok = ",".join("%s:%d" % (tok(q), n) for q, n in after) or "-"
        case_impl.append("%s %s %s %s %s %s" % (stage, ids_tok, fmt_obs or "list", esc_tok, hist_tok, tok(block)))
        ops.append("case %d cli\n%s" % (idx, "\n".join(case_ops)))
        impl.append("case %d\n%s" % (idx, "\n".join(case_impl)))
        if len(ctx.cov["samples"]) < 4 and answer:
            ctx.cov["samples"].append(dict(argv=r.argv, env=r.env_extra, path=path, limit_in_force=limit, printed=[docs[h["id"]].command.decode("utf-8", "replace") for h in answer][:5],
                                           history_newest=[after[-1][0].decode("utf-8", "replace"), after[-1][1]] if after else None))
    # ---- the JSON blocks, judged by Go's own decoder
    if json_blocks:
        reqs = "".join(json.dumps(dict(block_hex=b.hex(), want=len(t), texts_hex=[[x if x != "-" else "" for x in row] for row in t])) + "\n"
                       for _, b, t, _ in json_blocks)
        p = subprocess.run([core.HARNESS_BIN, "tool", "c17jsonparse"], input=reqs.encode(), stdout=subprocess.PIPE, stderr=subprocess.PIPE,
                           env=core.go_env(), timeout=1800)
        vs = [l for l in p.stdout.decode().split("\n") if l.strip()]
        ok = p.returncode == 0 and len(vs) == len(json_blocks)
        ctx.oblige("tool:c17jsonparse", "build", ok, "rc=%d, %d verdicts for %d blocks; stderr: %s" % (p.returncode, len(vs), len(json_blocks), p.stderr.decode(errors="replace")[-1500:]))
        if ok:
            for (r, b, t, what), l in zip(json_blocks, vs):
                v = json.loads(l)
                tag("json-block.judged-by-encoding/json")
                if v.get("class"):
                    cls = "cli-json-malformed" if v["class"] in ("json-block-invalid", "json-block-not-objects") else \
                          "cli-json-object-count" if v["class"] == "json-block-count" else "cli-output-differs-from-engine" if v["class"] == "json-block-roundtrip" else "cli-json-malformed"
                    ctx.hit(cls, "%s: Go's encoding/json on the printed block: %s: %s [%s]" % (cls, v["class"], v.get("detail", ""), what[:400]), replay_of(r))
    ctx.add_distribution({"cli." + k: v for k, v in dist.items()})
    # ---- model vs binary
    run = core.Run(ctx, "cli-model")
    run.set_ops("\n".join(ops) + "\n")
    open(run.impl_path, "w").write("\n".join(impl) + "\n")
    run.exec_model()
    run.load()
    if run.model_rc != 0:
        ctx.oblige("correspondence:cli-model:driver-exit", "correspondence", False, run.model_err[-2000:])

    def cmp_line(a, b):
        if a == b:
            return True
        ta, tb = a.split(" "), b.split(" ")
        if len(ta) != 6 or len(tb) != 6:
            return False
        # printed ids: the binary prints text, not ids ("?" = text differed from the expectation, already reported); escapes: "x" = fields carry ESC
        return all(x == y or (i == 3 and "x" in (x, y)) for i, (x, y) in enumerate(zip(ta, tb)))
    bad = run.diff(cmp_line)
    ctx.cov["traces_validated_against_impl"] += len(run.order) - len(bad)
    if bad:
        i, k, a, b = bad[0]
        r = runs[int(i)]
        ta, tb = a.split(" "), b.split(" ")
        names = ["stage", "printed ids", "format", "uses escapes", "history after", "result block"]
        diff = [names[j] for j in range(min(len(ta), len(tb), 6)) if ta[j] != tb[j]] if len(ta) == len(tb) == 6 else ["shape"]
        if b.startswith("oracle-differs-from-model jsonStr"):
            diff = ["json.Marshal of a database string differs from Wtf.JsonText.jsonStrModel (the string encoder json_wellformed is about)"]
        elif b.startswith("numok-violated"):
            diff = ["the real rendering of a printed score is not a JSON number token (hypothesis NumOK of json_wellformed)"]
        elif b.startswith("model-block-not-json"):
            diff = ["the model's own JSON block does not parse back to the expected value (Wtf.JsonText.parseText)"]
        detail = dict(mismatching_cases=len(bad), case=i, differs_in=diff, argv=r.argv, env=r.env_extra,
                      binary=[core.pretty(t) if j in (4, 5) else t for j, t in enumerate(ta)][:6], model=[core.pretty(t) if j in (4, 5) else t for j, t in enumerate(tb)][:6])
        # a difference between model and binary is a broken tie, not by itself a violation of the property: the property is
        # evaluated directly on the binary's own output above (hits); here only the correspondence is reported
        detail["replay"] = replay_of(r, model_line=b, binary_line=a)
        ctx.oblige("correspondence:cli-model", "correspondence", False, detail)
    else:
        ctx.oblige("correspondence:cli-model", "correspondence", True, "%d runs: stage, printed ids, format, escapes, history and result-block bytes agree with Wtf.Cli.cliSearch" % len(run.order))
    # the strict rendering oracle (every member / secondary line / byte of the block) is a tie to the code, not the property:
    # when it disagrees while the engine's results are printed in rank order, that is a broken obligation without an input
    ctx.oblige("correspondence:cli-rendering-oracle", "correspondence", not layout_diffs,
               ("%d runs print the engine's results in rank order but not in the form the rendering oracle expects; first: %s" % (len(layout_diffs), layout_diffs[0]))
               if layout_diffs else "every printed block is, member for member and byte for byte, what the rendering oracle expects")
    ctx.oblige("hypothesis:answers-sorted-and-bounded", "correspondence", n_hyp_bad == 0,
               "engine / recovery answers sorted by score and engine answer within Limit on all %d runs (hypotheses of prints_engine / limit)" % len(runs))
    # every path must have been reached
    need = ["path.engine", "path.recovery", "recovery.cut-by-limit", "recovery.gated-by-platform", "path.nothing", "path.rejected", "format.list", "format.table", "format.json",
            "no-color.flag", "no-color.env", "colored", "history.replaced-equal-last", "history.must-stay-untouched", "answer-fills-limit",
            # strings of printed JSON objects that need each class of encoding/json's escapes (Props/C17b)
            "json-string.quote-backslash", "json-string.html", "json-string.control", "json-string.u2028", "json-string.invalid-utf8",
            "json-string.astral", "json-string.non-ascii", "json-block.judged-by-encoding/json"]
    if use_fuzzy:
        need.append("path.fuzzy")
    missing = [k for k in need if not dist.get(k)]
    ctx.oblige("coverage:every-path-reached", "coverage", not missing, "missing: %s; distribution: %s" % (missing, json.dumps(dist, sort_keys=True)))


# ---------------------------------------------------------------------------------------------
# every sub-command with generated argument vectors
# ---------------------------------------------------------------------------------------------

HOSTILE_ARGS = ["", " ", "\n", "\na", "a\nb", "\x1b[2J", "-", "--", "---", "-x", "--bogus", "--limit", "'", '"', "\\", "$(id)", "`id`", "a b", "日本語", "\U0001F600",
                "%s%n", "x" * 5000, "../x", "../../y", ".", "a/b", "|", ";", "&&", "*", "~", "\t", "\udcff\udcfe", "--help", "-h", "tar", "find", "ffmpeg"]


def subcommand_stream(ctx, wtf, n):
    rnd = random.Random(ctx.seed * 7919 + 3)
    root = os.path.join(ctx.rundir, "sub")
    dist = {}
    db, _ = gen_db(rnd, "plain")
    os.makedirs(root, exist_ok=True)
    dbpath = os.path.join(root, "db.yml")
    open(dbpath, "wb").write(db)

    def args(k):
        return [rnd.choice(HOSTILE_ARGS) if rnd.random() < 0.6 else rnd.choice(WORDS) for _ in range(k)]

    def gen(cmd):
        nargs = rnd.choice([0, 1, 2, 2, 3])
        stdin = None
        if cmd == "save":
            fl = rnd.choice([[], ["-k", "a,b"], ["--keywords", rnd.choice(HOSTILE_ARGS)], ["-c", rnd.choice(HOSTILE_ARGS)], ["--platforms", "linux,macos"], ["--pipeline"],
                             ["-p", "linux"], ["--platforms=" + rnd.choice(HOSTILE_ARGS)], ["--bogus"], ["-k"], ["--pipeline=maybe"]])
            return ["save"] + fl + (["--"] if rnd.random() < 0.3 else []) + args(nargs), stdin
        if cmd == "save-pipeline":
            fl = rnd.choice([[], ["--description", rnd.choice(HOSTILE_ARGS)], ["-k", "x"], ["-c", "cat"], ["--platforms", "linux"], ["-p", "windows"], ["--pipeline"], ["--description"]])
            a = args(nargs)
            if a and rnd.random() < 0.5:
                a[-1] = rnd.choice(["cat f | grep x | sort", "a|b|c|d", "|", "find . | awk '{print $1}' | sed s/a/b/"])
            return ["save-pipeline"] + fl + a, stdin
        if cmd == "pipeline":
            fl = rnd.choice([[], ["--limit", rnd.choice(["0", "-1", "1", "101", "4611686018427387904", "9223372036854775807", "99999999999999999999", "x"])], ["-v"],
                             ["--database", rnd.choice([dbpath, "/nonexistent/db.yml", "", root])], ["--format", "json"], ["--all-platforms"]])
            return ["pipeline"] + fl + (args(nargs) if rnd.random() < 0.6 else [rnd.choice(["text", "grep sort", "find files"])]), stdin
        if cmd == "search":
            fl = rnd.choice([[], ["--limit", rnd.choice(["4611686018427387904", "-9223372036854775808", "99999999999999999999", "x", "1e3", ""])], ["--format"], ["--platform"],
                             ["--platform", rnd.choice(HOSTILE_ARGS)], ["--database", rnd.choice(["/nonexistent/db.yml", "", root, "/dev/null", "/proc/self/mem"])],
                             ["--no-color=x"], ["-vvv"], ["-a", "-a"], ["--bogus=1"], ["-l"], ["-p", ",,,"], ["--database", dbpath, "-v"]])
            return rnd.choice([["search"], []]) + fl + args(nargs), stdin
        if cmd == "history":
            fl = rnd.choice([[], ["--top"], ["-t"], ["--stats"], ["-s"], ["--clear"], ["-c"], ["-l", rnd.choice(["0", "-3", "1", "1000000", "x"])], ["--top", "-l", "-1"],
                             ["--top", "--stats", "--clear"], ["--limit=2"], ["-tsc"], ["--bogus"]])
            return ["history"] + fl + (args(rnd.choice([0, 0, 1, 2]))), stdin
        if cmd == "alias":
            sub = rnd.choice([[], ["list"], ["add"], ["remove"], ["bogus"], ["add", "add"], ["list", "x"]])
            a = [x for x in args(rnd.choice([0, 1, 1, 2])) if x.count("..") <= 2 and not x.startswith("/")]
            return ["alias"] + sub + a, stdin
        if cmd == "setup":
            return ["setup"] + [x for x in args(rnd.choice([0, 1, 1, 2]))], stdin
        if cmd == "wizard":
            a = rnd.choice([[], ["tar"], ["find"], ["ffmpeg"], ["TAR"], ["bogus"], ["tar", "x"], [rnd.choice(HOSTILE_ARGS)]])
            mode = rnd.choice(["closed", "closed", "answers", "garbage", "blank"])
            if mode == "answers":
                stdin = "".join(rnd.choice(["1", "2", "3", "4", "y", "n", "yes", "out.tar.gz", "*.go", "dir", "9", ""]) + "\n" for _ in range(rnd.randint(1, 12))).encode()
            elif mode == "garbage":
                stdin = bytes(rnd.randrange(256) for _ in range(rnd.randint(1, 300)))
            elif mode == "blank":
                stdin = b"\n" * rnd.randint(1, 5)
            return ["wizard"] + a, stdin
        if cmd == "help":
            return rnd.choice([["--help"], ["-h"], ["help"], ["help", rnd.choice(["search", "save", "save-pipeline", "pipeline", "history", "alias", "setup", "wizard", "bogus"])],
                               ["--version"], ["-v"], [], ["completion", "bash"], ["completion"], [rnd.choice(["save", "history", "alias", "alias", "wizard", "setup", "pipeline", "save-pipeline", "search"]), "--help"],
                               ["alias", "add", "--help"], ["frobnicate"], ["frobnicate", "--database", dbpath], ["--bogus"], ["-z"], ["help", "alias", "add"]]), stdin
        raise AssertionError(cmd)

    cmds = ["save", "save-pipeline", "pipeline", "search", "history", "alias", "setup", "wizard", "help"]
    bad = hung = 0
    for i in range(n):
        if hung >= 4:  # a hanging command: the point is made, do not wait for every other instance
            break
        cmd = cmds[i % len(cmds)]
        d = os.path.join(root, "r%d" % (i % 40))  # homes are reused so that notebooks / histories / aliases accumulate
        home, cwd = os.path.join(d, "a", "b", "home"), os.path.join(d, "cwd")
        os.makedirs(os.path.join(home, ".config"), exist_ok=True)
        os.makedirs(cwd, exist_ok=True)
        if rnd.random() < 0.1:
            open(os.path.join(home, ".bashrc"), "a").write("# rc\n")
        if rnd.random() < 0.05:
            os.makedirs(os.path.join(home, ".config", "wtf"), exist_ok=True)
            open(os.path.join(home, ".config", "wtf", "search_history.json"), "wb").write(rnd.choice([b"{", b'{"entries":[],"max_size":-4}', b"[]"]))
        if rnd.random() < 0.05:
            os.makedirs(os.path.join(home, ".config", "cmd-finder"), exist_ok=True)
            open(os.path.join(home, ".config", "cmd-finder", "personal.yml"), "wb").write(rnd.choice([b"- command: [\n", b"x: y\n", b""]))
        argv, stdin = gen(cmd)
        if cmd == "history" and rnd.random() < 0.6:
            # a populated history and a pattern that matches it: the listing / filtering code then runs over real entries with
            # whatever --limit was given (negative, zero, larger than the number of matches)
            ws = rnd.sample(WORDS, 4)
            ents = [dict(query=ws[j % 4] + " " + rnd.choice(WORDS), timestamp="2024-01-1%dT01:04:05Z" % j, results_count=j, context="seeded") for j in range(rnd.randint(1, 9))]
            os.makedirs(os.path.join(home, ".config", "wtf"), exist_ok=True)
            open(os.path.join(home, ".config", "wtf", "search_history.json"), "w").write(json.dumps(dict(entries=ents, max_size=100)))
            argv = ["history"] + rnd.choice([[], ["-l", rnd.choice(["-1", "-7", "0", "1", "2", "50"])], ["--limit=" + rnd.choice(["-1", "0", "3"])], ["--top", "-l", rnd.choice(["-1", "0", "2"])]]) + \
                rnd.choice([[ws[0]], [ws[1][:2]], [ws[0].upper()], [], ["zzzz"]])
        argv = [a.replace("\x00", "") for a in argv]
        try:
            argv_b = [a.encode("utf-8", "surrogateescape") for a in argv]
        except Exception:
            argv_b = [a.encode("utf-8", "replace") for a in argv]
        env = base_env(home)
        if rnd.random() < 0.3:
            env["NO_COLOR"] = "1"
        r = rnd.random()
        if r < 0.04:      # no HOME at all: every path becomes relative to the (scratch) working directory
            env.pop("HOME"); env.pop("XDG_CONFIG_HOME")
        elif r < 0.08:    # a relative XDG_CONFIG_HOME is refused by os.UserConfigDir: the history falls back to $HOME/.wtf
            env["XDG_CONFIG_HOME"] = "relative/config"
        elif r < 0.10:    # configuration directory is a file
            env["XDG_CONFIG_HOME"] = os.path.join(home, ".bashrc")
            open(os.path.join(home, ".bashrc"), "a").write("# rc\n")
        rc, out, err, timed_out = run_binary(wtf, argv_b, env, cwd, stdin=stdin, timeout=10)
        hung += timed_out
        ctx.cov["evaluations"] += 1
        dist["sub." + cmd] = dist.get("sub." + cmd, 0) + 1
        dist["sub.exit-%s" % rc] = dist.get("sub.exit-%s" % rc, 0) + 1
        if timed_out or rc not in (0, 1) or PANIC_RE.search(out) or PANIC_RE.search(err):
            bad += 1
            ctx.hit("cli-crash", "cli-crash: wtf %s -> exit status %s%s: %s" % (" ".join(json.dumps(a) for a in argv)[:300], rc, " (timeout)" if timed_out else "", printable(err or out, 300)),
                    dict(kind="impl-counterexample", cli=True, argv=argv, stdin=(stdin.decode("latin-1") if stdin else None), exit_status=rc, timeout=timed_out,
                         stdout=printable(out, 2000), stderr=printable(err, 3000)))
        elif len(ctx.cov["samples"]) < 7 and cmd in ("save", "wizard", "history"):
            ctx.cov["samples"].append(dict(argv=argv, stdin=(stdin.decode("latin-1")[:60] if stdin else None), exit_status=rc, stdout_head=printable(out, 120)))
        ctx.distinct.add("sub:" + repr((argv, stdin)))
    ctx.add_distribution({"cli." + k: v for k, v in dist.items()})
    ctx.oblige("subcommands:start-and-finish", "correspondence", bad == 0, "%d runs over %s, %d crashed / hung" % (n, cmds, bad))


# ---------------------------------------------------------------------------------------------

def run(ctx):
    ctx.stage_xlate(required_assertions=ASSERTIONS)
    ctx.stage_prove(THEOREMS, extra_targets=["WtfModel.Props.C17b", "WtfModel.Audit.C17b"])
    if not ctx.stage_build():
        return
    with core.BuildLock():
        ok, out, wtf = core.build_wtf_binary()
    ctx.oblige("build:wtf-binary", "build", ok, out)
    if not ok:
        return
    opts = ctx.facts.get("cli.searchOptions")
    colors = ctx.facts.get("cli.colors")
    if not isinstance(opts, dict) or not isinstance(colors, dict) or not all(k in colors for k in ("bold", "reset", "cyan", "yellow")):
        ctx.oblige("translator:cli-facts", "translator", False, "facts cli.searchOptions / cli.colors missing: %r %r" % (opts, colors))
        # The property is no longer shown to hold; the search for a failing input goes on with the values these facts had when
        # the file below was written (HEAD of the unchanged tree).  Since they may no longer describe the code, only monitors
        # that do not depend on them may speak: crashes, and ESC bytes on stdout of a colourless run over a database without any.
        last = json.load(open(os.path.join(os.path.dirname(os.path.abspath(__file__)), "c17_lastgood_facts.json")))
        opts, colors = last["cli.searchOptions"], last["cli.colors"]
        ctx.c17_facts_stale = True
    quick = ctx.tier == "quick"
    # the binary is copied so that a concurrent rebuild cannot change it under the run
    mine = os.path.join(ctx.rundir, "wtf")
    shutil.copy2(wtf, mine)
    search_stream(ctx, mine, 100 if quick else 1200, opts, colors)
    subcommand_stream(ctx, mine, 315 if quick else 4500)


def replay(ctx, rep):
    """./check C17 --replay file : re-run the recorded command line on the current tree."""
    f = rep.get("failing") or {}
    if not f.get("cli"):
        print(json.dumps(rep, indent=1)[:4000])
        return 0
    ok, out, wtf = core.build_wtf_binary()
    if not ok:
        print(out)
        return 1
    d = os.path.join(ctx.rundir, "replay")
    home, cwd = os.path.join(d, "a", "b", "home"), os.path.join(d, "cwd")
    os.makedirs(os.path.join(home, ".config", "wtf"), exist_ok=True)
    os.makedirs(cwd, exist_ok=True)
    argv = list(f["argv"])
    if f.get("database") is not None:
        p = os.path.join(d, "db.yml")
        open(p, "wb").write(f["database"].encode("utf-8", "backslashreplace"))
        for i, a in enumerate(argv):
            if a.endswith("db.yml"):
                argv[i] = a[:len(a) - len(a.split("=")[-1])] + p if "=" in a else p
    if f.get("history_before") is not None:
        open(os.path.join(home, ".config", "wtf", "search_history.json"), "w").write(f["history_before"])
    env = base_env(home)
    env.update(f.get("env") or {})
    rc, o, e, to = run_binary(wtf, [a.encode("utf-8", "surrogateescape") for a in argv], env, cwd, stdin=(f["stdin"].encode("latin-1") if f.get("stdin") else None))
    print("argv:", argv, "\nexit status:", rc, "(timeout)" if to else "", "\nstdout:\n" + o.decode("utf-8", "backslashreplace"), "\nstderr:\n" + e.decode("utf-8", "backslashreplace"))
    hp = os.path.join(home, ".config", "wtf", "search_history.json")
    print("history after:", open(hp).read() if os.path.exists(hp) else None)
    shutil.rmtree(ctx.rundir, ignore_errors=True)
    return 1 if (rc not in (0, 1) or PANIC_RE.search(o) or PANIC_RE.search(e)) else 0
