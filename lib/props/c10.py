"""C10 — no input crashes the engine: any database file, any query, any options."""
import os, resource, subprocess, time
import core

PROP = dict(
    id="C10",
    level="proof",
    technique="Lean 4: total model functions with Go's partial operations in Except, panic-freedom theorem for the search model (NUL-free fuzzy targets), loader error classification over regenerated table; process-level hostile-input runs of every entry point under recover/time/memory limits",
    level_text=("Every modelled engine function is a total Lean function (termination checked by the kernel) in which Go's partial operations "
                "(index, slice) are explicit `Except` values, and the panic class of every generated search is compared between model and real code. "
                "Theorems: the typo fallback cannot index out of range because its targets are NUL-free by construction (with a witness that a NUL does "
                "panic the matcher), result-buffer sizing never requests a negative capacity for any limit, the loader's error classification maps a missing "
                "file to not-found and undecodable content to a parse error (regenerated decision table). What no model here contains — yaml.v3, regexp, "
                "time and memory bounds — is exercised by the `crash` domain: generated files of every YAML shape, damaged YAML and binary through "
                "LoadDatabase, then NUL / invalid-UTF-8 / 1000-byte queries and extreme option values through all ten search entry points, suggestions and "
                "the recovery searches, each call under recover(), with a wall-clock limit per call and an address-space limit on the process."),
    level_note=("Partial: no theorem about yaml.v3, regexp (RE2 is linear-time by design), memory use or a time bound — only totality of the model and the "
                "process-level runs. Trusted: Lean kernel, harness, the Go runtime's recover()."),
    design_ref="DESIGN.md section 6, C10",
    rule=("crash domain: 1-3 generated files per case (41 hand-written YAML shapes, encoder output possibly truncated or byte-flipped, random binary, deep nesting) each "
          "followed by 2-8 hostile (entry point, query, options) calls; non-trivial = a case in which a file loaded or was rejected AND at least one call used a hostile "
          "query or extreme option; distinct = distinct op sequences"),
    assumptions=["limits on the harness process: RLIMIT_AS 8 GiB, 5 s per call, overall timeout"],
)

THEOREMS = ["Wtf.C10." + t for t in ("fuzzy_target_nul_free", "buffer_cap_safe", "buffer_cap_exact", "nul_panics_matcher", "search_panic_only_from_matcher")] + \
    ["Wtf.C07.no_panic", "Wtf.C07.accepts_iff_subseq"]


def _limits():
    resource.setrlimit(resource.RLIMIT_AS, (8 << 30, 8 << 30))


def run(ctx):
    ctx.stage_xlate(required_assertions=["legacy:resultsBufferCap", "legacy:resultsBufferCap-shape",
                                         "legacy:SearchWithOptions-uses-resultsBufferCap", "legacy:SearchWithPipelineOptions-uses-resultsBufferCap"])
    ctx.stage_prove(THEOREMS)
    if not ctx.stage_build():
        return
    quick = ctx.tier == "quick"
    # model/real panic-class agreement on the ordinary search stream (NUL bytes included in commands there too)
    ctx.correspond("search", 150 if quick else 4000, name="search-panic-class", shrink=False,
                   nontrivial=lambda t, o, i: t.get("nonempty", 0) > 0)
    # hostile inputs: real code only
    n = 500 if quick else 20000
    r = core.Run(ctx, "crash")
    r.gen("crash", n, ctx.seed, ctx.tier)
    t0 = time.time()
    try:
        with open(r.ops_path, "rb") as i, open(r.impl_path, "wb") as o:
            p = subprocess.run([core.HARNESS_BIN, "exec", "-mon", r.mon_path], stdin=i, stdout=o, stderr=subprocess.PIPE,
                               env=core.go_env(), timeout=600 if quick else 7200, preexec_fn=_limits)
        rc, err = p.returncode, p.stderr.decode(errors="replace")
    except subprocess.TimeoutExpired:
        rc, err = -9, "timeout: the harness did not finish (a call hangs)"
    r.impl_rc, r.impl_err = rc, err
    r.load()
    done = len(r.impl)
    ctx.oblige("crash:harness-finished", "correspondence", rc == 0 and done == len(r.order),
               "exit=%s cases done=%d/%d %s" % (rc, done, len(r.order), err[-800:]))
    if rc != 0 or done != len(r.order):
        idx = r.order[done] if done < len(r.order) else r.order[-1]
        ctx.hit("process-died-or-hung", "harness died or hung in case %s: %s" % (idx, err[-300:]),
                dict(kind="impl-counterexample", domain="crash", seed=ctx.seed, case=idx, ops=r.ops.get(idx, []), stderr=err[-2000:]))
    ctx.cov["evaluations"] += len(r.order)
    tot, per = r.tags()
    ctx.add_distribution({"crash." + k: v for k, v in tot.items()})
    import hashlib
    for idx in r.order:
        t = per.get(idx, {})
        if any(k.startswith("load-") for k in t) and any(k.startswith("ep-") for k in t):
            ctx.distinct.add(hashlib.sha1("\n".join(r.ops[idx]).encode()).hexdigest())
    for idx in r.order[:2]:
        ctx.cov["samples"].append(dict(domain="crash", ops=[core.pretty(l)[:160] for l in r.ops[idx][:6]], impl=r.impl.get(idx, [])[:6]))
    for h in r.hits:
        if h.get("prop") != "C10":
            continue
        ops = r.ops.get(str(h.get("case")), [])
        ctx.hit(h.get("class"), "%s: %s" % (h.get("class"), str(h.get("detail"))[:300]),
                dict(kind="impl-counterexample", domain="crash", seed=ctx.seed, case=h.get("case"), ops=ops, detail=h.get("detail"), **{"class": h.get("class")}))
    ctx.log("crash domain: %d cases in %.1fs" % (len(r.order), time.time() - t0))
