"""C20 — letter case and spare whitespace in the query never change the answer."""
import re
import json, os, random, shutil, subprocess, tempfile
import core

PROP = dict(
    id="C20",
    level="proof",
    technique="Lean 4 theorems: the search model factors through the query's normal form; ToLower identifies case variants (incl. fast-path equivalence); exhaustive Unicode-table facts from the Go toolchain; paired re-spelling / padding runs on the real engine and the built CLI",
    level_text=("Theorems (WtfModel/Props/C20.lean): the model of SearchUniversal depends on the query only through "
                "ToLower(TrimSpace(q)) on every path and for all options; strings.ToLower as modelled identifies any two byte strings whose "
                "runes have pairwise equal lower-case forms (proved incl. the all-ASCII fast path, a complete 128-entry table by decide); hence case "
                "variants and outer padding get identical answers and the same cache-key component. The model's normal form is validated against Go's "
                "on generated strings with per-case Unicode facts; the exception sets of the toolchain's Unicode tables are recomputed exhaustively over "
                "all code points on every run and compared with the expectation {U+0130, U+212A} / {U+0130}. The monitor re-spells every generated query "
                "(random member of each rune's simple-fold orbit with equal lower-case form, plus outer padding from the Unicode white-space set) and "
                "compares answers bitwise on lexical, NLP and fuzzy paths; CLI runs compare printed results for case/whitespace variants."),
    level_note=("Trusted: Lean kernel; the translator's fact that SearchUniversal normalises its query first (checked in C05) together with the bit-exact "
                "correspondence of the search model; Go's unicode tables (dumped per case, exception sets recomputed exhaustively); inner repeated white space "
                "is removed by ValidateQuery before the engine is called (C14.pad), which the CLI runs exercise."),
    design_ref="DESIGN.md section 6, C20",
    rule=("generated databases with case-bearing non-ASCII letters; every request is re-run with VERIF_RESPELL variants; non-trivial = a re-spelled or padded "
          "variant different from the original was compared on a non-empty answer; distinct = distinct op sequences"),
    assumptions=["domain: code points whose lower-casing agrees with simple case folding (all except U+0130, recomputed on every run)"],
)

THEOREMS = ["Wtf.C20." + t for t in ("search_normal_form", "toLower_caseVariant", "case_insensitive", "padding_insensitive", "same_key_component")]
EXPECT = {"ascii-by-lower": "U+0130,U+212A", "lower-not-in-fold-orbit": "U+0130", "lower-not-idempotent": "", "lower-breaks-letnum": ""}


def nontrivial(tags, ops, impl):
    return tags.get("respelled-nonempty", 0) > 0


def cli_pairs(ctx, n):
    ok, out, wtf = core.build_wtf_binary()
    ctx.oblige("build:wtf-binary", "build", ok, out)
    if not ok:
        return
    rnd = random.Random(ctx.seed)
    tmp = tempfile.mkdtemp(prefix="c20cli", dir=core.BUILD)
    try:
        db = os.path.join(tmp, "db.yml")
        open(db, "w").write("""- command: ls -la
  description: List files in a directory with details
  keywords: [list, files, directory]
  platform: [linux, macos]
  pipeline: false
- command: tar -czf archive.tar.gz dir
  description: Compress a directory into an archive
  keywords: [compress, archive, tar]
  pipeline: false
- command: look up kelvin temperature
  description: look for words
  keywords: [look]
  pipeline: false
- command: git commit -m msg
  description: Commit staged changes
  keywords: [git, commit]
  pipeline: false
- command: kubectl get pods --all-namespaces
  description: Show every workload unit that the orchestrator currently schedules across the whole cluster, with their states
  keywords: [cluster]
  pipeline: false
- command: kubeadm token list
  description: Enumerate the bootstrap credentials that new machines may present when they ask to join the control plane
  keywords: [cluster]
  pipeline: false
- command: sort names.txt | uniq -c
  description: sort lines and count duplicate lines
  keywords: [sort, count, lines]
  pipeline: true
- command: cat access.log | sort | head -n 20
  description: sort a log and show the first lines
  keywords: [sort, log]
  pipeline: true
- command: grep error app.log | wc -l
  description: count matching lines
  keywords: [count, lines, grep]
  pipeline: true
- command: helm upgrade release chart
  description: Roll a packaged application forward on a kubernetes cluster reached through the kubeconfig context, as skaffold would, keeping history
  keywords: [cluster]
  pipeline: false
- command: skaffold dev --port-forward
  description: Rebuild and redeploy continuously while source files change, forwarding the declared service endpoints locally
  keywords: [cluster]
  pipeline: false
""")
        env = dict(os.environ, HOME=os.path.join(tmp, "h"), XDG_CONFIG_HOME=os.path.join(tmp, "h", ".config"), NO_COLOR="1")
        os.makedirs(env["XDG_CONFIG_HOME"], exist_ok=True)

        def run(q):
            p = subprocess.run([wtf, "--database", db, "--format", "json", "--all-platforms", "--limit", "5", q], env=env, cwd=tmp,
                               stdout=subprocess.PIPE, stderr=subprocess.PIPE, text=True, timeout=60)
            s = p.stdout
            i = s.find("[")
            try:
                return [x["command"] for x in json.loads(s[i:])] if i >= 0 else []
            except Exception:
                return ["<unparsable>", s[-200:]]
        base = ["list files", "compress directory", "look", "git commit", "kelvin", "comprss directry", "lst fils"]
        # queries that only the CLI's last-resort recovery search answers: a first word sharing no letter
        # sequence with any entry (so lexical and typo search find nothing) followed by a fragment of a command
        cmd_words = ["archive", "commit", "kelvin", "temperature", "directory", "staged", "words"]
        def recovery_query():
            w = rnd.choice(cmd_words)
            i = rnd.randrange(0, max(1, len(w) - 3))
            return rnd.choice(["qzxj", "jqxz", "zzqj"]) + " " + w[i:i + rnd.randint(3, 5)]
        bad = 0
        for k in range(n):
            q = recovery_query() if k % 2 else rnd.choice(base)
            if k % 5 == 4:
                # a short fragment of a command NAME (no indexed token, too weak a typo match against the long
                # descriptions): only the recovery search's whole-query substring strategy answers it
                q = rnd.choice(["kub", "kube", "skaf", "kaff", "kubea", "kubec", "ube", "bectl"])
            if k % 7 == 3:
                # a recovery-only query that opens with words the engine drops as filler ("how to ...", "the ..."): the first-word
                # strategy of the recovery search answers it from the filler word itself ("how" is part of "show")
                q = rnd.choice(["how to", "how", "the", "what is the", "show me how to"]) + " " + rnd.choice(["qzxj", "jqxz", "zzqj"])
            v = "".join(c.upper() if rnd.random() < 0.5 else c for c in q)
            if k % 7 == 3 and rnd.random() < 0.5:
                v = q.title()
            if ("k" in v or "K" in v) and rnd.random() < (0.85 if k % 5 == 4 else 0.5):
                # U+212A KELVIN SIGN lower-cases to 'k' (and is three bytes long: length-preserving fold compares miss it)
                v = re.sub("[kK]", "\u212a", v, count=1)
            # padding: ASCII and Unicode white space (everything unicode.IsSpace accepts), leading, trailing and repeated
            v = rnd.choice(["", " ", "  ", "\t", "\u00a0", " \u3000"]) + \
                v.replace(" ", rnd.choice([" ", "  ", " \t ", " \u00a0", "\u2003 ", " \u3000 ", "\u00a0 \u2009"])) + rnd.choice(["", " ", "\n", "\u00a0", " \u2028"])
            a, b = run(q), run(v)
            ctx.cov["evaluations"] += 1
            if a:
                ctx.distinct.add("cli:" + q + "|" + v)
                ctx.add_distribution({"cli.recovery-filler-led-answered" if k % 7 == 3 else ("cli.recovery-substring-answered" if k % 5 == 4 else "cli.recovery-answered") if (k % 2 or k % 5 == 4) else "cli.engine-answered": 1})
            if a != b:
                bad += 1
                ctx.hit("cli-case-or-whitespace-changes-output", "wtf %r -> %s but %r -> %s" % (q, a, v, b),
                        dict(kind="impl-counterexample", cli=True, query=q, variant=v, answer=a, variant_answer=b, database=open(db).read()))
        # the same for `wtf pipeline` (the legacy keyword scorer): queries that repeat a word, re-spelled word by word
        def run_pipeline(q):
            p = subprocess.run([wtf, "pipeline", "--database", db, "--limit", "5", q], env=env, cwd=tmp, stdout=subprocess.PIPE, stderr=subprocess.PIPE, text=True, timeout=60)
            return [l.strip() for l in p.stdout.split("\n") if re.match(r"^\d+\. ", l.strip())]
        pbase = ["sort sort lines", "count count lines sort", "sort lines", "count lines", "lines lines lines count", "log sort log"]
        for k in range(max(6, n // 4)):
            q = rnd.choice(pbase)
            v = " ".join(rnd.choice([w, w.upper(), w.capitalize(), w[:-1] + w[-1].upper()]) for w in q.split(" "))
            v = rnd.choice(["", " "]) + v.replace(" ", rnd.choice([" ", "  "])) + rnd.choice(["", " "])
            a, b = run_pipeline(q), run_pipeline(v)
            ctx.cov["evaluations"] += 1
            if a:
                ctx.distinct.add("cli-pipeline:" + q + "|" + v)
                ctx.add_distribution({"cli.pipeline-answered": 1})
            if a != b:
                bad += 1
                ctx.hit("cli-case-or-whitespace-changes-output", "wtf pipeline %r -> %s but %r -> %s" % (q, a, v, b),
                        dict(kind="impl-counterexample", cli=True, subcommand="pipeline", query=q, variant=v, answer=a, variant_answer=b, database=open(db).read()))
        ctx.oblige("cli:paired-case-whitespace-runs", "correspondence", bad == 0, "%d pairs, %d differ" % (n, bad))
        ctx.cov["samples"].append(dict(cli_query=base[0], note="paired with random case / whitespace variants"))
    finally:
        shutil.rmtree(tmp, ignore_errors=True)


def run(ctx):
    ctx.stage_xlate()
    ctx.stage_prove(THEOREMS)
    if not ctx.stage_build():
        return
    # exhaustive Unicode facts of the toolchain the text model relies on
    p = subprocess.run([core.HARNESS_BIN, "tool", "unicode-facts"], stdout=subprocess.PIPE, stderr=subprocess.PIPE, text=True, env=core.go_env())
    facts = dict(l.split(" ", 1) if " " in l else (l, "") for l in p.stdout.strip().split("\n"))
    for k, v in EXPECT.items():
        ctx.oblige("unicode:" + k, "translator", facts.get(k, "?").strip() == v, "got %r expected %r (all 0x110000 code points enumerated)" % (facts.get(k), v))
    quick = ctx.tier == "quick"
    os.environ["VERIF_RESPELL"] = "4" if quick else "12"
    try:
        ctx.correspond("search", 250 if quick else 6000, name="search-c20", args={"stream": "c20"}, shrink=False, nontrivial=nontrivial)
        ctx.correspond("search", 150 if quick else 3000, name="search-random", shrink=False, nontrivial=nontrivial, seed_offset=5)
    finally:
        os.environ.pop("VERIF_RESPELL", None)
    cli_pairs(ctx, 40 if quick else 400)
