"""Translator sites of the LRU method bodies (xlate/x_lrucode.go -> Gen/LruCode.lean; Proofs/LruCode.lean, Props/C12b.lean):
required by every check whose theorems are stated over the LRU model (C12, C05, C11)."""
METHODS = ("Get", "Put", "Delete", "Clear", "CleanupExpired", "Size", "evictOldest")
ASSERTIONS = (["lrucode:" + m for m in METHODS] + ["lrucode:%s:params" % m for m in METHODS] + ["lrucode:%s:body" % m for m in METHODS]
              + ["lrucode:removeElement", "lrucode:removeElement:body", "lrucode:no-other-writer"])
THEOREMS = ["Wtf.C12." + t for t in ("step_regenerated", "run_regenerated", "evictOldest_regenerated", "bounded_regenerated")]
