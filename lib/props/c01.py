"""C01 — search returns a bounded, ranked, duplicate-free list of real entries."""
import json
import os
import subprocess

import core
from props import nlpboosts
from props import gosort

PROP = dict(
    id="C01",
    level="proof",
    technique=("Lean 4 theorems over the executable model of SearchUniversal (all paths), of the legacy pipeline search and of the "
               "CLI's recovery step; inline literals and code shapes regenerated from the source (params_match); bit-level differential "
               "correspondence with the real entry points incl. the built `wtf` binary; independent monitors on every entry point"),
    level_text=("Kernel-checked theorems (WtfModel/Props/C01.lean), for every ordered-field score type, database, query and option record "
                "(any limit, any boosts incl. negative/zero, every flag combination) and every value of the model's parameters satisfying "
                "TuningWF: the answer of the SearchUniversal model — whichever of the lexical, NLP-enhanced or typo-fallback paths produced it — "
                "has at most effLimit entries (the requested limit, or the default 10 for a non-positive one), only valid positions of the "
                "searched database, no position twice, non-increasing scores, all scores >= 0 (typo answers also <= 1); the same five clauses "
                "for SearchWithPipelineOptions with the legacy scorer uninterpreted (no hypotheses), and for the CLI step "
                "'engine answer, else filtered recovery answer cut to the limit in force'. The model is tied to the code by facts regenerated "
                "on every run (every inline literal and the truncation / clamp / sort shapes, theorem params_match; BM25F parameters proved "
                "sane from the regenerated rationals), by end-to-end correspondence on generated cases (SearchUniversal, "
                "SearchWithPipelineOptions, RecoverFromSearchFailure in-process; the built `wtf search` binary for the CLI step), and the "
                "property itself is evaluated on the real floats of every answer of every entry point (Search, SearchUniversal, cached miss + hit, "
                "pipeline, recovery, CLI), incl. the shipped 6,619-entry database."),
    level_note=("Trusted: Lean kernel; axioms propext/Classical.choice/Quot.sound only; translator, harness, differ. Hypotheses (TuningWF): BM25F "
                "parameters sane (PROVED for the regenerated defaultParams()); idf(N,df) >= 0 for df <= N (PROVED over the reals for the "
                "bm25IDF formula with Mathlib's Real.log_nonneg, and df <= N PROVED for the built index; on floats: monitored); "
                "calculateIntentBoost > 0 and calculateBoostForCommand >= 1 (PROVED for the modelled NLP layer - Model/Boosts.lean over "
                "Model/Nlp.lean, every literal / factor / operator of the boost functions regenerated into Gen/Boosts.lean and checked by "
                "`decide` (boost_rules_wf); universal_modelled_nlp / cli_modelled_nlp carry no NLP hypothesis; the layer is validated bit for "
                "bit by the `boosts` domain and the search driver runs with it, comparing it with the real values of every case); TF-IDF "
                "similarity >= 0 (monitored on the real values of every generated case, class oracle-negative-factor); the fuzzy library's sort is a permutation sorted by score "
                "(sort.Stable contract; the driver accepts Go's order only if it is one). 'Finite' has no content in an ordered field: "
                "float overflow / NaN is covered by the monitors only, on boosts of magnitude <= 1e6. The cached path is C05's theorem "
                "(transparent) — here it is monitored only. The semantic (embedding) boost stage is not modelled: no embeddings are shipped "
                "or loaded (C19). A panic of the typo matcher is C10's subject (error_only_in_typo_matcher localises it)."),
    design_ref="DESIGN.md section 6, C01",
    rule=("databases of 0-40 (thorough: -120) generated entries with forced duplicates, 2-6 queries each (db tokens, NLP words, typos, stop-word-only, "
          "one-letter, long, re-cased), all option fields varied, limits in {-1,0,1,2,3,5,10,50,N+1}; a directed tie-heavy stream (k identical "
          "entries, k around the limit; typo-only queries matching all of them; limits <=0, 1..N, >N); legacy stream (pipeline search + recovery "
          "searches incl. one-letter substrings contained in many commands); CLI stream (real binary, recovery reached through long descriptions); "
          "shipped-database stream; boosts stream (databases of 0-16 (thorough: -60) commands aimed at every branch of calculateIntentBoost / "
          "calculateBoostForCommand for 4-6 analysed queries each: every intent, makepkg penalty, compression special case, description-only "
          "matches, hints via first field vs whole command, contexts in the raw command vs the lower-cased text, synonym expansion, upper-case / "
          "non-ASCII / invalid UTF-8 / blank commands; vocabulary = regenerated literals and table words). A case is non-trivial if at least one answer in it is non-empty; distinct = distinct op sequences"),
    assumptions=["TuningWFRest (see level_note): idf and TF-IDF similarities non-negative, fuzzy sort is a sorted permutation; the NLP factors are "
                 "no longer assumed (modelled and proved: universal_modelled_nlp)",
                 "limits below 2^60 (Limit*5 / Limit*2 overflow is C10's subject)",
                 "cached path: C05.transparent"],
)

THEOREMS = ["Wtf.C01." + t for t in (
    "params_match", "default_limits_pos", "universal", "limit_in_force", "source_params_sane", "idf_formula_nonneg",
    "fuzzy_scores_unit_interval", "error_only_in_typo_matcher", "nonempty_of_match", "factor_stage_preserves", "legacy_pipeline", "legacy_limit_in_force",
    "cli", "cli_limit_pos", "recovery_raw",
    "boost_rules_wf", "modelled_factors", "tuningWF_of_modelled_nlp", "universal_modelled_nlp", "cli_modelled_nlp")]

ASSERTIONS = ["bm25:defaultParams", "bm25:params-literal", "constants:typecheck"] + ["searchparams:" + s for s in (
    "SearchUniversal", "default-limit", "default-term-cap", "final-truncation", "fuzzy-fallback-truncated", "limitResults-shape",
    "append-cap", "preserve-count", "rerank-window", "rerank-blend", "nlp-emphasis", "cooccurrence", "fuzzy-candidate-cap",
    "fuzzy-normalisation", "fuzzy-clamp", "legacy-default-limit", "legacy-shape", "sortAndLimitResults-shape", "recovery-scores",
    "recovery-order", "cli-recovery-truncated", "cli-recovery-filtered", "FilterResults-shape", "config-max-results", "validate-limit")]
ASSERTIONS += nlpboosts.ASSERTIONS  # the NLP layer of the search model is modelled too (Model/Boosts.lean over Model/Nlp.lean)

# ---- legacy entry points with the scorer modelled (Props/C01b.lean; correspondence domain legacy2) ----
THEOREMS += ["Wtf.C01." + t for t in (
    "legacy_literals", "legacy_limits_in_force", "legacy_score_nonneg", "legacy_score_parts_nonneg", "legacy_score_can_be_negative",
    "legacy_pipeline_modelled", "search_with_options", "combine_results", "combine_exact_first", "search_with_fuzzy",
    "search_with_nlp_off", "search_with_nlp_shared_partial", "tfidf_model_rank_ok", "search_with_nlp_temporary_partial",
    "search_with_nlp_duplicate", "suggestions", "suggestion_words_deterministic")]

LEGACY2_SHAPES = ("SearchWithOptions", "SearchWithPipelineOptions", "sortAndLimitResults", "isPipelineCommand", "db.calculateCommandScore",
                  "calculateWordScore", "calculateCommandScore", "calculateDomainScore", "calculateKeywordScore", "calculateDescriptionScore",
                  "calculateTagScore", "calculateScore", "finiteScore", "isDomainSpecificMatch", "getCategoryRelevanceBoost", "SearchWithFuzzy",
                  "limitResults", "performFuzzySearch", "combineAndDeduplicateResults", "GetSuggestions", "isCommonWord", "SearchWithNLP",
                  "isCrossPlatformTool")
LEGACY2_VALUES = ("crossPlatformPenalty", "cmdExact", "cmdPrefix", "cmdWord", "cmdContains", "domainScore", "keywordExact", "keywordPartial",
                  "descWord", "descPartial", "tagExact", "tagPartial", "completenessBase", "completenessWeight", "directThreshold", "directBonus",
                  "commandThreshold", "commandBonus", "nicheBase", "nicheFactor", "categoryInit", "goodExactThreshold", "fuzzyBaseA", "fuzzyBaseB",
                  "fuzzyDiscount", "similarityScale", "fallbackPriority")
LEGACY2_HELPERS = ("getCompressionBoost", "getZipBoost", "getTarBoost", "getDirectoryBoost", "getCreateBoost", "getNewBoost", "getSearchBoost",
                   "getDownloadBoost")
LEGACY2_ASSERTIONS = (["legacyscore:" + s for s in ("constants", "parse", "category-switch:func", "category-switch", "tfidf-search-tail",
                                                     "domain-table", "common-words", "trim-cutsets")]
                      + ["legacyscore:shape:" + s for s in LEGACY2_SHAPES] + ["legacyscore:value:" + s for s in LEGACY2_VALUES]
                      + ["legacyscore:category-helper:" + s for s in LEGACY2_HELPERS])
ASSERTIONS += LEGACY2_ASSERTIONS
PROP["level_text"] += (" Props/C01b.lean: with the legacy scorer calculateScore MODELLED (every summand, the category rule table, bonuses, context / niche "
                       "boosts, finiteScore) the five clauses plus strict positivity of every returned score for SearchWithPipelineOptions and "
                       "SearchWithOptions (no hypothesis: the `score > 0` admission test), the five clauses for combineAndDeduplicateResults and for "
                       "SearchWithFuzzy on its three exits, for SearchWithNLP on the shared-searcher branch (partial; the temporary-searcher branch "
                       "returns an entry twice: witness theorem search_with_nlp_duplicate — that entry point is outside the property's scope), and for "
                       "GetSuggestions (at most max, candidate list sorted / duplicate-free / independent of map order); calculateScore >= 0 exactly when "
                       "the context boosts are >= 0 (negative witness proved). Bit-level correspondence of the modelled scorer and of all five entry "
                       "points in domain legacy2, incl. an overflow stream (category product beyond the float range, saturated by finiteScore).")
PROP["level_note"] += (" Legacy entry points: literals, tables and the category helper functions are regenerated from search.go on every run; the control "
                       "flow of 23 functions is pinned by whole-body shape assertions (legacyscore:shape:*). SearchWithOptions / SearchWithFuzzy / "
                       "SearchWithNLP are exported but unused by CLI and cache layer: known deviations there (duplicate on a database value without "
                       "TF-IDF searcher; Platforms / NoCrossPlatform / AllPlatforms / PipelineOnly ignored) are counted under out-of-scope:* tags, not reported.")
PROP["rule"] += ("; legacy2 stream: databases of 0-22 (thorough: -60) entries drawn from a pool aimed at every branch of the legacy scorer (exact / prefix / "
                 "word / substring command matches, domain table, every category helper, keyword / tag exact vs partial, niche), 2-4 queries each "
                 "(category and domain words, re-cased, Unicode white space, non-ASCII, invalid UTF-8, empty, long repetitions), context boosts present / "
                 "absent / zero / negative / 1e6, limits incl. 2^62+1 and MaxInt64, each request through calculateScore, its parts, "
                 "SearchWithPipelineOptions, SearchWithOptions, performFuzzySearch, SearchWithFuzzy, SearchWithNLP with and without shared searcher, "
                 "combineAndDeduplicateResults on arbitrary lists, GetSuggestions; coverage obligation coverage:legacy2-branches")
PROP["assumptions"] += ["finiteScore keeps non-negative scores non-negative (FinOK; true of the IEEE function)",
                        "SearchWithNLP shared branch: TF-IDF ranking duplicate-free, best first, non-negative (RankOK; PROVED for the model of the searcher)",
                        "GetSuggestions duplicate-freeness: no candidate word contains a space before the NUL replacement (SpaceFree; monitored: oracle-suggestion-word-with-space)"]


def legacy2_stages(ctx, quick, hit_props=None):
    """SearchWithPipelineOptions / SearchWithOptions / SearchWithFuzzy / SearchWithNLP / GetSuggestions and the legacy scorer piece by
    piece against Model/LegacyScore.lean + Model/LegacyEntry.lean; `overflow`: hundreds of repetitions of a category word."""
    ctx.correspond("legacy2", 400 if quick else 8000, nontrivial=nontrivial, shrink=False, seed_offset=21, hit_props=hit_props)
    ctx.correspond("legacy2", 30 if quick else 400, name="legacy2-overflow", args={"stream": "overflow"}, nontrivial=nontrivial,
                   shrink=False, seed_offset=23, hit_props=hit_props)
    # every branch of the scorer / entry points was reached (value-independent: distinct values per summand, named branches)
    dist = ctx.cov["distribution"]
    def distinct(prefix):
        return len([k for k, v in dist.items() if k.startswith("legacy2.legacy2." + prefix + ":") and v > 0])
    need_distinct = {"cmd": 5, "domain": 2, "keyword": 3, "desc": 3, "tag": 3, "category": 8}
    need_tags = ["word-boost-absent", "word-boost-positive", "word-boost-zero", "word-boost-negative", "word-too-short",
                 "niche-boost-present", "niche-boost-absent", "niche-boost-negative", "completeness-bonus", "bonus-direct", "bonus-command",
                 "bonus-none", "score-negative", "score-zero", "score-positive", "platform-excluded", "platform-cross-platform-tool",
                 "platform-cross-platform-tag", "platform-declares-platform-in-force", "platform-no-platform-declared", "query-no-words",
                 "query-upper-case", "query-non-ascii", "query-invalid-utf8", "swf-good-exact", "swf-combined", "swf-exact-only",
                 "swf-typo-result-returned", "swn-nlp-off", "swn-shared-searcher", "swn-temporary-searcher", "combine-dropped-duplicates",
                 "sug-nonempty", "pfz-nonempty"]
    missing = ["distinct %s values %d < %d" % (k, distinct(k), n) for k, n in need_distinct.items() if distinct(k) < n]
    missing += [t for t in need_tags if dist.get("legacy2.legacy2." + t, 0) == 0]
    if dist.get("legacy2-overflow.legacy2.score-saturated", 0) == 0:
        missing.append("overflow stream never saturated a score")
    ctx.oblige("coverage:legacy2-branches", "coverage", not missing, "all scorer / entry-point branches reached" if not missing else "not reached: " + ", ".join(missing))


def nontrivial(tags, ops, impl):
    return tags.get("nonempty", 0) > 0


def shipped(ctx, n):
    """The shipped database under real queries through every entry point (monitors only)."""
    path = os.path.join(core.REPO, "assets", "commands.yml")
    p = subprocess.run([core.HARNESS_BIN, "tool", "c01-shipped", "-db", path, "-n", str(n), "-seed", str(ctx.seed)],  # noqa
                       stdout=subprocess.PIPE, stderr=subprocess.PIPE, env=core.go_env(), timeout=3000)
    try:
        res = json.loads(p.stdout.decode(errors="replace").strip().split("\n")[-1])
    except Exception:
        res = {"error": "no summary: rc=%d %s" % (p.returncode, p.stderr.decode(errors="replace")[-500:])}
    ok = p.returncode == 0 and "error" not in res and res.get("db_size", 0) > 0
    ctx.oblige("monitor:shipped-database-stream", "correspondence", ok,
               "db_size=%s queries=%s results=%s" % (res.get("db_size"), res.get("queries"), res.get("results")) if ok else json.dumps(res)[:1500])
    if not ok:
        return
    ctx.cov["evaluations"] += res["queries"]
    ctx.add_distribution({"shipped." + k: v for k, v in (res.get("tags") or {}).items()})
    ctx.cov["distribution"]["shipped.db_size"] = res["db_size"]
    if res.get("results", 0) > 0:
        ctx.distinct.add("shipped-%d-%d" % (ctx.seed, n))
    for h in res.get("hits") or []:
        if h.get("prop") != "C01":
            continue
        ctx.hit(h.get("class", "?"), "%s: %s" % (h.get("class"), json.dumps(h.get("detail"))[:300]),
                dict(kind="impl-counterexample", domain="c01-shipped", seed=ctx.seed, n=n, database=path, detail=h.get("detail"),
                     **{"class": h.get("class")}))


THEOREMS += ["Wtf.C01.universal_modelled"]   # SearchUniversal over every modelled layer (Props/C01b.lean)
# the idf >= 0 hypothesis for the formula that is in the source: the argument of math.Log in bm25IDF is translated on every run
# (Gen/Bm25F.lean) and shown >= 1 over the reals for df <= N (Props/C01d.lean)
THEOREMS += ["Wtf.C01." + t for t in ("idf_source_arg_ge_one", "idf_source_nonneg", "idfNonneg_source")]
ASSERTIONS += ["bm25f:" + s for s in ("fieldBM25", "fieldBM25:param-types", "fieldBM25:params", "fieldBM25:body", "termBM25F", "termBM25F:body",
                                      "bm25IDF", "bm25IDF:shape", "bm25IDF:arg")]
PROP["level_text"] += (" Props/C01d.lean: the argument of math.Log in bm25IDF is translated from the source on every run and shown >= 1 over the reals for "
                       "df <= N (`idf_source_nonneg`), so the idf >= 0 hypothesis is discharged for the source's formula up to math.Log ~ Real.log.")
# Props/C01c.lean: the same with the fuzzy library's sort.Stable MODELLED (Model/GoSort.lean) - no hypothesis about the sort left
THEOREMS += ["Wtf.C01." + t for t in ("fuzzySortOK_of_goStable", "universal_modelled_sorted", "suggestions_sorted", "fuzzy_sort_contract")]
PROP["level_text"] += (" Props/C01c.lean: Go's sort.Stable (insertion sort on blocks of 20, symMerge passes, rotate, swapRange) is transliterated "
                       "(Model/GoSort.lean) and run with the fuzzy library's non-strict Less (Score >=); it is proved to permute its input and to "
                       "leave it ordered by non-increasing score (Proofs/GoSort.lean), so universal_modelled_sorted states the five clauses for "
                       "SearchUniversal over every modelled layer with no hypothesis about the library's sort; the tie is the gosort correspondence "
                       "domain (model vs the real sort.Stable on fuzzy.Matches and vs fuzzy.Find, tie order included) and the fz line of every "
                       "search-family case, which the driver now compares with the model's order.")


# Props/C01e.lean: the same at the similarity floor of the source (regenerated literal of TFIDFSearcher.Search)
THEOREMS += ["Wtf.C01.source_floor_nonneg", "Wtf.C01.universal_modelled_source_floor"]


def run(ctx):
    ctx.stage_xlate(required_assertions=ASSERTIONS)
    ctx.stage_prove(THEOREMS, extra_targets=["WtfModel.Props.C01b", "WtfModel.Props.C01c", "WtfModel.Props.C01d", "WtfModel.Props.C01e"])
    if not ctx.stage_build():
        return
    quick = ctx.tier == "quick"
    # the modelled NLP layer against the real calculateIntentBoost / calculateBoostForCommand / analysis (the search streams below
    # run the model with that layer and also compare it with the real values of each of their cases)
    nlpboosts.correspond(ctx, 250 if quick else 6000)
    # the model of the fuzzy library's sort.Stable (universal_modelled_sorted runs on it) against the toolchain's
    gosort.correspond(ctx, 200 if quick else 3000, seed_offset=13, hit_props=["C07"])
    ctx.correspond("search", 400 if quick else 10000, nontrivial=nontrivial, shrink=False)
    ctx.correspond("search", 150 if quick else 4000, name="search-c01", args={"stream": "c01"}, nontrivial=nontrivial, shrink=False, seed_offset=3)
    ctx.correspond("legacy", 300 if quick else 8000, nontrivial=nontrivial, shrink=False, seed_offset=5)
    with core.BuildLock():
        ok, out, wtf = core.build_wtf_binary()
    ctx.oblige("build:wtf-binary", "build", ok, out)
    if ok:
        os.environ["WTF_BIN"] = wtf
        ctx.correspond("legacy", 40 if quick else 1500, name="legacy-cli", args={"stream": "cli"}, nontrivial=nontrivial, shrink=False, seed_offset=9)
    shipped(ctx, 40 if quick else 1500)
    legacy2_stages(ctx, quick)


def replay(ctx, rep):
    """./check C01 --replay <file>: re-run the recorded input on the current tree (real code and model), print both."""
    ctx.stage_build()
    ok, out, wtf = core.build_wtf_binary()
    if ok:
        os.environ["WTF_BIN"] = wtf
    items = []
    if "failing" in rep:
        items.append(rep["failing"])
    for o in rep.get("broken_obligations", []):
        if isinstance(o.get("detail"), dict) and "ops" in o["detail"]:
            items.append(o["detail"])
    if not items:
        print(json.dumps(rep, indent=1))
        return 0
    rc = 0
    for it in items:
        if it.get("domain") == "c01-shipped":
            p = subprocess.run([core.HARNESS_BIN, "tool", "c01-shipped", "-db", os.path.join(core.REPO, "assets", "commands.yml"),
                                "-n", str(it.get("n", 40)), "-seed", str(it.get("seed", 1))], stdout=subprocess.PIPE, env=core.go_env())
            res = json.loads(p.stdout.decode(errors="replace").strip().split("\n")[-1])
            hits = [h for h in (res.get("hits") or []) if h.get("prop") == "C01"]
            print("shipped-database stream: %d monitor hits" % len(hits))
            for h in hits[:10]:
                print("  ", json.dumps(h))
            rc = rc or (1 if hits else 0)
            continue
        mm, il, ml, hits = core.run_single_case(ctx, "replay", it["domain"], it["ops"])
        print("ops:")
        for l in it["ops"]:
            print("   ", core.pretty(l)[:300])
        print("impl :", il)
        print("model:", ml)
        print("monitor hits:", json.dumps([h for h in hits if h.get("prop") == "C01"]))
        if mm or any(h.get("prop") == "C01" for h in hits):
            rc = 1
    return rc
