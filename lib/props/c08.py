"""C08 — a saved command is stored faithfully, keeps its neighbours, is searchable."""
import hashlib
import json
import os
import random
import shutil
import subprocess

import core

PROP = dict(
    id="C08",
    level="proof",
    technique=("Lean 4 theorems over an executable model of the notebook update, the handlers' entry construction (tables regenerated from "
               "the source) and pflag's flag-merging rule applied to the regenerated cobra flag table; YAML as an explicit contract; "
               "differential correspondence with the real saveToPersonalDatabase / LoadDatabase / LoadDatabaseWithPersonal on YAML-hostile "
               "save sequences; real-binary stream of `wtf save` / `wtf save-pipeline`; independent shadow monitor incl. search"),
    level_text=("Kernel-checked theorems (WtfModel/Props/C08.lean), for every notebook (any bytes in any field, repeated command strings "
                "allowed), every entry and every sequence of saves: a save that reports success leaves a file that decodes to exactly "
                "save(xs, e) - the entry byte for byte at the position of the first entry with its command string, else at the end; every "
                "other position is unchanged; distinct command strings stay distinct and the length grows by one iff the string is new; after "
                "any sequence the notebook is the fold of save over the successful saves and a failed save changes nothing; the searched "
                "database is main ++ notebook and the saved entry sits at |main| + its notebook position; every command of the regenerated "
                "cobra table passes pflag's AddFlag/AddFlagSet rules (no panic before the handler), and the handlers' wiring of arguments "
                "and flags into entry fields is the regenerated one. Success-implies-faithful needs no assumption on YAML because HEAD "
                "reads back what it encoded; the YAML round-trip contract is only the hypothesis under which a save succeeds."),
    level_note=("Not proved here: that a member entry with a content word is returned by the search (C03's index theorem + C01); it is "
                "monitored on the real code for every generated save. yaml.v3, pflag's CSV splitting and cobra's argument validation are "
                "not modelled (the 'given' values are what cobra/pflag hand to the handler, obtained from cobra itself through a verif hook). "
                "Trusted: Lean kernel, translator extractors x_flags / x_savecmds, harness, hooks VerifSaveToPersonalDatabase / VerifParseSaveArgs."),
    design_ref="DESIGN.md section 6, C08",
    rule=("in-process: save sequences (2-9 saves, 2-25 in thorough) from a YAML-hostile pool (leading '-', ': ', '#', quotes, {{..}}, null/true/"
          "numbers, multi-line, leading/trailing breaks and blanks, tabs, control characters, invalid UTF-8, empty, 5 kB) over missing / empty / "
          "populated / unreadable notebooks with repeated command strings; CLI stream: the same pool as argv of the real binary. A case is "
          "non-trivial if at least one save stored hostile text or replaced an existing entry or was refused; distinct = distinct op sequences"),
    assumptions=["yaml.v3 round-trip contract only for liveness (a save succeeds when the resulting list survives encode/decode)",
                 "search returns every eligible member containing a content word of the query when Limit >= database size (C03/C01)",
                 "pflag / cobra parsing is not modelled: given values = what the handler receives"],
    keep_prefix={},
)

THEOREMS = ["Wtf.C08." + t for t in (
    "wiring", "entry_of_save", "entry_of_save_pipeline", "faithful", "failed_unchanged", "succeeds_of_roundtrip", "neighbours", "no_dup",
    "history", "history_contract", "merged_order", "searchable", "starts", "shorthands_disjoint", "reads_registered")]

ASSERTIONS = ["flags:commands-found", "flags:registrations", "flags:single-root", "savecmds:save:handler", "savecmds:save:entry",
              "savecmds:save:success-only-after-save", "savecmds:save-pipeline:handler", "savecmds:save-pipeline:entry",
              "savecmds:save-pipeline:success-only-after-save", "savecmds:save-pipeline:tables"]

SMALL_DB = """- command: ls -la
  description: list files in long format
  keywords: [list, files]
  pipeline: false
- command: grep -r foo .
  description: search text recursively
  keywords: [search, text]
  pipeline: false
"""

HOSTILE = [b"", b"-", b"- x", b"-x", b"--", b": ", b"a: b", b"key: value # c", b"#", b"# comment", b" #x", b"'", b'"', b"'single'", b'"double"', b"it's",
           b"{{.Names}}", b"{a: 1}", b"[1, 2]", b"null", b"~", b"true", b"no", b"0x1F", b"1e3", b"12", b"-3.5", b".inf", b"2001-01-01", b"!!binary x", b"&a", b"*a",
           b"---", b"...", b"|", b">", b"|-", b"? x", b"@at", b"`t`", b",", b"a,b", b'"a,b",c', b'a"b', b"[", b"}", b"line1\nline2", b"\nleading break", b"trailing break\n",
           b"\n", b"a\n\nb", b"  leading", b"trailing  ", b" ", b"\ttab", b"a\tb", b"\r", b"a\r\nb", b"\x01\x02", b"\x1b[31mred", b"\x7f", b"\xff", b"\xc3\x28", b"ok\xf0\x28\x8c\x28",
           b"caf\xc3\xa9", "日本語".encode(), " sep".encode(), "\u0085nel".encode(), "﻿bom".encode(), "emoji 😀".encode(), b"x" * 3000,
           b"tar -czf backup.tar.gz /home/user", b"docker ps -a --format 'table {{.Names}}\\t{{.Status}}'", b"find . -name '*.go' -exec gofmt -w {} \\;",
           b"cat file.txt | wc -l | awk '{print \"Lines:\" $1}'", b"grep ERROR /var/log/app.log | tail -20 | sort", b"sed -n 1p | sort | find"]


def hx(b):
    return "-" if not b else b.hex()


def nontrivial(tags, ops, impl):
    return any(tags.get(k, 0) > 0 for k in ("hostile-text-stored", "replaced-existing", "save-refused"))


def tool(name, *args):
    rc, out = core.sh([core.HARNESS_BIN, "tool", name] + list(args), env=core.go_env(), timeout=120)
    try:
        return json.loads(out.strip().split("\n")[-1])
    except Exception:
        return {"ok": False, "error": "tool failed: " + out[-300:]}


def state_of(load):
    """loadnb JSON -> the driver's state token"""
    if not load.get("ok"):
        return "missing" if load.get("missing") else "corrupt"
    es = load["entries"]
    if not es:
        return "[]"

    def lst(xs):
        return ",".join(xs) if xs else "."
    return "|".join(";".join([e["command"], e["description"], lst(e["keywords"]), lst(e["tags"]), e["niche"], lst(e["platform"]),
                              "1" if e["pipeline"] else "0"]) for e in es)


def text(rng, marker=None):
    x = rng.random()
    if x < 0.45:
        s = rng.choice(HOSTILE)
    elif x < 0.7:
        s = rng.choice(HOSTILE) + rng.choice([b"", b" ", b"\n", b": ", b" #"]) + rng.choice(HOSTILE)
    elif x < 0.8:
        s = bytes(rng.randrange(1, 256) for _ in range(rng.randrange(1, 6)))
    else:
        s = rng.choice([b"list files", b"show disk usage", b"compress a folder", b"run tests"])
    s = s.replace(b"\x00", b"")
    if marker:
        s = rng.choice([s + b" " + marker, marker + b" " + s, marker])
    return s


def cli_stream(ctx, wtf, nseq):
    rng = random.Random(ctx.seed * 104729 + 5)
    root = os.path.join(ctx.rundir, "cli")
    tags = {}
    samples = []

    def tag(k):
        tags[k] = tags.get(k, 0) + 1

    for si in range(nseq):
        d = os.path.join(root, "s%d" % si)
        os.makedirs(os.path.join(d, "home"))
        os.makedirs(os.path.join(d, "cwd"))
        open(os.path.join(d, "small.yml"), "w").write(SMALL_DB)
        env = {"HOME": os.path.join(d, "home"), "XDG_CONFIG_HOME": os.path.join(d, "xdg"), "PATH": os.environ.get("PATH", "/usr/bin:/bin"), "NO_COLOR": "1"}
        nb = os.path.join(d, "home", ".config", "cmd-finder", "personal.yml")
        start = rng.choice(["missing", "missing", "empty", "populated"])
        ops = ["nb none"]
        if start == "empty":
            os.makedirs(os.path.dirname(nb))
            open(nb, "w").close()
            ops = ["nb empty"]
        steps = []       # (argv bytes, kind)
        used = []
        n = rng.randrange(3, 8)
        if start == "populated":
            for j in range(3):
                steps.append(([b"save", b"base%d --run" % j, b"benign entry %d" % j, b"--keywords", b"k%d,shared" % j], "save", None))
        for j in range(n):
            kind = rng.choice(["save", "save", "save-pipeline"])
            marker = b"zq%ds%d" % (si, j) if rng.random() < 0.4 else None
            if marker:
                a0 = marker + b" --tool"                    # a benign, searchable command string
            elif used and rng.random() < 0.3:
                a0 = rng.choice(used)                        # save an existing command string again
            else:
                a0 = text(rng)
            a1 = text(rng)
            argv = [kind.encode()]
            flags = []
            if rng.random() < 0.5:
                kws = [text(rng) for _ in range(rng.randrange(1, 4))]
                flags += [rng.choice([b"--keywords", b"-k"]), b",".join(kws)]
            if rng.random() < 0.4:
                flags += [rng.choice([b"--category", b"-c"]), text(rng)]
            if rng.random() < 0.4:
                flags += [b"--platforms", rng.choice([b"linux,macos", b"linux", b"windows", text(rng)])]
            if kind == "save" and rng.random() < 0.3:
                flags += [b"--pipeline"]
            if kind == "save-pipeline" and rng.random() < 0.3:
                flags += [b"--description", text(rng)]
            pos = [a1, a0] if kind == "save-pipeline" else [a0, a1]   # save-pipeline <name> <command>
            if rng.random() < 0.5:
                argv += flags + [b"--"] + pos
            elif rng.random() < 0.5:
                argv += pos + flags
            else:
                argv += flags + pos
            steps.append((argv, kind, marker))
        impl_states = []
        for argv, kind, marker in steps:
            exp = tool("parseargs", kind, *[hx(a) for a in argv[1:]])
            before = open(nb, "rb").read() if os.path.exists(nb) else None
            p = subprocess.run([wtf] + argv, cwd=os.path.join(d, "cwd"), env=env, stdin=subprocess.DEVNULL, stdout=subprocess.PIPE, stderr=subprocess.PIPE, timeout=60)
            out, err = p.stdout.decode("utf-8", "replace"), p.stderr.decode("utf-8", "replace")
            # what "reported success" looks like is wording: taken from the lines the translator read off the two handlers on this
            # run (Gen facts); when it could not read them the check is a violation anyway and wording-dependent monitors stay silent
            succ_lines = ctx.facts.get("savecmds.successLines") or []
            success = any(x in out for x in succ_lines)
            after = open(nb, "rb").read() if os.path.exists(nb) else None
            ctx.cov["evaluations"] += 1
            rep = dict(kind="impl-counterexample", argv=[a.decode("utf-8", "backslashreplace") for a in argv], argv_hex=[a.hex() for a in argv],
                       earlier=[[a.decode("utf-8", "backslashreplace") for a in s[0]] for s in steps[:len(impl_states)]], start=start,
                       stdout=out[-400:], stderr=err[-600:], rc=p.returncode,
                       how="isolated HOME; run the `earlier` command lines then `argv` with the real binary; reload personal.yml with database.LoadDatabase")
            if "panic:" in err or "goroutine " in err or p.returncode == 2 and "panic" in err:
                ctx.hit("panic", "wtf %s panicked: %s" % (kind, err.strip().split("\n")[0][:200]), dict(rep, **{"class": "panic"}))
                tag("panic")
            if exp.get("panic") and not ("panic:" in err):
                ctx.hit("panic", "cobra flag parsing of %s panics: %s" % (kind, exp["panic"][:200]), dict(rep, **{"class": "panic"}))
            if not exp.get("ok"):
                # cobra rejects the command line (unknown flag, CSV error, wrong arity): nothing may be stored, no success line
                tag("rejected-by-cobra")
                if success or after != before:
                    ctx.hit("stored-despite-usage-error", "command line rejected by cobra (%s) but the notebook changed / success printed" % exp.get("error"),
                            dict(rep, **{"class": "stored-despite-usage-error"}))
                ops.append(None)
                impl_states.append(None)
                continue
            a = exp["args"]
            if kind == "save":
                op = "save %s %s %s %s %s %s %s" % ("1" if success else "0", a[0], a[1], exp["keywords"], exp["category"], exp["platforms"], "1" if exp["pipeline"] else "0")
            else:
                op = "savep %s %s %s %s %s %s %s" % ("1" if success else "0", a[0], a[1], exp["keywords"], exp["category"], exp["platforms"], exp["description"])
            ops.append(op)
            ld = tool("loadnb", nb)
            st = state_of(ld)
            impl_states.append(("ok " if success else "fail ") + st)
            if success:
                tag("cli-save-ok")
                used.append(a0)
                if not ld.get("ok"):
                    ctx.hit("success-but-unreadable-notebook", "wtf %s reported success but the notebook no longer loads: %s" % (kind, ld.get("error", "")[:150]),
                            dict(rep, **{"class": "success-but-unreadable-notebook"}))
                if marker:
                    q = subprocess.run([wtf, "--database", "../small.yml", "--all-platforms", "--limit", "50", marker.decode()], cwd=os.path.join(d, "cwd"), env=env,
                                       stdin=subprocess.DEVNULL, stdout=subprocess.PIPE, stderr=subprocess.PIPE, timeout=60)
                    qo = q.stdout.decode("utf-8", "replace")
                    tag("cli-search-for-saved-word")
                    ctx.cov["evaluations"] += 1
                    if (marker.decode() + " --tool") not in qo:
                        ctx.hit("saved-not-found-by-search", "`wtf %s` does not list the command saved a moment ago" % marker.decode(),
                                dict(rep, search_stdout=qo[-500:], **{"class": "saved-not-found-by-search"}))
            else:
                tag("cli-save-refused")
                if after != before and succ_lines:
                    ctx.hit("failed-save-changed-file", "wtf %s reported an error but personal.yml changed" % kind, dict(rep, **{"class": "failed-save-changed-file"}))
        # the model on the same sequence (rt = the success the binary reported)
        keep = [(o, s) for o, s in zip(ops[1:], impl_states) if o is not None]
        lines = [ops[0]] + [o for o, _ in keep]
        pr = subprocess.run([core.DRIVER_BIN], input=("case 0 notebook\n" + "\n".join(lines) + "\n").encode(), stdout=subprocess.PIPE, timeout=300)
        cases, _, _ = core.parse_cases(pr.stdout.decode())
        model = cases.get("0", [])[1:]
        bad = None
        for k, ((o, s), m) in enumerate(zip(keep, model)):
            if s != m:
                bad = (k, o, s, m)
                break
        if len(model) != len(keep):
            bad = bad or (-1, "", "<%d lines>" % len(keep), "<%d lines>" % len(model))
        if bad:
            k, o, s, m = bad
            cls = "saved-entry-differs"
            ctx.hit(cls, "after `wtf %s` reported success the reloaded notebook is not save(previous, given entry): step %d" % (o.split(" ")[0], k),
                    dict(kind="impl-counterexample", start=start, commands=[[a.decode("utf-8", "backslashreplace") for a in s_[0]] for s_ in steps],
                         op=core.pretty(o)[:600], notebook_found=s[:1500], notebook_expected=m[:1500], **{"class": cls}))
            ctx.oblige("correspondence:cli-stream:seq%d" % si, "correspondence", False, dict(domain="notebook", ops=lines, impl=[s for _, s in keep], model=model))
        else:
            ctx.cov["traces_validated_against_impl"] += 1
        if any(t for t in steps) and (tags.get("cli-save-ok", 0) > 0):
            ctx.distinct.add(hashlib.sha1(b"\x00".join(b" ".join(s_[0]) for s_ in steps)).hexdigest())
        if si < 2:
            samples.append(dict(domain="cli-stream", start=start, commands=[" ".join(a.decode("utf-8", "backslashreplace") for a in s_[0])[:160] for s_ in steps][:6],
                                results=[(s or "rejected")[:80] for s in impl_states][:6]))
        shutil.rmtree(d, ignore_errors=True)
    ctx.add_distribution({"cli." + k: v for k, v in tags.items()})
    ctx.cov["samples"] = samples + ctx.cov["samples"]
    ctx.oblige("correspondence:cli-stream", "correspondence", not any(o["name"].startswith("correspondence:cli-stream:") and not o["ok"] for o in ctx.obligations),
               "%d command sequences on the real binary agree with the model" % nseq)


def run(ctx):
    ctx.stage_xlate(required_assertions=ASSERTIONS)
    ctx.stage_prove(THEOREMS)
    if not ctx.stage_build():
        return
    n = 400 if ctx.tier == "quick" else 2500
    ctx.correspond("notebook", n, nontrivial=nontrivial)
    with core.BuildLock():
        ok, out, wtf0 = core.build_wtf_binary()
        wtf = os.path.join(ctx.rundir, "wtf")
        if ok:
            shutil.copy2(wtf0, wtf)
    ctx.oblige("build:wtf-binary", "build", ok, out)
    if ok:
        cli_stream(ctx, wtf, 40 if ctx.tier == "quick" else 300)
    # the most readable counterexample first: a command line for the real binary
    rank = {"panic": 0, "success-but-unreadable-notebook": 1, "duplicate-command": 2, "neighbour-changed": 3, "saved-entry-differs": 4}
    ctx.hits.sort(key=lambda h: (0 if "argv" in h["replay"] or "commands" in h["replay"] else 1, rank.get(h["cls"], 6)))


def replay(ctx, rep):
    """./check C08 --replay <file>"""
    f = rep.get("failing") or {}
    ctx.stage_build()
    if "ops" in f or not ("argv_hex" in f):
        items = [f] if "ops" in f else [o["detail"] for o in rep.get("broken_obligations", []) if isinstance(o.get("detail"), dict) and "ops" in o["detail"]]
        if not items:
            print(json.dumps(rep, indent=1)[:8000])
            return 0
        rc = 0
        for it in items:
            mm, il, ml, hits = core.run_single_case(ctx, "replay", it["domain"], it["ops"])
            for o, a, b in zip(it["ops"], il, ml):
                print("op   :", core.pretty(o)[:400], "\nimpl :", a[:400], "\nmodel:", b[:400])
            print("monitor hits:", json.dumps(hits)[:3000])
            rc = 1 if (mm or hits) else rc
        return rc
    ok, out, wtf = core.build_wtf_binary()
    if not ok:
        print(out)
        return 2
    d = os.path.join(ctx.rundir, "replay")
    os.makedirs(os.path.join(d, "home"))
    os.makedirs(os.path.join(d, "cwd"))
    env = {"HOME": os.path.join(d, "home"), "XDG_CONFIG_HOME": os.path.join(d, "xdg"), "PATH": os.environ.get("PATH", "/usr/bin:/bin"), "NO_COLOR": "1"}
    nb = os.path.join(d, "home", ".config", "cmd-finder", "personal.yml")
    if f.get("start") == "empty":
        os.makedirs(os.path.dirname(nb))
        open(nb, "w").close()
    rc = 0
    for argv in [[a.encode("utf-8", "backslashreplace") for a in e] for e in f.get("earlier", [])] + [[bytes.fromhex(a) for a in f["argv_hex"]]]:
        p = subprocess.run([wtf] + argv, cwd=os.path.join(d, "cwd"), env=env, stdin=subprocess.DEVNULL, stdout=subprocess.PIPE, stderr=subprocess.PIPE, timeout=60)
        print("$ wtf", " ".join(repr(a)[1:] for a in argv), "\n  exit", p.returncode, "| stdout:", p.stdout.decode("utf-8", "replace")[:200].replace("\n", " / "),
              "| stderr:", p.stderr.decode("utf-8", "replace")[:300].replace("\n", " / "))
        ld = tool("loadnb", nb)
        print("  notebook:", "loads, %d entries" % len(ld["entries"]) if ld.get("ok") else ("missing" if ld.get("missing") else "DOES NOT LOAD: " + ld.get("error", "")[:200]))
        if b"panic" in p.stderr or (b"saved successfully" in p.stdout and not ld.get("ok")):
            rc = 1
    shutil.rmtree(ctx.rundir, ignore_errors=True)
    return rc
