"""C18 — metrics are keyed by identity and account for every event."""
import json
import subprocess

import core

PROP = dict(
    id="C18",
    level="proof",
    technique=("Lean 4 theorems over an executable model of internal/metrics (series keys with an explicit map-iteration order, get-or-create "
               "registries, int64 counter, histogram over the rationals, PerformanceMonitor record functions, interleavings of atomic steps); "
               "code-shape facts regenerated from metricKey / Counter / Histogram on every run; op-by-op differential correspondence with the real "
               "Collector/Counter/Histogram/PerformanceMonitor; independent property monitor; -race stress tool for the concurrent half"),
    level_text=("Kernel-checked theorems (WtfModel/Props/C18.lean) for all metric names, tag maps, map-iteration orders and call sequences: "
                "the series key is independent of the order in which the tag map is iterated and of the order the tags were inserted "
                "(premise: the regenerated fact that metricKey concatenates a sort.Strings-sorted slice of the tag names, discharged by `decide`; "
                "a witness shows two keys arise when the loop ranges over the map); two get-or-create calls for one identity return the same slot and "
                "create nothing; after any sequence of events every key holds exactly the events of that key; counter value = #Inc + sum of Add since "
                "the last Reset (as an int64); histogram count = #observations, sum = left fold, every observation in exactly one cell; percentiles are "
                "monotone on [0,100] for sorted non-empty buckets (over Q, truncation = floor) and the regenerated default buckets are strictly sorted; "
                "monitor totals per cache_hit flag and per (operation, success) equal the number of calls made while enabled, with key injectivity proved "
                "for arbitrary separators; with atomic increments every interleaving of N goroutines ends at the total number of increments "
                "(premise: regenerated fact that Counter.Inc/Add/Value are single sync/atomic operations), and a non-atomic read-modify-write loses one. "
                "The model is tied to the code by the regenerated facts and by correspondence of every op's output on generated scripts "
                "(names/tags with ':' and '=', 0-5 tags, >=100 repeated lookups with freshly built maps; database.MonitoredDatabase searches/loads versus the monitor model)."),
    level_note=("Trusted: Lean kernel; axioms propext/Classical.choice/Quot.sound only; the translator's recognisers in xlate/x_metrics.go (metricKey shape, "
                "getOrCreate shape, Counter atomics, Observe lock, bucket literal); the harness and its hook file (read-only accessors). Not proved: float64 "
                "arithmetic (the percentile theorem is over the rationals; the real floats are compared op by op with the Float-instantiated model and "
                "checked for monotonicity over a 201-point grid by the monitor); int64(float) for NaN/out-of-range follows amd64 (outside the claimed domain); "
                "the Go memory model, sync/atomic and sync.RWMutex: the interleaving theorem is about atomic steps, and the -race runs of `c18race` "
                "(many goroutines on one Collector/PerformanceMonitor, totals = calls, no race report) are dynamic support for it, not a proof. "
                "PerformanceMonitor.Enable writes a plain bool and is not called concurrently with record calls (it is not a record call). "
                "Distinct tag sets may render to one key (e.g. {a:'1:b=2'} vs {a:'1',b:'2'}): the property only claims the other direction; tagged, not flagged."),
    design_ref="DESIGN.md section 6, C18 (concurrent half: C11)",
    rule=("random scripts of 8-40 (thorough: 8-120) ops over 1-6 identities drawn from names/tag names/values containing ':' '=' empty and non-UTF-8 bytes, "
          "0-5 tags listed in random insertion order, incl. planted colliding tag sets; counter inc/add/reset/value, 100-130 repeated lookups with freshly "
          "built maps, key hook, histogram observe/percentile/grid on default and custom (sorted, unsorted, empty) buckets, monitor record calls with "
          "enable/disable, totals and dumps, and (one case in three) searches/loads through database.MonitoredDatabase. A case is non-trivial if it looks up an identity with >= 2 tags (map order can matter) or checks monitor totals "
          "after at least one two-tag database record; distinct = distinct op sequences. Each c18race run counts as one evaluation."),
    assumptions=["counter arithmetic is int64: 'value = number of increments' is claimed while that number fits (wrap-around is modelled and exercised)",
                 "percentile monotonicity: buckets sorted and non-empty, 0 <= p <= p' <= 100; outside that domain behaviour is run, compared with the model and tagged only",
                 "float64 addition/comparison are IEEE on both sides; proofs about order are over the rationals",
                 "PerformanceMonitor.Enable is not concurrent with record calls",
                 "concurrent half: sync/atomic and RWMutex semantics and the Go memory model are trusted; race detector runs are support, not proof"],
    keep_prefix={"metrics": 0},
    trusted_extra=["sync/atomic, sync.RWMutex and the Go memory model (concurrent half; supported by -race runs of the c18race tool)"],
)

THEOREMS = ["Wtf.C18." + t for t in (
    "key_sched_indep", "key_tags_perm", "same_series", "events_land_in_one_series", "counter", "hist_count_sum",
    "buckets_sorted", "percentile_mono", "percentile_mono_default", "monitor_totals", "searches_total_sum",
    "counter_total_concurrent", "observe_serialised")]

ASSERTIONS = ["metrics:metricKey", "metrics:metricKey-params", "metrics:metricKey-empty-guard", "metrics:metricKey-concat",
              "metrics:metricKey-loop-source", "metrics:metricKey-separators-ascii", "metrics:getOrCreate", "metrics:getOrCreate-shape",
              "metrics:Collector.Counter", "metrics:Collector.Gauge", "metrics:Collector.Histogram", "metrics:Collector.Timer",
              "metrics:NewHistogram", "metrics:NewHistogram-buckets", "metrics:NewHistogramWithBuckets", "metrics:Histogram-overflow-cell",
              "metrics:RecordSearchOperation", "metrics:RecordDatabaseOperation", "metrics:MonitoredDatabase.SearchWithMonitoring",
              "metrics:MonitoredDatabase.SearchWithOptionsAndMonitoring", "metrics:MonitoredDatabase.LoadDatabaseWithMonitoring"]


def nontrivial(tags, ops, impl):
    return tags.get("lookup-multitag", 0) > 0 or tags.get("totals-with-db-ops", 0) > 0


def _race_args(ctx, i):
    if ctx.tier == "quick":
        g, n = (16, 8000) if i % 2 == 0 else (48, 2000)
    else:
        g, n = (32, 30000) if i % 2 == 0 else (8, 100000)
    return ["-seed", str(ctx.seed + 101 * i), "-g", str(g), "-n", str(n)]


def run_race_tool(args, timeout=900):
    env = core.go_env()
    env["GORACE"] = "halt_on_error=0 exitcode=66"
    p = subprocess.run([core.HARNESS_BIN + "-race", "tool", "c18race"] + args, stdout=subprocess.PIPE, stderr=subprocess.PIPE,
                       env=env, timeout=timeout)
    out, err = p.stdout.decode(errors="replace"), p.stderr.decode(errors="replace")
    rep = None
    for l in reversed(out.strip().split("\n")):
        try:
            rep = json.loads(l)
            break
        except Exception:
            continue
    return p.returncode, rep, err


def stage_race(ctx):
    """Concurrent half: -race build of the harness, tool c18race.  Dynamic support for counter_total_concurrent."""
    with core.BuildLock():
        ok, out = core.build_harness(race=True)
    ctx.oblige("build:harness(-race)", "build", ok, out)
    if not ok:
        return
    runs = 3 if ctx.tier == "quick" else 6
    all_ok, details = True, []
    for i in range(runs):
        args = _race_args(ctx, i)
        try:
            rc, rep, err = run_race_tool(args)
        except subprocess.TimeoutExpired:
            rc, rep, err = -1, None, "timeout"
        race = "DATA RACE" in err
        good = rc == 0 and not race and bool(rep) and rep.get("ok") is True
        ctx.cov["evaluations"] += 1
        if rep:
            ctx.add_distribution({"race.counter_increments": rep.get("counter_increments", 0), "race.observations": rep.get("observations", 0),
                                  "race.record_search_calls": rep.get("record_search_calls", 0), "race.record_db_calls": rep.get("record_db_calls", 0),
                                  "race.lookups": rep.get("lookups", 0), "race.runs": 1})
        if i == 0 and rep:
            ctx.cov["samples"].append(dict(domain="c18race", args=args, report=rep))
        details.append(dict(args=args, rc=rc, data_race=race, report=rep))
        if not good:
            all_ok = False
            cls = "concurrent-data-race" if race else "concurrent-totals-wrong"
            what = "%s: c18race %s rc=%s %s" % (cls, " ".join(args), rc, json.dumps((rep or {}).get("failures", []))[:300])
            ctx.hit(cls, what, dict(kind="impl-counterexample", tool="c18race", args=args, exit_status=rc, data_race_reported=race,
                                    report=rep, stderr_head=err[:4000], **{"class": cls}))
            break  # one failing run is the counterexample; further runs only add (slow) race reports
    ctx.oblige("concurrent:c18race(-race): totals = calls, one series per identity, race detector silent", "dynamic", all_ok,
               json.dumps(details)[:3500])


def run(ctx):
    ctx.stage_xlate(required_assertions=ASSERTIONS)
    ctx.stage_prove(THEOREMS)
    if not ctx.stage_build():
        return
    n = 1500 if ctx.tier == "quick" else 25000
    ctx.correspond("metrics", n, nontrivial=nontrivial)
    stage_race(ctx)


def replay(ctx, rep):
    """Re-executes a recorded failure on the current tree: op scripts on real code + model, c18race runs with the recorded arguments."""
    items = []
    if "failing" in rep:
        items.append(rep["failing"])
    for o in rep.get("broken_obligations", []):
        if isinstance(o.get("detail"), dict) and "ops" in o["detail"]:
            items.append(o["detail"])
    if not items:
        print(json.dumps(rep, indent=1))
        return 0
    rc = 0
    for it in items:
        if it.get("tool") == "c18race":
            with core.BuildLock():
                ok, out = core.build_harness(race=True)
            if not ok:
                print(out)
                return 1
            code, r, err = run_race_tool(it["args"])
            print("c18race", " ".join(it["args"]), "-> exit", code)
            print("report:", json.dumps(r))
            print("race detector:", "DATA RACE reported" if "DATA RACE" in err else "silent")
            print(err[:3000])
            if code != 0 or "DATA RACE" in err:
                rc = 1
            continue
        ctx.stage_build()
        mm, il, ml, hits = core.run_single_case(ctx, "replay", it["domain"], it["ops"])
        print("ops:")
        for l in it["ops"]:
            print("   ", core.pretty(l))
        print("impl :", il)
        print("model:", ml)
        print("monitor hits:", json.dumps(hits))
        if mm or hits:
            rc = 1
    return rc
