"""C19 — semantic embeddings are strictly optional and their files cannot hurt."""
import os
import struct
import subprocess
import time

import core

PROP = dict(
    id="C19",
    level="proof",
    technique=("Lean 4 theorems over a byte-level model of the two embedding loaders (with an allocation log), a ScoreOps-generic cosine and "
               "semantic stage; code-shape facts re-extracted from the source; differential correspondence of CosineSimilarity, both loaders, "
               "EmbedQuery, LoadEmbeddings and the semantic stage (exhaustive truncation streams); property monitor incl. paired SearchUniversal "
               "runs and loads in memory-capped child processes"),
    level_text=("Kernel-checked theorems (WtfModel/Props/C19.lean): with no index the semantic step is the identity and a missing or unloadable "
                "word-vector file leaves no index; the stage permutes the results, returns them in descending order (stable), and changes each "
                "non-negative score s to s' with s <= s' <= (1+alpha)*s, leaving results below the floor alone (alpha, floor regenerated); cosine "
                "is symmetric for any commutative product, lies in [-1,1] over every ordered field with square roots (Cauchy-Schwarz on the "
                "accumulation loop; reals are an instance), is 0 for empty/mismatched/zero vectors, and its clamp maps every non-NaN value of any "
                "linear order into [-1,1] and NaN to 0; both parsers are total, return exactly the header's count of well-formed records that "
                "the file really held or an error (never a half-filled table), request at most 3*|file|+70437 resp. 8*|file|+4104 bytes in "
                "total, and return at most (|file|-header)/record vectors; without the header check a 7-byte file breaks the bound (witness). "
                "PARTIAL: (1) actual memory of the process is a runtime quantity - the theorem bounds the sizes requested, the check measures "
                "allocated bytes in process and peak RSS of capped child processes on hostile files; (2) float rounding - order theorems are "
                "over ordered fields; for the float function the range follows from the clamp lemma and is checked with symmetry (bitwise) on "
                "the real floats; (3) 'search behaves as if the feature did not exist' is proved on the model of the last step of "
                "applyPostScoringBoosts plus the extracted fact that nothing else reads the index, and monitored on whole SearchUniversal runs."),
    level_note=("Trusted: Lean kernel; axioms propext/Classical.choice/Quot.sound; translator facts embed:* (regex/AST shape of the size checks, "
                "make() sites, gate, boost formula); harness and hook VerifSetEmbeddingIndex/VerifPostSemantic; os.File.Stat size = bytes readable "
                "(regular files); bufio/encoding/binary/io.ReadFull semantics as modelled by readFull; sort.SliceStable is a stable sort; amd64 "
                "float64/float32 arithmetic without FMA contraction on both sides; the tokenizer of EmbedQuery is modelled for ASCII queries only "
                "(non-ASCII queries are monitored, not compared); mapEntryCost=96 bytes per hinted map entry is an estimate of the Go runtime."),
    design_ref="DESIGN.md section 6, C19",
    rule=("streams: cos (vector pairs over 9 component families incl. zeros, denormals, 3e38, NaN/Inf patterns, identical/negated/scaled/mismatched, "
          "the overshoot vector [1,1,1]); files (valid small files, truncations, header counts {0,1,n,n+1,2^16+n,2^24,2^31,2^32-1}, wrong/zero/huge "
          "dimension, over-long word length, random bytes, LoadEmbeddings directories); trunc (EVERY prefix of a valid word-vector file and of two "
          "command-embedding files, exhaustive); sem (hand-made indexes, embed-query, semantic step on abstract result lists with and without index, "
          "paired SearchUniversal runs). Non-trivial: a cos case with a non-degenerate pair; a file case with a load that succeeds or fails on a "
          "short read/too-short header; a sem case with a boosted list or a paired search. distinct = distinct op sequences"),
    assumptions=["scores entering the semantic stage are non-negative (C01's subject) for the 'only raises' clause",
                 "embedding files are regular files whose size does not change while they are read",
                 "idx.Dimension >= 0"],
    keep_prefix={},
    trusted_extra=["prlimit(1)/RLIMIT_AS and /proc/self/status VmHWM for the memory clause"],
)

THEOREMS = ["Wtf.C19." + t for t in (
    "gen_facts", "absent", "absent_files", "raises_bounded", "boost_is_stage", "keeps_ordered", "cos_symm", "cos_symm_field",
    "cos_range", "cos_range_real", "clamp_range", "cos_zero", "parse_total", "alloc_bound", "count_bound", "embed_no_panic")]

ASSERTIONS = ["embed:LoadWordVectors", "embed:wv:dimension", "embed:wv:size-check", "embed:wv:alloc-sites",
              "embed:LoadCommandEmbeddings", "embed:ce:size-check", "embed:ce:alloc-sites", "embed:remainingBytes",
              "embed:remainingBytes:shape", "embed:CosineSimilarity", "embed:cosine:shape", "embed:semantic-gate",
              "embed:applySemanticBoost", "embed:boost:shape", "constants:typecheck"]


def nt_cos(tags, ops, impl):
    return tags.get("cos-generic", 0) + tags.get("cos-extreme", 0) > 0


def nt_files(tags, ops, impl):
    return any(v > 0 and (k.endswith("-ok") or k.endswith("-err-short") or k.endswith("-err-tooshort") or k.startswith("loademb-"))
               for k, v in tags.items())


def nt_sem(tags, ops, impl):
    return tags.get("sem-boosted", 0) + tags.get("search-boosted", 0) + tags.get("search-absent", 0) > 0


# ---------------------------------------------------------------------------------------------
# memory clause: the real loaders on hostile and on large valid files, in capped child processes
# ---------------------------------------------------------------------------------------------

AS_CAP = 1 << 30          # RLIMIT_AS of the child
CHILD_START_FAILURES = ("pthread_create failed", "failed to create new OS thread", "newosproc", "fork/exec")
RSS_SLACK_KB = 64 << 10   # 64 MiB
RSS_FACTOR = 64           # + 64 x file size


def le32(n):
    return struct.pack("<I", n)


def wv_file(count, nrec, seed):
    body = b""
    for i in range(nrec):
        w = ("w%d" % (i * 7919 + seed)).encode()
        body += struct.pack("<H", len(w)) + w + b"".join(struct.pack("<f", ((i * 31 + j * 17 + seed) % 200 - 100) / 64.0) for j in range(100))
    return le32(count) + body


def ce_file(count, dim, nrec, seed):
    return le32(count) + le32(dim) + b"".join(
        struct.pack("<f", ((i * 13 + j * 29 + seed) % 200 - 100) / 64.0) for i in range(nrec) for j in range(dim))


def memory_files(ctx):
    big = 400 if ctx.tier == "quick" else 20000
    s = ctx.seed % 1000
    return [
        # (name, kind, dim, bytes, expected prefix of the result line)
        ("wv-7-bytes-count-2^32-1", "wv", 100, b"\xff\xff\xff\xff\x00\x00\x00", "err tooshort:4294967295"),
        ("wv-4-bytes-count-2^32-1", "wv", 100, b"\xff\xff\xff\xff", "err tooshort:4294967295"),
        ("wv-count-2^31-one-record", "wv", 100, wv_file(1 << 31, 1, s), "err tooshort:2147483648"),
        ("wv-count-n+1", "wv", 100, wv_file(4, 3, s), "err "),
        ("wv-count-2^24-three-records", "wv", 100, wv_file(1 << 24, 3, s), "err tooshort:16777216"),
        ("wv-valid-%d" % big, "wv", 100, wv_file(big, big, s), "ok %d " % big),
        ("ce-8-bytes-count-2^32-1", "ce", 100, b"\xff\xff\xff\xff\x64\x00\x00\x00", "err tooshort:4294967295"),
        ("ce-count-2^31-one-record", "ce", 100, ce_file(1 << 31, 100, 1, s), "err tooshort:2147483648"),
        ("ce-dim0-count-2^32-1", "ce", 0, le32((1 << 32) - 1) + le32(0), "err tooshort:4294967295"),
        ("ce-dim1-count-2^30", "ce", 1, ce_file(1 << 30, 1, 5, s), "err tooshort:1073741824"),
        ("ce-count-n+1", "ce", 100, ce_file(3, 100, 2, s), "err tooshort:3"),
        ("ce-valid-%d" % big, "ce", 100, ce_file(big, 100, big, s), "ok %d " % big),
    ]


def stage_memory(ctx, only=None):
    d = os.path.join(ctx.rundir, "mem")
    os.makedirs(d, exist_ok=True)
    bad, rows = [], []
    for name, kind, dim, content, expect in memory_files(ctx):
        if only is not None and name != only:
            continue
        path = os.path.join(d, name + ".bin")
        with open(path, "wb") as f:
            f.write(content)
        cmd = ["prlimit", "--as=%d" % AS_CAP, core.HARNESS_BIN, "tool", "c19-load", "-as", "0", kind] + ([str(dim)] if kind == "ce" else []) + [path]
        env = core.go_env()
        env["GOMEMLIMIT"] = "512MiB"
        env["GOMAXPROCS"] = "2"   # few threads under the address-space cap
        for attempt in range(5):
            try:
                p = subprocess.run(cmd, stdout=subprocess.PIPE, stderr=subprocess.PIPE, env=env, timeout=300)
                rc, out, err = p.returncode, p.stdout.decode(errors="replace"), p.stderr.decode(errors="replace")
            except subprocess.TimeoutExpired:
                rc, out, err = -999, "", "timeout after 300 s"
            # a child that could not even start a thread (EAGAIN from clone: the machine's process / thread budget was exhausted
            # by whatever else runs on it) says nothing about the loader: run it again.  Running out of MEMORY is not excused.
            if rc != 0 and any(x in err for x in CHILD_START_FAILURES) and not any(l.startswith("R ") for l in out.split("\n")):
                ctx.add_distribution({"memory.child-could-not-start-a-thread(retried)": 1})
                time.sleep(0.5 + attempt)
                continue
            break
        line, hwm = "", -1
        for l in out.split("\n"):
            if l.startswith("R "):
                line = l[2:]
            if l.startswith("HWM "):
                hwm = int(l.split()[2])
        limit_kb = RSS_SLACK_KB + RSS_FACTOR * len(content) // 1024
        ok = rc == 0 and line.startswith(expect) and 0 <= hwm <= limit_kb
        rows.append("%s: rc=%d result=%r peak_rss=%d KiB (limit %d KiB, file %d B)" % (name, rc, line[:60], hwm, limit_kb, len(content)))
        ctx.cov["evaluations"] += 1
        ctx.add_distribution({"memory.child-loads": 1})
        if not ok:
            what = ("loader-memory: %s (%d-byte file): exit=%d result=%r peak RSS %d KiB > limit %d KiB or crash; stderr: %s"
                    % (name, len(content), rc, line, hwm, limit_kb, " | ".join(err.strip().split("\n")[:2])[:300]))
            bad.append(what)
            rep = dict(kind="impl-counterexample", domain="embed", memory_file=name, **{"class": "loader-memory"},
                       tool=" ".join(cmd[2:-1]), file_hex=content.hex() if len(content) <= 4096 else "<%d bytes, generated by lib/props/c19.py memory_files()>" % len(content),
                       ops=[("loadwv " if kind == "wv" else "loadce %d " % dim) + (content.hex() or "-")] if len(content) <= 4096 else [],
                       expected=expect, result=line, exit_status=rc, peak_rss_kib=hwm, limit_kib=limit_kb, stderr=err[:1500])
            ctx.hit("loader-memory", what, rep)
    ctx.cov.setdefault("memory", rows)
    if only is not None:
        return rows, bad
    ctx.oblige("monitor:memory:capped-child-loads(RLIMIT_AS=1GiB, peak RSS <= 64MiB + 64*size)", "monitor", not bad,
               "\n".join(bad) if bad else "; ".join(rows)[:3500])


def run(ctx):
    scratch = os.path.join(ctx.rundir, "scratch")
    os.makedirs(scratch, exist_ok=True)
    os.environ["WTFVERIF_SCRATCH"] = scratch      # the harness writes the files it loads here
    ctx.stage_xlate(required_assertions=ASSERTIONS)
    ctx.stage_prove(THEOREMS)
    if not ctx.stage_build():
        return
    quick = ctx.tier == "quick"
    ctx.correspond("embed", 500 if quick else 20000, name="embed-cos", args={"stream": "cos"}, nontrivial=nt_cos, sample_n=1)
    ctx.correspond("embed", 150 if quick else 4000, name="embed-files", args={"stream": "files"}, nontrivial=nt_files, sample_n=1, seed_offset=1)
    # exhaustive: every prefix of three valid files
    for kind in ("wv", "ce100", "ce3"):
        rc, out = core.sh([core.HARNESS_BIN, "tool", "c19-trunc-n", kind, str(ctx.seed)], env=core.go_env())
        n = int(out.strip()) if rc == 0 and out.strip().isdigit() else 0
        ctx.oblige("stream:trunc-%s:size" % kind, "correspondence", n > 0, out[-300:])
        if n:
            ctx.correspond("embed", n, name="embed-trunc-" + kind, args={"stream": "trunc", "kind": kind, "base": str(ctx.seed)},
                           nontrivial=nt_files, sample_n=0)
    ctx.correspond("embed", 700 if quick else 30000, name="embed-sem", args={"stream": "sem"}, nontrivial=nt_sem, sample_n=2, seed_offset=2)
    stage_memory(ctx)
    d = ctx.cov["distribution"]
    # the generators must have reached the interesting paths
    need = ["embed-cos.cos-generic", "embed-cos.cos-extreme", "embed-cos.cos-degenerate", "embed-files.load-child", "embed-files.wv-ok",
            "embed-files.ce-ok", "embed-files.wv-err-tooshort", "embed-files.ce-err-tooshort", "embed-files.wv-err-short",
            "embed-files.ce-err-dim", "embed-files.loademb-index", "embed-files.loademb-no-glove", "embed-trunc-wv.wv-err-short",
            "embed-trunc-wv.wv-ok", "embed-trunc-ce100.ce-ok", "embed-sem.sem-boosted", "embed-sem.sem-absent",
            "embed-sem.search-boosted", "embed-sem.search-absent"]
    # headline replay: the most severe finding first (memory exhaustion, crashes, then the rest)
    rank = {"loader-memory": 0, "loader-panic": 1, "cos-panic": 1, "search-panic": 1, "loademb-crash": 1}
    ctx.hits.sort(key=lambda h: rank.get(h["cls"], 2))
    missing = [k for k in need if d.get(k, 0) == 0]
    ctx.oblige("coverage:generators-reach-every-path", "coverage", not missing, "not reached: %s" % missing if missing else "all %d path counters > 0" % len(need))


def replay(ctx, rep):
    """./check C19 --replay <file>: re-executes the recorded input on the current tree (real code and model)."""
    import json
    scratch = os.path.join(ctx.rundir, "scratch")
    os.makedirs(scratch, exist_ok=True)
    os.environ["WTFVERIF_SCRATCH"] = scratch
    if not ctx.stage_build():
        print("build failed")
        return 1
    items = [rep["failing"]] if "failing" in rep else []
    items += [o["detail"] for o in rep.get("broken_obligations", []) if isinstance(o.get("detail"), dict) and "ops" in o["detail"]]
    rc = 0
    if not items:
        print(json.dumps(rep, indent=1)[:4000])
    for it in items:
        if it.get("memory_file"):
            ctx.seed, ctx.tier = rep.get("seed", ctx.seed), rep.get("tier", ctx.tier)
            rows, bad = stage_memory(ctx, only=it["memory_file"])
            print("memory-capped child load:", "; ".join(rows))
            for b in bad:
                print("STILL FAILING:", b)
            rc = rc or (1 if bad else 0)
        if it.get("ops"):
            mm, il, ml, hits = core.run_single_case(ctx, "replay", it.get("domain", "embed"), it["ops"])
            print("ops:")
            for l in it["ops"]:
                print("   ", l[:400])
            print("impl :", il)
            print("model:", ml)
            print("monitor hits:", json.dumps(hits)[:2000])
            if mm or hits:
                rc = 1
    return rc
