"""Shared by C01 and C13 (not a property module): the modelled NLP layer of SearchUniversal.

Model/Boosts.lean (calculateIntentBoost, buildBoostContext, calculateBoostForCommand) over Model/Nlp.lean (ProcessQuery,
GetEnhancedKeywords) replaces the former oracle parameters of the search model; the search driver runs with it and compares it
with the real values (`pq` / `ib` / `cb` lines) of every case.  This module lists the translator sites the model relies on and
runs the dedicated correspondence domain `boosts`.
"""

# xlate/x_boosts.go: everything about the two boost functions that is asserted rather than translated
BOOST_ASSERTIONS = ["boosts:" + s for s in (
    "intent-constants", "calculateIntentBoost", "calculateIntentBoost:signature", "calculateIntentBoost:shape",
    "applyIntentBoost", "applyIntentBoost:shape", "containsAny:shape", "containsAny:signature",
    "collectResults", "collectResults:intent-call", "SearchUniversal", "SearchUniversal:pq", "enhanceQueryWithNLP",
    "enhanceQueryWithNLP:pq", "applyPostScoringBoosts", "applyPostScoringBoosts:cascade-call", "cascadingBoost:shape",
    "buildBoostContext:shape", "boostContext:fields", "expandWithSynonyms:shape", "expandWithSynonyms:signature", "GetSynonyms:shape",
    "containsWord:shape", "containsWord:signature", "getCommandBase:shape", "calcHintBoost:shape", "calcHintBoost:signature",
    "calcTermBoost:shape", "calcTermBoost:signature", "calcContextBoost:shape", "calcContextBoost:signature",
    "getIntentBoost", "getIntentBoost:shape", "getIntentBoost:signature", "intentKeywords:literal", "extractContexts",
    "extractContexts:shape", "extractContexts:signature", "calculateBoostForCommand", "calculateBoostForCommand:shape", "recogniser")]

# xlate/x_nlp.go: the analysis the boosts are computed from (same list as C06)
NLP_ASSERTIONS = [
    "stopwords:literal",
    "nlp:intent-constants", "nlp:buildActionWords:entries", "nlp:buildTargetWords:entries", "nlp:buildSynonyms:entries",
    "nlp:NewQueryProcessor:wiring", "nlp:buildStopWords:shape", "nlp:cleanQuery:shape", "nlp:ProcessQuery:sequence",
    "nlp:ProcessQuery:word-loop", "nlp:detectIntent:shape", "nlp:detectIntentFromActions:cases", "nlp:detectIntentFromKeywords:cases",
    "nlp:isViewContext:shape", "nlp:GetEnhancedKeywords:shape", "nlp:GetEnhancedKeywords:order", "nlp:getRelevantActions:shape",
    "nlp:getRelevantTargets:shape", "nlp:utils.Min:shape", "nlp:getIntentKeywords:shape", "nlp:removeDuplicates:shape",
    "hints:recogniser", "hints:closure:hasAction", "hints:closure:hasTarget", "hints:closure:hasKeyword",
]

ASSERTIONS = BOOST_ASSERTIONS + NLP_ASSERTIONS

# tags that together mean: every intent, every branch of both functions and every odd-text class was exercised (reported in the
# distribution as boosts.branch-classes-never-hit)
BRANCHES = (
    ["q.intent-%s" % i for i in ("find", "view", "create", "delete", "modify", "install", "run", "configure", "general")] +
    ["ib.intent-%s-hit" % i for i in ("find", "view", "create", "delete", "modify", "install", "run", "configure")] +
    ["ib.intent-%s-by-description" % i for i in ("view", "modify", "install", "configure")] +
    ["ib.intent-factor-below-1", "ib.makepkg-with-package", "ib.action-in-command", "ib.action-in-description-only", "ib.compress-tool",
     "ib.compress-search-penalty", "ib.target-in-command", "ib.target-in-description-only", "ib.neutral", "ib.below-1",
     "cb.hint-whole-command", "cb.hint-first-field-only", "cb.hint-case-folded", "cb.action-term", "cb.context-in-raw-command",
     "cb.context-in-text-only", "cb.target-term", "cb.keyword-term", "cb.intent", "cb.neutral", "ctx.synonyms-added", "ctx.contexts",
     "doc.upper-case", "doc.non-ascii", "doc.invalid-utf8", "doc.multi-word-command", "doc.blank-command", "q.not-normalised"])


def nontrivial(tags, ops, impl):
    """a case counts if some document got a non-neutral factor of either kind"""
    return tags.get("ib.above-1", 0) + tags.get("ib.below-1", 0) > 0 and any(
        tags.get(k, 0) > 0 for k in ("cb.hint", "cb.action-term", "cb.context", "cb.target-term", "cb.keyword-term", "cb.intent"))


def correspond(ctx, n, seed_offset=17, hit_props=None):
    """Domain `boosts`: model vs real calculateIntentBoost / buildBoostContext / calculateBoostForCommand / analysis, bit for bit."""
    words = ctx.facts.get("nlp.words") or []
    lits = ctx.facts.get("boosts.literals") or []
    ctx.oblige("facts:boosts.literals", "translator", len(lits) > 20 and len(words) > 50,
               "%d literals of the boost functions, %d table words regenerated for the generator" % (len(lits), len(words)))
    args = {}
    if words:
        args["words"] = ",".join(words)
    if lits:
        args["lits"] = ",".join(lits)
    r = ctx.correspond("boosts", n, name="boosts", args=args, nontrivial=nontrivial, shrink=False, seed_offset=seed_offset,
                       hit_props=hit_props)
    # branch coverage of the generator is evidence, not an obligation: which literal reaches which branch is a property of the
    # source (a harmless change of a literal or factor may legitimately empty a class)
    tot, _ = r.tags()
    missing = [b for b in BRANCHES if tot.get(b, 0) == 0]
    ctx.cov["distribution"]["boosts.branch-classes"] = len(BRANCHES)
    ctx.cov["distribution"]["boosts.branch-classes-never-hit"] = len(missing)
    if missing:
        ctx.log("boosts: branch classes not exercised in this run:", missing)
    return r
