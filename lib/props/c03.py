"""C03 — the inverted index answers exactly like an exhaustive scan of the commands, also after merge / replace / append."""
import math
import os

import core

PROP = dict(
    id="C03",
    level="proof",
    technique=("Lean 4 theorems over the executable model of BuildUniversalIndex / calculateInitialScores / selectTopTerms / SearchUniversal "
               "and a state machine of the load / merge / UpdateDatabase / append / search operations; code-shape facts regenerated from the source; "
               "bit-level correspondence of tokenizer, index snapshot, search and histories with the real code; independent reference scorer as monitor"),
    level_text=("Kernel-checked theorems (WtfModel/Props/C03.lean), for every database (arbitrary byte strings, duplicates, empty fields), query, "
                "option record, per-term boost table, parameter values and score type (no algebraic law is used: all score equations are syntactic and hold "
                "for IEEE floats): the incrementally built index has, per term, exactly the documents containing it in document order with the true per-field "
                "frequencies, df = number of such documents, field lengths of the right document, N and the length totals; the score map computed through the "
                "index is, as a list, the map recomputed by scanning the commands (same fold order); with NLP and typo fallback off and a limit that does not cut, "
                "SearchUniversal returns exactly the eligible commands containing a used content word, every score being the scan score (times the pipeline boost); "
                "queries of at most cap (default 10) content words are used completely, the first four always; in every state reachable through load / load-with-personal / UpdateDatabase / direct growth / search the lazy rebuild leaves index = build(current commands) and a re-ranker built from "
                "the current commands, so each search equals the search on a freshly built database; loaded commands have well-formed lower-case caches and, away from U+212A / U+0130, "
                "their indexed tokens are the tokens of the raw fields (keywords / tags element by element). The model is tied to the code by regenerated shape facts "
                "(both structures rebuilt at the four sites; 10 / 4 / 2 / minIDF literals) and by correspondence runs: tokenizer (exhaustive over all strings of "
                "length <= 3 over a 13-byte alphabet), index snapshots, lexical searches, random histories through the real loader and UpdateDatabase."),
    level_note=("Trusted: Lean kernel; axioms propext/Classical.choice/Quot.sound; translator shape assertions (c03:*); harness, hooks VerifIndexSnapshot / "
                "VerifRerankerCurrent / VerifBM25Params / VerifIDF / VerifTokenize; yaml.v3 round trip for loader runs (checked per case, else the loader is emulated). "
                "The link 'indexed text = lower-cased raw field has the tokens of the raw field' is proved (byte-level, any UTF-8 or invalid input) for every text "
                "without a non-ASCII code point that lower-cases to ASCII; it is false at exactly U+212A / U+0130 (list re-derived from the toolchain by the foldscan op; "
                "witness in Props); the RuneInfo table values are the toolchain's (oracle lines). Same-length replacement of db.Commands behind the engine's back is outside the property's "
                "operations and is exhibited as a non-theorem; float rounding is outside the proofs but the equalities are syntactic; embeddings / result cache are "
                "C19 / C05."),
    design_ref="DESIGN.md section 6, C03",
    rule=("streams: tokenizer strings (complete enumeration of length<=3 over 13 bytes + random adversarial), index snapshots of random databases (0-10 / 0-40 "
          "entries; loader-like, empty and inconsistent caches), lexical searches with non-cutting limit on databases with duplicates / shared words / empty fields "
          "(1-25 / 1-80 entries, 1-18 query words, boosts), random histories of 2-6 state changes (load, load+personal present/absent, UpdateDatabase incl. equal "
          "size, direct append) with 0-3 searches after each (NLP on and off), the shipped commands.yml with real-word queries, plus the general search stream. "
          "A case is non-trivial when: tokenizer case yields >=1 token; snapshot of a non-empty database; a lexical search with a non-empty candidate set checked "
          "exactly by the reference scorer; a history with a search after >=2 state changes; a shipped-db query with results. distinct = distinct op sequences"),
    assumptions=["the idf < minIDF gate never fires (minIDF = 0 regenerated; bm25IDF >= 0): needed only by Wtf.C03.candidates_exact, the general form is candidates_exact_general",
                 "cached lower-case fields are the loader's (WFCache) wherever raw fields are mentioned; theorems about the index speak about the indexed texts and need nothing",
                 "direct same-length replacement of db.Commands is not one of the property's operations"],
    keep_prefix={"c03": 0},
)

THEOREMS = ["Wtf.C03." + t for t in (
    "code_facts", "postings", "postings_meaning", "df", "lens", "n", "totals", "scores_eq_scan", "scores_lookup", "scan_entry_iff",
    "scores_minIdfOff", "candidates_exact", "candidates_exact_general", "result_scores", "terms_small", "default_cap", "terms_first_four",
    "terms_bound", "fresh", "search_fresh", "loaded_caches_wf", "tokenize_toLower", "tokenize_joinSp", "indexed_tokens",
    "indexed_tokens_ascii")]

ASSERTIONS = ["stopwords:func", "stopwords:literal", "stopwords:tokenizer-uses-nlp.StopWords", "bm25:defaultParams", "bm25:params-literal",
              "c03:SearchUniversal", "c03:lazy-rebuild-condition", "c03:lazy-rebuild-both", "c03:term-cap", "c03:selectTopTerms", "c03:preserve-count",
              "c03:normalizeAndTokenize", "c03:min-token-len", "c03:UpdateDatabase", "c03:update-rebuilds-both", "c03:LoadDatabase",
              "c03:LoadDatabaseWithPersonal", "c03:load-builds-both", "c03:merge-builds-both", "c03:merge-order"]

# ---- the BM25F formulas of the model are the source's (Props/C03b.lean over the regenerated Gen/Bm25F.lean) ----
THEOREMS += ["Wtf.C03." + t for t in ("fieldBM25_regenerated", "termBM25F_regenerated")]
ASSERTIONS += ["bm25f:" + s for s in ("fieldBM25", "fieldBM25:param-types", "fieldBM25:params", "fieldBM25:body", "termBM25F", "termBM25F:body",
                                      "bm25IDF", "bm25IDF:shape", "bm25IDF:arg")]
PROP["level_text"] += (" Props/C03b.lean: fieldBM25, termBM25F and the argument of math.Log in bm25IDF are TRANSLATED statement by statement into Lean "
                       "definitions on every run (Gen/Bm25F.lean); the hand-written model functions every search theorem and the driver use are shown equal to "
                       "them by unfolding (`fieldBM25_regenerated`, `termBM25F_regenerated`); the regenerated logarithm argument is treated in Props/C01d.lean.")

TOK_ALPHABET = 13
TOK_CHUNK = 120


def tok_cases(maxlen):
    total = sum(TOK_ALPHABET ** l for l in range(maxlen + 1))
    return total, int(math.ceil(total / TOK_CHUNK))


def nt_tok(tags, ops, impl):
    return any(l.startswith("tok ") for l in impl)


def nt_snapshot(tags, ops, impl):
    return tags.get("snapshot-nonempty", 0) > 0


def nt_scan(tags, ops, impl):
    return tags.get("c03-nonempty-candidates", 0) > 0


def nt_hist(tags, ops, impl):
    return tags.get("search-after-2+-changes", 0) > 0


def nt_ship(tags, ops, impl):
    return tags.get("ship-nonempty", 0) > 0


def run(ctx):
    ctx.stage_xlate(required_assertions=ASSERTIONS)
    ctx.stage_prove(THEOREMS, extra_targets=["WtfModel.Props.C03b"])
    if not ctx.stage_build():
        return
    quick = ctx.tier == "quick"
    # (a) tokenizer: complete enumeration first, random adversarial strings after it
    maxlen = 3 if quick else 4
    total, ncases = tok_cases(maxlen)
    r = ctx.correspond("search", ncases + (80 if quick else 1500), name="search-c03tok", args={"stream": "c03tok", "maxlen": str(maxlen)},
                       nontrivial=nt_tok, shrink=False)
    enumerated = sum(1 for idx in r.order if int(idx) < ncases for l in r.ops[idx] if l.startswith("tokens "))
    ctx.oblige("enumeration:tokenizer-strings-len<=%d" % maxlen, "correspondence", enumerated == total,
               "%d of %d strings over the %d-byte alphabet enumerated" % (enumerated, total, TOK_ALPHABET))
    ctx.cov["exhaustive_streams"] = ["search-c03tok: all %d byte strings of length <= %d over the alphabet a Z 0 _ - . SP C3 A9 FF E2 84 AA" % (total, maxlen)]
    # (b) index snapshots
    ctx.correspond("c03", 600 if quick else 10000, name="c03-index", args={"stream": "index"}, nontrivial=nt_snapshot, seed_offset=1)
    # (c) scan vs index: directed lexical searches, the general search stream, the shipped database
    ctx.correspond("search", 600 if quick else 15000, name="search-c03scan", args={"stream": "c03scan"}, nontrivial=nt_scan, shrink=False, seed_offset=2)
    ctx.correspond("search", 400 if quick else 10000, name="search-general", nontrivial=nt_scan, shrink=False, seed_offset=3)
    ship = os.path.join(core.REPO, "assets", "commands.yml")
    if os.path.exists(ship):
        ctx.correspond("c03", 2 if quick else 20, name="c03-ship", args={"stream": "ship", "path": ship}, nontrivial=nt_ship, model=False, seed_offset=4)
    else:
        ctx.oblige("input:assets/commands.yml", "correspondence", False, "shipped database not found at " + ship)
    # (d) histories
    ctx.correspond("c03", 600 if quick else 15000, name="c03-hist", args={"stream": "hist"}, nontrivial=nt_hist, seed_offset=5,
                   shrink=False)  # oracle lines must stay consistent with the history
    d = ctx.cov["distribution"]
    for k in ("search-c03scan.c03-exact-checked", "c03-hist.hsearch", "c03-index.snapshot-nonempty", "c03-index.foldscan"):
        ctx.oblige("coverage:" + k, "coverage", d.get(k, 0) > 0, "%s=%d" % (k, d.get(k, 0)))
