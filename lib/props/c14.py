"""C14 — accepted queries are clean; validation is stable and decisive."""
import os
import subprocess

import core

PROP = dict(
    id="C14",
    level="proof",
    technique=("Lean 4 theorems over a byte-level executable model of ValidateQuery/ValidateLimit (Go's UTF-8 decoder, strings.Map, "
               "TrimSpace, Fields modelled explicitly); constants, metacharacter class and exempted controls regenerated from the source; "
               "Unicode tables compared with the Go toolchain over all code points; differential correspondence and an independent monitor on the real code"),
    level_text=("Kernel-checked theorems (WtfModel/Props/C14.lean) over a hand-written model of validation.ValidateQuery and ValidateLimit, for every byte "
                "string (well-formed or not) and every integer: acceptance is exactly `at most MaxQueryLength bytes, no metacharacter, not blank once "
                "control characters are removed`; an accepted result has no control character, no metacharacter, no leading/trailing/adjacent white space and "
                "at most as many characters (runes) as the input (and at most as many bytes when the input is well-formed UTF-8); leading/trailing/inner "
                "white-space padding does not change the result; accepted limits are 1..maxLimit with 0 mapped to the default. Idempotence is proved in its "
                "exact form (second validation returns the result unchanged iff the result is at most MaxQueryLength bytes long, which always holds for "
                "well-formed input); the unrestricted statement is refuted on the model by a concrete witness that the check re-runs on the real code. "
                "The model is tied to the code by regenerated constants/classes, an exhaustive comparison of the two Unicode tables with the toolchain, "
                "systematic decoder inputs, a complete enumeration of short strings over a 16-symbol alphabet and boundary-biased random inputs."),
    level_note=("Trusted: Lean kernel; axioms propext/Classical.choice/Quot.sound only; the translator facts (maxLimit, metacharacter class, exempted "
                "controls, constant sites); the harness; that regexp `[class]` matching on well-formed UTF-8 text is membership of a code point in the class; "
                "Go's strings/unicode/utf8 packages behave on inputs outside the generated ones as they do on them (the model of the decoder, Map, TrimSpace "
                "and Fields is validated by differential runs, not derived from the library source)."),
    design_ref="DESIGN.md section 6, C14",
    rule=("queries: boundary-biased random byte strings (all 25 white-space and 65 control code points in turn, metacharacters next to controls, every shape "
          "of malformed UTF-8, byte lengths 998-1003, invalid bytes whose U+FFFD expansion brings the output to 996-1005 bytes), plus a complete enumeration of "
          "strings over a 16-symbol alphabet (quick: <=3 symbols, thorough: <=4) and systematic decoder inputs; limits: boundaries and random int64. "
          "A case is non-trivial if at least one query in it was rejected or came back altered, or a limit was rejected or replaced "
          "(decoder cases: at least one invalid byte among the decoded strings; the table comparison is not counted); "
          "distinct = distinct op sequences"),
    assumptions=["'characters' in 'no more characters than it had' are runes as Go counts them (utf8.RuneCountInString: an invalid byte is one character); "
                 "the byte length can grow for malformed input (witness theorem Wtf.C14.bytes_can_grow)",
                 "'control characters removed' is read character-wise on the decoded text (an invalid byte is the character U+FFFD)",
                 "Go int is 64-bit; the model's limits are unbounded integers"],
    keep_prefix={},
)

THEOREMS = ["Wtf.C14." + t for t in (
    "gen_facts_ok", "accept_iff", "accept_iff_all_controls", "clean", "clean_bytes", "bytes_can_grow", "idem_iff", "idem_partial", "idem_fails",
    "pad_exact", "pad", "pad_inner", "limit", "limit_accept_iff")]

ASSERTIONS = ["validate:ValidateQuery", "validate:ValidateLimit", "validate:signatures", "validate:maxLimit", "validate:limit-default-const",
              "validate:maxlen-const", "validate:metaclass", "validate:control-strip", "constants:typecheck"]


def nontrivial(tags, ops, impl):
    return any(tags.get(k, 0) > 0 for k in ("altered", "err-empty", "err-toolong", "err-badchars", "err-other", "lim-err")) or \
        any(l.startswith("lim 0") for l in ops)


def nontrivial_dec(tags, ops, impl):
    return any(t.startswith("b") for l in impl for t in l.split(","))  # at least one invalid byte among the decoded strings


def tool(*args):
    p = subprocess.run([core.HARNESS_BIN, "tool"] + list(args), stdout=subprocess.PIPE, stderr=subprocess.PIPE, env=core.go_env(), text=True)
    if p.returncode != 0:
        raise RuntimeError("harness tool %s failed: %s" % (args, p.stderr))
    return p.stdout.strip()


def model_witness(ctx):
    """Asks the Lean driver for the witness of Wtf.C14.idem_fails (hex)."""
    p = subprocess.run([core.DRIVER_BIN], input="case 0 validate\nwitness\n", stdout=subprocess.PIPE, stderr=subprocess.PIPE, text=True, timeout=120)
    lines = [l for l in p.stdout.split("\n") if l and not l.startswith("case ") and not l.startswith("#")]
    return lines[0].strip() if lines else ""


def run(ctx):
    ctx.stage_xlate(required_assertions=ASSERTIONS)
    ctx.stage_prove(THEOREMS)
    ctx.stage_build()
    built = {o["name"]: o["ok"] for o in ctx.obligations if o["kind"] == "build"}
    if not built.get("build:harness(-tags verif, overlay)"):
        return
    # If the Lean side no longer builds (e.g. a regenerated fact broke a theorem) the tie is already reported as
    # broken; the real code is still run so that the monitor can supply a concrete failing input.
    model = bool(built.get("build:driver"))
    quick = ctx.tier == "quick"

    # 1. the two Unicode tables of the model against the toolchain's unicode package, all 0x110000 code points
    if model:
        ctx.correspond("validate", 1, name="validate-unicode-tables", args={"mode": "tables"}, sample_n=1, nontrivial=lambda *a: False)
        ctx.cov["distribution"]["unicode_code_points_compared"] = 2 * 0x110000

        # 2. the decoder on systematic inputs (all 1- and 2-byte strings; structured 3- and 4-byte strings)
        n_dec = int(tool("c14-cases", "decode", ctx.tier))
        ctx.correspond("validate", n_dec, name="validate-decoder", args={"mode": "decode"}, nontrivial=nontrivial_dec, sample_n=0)

    # 3. complete enumeration of short strings over the 16-symbol alphabet
    elen = 3 if quick else 4
    n_enum = int(tool("c14-cases", "enum", str(elen)))
    ctx.correspond("validate", n_enum, name="validate-enum", args={"mode": "enum", "len": str(elen)}, nontrivial=nontrivial, sample_n=1, model=model)
    ctx.cov["distribution"]["enum_max_symbols"] = elen
    if not quick and model:
        ctx.exhaustive = True
        ctx.cov["exhaustive_scope"] = ("stream validate-enum only: every string of at most %d symbols over the 16-symbol alphabet "
                                       "{a, SP, TAB, CR, NUL, $, <, U+00A0, U+0085, U+3000, U+200B, 80, A0, C2, E3, FF} (69,905 strings); "
                                       "the Unicode table comparison is also complete (all 1,114,112 code points); the other streams are samples" % elen)

    # 4. boundary-biased random queries and limits
    ctx.correspond("validate", 4000 if quick else 100000, nontrivial=nontrivial, sample_n=4, model=model)
    if not model:
        return

    # 5. the witness of Wtf.C14.idem_fails, taken from the model and confirmed on the real code
    w = model_witness(ctx)
    ok = False
    detail = "driver returned no witness"
    if w:
        mm, il, ml, hits = core.run_single_case(ctx, "validate-witness", "validate", ["qq " + w])
        ctx.cov["evaluations"] += 1
        classes = [h.get("class") for h in hits]
        second_rejected = bool(il) and il[0].startswith("ok ") and il[0].endswith(" err toolong")
        ok = (not mm) and second_rejected and "idem-invalid-utf8-expansion" in classes
        detail = "witness %d bytes (%s..): impl=%s model=%s monitor=%s" % (len(w) // 2, w[:8], [core.pretty(l)[:60] for l in il],
                                                                           [core.pretty(l)[:60] for l in ml], classes)
        if not mm:
            ctx.cov["traces_validated_against_impl"] += 1
        for h in hits:
            ctx.hit(h.get("class", "?"), "%s: %s" % (h.get("class"), core.json.dumps(h.get("detail"))[:300]),
                    dict(kind="impl-counterexample", domain="validate", seed=ctx.seed, case="witness", ops=["qq " + w],
                         ops_pretty=["qq <%d bytes %s…>" % (len(w) // 2, w[:8])], detail=h.get("detail"), **{"class": h.get("class")}))
    ctx.oblige("witness:Wtf.C14.idem_fails reproduced on the real code", "correspondence", ok, detail)
