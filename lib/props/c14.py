"""C14 — accepted queries are clean; validation is stable and decisive."""
import os
import subprocess

import core

PROP = dict(
    id="C14",
    level="proof",
    technique=("Lean 4 theorems over a byte-level executable model of ValidateQuery/ValidateLimit (Go's UTF-8 decoder, the sanitising loop, "
               "TrimSpace, Fields modelled explicitly); constants, metacharacter class, exempted controls, the replacement byte and the statement-by-"
               "statement shape of the sanitising loop regenerated from the source; Unicode tables compared with the Go toolchain over all code points; "
               "differential correspondence and an independent monitor on the real code"),
    level_text=("Kernel-checked theorems (WtfModel/Props/C14.lean) over a hand-written model of validation.ValidateQuery and ValidateLimit, for every byte "
                "string (well-formed or not) and every integer: acceptance is exactly `at most MaxQueryLength bytes, no metacharacter, not blank once "
                "control characters are removed`; an accepted result is well-formed UTF-8 with no control character, no metacharacter, no "
                "leading/trailing/adjacent white space, at most as many characters (runes) and at most as many bytes as the input; validating an accepted "
                "result returns it unchanged, unconditionally (theorem idem; the accepted results are exactly the fixed points); leading/trailing/inner "
                "white-space padding does not change the result; accepted limits are 1..maxLimit with 0 mapped to the default. "
                "The model is tied to the code by regenerated constants/classes, translator assertions on every statement of the sanitising loop, an "
                "exhaustive comparison of the two Unicode tables with the toolchain, systematic decoder inputs, a complete enumeration of short strings "
                "over a 16-symbol alphabet and boundary-biased random inputs; the input that refuted idempotence before the repair of finding K01 "
                "(334 invalid bytes) is re-run on the real code on every run."),
    level_note=("Trusted: Lean kernel; axioms propext/Classical.choice/Quot.sound only; the translator facts (maxLimit, metacharacter class, exempted "
                "controls, replacement byte, constant sites, loop shape); the harness; that regexp `[class]` matching on well-formed UTF-8 text is membership "
                "of a code point in the class; Go's strings/unicode/utf8 packages behave on inputs outside the generated ones as they do on them (the model of "
                "the decoder, TrimSpace and Fields is validated by differential runs, not derived from the library source)."),
    design_ref="DESIGN.md section 6, C14",
    rule=("queries: boundary-biased random byte strings (all 25 white-space and 65 control code points in turn, metacharacters next to controls, every shape "
          "of malformed UTF-8, control characters between the two halves of a split multi-byte sequence, byte lengths 998-1003, 300-334 invalid bytes whose "
          "U+FFFD expansion would be 996-1005 bytes), plus a complete enumeration of "
          "strings over a 16-symbol alphabet (quick: <=3 symbols, thorough: <=4) and systematic decoder inputs; limits: boundaries and random int64. "
          "A case is non-trivial if at least one query in it was rejected or came back altered, or a limit was rejected or replaced "
          "(decoder cases: at least one invalid byte among the decoded strings; the table comparison is not counted); "
          "distinct = distinct op sequences"),
    assumptions=["'characters' in 'no more characters than it had' are runes as Go counts them (utf8.RuneCountInString: an invalid byte is one character); "
                 "the byte length does not grow either (theorem Wtf.C14.clean_bytes)",
                 "'control characters removed' is read character-wise on the decoded text (an invalid byte is the character U+FFFD, which is neither "
                 "blank nor a control character; the code writes it back as one '?')",
                 "Go int is 64-bit; the model's limits are unbounded integers"],
    keep_prefix={},
)

THEOREMS = ["Wtf.C14." + t for t in (
    "gen_facts_ok", "accept_iff", "accept_iff_all_controls", "clean", "clean_bytes", "result_chars", "idem", "idem_iff", "idem_old_witness",
    "pad_exact", "pad", "pad_inner", "limit", "limit_accept_iff")]

ASSERTIONS = ["validate:ValidateQuery", "validate:ValidateLimit", "validate:signatures", "validate:maxLimit", "validate:limit-default-const",
              "validate:maxlen-const", "validate:metaclass", "validate:strip-loop", "validate:strip-invalid", "validate:control-strip",
              "validate:strip-copy", "validate:strip-result", "constants:typecheck"]


def nontrivial(tags, ops, impl):
    return any(tags.get(k, 0) > 0 for k in ("altered", "err-empty", "err-toolong", "err-badchars", "err-other", "lim-err")) or \
        any(l.startswith("lim 0") for l in ops)


def nontrivial_dec(tags, ops, impl):
    return any(t.startswith("b") for l in impl for t in l.split(","))  # at least one invalid byte among the decoded strings


def tool(*args):
    p = subprocess.run([core.HARNESS_BIN, "tool"] + list(args), stdout=subprocess.PIPE, stderr=subprocess.PIPE, env=core.go_env(), text=True)
    if p.returncode != 0:
        raise RuntimeError("harness tool %s failed: %s" % (args, p.stderr))
    return p.stdout.strip()


def model_witness(ctx):
    """Asks the Lean driver for the input of Wtf.C14.idem_old_witness (hex): 334 invalid bytes."""
    p = subprocess.run([core.DRIVER_BIN], input="case 0 validate\nwitness\n", stdout=subprocess.PIPE, stderr=subprocess.PIPE, text=True, timeout=120)
    lines = [l for l in p.stdout.split("\n") if l and not l.startswith("case ") and not l.startswith("#")]
    return lines[0].strip() if lines else ""


def run(ctx):
    ctx.stage_xlate(required_assertions=ASSERTIONS)
    ctx.stage_prove(THEOREMS)
    ctx.stage_build()
    built = {o["name"]: o["ok"] for o in ctx.obligations if o["kind"] == "build"}
    if not built.get("build:harness(-tags verif, overlay)"):
        return
    # If the Lean side no longer builds (e.g. a regenerated fact broke a theorem) the tie is already reported as
    # broken; the real code is still run so that the monitor can supply a concrete failing input.
    model = bool(built.get("build:driver"))
    quick = ctx.tier == "quick"

    # 1. the two Unicode tables of the model against the toolchain's unicode package, all 0x110000 code points
    if model:
        ctx.correspond("validate", 1, name="validate-unicode-tables", args={"mode": "tables"}, sample_n=1, nontrivial=lambda *a: False)
        ctx.cov["distribution"]["unicode_code_points_compared"] = 2 * 0x110000

        # 2. the decoder on systematic inputs (all 1- and 2-byte strings; structured 3- and 4-byte strings)
        n_dec = int(tool("c14-cases", "decode", ctx.tier))
        ctx.correspond("validate", n_dec, name="validate-decoder", args={"mode": "decode"}, nontrivial=nontrivial_dec, sample_n=0)

    # 3. complete enumeration of short strings over the 16-symbol alphabet
    elen = 3 if quick else 4
    n_enum = int(tool("c14-cases", "enum", str(elen)))
    ctx.correspond("validate", n_enum, name="validate-enum", args={"mode": "enum", "len": str(elen)}, nontrivial=nontrivial, sample_n=1, model=model)
    ctx.cov["distribution"]["enum_max_symbols"] = elen
    if not quick and model:
        ctx.exhaustive = True
        ctx.cov["exhaustive_scope"] = ("stream validate-enum only: every string of at most %d symbols over the 16-symbol alphabet "
                                       "{a, SP, TAB, CR, NUL, $, <, U+00A0, U+0085, U+3000, U+200B, 80, A0, C2, E3, FF} (69,905 strings); "
                                       "the Unicode table comparison is also complete (all 1,114,112 code points); the other streams are samples" % elen)

    # 4. boundary-biased random queries and limits
    ctx.correspond("validate", 4000 if quick else 100000, nontrivial=nontrivial, sample_n=4, model=model)

    # 5. the input that refuted idempotence before the repair of K01 (334 invalid bytes; 1000 of them as well), on the real
    #    code: accepted, and the second validation returns the first result unchanged.  Taken from the model when the
    #    driver is there (Wtf.Validate.idemWitness), otherwise spelled out here, so that a failing input is reported
    #    even when the Lean side does not build.
    w = (model_witness(ctx) if model else "") or "ff" * 334
    for name, hexq in (("validate-witness", w), ("validate-witness-1000", "ff" * 1000)):
        r = core.Run(ctx, name)
        r.set_ops("case 0 validate\nqq %s\n" % hexq)
        r.exec_impl(timeout=600)
        if model:
            r.exec_model(timeout=600)
        r.load()
        mm = bool(r.diff()) if model else False
        il, ml, hits = r.impl.get("0", []), r.model.get("0", []), r.hits
        ctx.cov["evaluations"] += 1
        classes = [h.get("class") for h in hits]
        parts = il[0].split(" ") if il else []
        stable = len(parts) == 4 and parts[0] == "ok" and parts[2] == "ok" and parts[1] == parts[3]
        ok = (not mm) and stable and not classes
        detail = "%d invalid bytes (%s..): impl=%s model=%s monitor=%s" % (len(hexq) // 2, hexq[:8], [core.pretty(l)[:60] for l in il],
                                                                           [core.pretty(l)[:60] for l in ml], classes)
        if model and not mm:
            ctx.cov["traces_validated_against_impl"] += 1
        for h in hits:
            ctx.hit(h.get("class", "?"), "%s: %s" % (h.get("class"), core.json.dumps(h.get("detail"))[:300]),
                    dict(kind="impl-counterexample", domain="validate", seed=ctx.seed, case="witness", ops=["qq " + hexq],
                         ops_pretty=["qq <%d bytes %s…>" % (len(hexq) // 2, hexq[:8])], detail=h.get("detail"), **{"class": h.get("class")}))
        ctx.oblige("witness:%d invalid bytes are accepted and their result is a fixed point on the real code" % (len(hexq) // 2), "correspondence", ok, detail)
