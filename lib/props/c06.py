"""C06 — NLP enhancement never drops what the user typed."""
import core

PROP = dict(
    id="C06",
    level="proof",
    technique=("Lean 4 theorems over an executable model of nlp.ProcessQuery / GetEnhancedKeywords (tables and hint rules regenerated from the "
               "source by a go/ast recogniser) and over the term pipeline of the SearchUniversal model; differential correspondence of the "
               "analysis with the real package nlp; paired NLP-off / NLP-on monitor on the real engine"),
    level_text=("Kernel-checked theorems (WtfModel/Props/C06.lean), for every database, query byte string, option record, score type, value of "
                "the engine's parameters, every table content and every hint function: the expanded keyword list begins with the keywords of "
                "the user's text in extraction order and has no duplicates; keywords are words of the cleaned text or first synonyms of them; "
                "the merge into the query only appends, so with the default term cap a query of at most ten content words is searched with "
                "all its words and every command returned with enhancement off is returned with it on (typo fallback off, limit >= database "
                "size); the first four content words are searched with - and their documents returned - for every length and every cap; the "
                "analysis is a function of its text, and the regenerated facts show that no map iteration, goroutine or package variable lies "
                "on the analysis path. The analysis model (word tables, intent switches, 34 hint rules, constants) is regenerated from "
                "processor.go / processor_helpers.go / hints.go on every run with shape assertions, and validated against the real "
                "ProcessQuery / GetEnhancedKeywords on generated sentences (exhaustively on all 1- and 2-word queries over the table "
                "vocabulary in the thorough tier)."),
    level_note=("Trusted: Lean kernel; axioms propext/Classical.choice/Quot.sound only; the translator (xlate/x_nlp.go: table extraction, the "
                "hints.go recogniser, go/types-based search for map ranges); the harness and differ; RE2 class semantics of \\w and \\s and "
                "Go's strings.ToLower/Fields/TrimSpace (modelled, checked by correspondence incl. invalid UTF-8, U+212A, U+0130); the model of "
                "SearchUniversal (validated bit-for-bit by the `search` domain). Constants appendCap=8, defaultTermCap=10, preserveCount=4, "
                "rerank window 5*limit/10 are those of Model/Search.lean (tied to the source literals by the search family's extractor). "
                "Not claimed: anything about ranking order with enhancement on; caller-supplied term caps and queries of more than ten content "
                "words can lose a fifth-or-later word (proved possible: cap_seven_displaces_user_word; executed and counted, not flagged)."),
    design_ref="DESIGN.md section 6, C06",
    rule=("nlp domain: sentences of 1-20 words drawn from every word of the regenerated tables (each table word is forced into one case in "
          "turn), hint-condition words, stop words, odd tokens (Unicode incl. U+212A/U+0130/NBSP/U+2028, invalid UTF-8, NUL, _ - . joined words), "
          "varied separators/case, 'without opening' phrases; thorough tier adds ALL 1- and 2-word queries over the table vocabulary (that "
          "sub-space is enumerated completely; `exhaustive` refers to it). search stream c06: random databases (0-30, thorough 0-80 commands) "
          "built from table words and command names; per query a paired UseNLP off/on request with equal options (limit >= database size, "
          "typo fallback off, default or caller-supplied cap, 1-20 words). Non-trivial = nlp case whose expanded list is longer than the "
          "keyword list; search case with a pair in scope where at least one term was appended and the NLP-off answer is non-empty. "
          "distinct = distinct op sequences."),
    assumptions=["compared at a limit >= database size with the typo fallback off (the property's own frame)",
                 "Model/Search.lean is the model of SearchUniversal (validated by the search correspondence); its inline constants are tied to the source by the search family's extractor",
                 "T.nlp (the engine's NLP input) equals the analysis model: checked on every oracle line of the search-c06 run and by the nlp domain"],
    keep_prefix={},
)

THEOREMS = ["Wtf.C06." + t for t in (
    "enhanced_prefix", "enhanced_nodup", "keywords_nodup", "keywords_from_text", "keywords_order", "user_words_kept",
    "keywords_user_order", "analysis_function", "no_hidden_order", "source_shape", "terms_superset", "default_cap", "first_four",
    "user_terms_searched", "first_four_searched", "candidates_superset", "first_four_results",
    "engine_enhanced_begins_with_keywords", "cap_seven_displaces_user_word")]

ASSERTIONS = [
    "stopwords:literal",
    "nlp:intent-constants", "nlp:buildActionWords:entries", "nlp:buildTargetWords:entries", "nlp:buildSynonyms:entries",
    "nlp:NewQueryProcessor:wiring", "nlp:buildStopWords:shape", "nlp:cleanQuery:shape", "nlp:ProcessQuery:sequence",
    "nlp:ProcessQuery:word-loop", "nlp:detectIntent:shape", "nlp:detectIntentFromActions:cases", "nlp:detectIntentFromKeywords:cases",
    "nlp:isViewContext:shape", "nlp:GetEnhancedKeywords:shape", "nlp:GetEnhancedKeywords:order", "nlp:getRelevantActions:shape",
    "nlp:getRelevantTargets:shape", "nlp:utils.Min:shape", "nlp:getIntentKeywords:shape", "nlp:removeDuplicates:shape",
    "nlp:typecheck", "nlp:no-map-iteration", "nlp:no-package-state",
    "hints:recogniser", "hints:closure:hasAction", "hints:closure:hasTarget", "hints:closure:hasKeyword",
]


def nt_nlp(tags, ops, impl):
    return tags.get("expanded", 0) > 0


def nt_search(tags, ops, impl):
    return tags.get("c06-nontrivial", 0) > 0


def oracle_link(ctx, run):
    """Every `pq` oracle line of the search run (what the real package nlp told the engine) must equal what the
    analysis model computes for the text of the preceding `nq` line: the hypothesis NlpAgrees of Props/C06.lean."""
    lines, want = [], []
    for idx in run.order:
        ris, nq, qs = [], None, []
        for l in run.ops.get(idx, []):
            t = l.split(" ")
            if t[0] == "ri":
                ris.append(l)
            elif t[0] == "nq" and len(t) == 2:
                nq = t[1]
            elif t[0] == "pq" and len(t) == 5 and nq is not None:
                qs.append((nq, t[1:5]))
        if not qs:
            continue
        lines.append("case %s nlp" % idx)
        lines += ris
        for q, w in qs:
            lines.append("pq " + q)
            want.append((idx, q, w))
    if not want:
        ctx.oblige("correspondence:nlp-link(search oracle = analysis model)", "correspondence", False, "no oracle lines found in the search run")
        return
    r = core.Run(ctx, "nlp-link")
    r.set_ops("\n".join(lines) + "\n")
    r.exec_model()
    model, _, _ = core.parse_cases(open(r.model_path, errors="replace").read())
    got = []
    for idx in [l.split(" ")[1] for l in lines if l.startswith("case ")]:
        got += [(idx, l) for l in model.get(idx, []) if l.startswith("pq ")]
    bad = None
    if len(got) != len(want):
        bad = dict(reason="driver answered %d pq lines for %d oracle lines" % (len(got), len(want)), stderr=r.model_err[-500:])
    else:
        for (idx, q, w), (_, g) in zip(want, got):
            f = g.split(" ")
            # model line: pq <cleaned> <actions> <targets> <keywords> <enhanced> <intent>
            if len(f) != 7 or f[2:6] != w:
                bad = dict(case=idx, query=core.decode_tok(q), oracle=[core.decode_tok(x) for x in w], model=core.pretty(g))
                break
    ctx.cov["traces_validated_against_impl"] += 0 if bad else len(want)
    ctx.add_distribution({"nlp-link.oracle-lines": len(want)})
    ctx.oblige("correspondence:nlp-link(search oracle = analysis model)", "correspondence", bad is None,
               "%d oracle analyses equal the model's" % len(want) if bad is None else bad)


def run(ctx):
    ctx.stage_xlate(required_assertions=ASSERTIONS)
    ctx.stage_prove(THEOREMS)
    model = ctx.stage_build()
    if not all(o["ok"] for o in ctx.obligations if o["name"].startswith("build:harness")):
        return
    # If the model side cannot be built (e.g. the translation is broken and Gen/ is incomplete) the obligations above
    # already fail the check; the monitors still run on the real code to look for a concrete failing input.
    words = ctx.facts.get("nlp.words") or []
    hint_words = ctx.facts.get("nlp.hintWords") or []
    ctx.oblige("facts:nlp.words", "translator", len(words) > 50, "%d table words regenerated" % len(words))
    args = {}
    if words:
        args = {"words": ",".join(words), "hintwords": ",".join(hint_words)}
    quick = ctx.tier == "quick"
    # the analysis itself: model = real ProcessQuery / GetEnhancedKeywords, and the analysis clauses on the real outputs
    ctx.correspond("nlp", max(len(words) + 10, 1500) if quick else 8000, args=args, nontrivial=nt_nlp, shrink=False, model=model)
    if not quick and words:
        ctx.correspond("nlp", len(words) + 1, name="nlp-exhaustive-1-2-words", args=dict(args, stream="exh"), nontrivial=nt_nlp,
                       shrink=False, sample_n=1, model=model)
        ctx.exhaustive = True
        ctx.cov["exhaustive_scope"] = "all %d one-word and %d two-word queries over the regenerated table vocabulary" % (len(words), len(words) ** 2)
    # the engine: paired NLP-off / NLP-on searches, monitor of harness/mon_c06.go
    r = ctx.correspond("search", 1500 if quick else 8000, name="search-c06", args=dict(args, stream="c06"), nontrivial=nt_search,
                       shrink=False, model=model)
    if model:
        oracle_link(ctx, r)
    # the general search stream also carries paired NLP-on/off runs with arbitrary options (fuzzy on, small limits, caps)
    ctx.correspond("search", 300 if quick else 3000, name="search-general", nontrivial=nt_search, shrink=False, seed_offset=11, model=model)
