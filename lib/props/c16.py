"""C16 — search history is a bounded, ordered, faithfully persisted log."""
import json
import os
import shutil
import subprocess

import core

PROP = dict(
    id="C16",
    level="proof",
    technique=("Lean 4 invariant + refinement theorems over an executable model of history.SearchHistory (add / save / load / clear over a "
               "simulated file; encoding/json and the RFC 3339 text modelled by an executable codec whose round-trip laws are proved); translator facts for the default sizes and the "
               "max_size protection of Load; step-by-step differential correspondence with the real SearchHistory over a real file, "
               "including generated hostile file contents; independent monitor on the real outputs; CLI runs over pre-seeded hostile files"),
    level_text=("Kernel-checked theorems (WtfModel/Props/C16.lean) over a hand-written model of internal/history/history.go, for every requested "
                "maximum (incl. non-positive), every query/context byte string and every history of add/save/load/clear: the limit in force "
                "is positive and fixed, never more entries than that, timestamps non-decreasing, the entries are exactly the last `max` "
                "elements of the unbounded reference log in which an immediately repeated query replaces its predecessor; an immediately "
                "repeated query replaces the last entry; load after save gives back exactly the saved entries and maximum for any receiver "
                "(over an abstract codec satisfying `Codec.LawsOn`; Props/C16b.lean PROVES those laws for the executable JSON codec of "
                "Model/HistoryJson.lean - the reader / writer the driver runs against the real encoding/json on every check: unquote(quote b) = b "
                "exactly for valid UTF-8 (validUtf8_iff), parseTime(fmtTime t) = t for calendar instants of the years 1..9999, and the parser "
                "reads back every document Save writes, any number of entries, integers in Go's int range (parse_print_wf, fuel shown "
                "sufficient) - so roundtrip_go / bounded_ordered_go / roundtrip_history_go carry no assumption about the codec); recent = first "
                "sightings newest-first cut at the limit (distinct, sub-list of the newest-first listing, starts with the newest query); "
                "top counts are true frequencies, sum to the entry count, sorted by count, for every order the Go map iteration / unstable "
                "sort may produce; stats total/unique; and for EVERY history that also lets the environment put arbitrary content into the "
                "file (any codec at all, no laws assumed) no add panics and the limit stays positive — proved from the regenerated facts "
                "that Load protects max_size. The model is tied to the code by regenerated constants/shape facts and by step-by-step "
                "correspondence on random histories and ~15 families of generated file contents (the Lean side runs its own JSON reader "
                "that mirrors encoding/json's decoding of these structs, incl. case-folded and duplicate members, U+FFFD substitution, "
                "int64 classification and strict RFC 3339 UTC timestamps)."),
    level_note=("Trusted / assumed: Lean kernel; axioms propext/Classical.choice/Quot.sound only; the translator facts (newDefault, loadGuard, "
                "loadFallback, CLI literals, the decode-into-a-fresh-value shape of Load); encoding/json and time.Time enter as the executable codec `goCodec` of Model/HistoryJson.lean, whose laws "
                "(parse∘print = id on what Save writes, unquote∘quote = id on valid UTF-8, parseTime∘fmtTime = id on calendar instants) are "
                "PROVED in Props/C16b.lean; that goCodec is what encoding/json and time.Time do is exercised, not proved, by the "
                "correspondence (bytes written and values read are compared on every run); the wall clock read by AddEntry is non-decreasing (checked on every real run by the monitor, never compared "
                "across runs); I/O failures of Save are C09's subject. Not claimed: round trip of strings that are not valid UTF-8 (encoding/json "
                "substitutes U+FFFD; run and counted as `obs-invalid-utf8-roundtrip-changed`); a hand-made file holding more entries than its "
                "max_size stays over-long until the next non-repeated add (counted as `obs-loadraw-more-entries-than-max`); zone offsets and "
                "time.Parse's lax forms in hand-made timestamps are not generated; byPattern is modelled for ASCII patterns only."),
    design_ref="DESIGN.md section 6, C16",
    rule=("random op histories (add with immediate repeats from a 2-6 string pool incl. JSON-hostile / non-ASCII / rarely invalid UTF-8, save, load, "
          "clear, new-process-on-same-file, recent/top/stats/entries/pattern/chrono, rmfile, loadraw of generated file contents: empty, literals, "
          "valid documents with max_size in {0,-1,-3,1e9,missing,small,wrong type,overflow}, entries null / wrong type / missing / duplicated member, "
          "case-folded keys, wrong-typed and missing fields, hostile timestamps, truncated, binary, damaged), sizes {-3,-1,0,1,2,3,5,100}; a case is "
          "non-trivial if it contains a trim, an immediate duplicate, a load after a save, or a loadraw followed by an add; distinct = distinct op sequences"),
    assumptions=["the executable codec of Model/HistoryJson.lean is what encoding/json and time.Time do (its round-trip laws are proved; its agreement with the library is checked by correspondence)",
                 "the wall clock read by AddEntry is non-decreasing within a history (monitored on every real run)",
                 "queries and contexts are valid UTF-8 for the round-trip clause (the CLI's validation guarantees it)"],
    keep_prefix={"hist": 1},
    trusted_extra=["encoding/json + time.Time text form as modelled by Wtf.History.Json.goCodec (laws proved in Props/C16b.lean; agreement with the library exercised by correspondence)"],
)

THEOREMS = ["Wtf.C16." + t for t in (
    "gen_params_ok", "cli_max_positive", "bounded_ordered", "limit_is_requested", "immediate_dup", "add_new_appends", "roundtrip", "roundtrip_history",
    "recent", "recent_head", "top_sum", "top_any_schedule", "stats", "add_no_panic", "add_no_panic_after_any_file",
    "raw_negative_max_panics", "raw_zero_max_drops", "unguarded_load_lets_file_break_add",
    # Props/C16b.lean: the save / load clauses for the modelled encoding/json, no codec assumption
    "new_default_fits", "roundtrip_go", "invalid_string_changes", "bounded_ordered_go", "roundtrip_history_go")] + [
    "Wtf.History.Json." + t for t in ("goCodec_lawsOn", "validUtf8_iff", "parse_print_wf", "parseTime_fmtTime_ok", "digitFacts")]

ASSERTIONS = ["history:NewSearchHistory", "history:new-default", "history:new-stores-maxsize", "history:Load",
              "history:Load-decodes-into-fresh-value", "history:Load-receiver-untouched-before-error-check",
              "history:Load-max-size-shape", "history:AddEntry", "history:cli-max-size-literals", "history:view-default"]


def nontrivial(tags, ops, impl):
    if any(tags.get(k, 0) > 0 for k in ("trim", "immediate-dup", "load-after-save")):
        return True
    for i, l in enumerate(ops[:-1]):
        if l.startswith("loadraw ") and ops[i + 1].startswith("add "):
            return True
    return False


# ---------------------------------------------------------------------------------------------
# CLI stream: the real binary over pre-seeded hostile history files
# ---------------------------------------------------------------------------------------------

SMALL_DB = """- command: "tar -czf archive.tar.gz dir"
  description: "Create a compressed archive of a directory"
  keywords: ["tar", "compress", "archive", "gzip"]
  niche: "general"
  platform: [linux, macos, windows]
  pipeline: false
- command: "ls -la"
  description: "List files including hidden ones"
  keywords: ["list", "files", "hidden"]
  niche: "general"
  platform: [linux, macos, windows]
  pipeline: false
- command: "grep -r pattern ."
  description: "Search text recursively in files"
  keywords: ["search", "text", "grep", "recursive"]
  niche: "general"
  platform: [linux, macos, windows]
  pipeline: false
"""

GOOD_ENTRY = '{"query":"old one","timestamp":"2020-01-02T03:04:05Z","results_count":2}'
SEEDS_QUICK = [
    ("max_size -3", '{"entries":[' + GOOD_ENTRY + '],"max_size":-3}'),
    ("max_size 0", '{"entries":[' + GOOD_ENTRY + '],"max_size":0}'),
    ("truncated", '{"entries":[' + GOOD_ENTRY[:40]),
    ("empty file", ""),
    ("binary", b"\x00\xff\xfe{\x01"),
    ("entries null, huge max", '{"entries":null,"max_size":1000000000}'),
]
SEEDS_THOROUGH = [
    ("max_size -1", '{"entries":[],"max_size":-1}'),
    ("max_size string", '{"entries":[' + GOOD_ENTRY + '],"max_size":"100"}'),
    ("entries wrong type", '{"entries":"none","max_size":5}'),
    ("no max_size, 150 entries", '{"entries":[' + ",".join(GOOD_ENTRY.replace("old one", "q%d" % i) for i in range(150)) + ']}'),
    ("bad timestamp", '{"entries":[{"query":"x","timestamp":"yesterday","results_count":1}],"max_size":100}'),
    ("max_size -3 no entries member", '{"max_size":-3}'),
    ("null", "null"),
    ("array", "[1,2,3]"),
    ("max 1 with entries", '{"entries":[' + GOOD_ENTRY + "," + GOOD_ENTRY.replace("old one", "older") + '],"max_size":1}'),
    ("absent file", None),
]


def cli_stream(ctx):
    ok, out, wtf = core.build_wtf_binary()
    ctx.oblige("build:wtf-binary", "build", ok, out)
    if not ok:
        return
    seeds = SEEDS_QUICK + (SEEDS_THOROUGH if ctx.tier == "thorough" else [])
    base = os.path.join(ctx.rundir, "cli")
    os.makedirs(base, exist_ok=True)
    db = os.path.join(base, "db.yml")
    open(db, "w").write(SMALL_DB)
    queries = ["compress a directory", "list hidden files", "zzzz qqqq nothing matches"]
    bad = []
    runs = 0
    for i, (name, content) in enumerate(seeds):
        home = os.path.join(base, "home%d" % i)
        xdg = os.path.join(home, "cfg")
        hfile = os.path.join(xdg, "wtf", "search_history.json")
        os.makedirs(os.path.dirname(hfile), exist_ok=True)
        if content is not None:
            with open(hfile, "wb") as f:
                f.write(content if isinstance(content, bytes) else content.encode())
        env = dict(os.environ, HOME=home, XDG_CONFIG_HOME=xdg, XDG_CACHE_HOME=os.path.join(home, "cache"), NO_COLOR="1")
        # two searches in a row: the second one reads what the first one wrote
        for q in (queries[i % len(queries)], queries[(i + 1) % len(queries)]):
            runs += 1
            p = subprocess.run([wtf, "--database", db, q], env=env, cwd=home, stdout=subprocess.PIPE, stderr=subprocess.STDOUT, timeout=60)
            txt = p.stdout.decode(errors="replace")
            why = None
            if p.returncode != 0:
                why = "exit status %d" % p.returncode
            elif "panic" in txt or "goroutine" in txt:
                why = "panic text in output"
            else:
                try:
                    d = json.load(open(hfile))
                    es = d.get("entries") or []
                    if not es or es[-1].get("query") != q:
                        why = "history file's last entry is %r, expected the query %r" % (es[-1].get("query") if es else None, q)
                    elif not isinstance(d.get("max_size"), int) or d["max_size"] <= 0:
                        why = "history file written with max_size=%r" % (d.get("max_size"),)
                    elif len(es) > d["max_size"]:
                        why = "history file written with %d entries > max_size %d" % (len(es), d["max_size"])
                except Exception as e:  # noqa: BLE001
                    why = "history file does not parse after the search: %s" % e
            if why:
                bad.append(dict(seed_file=name, query=q, why=why, output=txt[-800:]))
                break
    ctx.cov["evaluations"] += runs
    ctx.add_distribution({"cli.runs": runs, "cli.seed_files": len(seeds)})
    ctx.cov["samples"].append(dict(domain="cli", seed_files=[n for n, _ in seeds][:6], queries=queries, note="wtf --database <3-entry yaml> <query>, twice per seed file"))
    ctx.oblige("cli:search-records-history-over-hostile-files", "cli", not bad, json.dumps(bad)[:1500] if bad else "%d runs over %d seed files" % (runs, len(seeds)))
    for b in bad[:3]:
        ctx.hit("cli-history-" + ("crash" if "exit" in b["why"] or "panic" in b["why"] else "not-recorded"),
                "CLI search over history file '%s': %s" % (b["seed_file"], b["why"]),
                dict(kind="impl-counterexample", domain="cli", seed_file=b["seed_file"],
                     content=next((c if isinstance(c, str) else repr(c)) for n, c in seeds if n == b["seed_file"]),
                     query=b["query"], why=b["why"], output=b["output"],
                     how="HOME/XDG_CONFIG_HOME isolated; write content to $XDG_CONFIG_HOME/wtf/search_history.json; run wtf --database <small yaml> <query>"))


def run(ctx):
    # the harness creates its per-case temp directory with os.MkdirTemp("", ...): keep it under this run's directory
    tmp = os.path.join(ctx.rundir, "tmp")
    os.makedirs(tmp, exist_ok=True)
    os.environ["TMPDIR"] = tmp
    ctx.stage_xlate(required_assertions=ASSERTIONS)
    ctx.stage_prove(THEOREMS, extra_targets=["WtfModel.Props.C16b"])
    if not ctx.stage_build():
        return
    quick = ctx.tier == "quick"
    ctx.correspond("hist", 5000 if quick else 60000, nontrivial=nontrivial)
    ctx.correspond("hist", 1500 if quick else 15000, name="hist-files", args={"files": "1"}, nontrivial=nontrivial, seed_offset=11)
    ctx.correspond("hist", 150 if quick else 1500, name="hist-badutf8", args={"badutf8": "1"}, nontrivial=nontrivial, seed_offset=23)
    ctx.correspond("hist", 12 if quick else 100, name="hist-default-size", args={"big": "1"}, nontrivial=nontrivial, seed_offset=37)
    cli_stream(ctx)
    # the shortest failing history first: it becomes the replay
    def prio(h):
        c = h["cls"]
        rank = 0 if "panic" in c or c.startswith("cli-") else 1 if c in ("load-merge-stale-fields", "roundtrip-mismatch", "add-wrong-entries") else 2
        return (rank, len(h["replay"].get("ops", [])) or 10 ** 9)
    ctx.hits.sort(key=prio)
    left = [d for d in os.listdir(tmp) if d.startswith("wtfverif-hist-")] if os.path.isdir(tmp) else []
    ctx.oblige("harness:temp-dirs-removed", "hygiene", not left, "left behind: %s" % left[:5])
    shutil.rmtree(tmp, ignore_errors=True)


def replay(ctx, rep):
    """./check C16 --replay <file>: re-runs the recorded history (real code and model) or the recorded CLI run."""
    tmp = os.path.join(ctx.rundir, "tmp")
    os.makedirs(tmp, exist_ok=True)
    os.environ["TMPDIR"] = tmp
    items = []
    if "failing" in rep:
        items.append(rep["failing"])
    for o in rep.get("broken_obligations", []):
        if isinstance(o.get("detail"), dict) and "ops" in o["detail"]:
            items.append(o["detail"])
    rc = 0
    if any(it.get("domain") != "cli" for it in items):
        if not ctx.stage_build():
            print("build failed")
            return 1
    for it in items:
        if it.get("domain") == "cli":
            ok, out, wtf = core.build_wtf_binary()
            if not ok:
                print(out)
                return 1
            base = os.path.join(ctx.rundir, "cli-replay")
            home = os.path.join(base, "home")
            xdg = os.path.join(home, "cfg")
            hfile = os.path.join(xdg, "wtf", "search_history.json")
            os.makedirs(os.path.dirname(hfile), exist_ok=True)
            db = os.path.join(base, "db.yml")
            open(db, "w").write(SMALL_DB)
            content = dict(SEEDS_QUICK + SEEDS_THOROUGH).get(it.get("seed_file"))
            if content is not None:
                with open(hfile, "wb") as f:
                    f.write(content if isinstance(content, bytes) else content.encode())
            env = dict(os.environ, HOME=home, XDG_CONFIG_HOME=xdg, XDG_CACHE_HOME=os.path.join(home, "cache"), NO_COLOR="1")
            p = subprocess.run([wtf, "--database", db, it.get("query", "list files")], env=env, cwd=home, stdout=subprocess.PIPE, stderr=subprocess.STDOUT, timeout=60)
            txt = p.stdout.decode(errors="replace")
            print("seed file %r: %r" % (it.get("seed_file"), content))
            print("exit status:", p.returncode)
            print(txt[-1500:])
            try:
                print("history file afterwards:", open(hfile).read()[:600])
            except OSError as e:
                print("history file afterwards: unreadable:", e)
            if p.returncode != 0 or "panic" in txt:
                rc = 1
            continue
        mm, il, ml, hits = core.run_single_case(ctx, "replay", it["domain"], it["ops"])
        print("ops:")
        for l in it["ops"]:
            print("   ", core.pretty(l)[:400])
        print("impl :", il)
        print("model:", ml)
        print("monitor hits:", json.dumps(hits)[:2000])
        if mm or hits:
            rc = 1
    if not items:
        print(json.dumps(rep, indent=1)[:4000])
    shutil.rmtree(ctx.rundir, ignore_errors=True)
    return rc
