"""C05 — the result cache is invisible: cached answers equal fresh answers."""
import json
import os
import re
import subprocess

import core
from props import lrucode

PROP = dict(
    id="C05",
    level="proof",
    technique=("Lean 4 invariant + history theorems over an executable model of the caching / monitoring layer (reusing the proved LRU model of C12), "
               "stated over code-shape facts regenerated from the source on every run; step-by-step differential correspondence with the real "
               "CachedDatabase / MonitoredDatabase using the engine's answer as an oracle; independent monitor comparing every returned answer "
               "with an uncached search on the same database"),
    level_text=("Kernel-checked theorems (WtfModel/Props/C05.lean) over a hand-written model of CachedDatabase / MonitoredDatabase / SearchCache / "
                "Manager / generateCacheKey, for every engine, database, answer type and every history of search / monitored search / invalidate / "
                "enable / disable / expiry sweep / database replacement / clock advance: each cached pair is (key of a request, the engine's answer "
                "to it on the database now in force) [inv]; every search output equals the engine's answer on the current database [transparent]; "
                "requests with different answers have different keys [no_sharing]; a replacement empties the cache [update_clears]; a disabled cache "
                "is bypassed. Which option fields the key carries, through which conversion literal, which fields the engine reads, that engine and key "
                "normalise the query alike, that UpdateDatabase invalidates and that Put mirrors Get are regenerated from the Go source on every run and "
                "judged by `decide` theorems [key_covers_reads, code_shape]. Options containing NaN/Inf (json.Marshal fails) are keyed by the Go-syntax text "
                "of the whole key struct and are covered by the same theorems; what the earlier query+limit fallback did is kept as a witness theorem "
                "[old_fallback_breaks_transparency] and as the always-on monitor class nan-key-fallback."),
    level_note=("Assumed, not proved: `enc` injective in Props/C05.lean; Props/C05b.lean reduces that hypothesis: there enc = hash o (modelled text of the key struct, Model/KeyJson.lean, "
                "validated byte for byte against the real json.Marshal by the keyjson correspondence) and the injectivity of the JSON text on the key view is a theorem "
                "[key_text_injective, enc_separates, transparent_keyed(_finite), no_sharing_keyed(_finite)]; what remains assumed there: (a) `hash` injective (SHA-256 collision-freedom), "
                "(b) FloatFmtOK (strconv's float text is over [0-9.eE+-] and injective on finite 64-bit patterns; monitored: class float-format), (c) only for NaN/Inf requests GoTextOK "
                "(fmt's %#v text injective on the Go-syntax view and starting with `s`; monitored: fallback-text-collision / fallback-text-shape), plus two facts that were hidden in "
                "`enc` injective: NormValid (ToLower(TrimSpace(q)) is valid UTF-8; monitored: norm-query-invalid-utf8) and WellTyped (requests are well-typed Go values); "
                "`EngineReadsOnly` (the answer depends on the options only through the selected fields, up to the omitempty identification nil≡empty, 0≡absent, "
                "-0.0≡0.0, every invalid UTF-8 byte ≡ the \\ufffd escape, all NaNs alike) - backed by the translator's syntactic reads analysis (conservative name-based call graph, escape checks) "
                "and by the monitor; `EngineNormalises` - backed by the regenerated fact that SearchUniversal's first use of the query is "
                "query = ToLower(TrimSpace(query)). Trusted: Lean kernel, axioms propext/Quot.sound, the translator, the harness and its ageing hook, the "
                "correspondence (bounded by its generators), engine determinism (checked on every request by a second uncached search). Concurrency is C11's subject."),
    design_ref="DESIGN.md section 6, C05",
    rule=("random histories (8-40 ops quick, up to 120 thorough) on generated databases (mixed platforms incl. windows-only, linux-only, pipeline, duplicate entries) "
          "over a pool of 2-5 base requests with exact repeats, same-normal-form respellings (case incl. U+0130/U+212A, padding incl. NBSP/U+3000), "
          "single-field option deltas over every field of SearchOptions, typo-only / degenerate / long / invalid-UTF-8 queries, via all four entry points; plus a "
          "NaN/Inf stream, an eviction stream (>1000 distinct keys) and an aliasing probe. A case is non-trivial if it has at least one cache hit and at "
          "least one of: single-field delta pair, database update, hit through a respelled query, expiry; distinct = distinct op sequences. "
          "Key-text stream (domain keyjson: groups of neighbouring requests over every field empty / non-empty, all string escape classes, extreme ints and floats, "
          "maps with keys colliding after UTF-8 coercion): a case counts if a JSON text was produced that exercises an escape class or a non-scalar / boundary value"),
    assumptions=["enc injective (C05.lean); in C05b.lean reduced to: hash injective (SHA-256 collision-free), FloatFmtOK (float text injective on finite values), GoTextOK (%#v text, NaN/Inf requests only), "
                 "NormValid (normalised query is valid UTF-8), WellTyped (requests are well-typed Go values) - the injectivity of the JSON text on the key view is proved",
                 "EngineReadsOnly engineReads answer (syntactic reads analysis + omitempty identification respected by the engine)",
                 "EngineNormalises answer (regenerated fact engineNormalisesQuery)",
                 "no finiteness hypothesis: NaN/Inf requests are keyed by the %#v text (all NaNs print as NaN; the engine treats them alike)",
                 "the engine is deterministic (C02); checked by a repeated uncached search at every request",
                 "single-threaded histories (C11 covers concurrency); the LRU's own laws are C12's"],
)

THEOREMS = ["Wtf.C05." + t for t in (
    "key_covers_reads", "code_shape", "proj_sound", "query_norm_sound", "finite_marshalOK", "no_sharing", "inv", "transparent",
    "update_clears", "disabled_bypasses", "switches_agree", "old_fallback_breaks_transparency",
    # Props/C05b.lean: the key function spelled out as hash o (modelled text)
    "key_names_ok", "key_text_injective", "key_families_disjoint", "enc_separates", "enc_separates_finite",
    "transparent_keyed", "transparent_keyed_finite", "no_sharing_keyed", "no_sharing_keyed_finite", "norm_valid_model")]

ASSERTIONS = ["cachekey:optionFields", "cachekey:keyFields", "cachekey:conv:SearchWithOptionsAndCache", "cachekey:conv:convertToCacheOptions",
              "cachekey:convertToCacheOptions:body", "cachekey:reads", "cachekey:SearchUniversal:query", "cachekey:generateCacheKey",
              "cachekey:UpdateDatabase", "cachekey:get-put", "cachekey:SearchCache", "constants:typecheck", "lru:default-capacity",
              "keyjson:keyStruct", "keyjson:marshal", "keyjson:no-custom-marshalers", "keyjson:json-names", "keyjson:kinds"]

# the LRU layer under the cache model is the source's control flow (Gen/LruCode.lean, Props/C12b.lean)
ASSERTIONS += lrucode.ASSERTIONS

BOOL_FACTS = ["engineNormalisesQuery", "keyNormalisesQuery", "updateInvalidates", "putMatchesGet", "putOnlyNonEmpty", "monitoredDelegates"]


def nontrivial(tags, ops, impl):
    g = lambda k: tags.get(k, 0) > 0
    return g("hit") and (g("single-field-delta") or g("update") or g("hit-through-variant") or g("expired-on-get") or g("swept"))


def nontrivial_nan(tags, ops, impl):
    return tags.get("hit", 0) > 0 and tags.get("nonfinite-options", 0) > 0


def nontrivial_keyjson(tags, ops, impl):
    """a case of the key-text domain counts if a JSON text was produced and it exercised an escape class or a non-scalar / boundary value"""
    g = lambda k: tags.get(k, 0) > 0
    return g("json") and any(g(k) for k in ("esc-quote", "esc-backslash", "esc-short", "esc-control", "esc-html", "esc-2028", "esc-invalid", "genuine-fffd",
                                            "val-null", "val-negzero", "val-exp", "val-empty-array", "val-empty-object", "val-empty-string", "long-text", "float"))


def fact_obligations(ctx):
    """Names the regenerated facts one by one (the Lean theorems key_covers_reads / code_shape judge the same facts;
    these obligations say *which* fact broke and drive the directed search). Returns (missing fields, query-norm broken)."""
    f = ctx.facts.get("cachekey")
    if not f:
        ctx.oblige("fact:cachekey", "translator", False, "translator produced no cachekey facts")
        return [], False
    reads = list(f.get("engineReads", []))
    missing_all = []
    for site in ("convCached", "convMonitored"):
        keyed = {kf["name"] for kf in (f.get("keyFields") or [])}
        if f.get(site) is None:   # the conversion at this site was not recognised (e.g. moved into a helper)
            ctx.oblige("fact:key_covers_reads[%s]" % site, "translator", False, "conversion site %s not recognised by the translator" % site)
            continue
        image = {opt for (kfn, opt) in f.get(site) if kfn in keyed}
        missing = [r for r in reads if r not in image]
        ctx.oblige("fact:key_covers_reads[%s]" % site, "translator", not missing,
                   "engine reads %s; not carried by the key through %s: %s" % (reads, site, missing or "none"))
        for m in missing:
            if m not in missing_all:
                missing_all.append(m)
    for b in BOOL_FACTS:
        extra = ""
        if b == "engineNormalisesQuery" and not f.get(b):
            extra = "; first use of the query in SearchUniversal: %s" % f.get("engineFirstQueryUse", "?")
        ctx.oblige("fact:" + b, "translator", bool(f.get(b)), "%s = %s%s" % (b, f.get(b), extra))
    ctx.cov["facts"] = {k: f.get(k) for k in ["engineReads", "convCached", "convMonitored", "fallbackMode"] + BOOL_FACTS}
    return missing_all, not (f.get("engineNormalisesQuery") and f.get("keyNormalisesQuery"))


def known_class_regexes(pid):
    p = os.path.join(core.VERIF, "known_findings.json")
    if not os.path.exists(p):
        return []
    return [k.get("class_regex", "$^") for k in json.load(open(p)).get("findings", [])
            if k.get("property") == pid and k.get("status") == "known"]


def reoracle(ops):
    p = subprocess.run([core.HARNESS_BIN, "tool", "c05-reoracle"], input="\n".join(ops) + "\n", stdout=subprocess.PIPE,
                       stderr=subprocess.PIPE, text=True, env=core.go_env())
    out = [l for l in p.stdout.split("\n") if l]
    return out if p.returncode == 0 and len(out) == len(ops) else ops


def shrink_hits(ctx, run, domain, max_classes=2):
    """Minimises the op history of the first monitor hit of each new class (delta debugging on the real code)."""
    known = known_class_regexes(ctx.pid)
    prio = {"shared-entry-different-answer": 0, "entry-survived-update": 1, "cached-answer-differs": 2}
    first = {}
    for h in run.hits:
        cls = h.get("class", "?")
        if cls not in first and not any(re.fullmatch(k, cls) for k in known):
            first[cls] = h
    chosen = sorted(first, key=lambda c: prio.get(c, 3))[:max_classes]
    for cls in reversed(chosen):  # the highest priority class is processed last and ends up in front
        h = first[cls]
        ops = run.ops.get(str(h.get("case")), [])
        if not ops or len(ops) > 600:
            continue

        def still(c, cls=cls):
            _, _, _, hits = core.run_single_case(ctx, "c05-shrink", domain, c)
            return any(x.get("class") == cls for x in hits)
        try:
            small = core.shrink_ops(ctx, domain, ops, still, max_rounds=400)
            # one more pass removing single lines (cmd lines of the database, leftover ops)
            i = 0
            while i < len(small) and len(small) > 1:
                cand = small[:i] + small[i + 1:]
                if still(cand):
                    small = cand
                else:
                    i += 1
        except Exception as e:  # best effort
            ctx.log("shrink failed:", e)
            continue
        small = reoracle(small)
        mm, il, ml, hits = core.run_single_case(ctx, "c05-final", domain, small)
        hh = [x for x in hits if x.get("class") == cls]
        if not hh:
            continue
        searches = [l for l in small if l.split(" ")[0] in ("search", "msearch", "searchl", "msearchl")]
        rep = dict(kind="impl-counterexample", domain=domain, seed=ctx.seed, case=h.get("case"), ops=small,
                   ops_pretty=[core.pretty(l) for l in small], detail=hh[0].get("detail"), impl=il, model=ml,
                   searches_in_history=len(searches), **{"class": cls})
        what = "%s (history minimised to %d ops, %d of them searches): %s" % (cls, len(small), len(searches), json.dumps(hh[0].get("detail"))[:400])
        # put the minimised history in front of the hits of this class
        for k, x in enumerate(ctx.hits):
            if x["cls"] == cls:
                ctx.hits.pop(k)
                break
        ctx.hits.insert(0, dict(cls=cls, what=what, replay=rep))
        ctx.log("minimised", cls, "to", len(small), "ops")


def remin(ctx, domain):
    """on_mismatch callback: the generic shrinker removes ops without recomputing the oracle tokens of the remaining
    search lines (so its result is meaningless here); redo the minimisation with a re-oracle step per candidate."""
    def cb(r, bad, detail):
        idx = bad[0][0]
        ops = r.ops.get(idx, [])
        if not ops or len(ops) > 600:
            return

        def still(c):
            mm, _, _, _ = core.run_single_case(ctx, "c05-mm-shrink", domain, reoracle(c))
            return mm
        try:
            if not still(ops):
                return
            small = core.shrink_ops(ctx, domain, ops, still, max_rounds=300)
            i = 0
            while i < len(small) and len(small) > 1:
                cand = small[:i] + small[i + 1:]
                if still(cand):
                    small = cand
                else:
                    i += 1
        except Exception as e:
            ctx.log("re-minimisation failed:", e)
            return
        small = reoracle(small)
        mm, il, ml, _ = core.run_single_case(ctx, "c05-mm-final", domain, small)
        detail.update(ops=small, ops_pretty=[core.pretty(l) for l in small], impl=il, model=ml, note="minimised with oracle recomputation")
        ctx.obligations[-1]["detail"] = detail
        ctx.log("correspondence mismatch minimised to", len(small), "ops:", json.dumps(detail["ops_pretty"])[:1500], "impl", il[-3:], "model", ml[-3:])
    return cb


def run(ctx):
    ctx.stage_xlate(required_assertions=ASSERTIONS)
    missing, norm_broken = fact_obligations(ctx)
    ctx.stage_prove(THEOREMS, extra_targets=["WtfModel.Props.C05b"])
    if not ctx.stage_build():
        return
    quick = ctx.tier == "quick"
    r = ctx.correspond("cachelayer", 2500 if quick else 12000, nontrivial=nontrivial, on_mismatch=remin(ctx, "cachelayer"))
    shrink_hits(ctx, r, "cachelayer")
    for idx in r.order[:2]:  # readable samples: the history without the database definition
        ops = [(o, i) for o, i in zip(r.ops[idx], r.impl.get(idx, [])) if not o.startswith("cmd ")]
        ctx.cov["samples"].insert(0, dict(domain="cachelayer", note="cmd lines omitted; search output = answer id, d-hits, d-misses, size, hits, misses, evictions",
                                          cmd_lines_in_history=sum(1 for o in r.ops[idx] if o.startswith("cmd ")),
                                          history=[dict(op=core.pretty(o), impl=i) for o, i in ops[:14]]))
    # options with NaN / Inf floats (json.Marshal fails, the Go-syntax text is hashed): separate stream; a wrong answer
    # there is reported under its own class nan-key-fallback
    r = ctx.correspond("cachelayer", 400 if quick else 1600, name="cachelayer-nan", args={"nan": "1"}, nontrivial=nontrivial_nan, seed_offset=11,
                       on_mismatch=remin(ctx, "cachelayer"))
    shrink_hits(ctx, r, "cachelayer")
    # more than `capacity` distinct keys: evictions in the LRU behind the cache
    ctx.correspond("cachelayer", 1 if quick else 4, name="cachelayer-evict", args={"evict": "1"},
                   nontrivial=lambda t, o, i: t.get("evict", 0) > 0, seed_offset=23, sample_n=0, on_mismatch=remin(ctx, "cachelayer"))
    # aliasing between the caller's map / slice / result slice and the cache (values in the model: real code only)
    r = ctx.correspond("cachealias", 200 if quick else 1500, model=False, nontrivial=lambda t, o, i: t.get("alias-probe", 0) > 0, seed_offset=31, sample_n=1)
    shrink_hits(ctx, r, "cachealias")
    # the text of the key: Model/KeyJson.lean against the bytes generateCacheKey hashes (json.Marshal of the key struct), every field
    # empty / non-empty, strings over all escape classes, extreme ints and floats, maps with keys colliding after UTF-8 coercion; the
    # monitor checks on the real keys that requests with different key views never share a key (class key-text-collision)
    ctx.correspond("keyjson", 800 if quick else 10000, nontrivial=nontrivial_keyjson, seed_offset=53, sample_n=2)
    # directed search attached to a broken fact: concentrate the deltas on the fields that are read but not keyed,
    # respectively on respelled typo-only queries
    if missing:
        r = ctx.correspond("cachelayer", 1500, name="cachelayer-focus", args={"focus": ",".join(missing)}, nontrivial=nontrivial, seed_offset=41)
        shrink_hits(ctx, r, "cachelayer")
    if norm_broken:
        r = ctx.correspond("cachelayer", 1500, name="cachelayer-focusquery", args={"focusquery": "1"}, nontrivial=nontrivial, seed_offset=43)
        shrink_hits(ctx, r, "cachelayer")
