"""C07 — typo fallback runs only when nothing matches and returns genuine matches."""
import json
import subprocess

import core
from props import gosort

PROP = dict(
    id="C07",
    level="proof",
    technique=("Lean 4 theorems over the executable model of SearchUniversal and a full transliteration of the sahilm/fuzzy matcher "
               "(refinement of the scored loop to an acceptance skeleton, skeleton = greedy case-folded subsequence); differential "
               "correspondence of the matcher (scores, matched indexes, panics; exhaustive small scope) and of paired searches with the real "
               "code; independent monitor written from the property statement"),
    level_text=("Kernel-checked theorems (WtfModel/Props/C07.lean), for all databases, queries, option records (NLP on/off, any threshold) and all "
                "values of the model's parameters: a non-empty answer without typo tolerance is returned unchanged with it (no_override) and the "
                "fallback is consulted only on SearchUniversal's two 'nothing' exits (fallback_only_when_nothing); the matcher — scores, "
                "never-reset matchedIndex and panicking index expression modelled faithfully — accepts a NUL-free target iff the pattern's runes "
                "occur in it in order under simple case folding (accepts_iff_subseq, refinement, eqFold_laws), the engine's targets are NUL-free "
                "(target_nul_free) so the model never panics (no_panic); every fallback result is a database command whose text contains the "
                "characters of the normalised query in order, with library score >= the threshold when one is set, reported score its "
                "normalisation, and passing the C04 gate (genuine); results are ordered by non-increasing library score (best_first, "
                "best_first_normalised); with no threshold an eligible command containing the query as a folded subsequence guarantees a "
                "non-empty answer (complete). Tie: op-level correspondence of Fuzzy.matchOne with fuzzy.Find (scores and matched indexes, "
                "exhaustive over small alphabets), bit-level correspondence of paired UseFuzzy on/off searches across thresholds, translator "
                "sites for the two fallback call sites, threshold, cap, NUL guard and matcher version."),
    level_note=("Trusted: Lean kernel; axioms propext/Classical.choice/Quot.sound; translator and harness. Hypotheses of the theorems: FoldOK (no "
                "Unicode table entry folds to 0) — checked on every dumped table and for all 1,114,112 code points on every run; SortOK (the "
                "library's sort.Stable yields a score-sorted permutation) — contract of sort.Stable, checked on every generated case by the driver "
                "and the monitor. best_first_normalised additionally takes monotonicity of the score normalisation as a named premise (NormMono), "
                "which is proved for every ScoreLaws type in C01's module (Wtf.Search.normalizeFuzzy_mono). The statements are about "
                "strings.ToLower(strings.TrimSpace(query)), which is what the matcher sees; Props/C07c.lean restates the SortOK theorems for the modelled "
                "sort.Stable (Model/GoSort.lean) with no premise about the sort; U+0130 is the only code point whose lower-casing "
                "leaves its simple-fold orbit (checked exhaustively). Float arithmetic of the normalised score is outside the proofs (§5)."),
    design_ref="DESIGN.md section 6, C07",
    rule=("fuzzy domain: pattern/target pairs (pools, sub-sequences of targets with re-casing, random strings over ASCII/Latin-1/Kelvin/dotted-I/"
          "long-s/CJK/invalid bytes/separators, NUL targets); exhaustive stream: every pattern of length <= 3 against every target of length <= 4 "
          "(quick) / <= 5 (thorough) over {a,A,b,-,space,e-acute}. search stream c07: generated database (some entries with NUL bytes), 6-7 queries "
          "(exact word, letter-dropping misspelling, swap/doubling misspelling, fragment, one-letter / punctuation-only, re-cased padded) each run "
          "with UseFuzzy off then on for thresholds {0,-100,-30,-5,1,50} x NLP off/on. A search case is non-trivial if the fallback answered at "
          "least once or a lexical answer was compared with typo tolerance on; a fuzzy case if it contains a match; distinct = distinct op sequences."),
    assumptions=["FoldOK: validated on every rune table of the run and exhaustively over all code points (obligation unicode:*)",
                 "SortOK: discharged in Props/C07c.lean (genuine_sorted, best_first_sorted, best_first_reported_sorted, complete_sorted) for every "
                 "parameter set whose fuzzySort is GoSort.fuzzyStable, the transliteration of Go's sort.Stable run with the library's non-strict "
                 "Less, proved to be a score-sorted permutation (Proofs/GoSort.lean); tied to the toolchain by the gosort correspondence domain "
                 "and by the fz line of every search case (Go's order compared with the model's); Props/C07.lean keeps SortOK as a premise",
                 "NormMono (best_first_normalised only): proved in C01's module for every ScoreLaws score type"],
)

THEOREMS = ["Wtf.C07." + t for t in (
    "no_override", "fallback_only_when_nothing", "accepts_iff_subseq", "refinement", "target_nul_free", "eqFold_laws", "no_panic",
    "genuine", "best_first", "best_first_normalised", "complete", "empty_query_no_fallback", "normMono", "best_first_reported",
    # Props/C07c.lean: SortOK discharged by the model of Go's sort.Stable (Model/GoSort.lean, Proofs/GoSort.lean)
    "sortOK_of_goStable", "sortOK_modelledTuning", "genuine_sorted", "best_first_sorted", "best_first_reported_sorted", "complete_sorted",
    "fallback_tie_order", "fuzzy_sort_closed_form")]

ASSERTIONS = ["c07:fallback-sites", "c07:normalize-on-entry", "c07:threshold", "c07:cap", "c07:nul-guard", "c07:matcher-call",
              "c07:fuzzy-version", "c04:fuzzy-gate"]


def nt_search(tags, ops, impl):
    return tags.get("c07-fallback-answer", 0) > 0 or tags.get("c07-lexical-answer-exists", 0) > 0


def nt_fuzzy(tags, ops, impl):
    return tags.get("match", 0) > 0


def check_rune_tables(ctx, run, name):
    """FoldOK on the dumped tables: every `ri` line has a non-ASCII code point and a non-zero fold representative."""
    bad, n = [], 0
    for idx in run.order:
        for l in run.ops[idx]:
            if l.startswith("ri "):
                n += 1
                f = l.split(" ")
                if len(f) != 5 or int(f[1]) < 128 or int(f[3]) == 0:
                    bad.append(l)
    ctx.oblige("unicode:dumped-tables-FoldOK:%s" % name, "table", not bad, "%d ri lines checked; violating: %s" % (n, bad[:5]))


def unicode_facts(ctx):
    p = subprocess.run([core.HARNESS_BIN, "tool", "c07unicode"], stdout=subprocess.PIPE, stderr=subprocess.PIPE, env=core.go_env(), timeout=600)
    try:
        res = json.loads(p.stdout.decode())
    except Exception:
        res = {}
    ctx.oblige("unicode:fold-orbit-of-nonzero-rune-excludes-zero", "table",
               res.get("checked") == 1114112 and not res.get("fold_orbit_contains_zero"), json.dumps(res)[:400])
    ctx.oblige("unicode:lower-stays-in-fold-orbit-except-U+0130", "table",
               res.get("checked") == 1114112 and (res.get("lower_not_in_fold_orbit") or []) == [0x130], json.dumps(res)[:400])
    ctx.oblige("unicode:monitor-rune-equality-is-orbit-membership", "table",
               res.get("checked") == 1114112 and not res.get("stringsEqualFold_differs_from_orbit"), json.dumps(res)[:400])


def run(ctx):
    ctx.stage_xlate(required_assertions=ASSERTIONS)
    ctx.stage_prove(THEOREMS, extra_targets=["WtfModel.Props.C07b", "WtfModel.Props.C07c"])
    if not ctx.stage_build():
        return
    quick = ctx.tier == "quick"
    unicode_facts(ctx)
    # the matcher: model vs fuzzy.Find, scores and matched indexes
    r = ctx.correspond("fuzzy", 1500 if quick else 20000, nontrivial=nt_fuzzy, sample_n=2)
    check_rune_tables(ctx, r, "fuzzy")
    # every pattern of length <= 3 (259 of them, one per case) against every target of length <= 4 / 5
    r = ctx.correspond("fuzzy", 259, name="fuzzy-exhaustive", args={"exhaustive": "1", "maxt": "4" if quick else "5"},
                       nontrivial=nt_fuzzy, shrink=False, sample_n=0, seed_offset=1)
    ctx.exhaustive = True  # stream fuzzy-exhaustive: complete enumeration of its finite space (both tiers; larger in thorough)
    # the library's final sort (tie order included): model of sort.Stable vs the toolchain's
    gosort.correspond(ctx, 400 if quick else 6000)
    # paired UseFuzzy off/on searches across thresholds, NLP on and off
    r = ctx.correspond("search", 120 if quick else 1000, name="search-c07", args={"stream": "c07"}, shrink=False, nontrivial=nt_search)
    check_rune_tables(ctx, r, "search-c07")
    # the general generator (random options incl. thresholds, padded / odd queries) and C04's mixed-platform stream
    r = ctx.correspond("search", 1000 if quick else 8000, name="search", shrink=False, nontrivial=nt_search, seed_offset=5, sample_n=1)
    check_rune_tables(ctx, r, "search")
    ctx.correspond("search", 40 if quick else 300, name="search-c04", args={"stream": "c04"}, shrink=False, nontrivial=nt_search,
                   seed_offset=9, sample_n=0)
