"""Shared by C01 and C07 (not a property module): the modelled final sort of the fuzzy library.

`github.com/sahilm/fuzzy` ends `Find` with `sort.Stable(matches)` where `Less(i, j) = Score[i] >= Score[j]` - not a strict order,
so the order of equal scores is whatever the toolchain's algorithm does.  Model/GoSort.lean transliterates that algorithm
(`stable`, `insertionSort`, `symMerge`, `rotate`, `swapRange` of go1.25 sort/zsortinterface.go); `fuzzyStable` is the library's
sort; Proofs/GoSort.lean proves it a permutation ordered by non-increasing score.  The search driver runs with `fuzzyStable`
and compares the `fz` line of every case (Go's order) with it.  This module runs the dedicated correspondence domain `gosort`:
the model against the real `sort.Stable` on `fuzzy.Matches` values (score lists of length 0..~700, 1400 in the thorough tier,
heavy ties, lengths at the block boundaries 20/40/80/160/320 +-1, all-equal, sorted, reversed, runs) and against `fuzzy.Find`
itself; the harness monitor checks the sort contract on the real output (class fuzzy-sort-not-a-sorted-permutation, recorded
for C07).
"""


def nontrivial(tags, ops, impl):
    """a gosort case counts if some list was long enough to be merged (more than one block of 20) and had equal scores"""
    return (tags.get("merged", 0) > 0 and tags.get("ties", 0) > 0) or tags.get("find-merged", 0) > 0


def correspond(ctx, n, seed_offset=11, hit_props=None):
    """Domain `gosort`: the order must be identical, ties included."""
    return ctx.correspond("gosort", n, nontrivial=nontrivial, seed_offset=seed_offset, sample_n=1, hit_props=hit_props)
