"""Orchestrator core for the WTF verification framework (see DESIGN.md section 2).

One run of one check = stages
  A  regenerate   : translator re-reads /repo and rewrites lean/WtfModel/Gen/*.lean (+ shape assertions)
  B  prove        : lake build of the property's theorem modules, #print axioms audit, forbidden-token scan
  C  correspond   : harness (real code, built from /repo's working tree with -tags verif via -overlay)
                    and the Lean driver run the same op lines; outputs are diffed
  D  monitor      : property predicates evaluated on the real code's outputs (hits -> replay files)
and a verdict (exit status, VIOLATION / KNOWN-FINDING lines, evidence file).
"""
import fcntl
import hashlib
import json
import math
import os
import re
import shutil
import struct
import subprocess
import sys
import threading
import time

VERIF = os.path.dirname(os.path.dirname(os.path.abspath(__file__)))
REPO = os.environ.get("WTF_REPO", "/repo")
BUILD = os.path.join(VERIF, ".build")
LEAN = os.path.join(VERIF, "lean")
GEN_DIR = os.path.join(LEAN, "WtfModel", "Gen")
HARNESS = os.path.join(VERIF, "harness")
DRIVER_BIN = os.path.join(LEAN, ".lake", "build", "bin", "wtfdriver")
HARNESS_BIN = os.path.join(BUILD, "wtfverif")
XLATE_BIN = os.path.join(BUILD, "wtfxlate")
ALLOWED_AXIOMS = {"propext", "Classical.choice", "Quot.sound"}
FORBIDDEN = re.compile(r"\bsorry\b|\badmit\b|^\s*axiom\s|native_decide|bv_decide|implemented_by|\bunsafe\s|maxHeartbeats\s+0\b")

TRUSTED_BASE = [
    "Lean 4.33.0 kernel (lake build; thorough tier re-checks with leanchecker)",
    "axioms permitted: propext, Classical.choice, Quot.sound (audited per theorem with #print axioms on every run)",
    "translator /verif/xlate (go/ast extraction of tables, constants and code-shape facts into WtfModel/Gen)",
    "correspondence harness /verif/harness (drives the real code in-process), line-protocol differ in lib/core.py",
    "Go toolchain go1.25.5 and the Go standard library",
]


def go_env():
    e = dict(os.environ)
    e["GOFLAGS"] = "-mod=mod"
    e["GOPROXY"] = "off"
    e.pop("GOTOOLCHAIN", None)  # must stay 'auto' so the cached go1.25.5 is selected
    e.pop("GOSUMDB", None)
    return e


def sh(cmd, cwd=None, env=None, timeout=None, inp=None):
    p = subprocess.run(cmd, cwd=cwd, env=env, input=inp, stdout=subprocess.PIPE, stderr=subprocess.STDOUT,
                       timeout=timeout, text=isinstance(inp, str) or inp is None)
    return p.returncode, p.stdout


class BuildLock:
    """Serialises the build stages of concurrently running checks."""

    def __enter__(self):
        os.makedirs(BUILD, exist_ok=True)
        self.f = open(os.path.join(BUILD, "lock"), "w")
        fcntl.flock(self.f, fcntl.LOCK_EX)
        return self

    def __exit__(self, *a):
        fcntl.flock(self.f, fcntl.LOCK_UN)
        self.f.close()


def _tree_hash(paths):
    h = hashlib.sha256()
    for root in paths:
        if os.path.isfile(root):
            files = [root]
        else:
            files = []
            for d, _, fs in os.walk(root):
                for f in fs:
                    if f.endswith(".go") or f in ("go.mod", "go.sum"):
                        files.append(os.path.join(d, f))
        for f in sorted(files):
            h.update(f.encode())
            with open(f, "rb") as fh:
                h.update(fh.read())
    return h.hexdigest()


# ---------------------------------------------------------------------------------------------
# Stage A: translator
# ---------------------------------------------------------------------------------------------

def build_xlate():
    src = os.path.join(VERIF, "xlate")
    stamp = os.path.join(BUILD, "xlate.stamp")
    hv = _tree_hash([src])
    if os.path.exists(XLATE_BIN) and os.path.exists(stamp) and open(stamp).read() == hv:
        return True, ""
    rc, out = sh(["go", "build", "-o", XLATE_BIN, "."], cwd=src, env=go_env())
    if rc == 0:
        open(stamp, "w").write(hv)
    return rc == 0, out


def run_xlate():
    """Regenerates lean/WtfModel/Gen from /repo. Returns (ok, facts dict, log)."""
    ok, out = build_xlate()
    if not ok:
        return False, {}, "translator build failed:\n" + out
    tmp = os.path.join(BUILD, "gen.tmp")
    shutil.rmtree(tmp, ignore_errors=True)
    os.makedirs(tmp)
    facts_path = os.path.join(BUILD, "facts.json")
    if os.path.exists(facts_path):
        os.remove(facts_path)
    rc, out = sh([XLATE_BIN, "-repo", REPO, "-out", tmp, "-facts", facts_path], env=go_env(), cwd=REPO)
    facts = {}
    if os.path.exists(facts_path):
        facts = json.load(open(facts_path))
    if rc != 0 and not facts:
        return False, {}, "translator failed:\n" + out
    # sync: rewrite changed files only.  A module that was NOT regenerated this run (its extractor did not recognise the source)
    # is kept as it was - every domain is linked into the one driver, so deleting it would break the build of all twenty checks -
    # but it is recorded as stale: every check whose theorems or correspondence import it reports it (Ctx.stale_obligations)
    os.makedirs(GEN_DIR, exist_ok=True)
    new = set(os.listdir(tmp))
    facts["stale_gen"] = sorted(f[:-5] for f in os.listdir(GEN_DIR) if f.endswith(".lean") and f not in new)
    for f in new:
        a, b = os.path.join(tmp, f), os.path.join(GEN_DIR, f)
        if not os.path.exists(b) or open(a, "rb").read() != open(b, "rb").read():
            shutil.copyfile(a, b)
    return True, facts, out


def lean_import_closure(modules):
    """Transitive imports (within this project) of the given Lean modules, by reading the `import` lines."""
    seen, todo = set(), list(modules)
    while todo:
        m = todo.pop()
        if m in seen:
            continue
        seen.add(m)
        path = os.path.join(LEAN, *m.split(".")) + ".lean"
        if not os.path.exists(path):
            continue
        for line in open(path, encoding="utf-8", errors="replace"):
            line = line.strip()
            if line.startswith("import "):
                for dep in line[7:].split():
                    if dep.startswith(("WtfModel.", "Driver")) and dep not in seen:
                        todo.append(dep)
    return seen


def driver_module_of(domain):
    """Driver module that implements a protocol domain (from the match arms of Driver/Dispatch.lean)."""
    try:
        src = open(os.path.join(LEAN, "Driver", "Dispatch.lean")).read()
    except OSError:
        return None
    m = re.search(r'\|\s*"%s"\s*=>\s*(\w+)\.runCase' % re.escape(domain), src)
    return "Driver." + m.group(1) if m else None


# ---------------------------------------------------------------------------------------------
# Stage B: proofs
# ---------------------------------------------------------------------------------------------

def lake_build(targets, timeout=3000):
    rc, out = sh(["lake", "build"] + list(targets), cwd=LEAN, timeout=timeout)
    return rc == 0, out


def strip_lean_comments(src):
    out, i, depth, n = [], 0, 0, len(src)
    while i < n:
        if src.startswith("/-", i):
            depth += 1
            i += 2
        elif depth and src.startswith("-/", i):
            depth -= 1
            i += 2
        elif depth:
            if src[i] == "\n":
                out.append("\n")
            i += 1
        elif src.startswith("--", i):
            while i < n and src[i] != "\n":
                i += 1
        else:
            out.append(src[i])
            i += 1
    return "".join(out)


def forbidden_scan():
    bad = []
    for d, _, fs in os.walk(os.path.join(LEAN, "WtfModel")):
        for f in fs:
            if not f.endswith(".lean"):
                continue
            p = os.path.join(d, f)
            txt = strip_lean_comments(open(p).read())
            for ln, line in enumerate(txt.split("\n"), 1):
                if FORBIDDEN.search(line):
                    bad.append("%s:%d: %s" % (os.path.relpath(p, LEAN), ln, line.strip()))
    return bad


def audit_axioms(pid):
    """Runs `lean` on Audit/<pid>.lean and returns {theorem: [axioms]} plus the raw log."""
    path = os.path.join("WtfModel", "Audit", pid + ".lean")
    rc, out = sh(["lake", "env", "lean", path], cwd=LEAN, timeout=1800)
    res = {}
    # messages may wrap over several lines
    flat = re.sub(r"\s*\n\s+", " ", out)
    for m in re.finditer(r"'([^']+)' depends on axioms: \[([^\]]*)\]", flat):
        res[m.group(1)] = [a.strip() for a in m.group(2).split(",") if a.strip()]
    for m in re.finditer(r"'([^']+)' does not depend on any axioms", flat):
        res[m.group(1)] = []
    return rc == 0, res, out


# ---------------------------------------------------------------------------------------------
# Stage C/D: harness and driver
# ---------------------------------------------------------------------------------------------

def write_overlay(stubbed=None):
    """Overlay: harness main package at /repo/cmd/wtfverif, hook files into their packages.
    stubbed: {hook file name: path of its stub} - hooks that no longer compile against the source (see build_harness)."""
    stubbed = stubbed or {}
    rep = {}
    for f in sorted(os.listdir(HARNESS)):
        if f.endswith(".go"):
            rep[os.path.join(REPO, "cmd", "wtfverif", f)] = os.path.join(HARNESS, f)
    hooks = os.path.join(HARNESS, "hooks")
    if os.path.isdir(hooks):
        for f in sorted(os.listdir(hooks)):
            # hooks/<pkg-with-dashes>__<name>.go  e.g. internal-cache__verif_hooks.go
            if f.endswith(".go") and "__" in f:
                pkg, name = f.split("__", 1)
                rep[os.path.join(REPO, *pkg.split("-"), "zz_" + name)] = stubbed.get(f, os.path.join(hooks, f))
    path = os.path.join(BUILD, "overlay.json")
    os.makedirs(BUILD, exist_ok=True)
    json.dump({"Replace": rep}, open(path, "w"), indent=1)
    return path


HARNESS_DEGRADED = {}   # hook file -> compiler message, for hooks replaced by stubs in the last build


def build_harness(race=False):
    """Builds the harness.  A hook that no longer compiles against the source (it reads an unexported function that was renamed,
    removed or re-typed) is replaced by a stub whose functions panic with `verif-hook-unavailable:<file>`: the harness still
    builds, and only the cases (of whichever property) that actually call into that hook fail - instead of every check of every
    property losing its harness over one helper function."""
    out_bin = HARNESS_BIN + ("-race" if race else "")
    stubbed, log = {}, ""
    HARNESS_DEGRADED.clear()
    for attempt in range(4):
        ov = write_overlay(stubbed)
        cmd = ["go", "build", "-tags", "verif", "-overlay", ov, "-o", out_bin]
        if race:
            cmd.append("-race")
        cmd.append("./cmd/wtfverif")
        rc, out = sh(cmd, cwd=REPO, env=go_env(), timeout=1200)
        log += out
        if rc == 0:
            return True, log
        bad = sorted(set(re.findall(r"harness/hooks/([A-Za-z0-9_.-]+__[A-Za-z0-9_.-]+\.go):\d+", out)) - set(stubbed))
        if not bad or not build_xlate()[0]:
            return False, log
        os.makedirs(os.path.join(BUILD, "stubs"), exist_ok=True)
        for f in bad:
            dst = os.path.join(BUILD, "stubs", f)
            rc2, out2 = sh([XLATE_BIN, "-stub", os.path.join(HARNESS, "hooks", f), "-stubout", dst, "-stubname", f], env=go_env())
            if rc2 != 0:
                return False, log + out2
            stubbed[f] = dst
            HARNESS_DEGRADED[f] = "\n".join(l for l in out.split("\n") if f in l)[:600]
        log += "\n[hooks replaced by stubs: %s]\n" % ", ".join(bad)
    return False, log


def build_wtf_binary():
    """The real CLI binary, built from the working tree (no hooks)."""
    out_bin = os.path.join(BUILD, "wtf")
    rc, out = sh(["go", "build", "-o", out_bin, "./cmd/wtf"], cwd=REPO, env=go_env(), timeout=1200)
    return rc == 0, out, out_bin


def build_driver():
    return lake_build(["wtfdriver"])


def parse_cases(text):
    """Splits protocol output into {idx: [lines]} (metadata lines kept under key+'#')."""
    cases, order, cur = {}, [], None
    meta = {}
    for l in text.split("\n"):
        if l.startswith("case "):
            cur = l.split(" ")[1]
            cases[cur] = []
            meta[cur] = []
            order.append(cur)
        elif cur is None or l == "":
            continue
        elif l.startswith("#"):
            meta[cur].append(l)
        else:
            cases[cur].append(l)
    return cases, meta, order


def f_of(tok):
    return struct.unpack(">d", struct.pack(">Q", int(tok[2:], 16)))[0]


def tok_equal(a, b, rtol=1e-9, atol=1e-12):
    if a == b:
        return True
    if a.startswith("f:") and b.startswith("f:"):
        try:
            x, y = f_of(a), f_of(b)
        except Exception:
            return False
        if math.isnan(x) or math.isnan(y):
            return math.isnan(x) and math.isnan(y)
        if math.isinf(x) or math.isinf(y):
            return x == y
        return abs(x - y) <= atol + rtol * max(abs(x), abs(y))
    return False


def line_equal(a, b):
    if a == b:
        return True
    ta, tb = a.split(" "), b.split(" ")
    return len(ta) == len(tb) and all(tok_equal(x, y) for x, y in zip(ta, tb))


def decode_tok(t):
    """Human-readable rendering of a protocol token for samples/replays."""
    if t == "-":
        return '""'
    if t.startswith("f:"):
        try:
            return repr(f_of(t))
        except Exception:
            return t
    if re.fullmatch(r"(?:[0-9a-f]{2})+", t) and len(t) >= 2 and not t.isdigit():
        try:
            return json.dumps(bytes.fromhex(t).decode("utf-8", "backslashreplace"))
        except Exception:
            return t
    return t


def pretty(line):
    return " ".join(decode_tok(t) for t in line.split(" "))


class Run:
    """One harness+driver pass over generated or given op lines."""

    def __init__(self, ctx, name):
        self.ctx, self.name = ctx, name
        self.dir = os.path.join(ctx.rundir, name)
        os.makedirs(self.dir, exist_ok=True)
        self.ops_path = os.path.join(self.dir, "ops.txt")
        self.impl_path = os.path.join(self.dir, "impl.txt")
        self.model_path = os.path.join(self.dir, "model.txt")
        self.mon_path = os.path.join(self.dir, "mon.jsonl")

    def gen(self, domain, n, seed, tier, args=None, start=0):
        cmd = [HARNESS_BIN, "gen", domain, "-seed", str(seed), "-n", str(n), "-tier", tier, "-start", str(start)]
        for k, v in (args or {}).items():
            cmd += ["-arg", "%s=%s" % (k, v)]
        with open(self.ops_path, "wb") as f:
            p = subprocess.run(cmd, stdout=f, stderr=subprocess.PIPE, env=go_env())
        if p.returncode != 0:
            raise RuntimeError("harness gen failed: " + p.stderr.decode(errors="replace"))

    def set_ops(self, text):
        open(self.ops_path, "w").write(text)

    def exec_impl(self, timeout=3600, env_extra=None):
        """Runs the real code on the generated cases.  The harness flushes its output after every case; when the output stops
        growing for VERIF_STALL_S seconds the harness is killed, the case it was working on is recorded in self.hung (its lines
        read `hang`), and the remaining cases are run in a fresh process - a non-terminating operation must not end the check."""
        env = go_env()
        env.update(env_extra or {})
        stall = float(os.environ.get("VERIF_STALL_S", "120" if self.ctx.tier == "quick" else "600"))
        chunks = [c for c in re.split(rb"(?m)^(?=case )", open(self.ops_path, "rb").read()) if c.strip()]
        self.hung, self.impl_rc, self.impl_err = [], 0, ""
        start, t0 = 0, time.time()
        part_out, part_mon = self.impl_path + ".part", self.mon_path + ".part"
        with open(self.impl_path, "wb") as out_all, open(self.mon_path, "wb") as mon_all:
            while start < len(chunks):
                with open(part_out, "wb") as o:
                    p = subprocess.Popen([HARNESS_BIN, "exec", "-mon", part_mon], stdin=subprocess.PIPE, stdout=o, stderr=subprocess.PIPE, env=env)
                    feeder = threading.Thread(target=lambda: (p.stdin.write(b"".join(chunks[start:])), p.stdin.close()), daemon=True)
                    errbuf = []
                    reader = threading.Thread(target=lambda: errbuf.append(p.stderr.read()), daemon=True)
                    feeder.start(); reader.start()
                    last_size, last_change, killed = -1, time.time(), False
                    while p.poll() is None:
                        time.sleep(0.2)
                        sz = os.path.getsize(part_out)
                        if sz != last_size:
                            last_size, last_change = sz, time.time()
                        elif time.time() - last_change > stall or time.time() - t0 > timeout:
                            p.kill()
                            killed = True
                            break
                    p.wait()
                    reader.join(timeout=5)
                data = open(part_out, "rb").read()
                if os.path.exists(part_mon):
                    mon_all.write(open(part_mon, "rb").read())
                self.impl_err += (errbuf[0] if errbuf else b"").decode(errors="replace")
                if not killed:
                    out_all.write(data)
                    self.impl_rc = p.returncode
                    break
                # keep the completed cases (each is flushed whole), mark the next one as hung, go on after it
                done = [c for c in re.split(rb"(?m)^(?=case )", data) if c.strip()]
                if done and not data.endswith(b"\n"):
                    done = done[:-1]
                ndone = len(done)
                out_all.write(b"".join(done))
                hung = chunks[start + ndone] if start + ndone < len(chunks) else None
                if hung is None:
                    self.impl_rc = -9
                    break
                lines = hung.decode(errors="replace").rstrip("\n").split("\n")
                idx = lines[0].split(" ")[1] if len(lines[0].split(" ")) > 1 else "?"
                self.hung.append((idx, lines[1:]))
                out_all.write(("case %s\n" % idx).encode() + b"".join(b"hang\n" for _ in lines[1:]))
                start += ndone + 1
                if time.time() - t0 > timeout or len(self.hung) >= 3:
                    self.impl_rc = -9
                    break
        for f in (part_out, part_mon):
            if os.path.exists(f):
                os.remove(f)
        return self.impl_rc

    def exec_model(self, timeout=3600):
        with open(self.ops_path, "rb") as i, open(self.model_path, "wb") as o:
            p = subprocess.run([DRIVER_BIN], stdin=i, stdout=o, stderr=subprocess.PIPE, timeout=timeout)
        self.model_rc = p.returncode
        self.model_err = p.stderr.decode(errors="replace")
        return p.returncode

    def load(self):
        self.ops, _, self.order = parse_cases(open(self.ops_path, errors="replace").read())
        self.impl, self.impl_meta, _ = parse_cases(open(self.impl_path, errors="replace").read())
        if os.path.exists(self.model_path):
            self.model, _, _ = parse_cases(open(self.model_path, errors="replace").read())
        else:
            self.model = {}
        self.hits = []
        if os.path.exists(self.mon_path):
            for l in open(self.mon_path, errors="replace"):
                l = l.strip()
                if l:
                    self.hits.append(json.loads(l))

    def diff(self, comparator=None):
        """Returns list of mismatching cases: (idx, first differing op number, impl line, model line)."""
        cmp_ = comparator or line_equal
        bad = []
        for idx in self.order:
            a, b = self.impl.get(idx), self.model.get(idx)
            if a is None or b is None:
                bad.append((idx, -1, "<missing>" if a is None else "", "<missing>" if b is None else ""))
                continue
            if len(a) != len(b):
                bad.append((idx, min(len(a), len(b)), "<%d lines>" % len(a), "<%d lines>" % len(b)))
                continue
            for k, (x, y) in enumerate(zip(a, b)):
                if not cmp_(x, y):
                    bad.append((idx, k, x, y))
                    break
        return bad

    def tags(self):
        tot = {}
        per_case = {}
        for idx, ms in self.impl_meta.items():
            for m in ms:
                if m.startswith("#nt"):
                    d = {}
                    for kv in m.split(" ")[1:]:
                        k, _, v = kv.partition("=")
                        d[k] = int(v or 1)
                        tot[k] = tot.get(k, 0) + d[k]
                    per_case[idx] = d
        return tot, per_case


def run_single_case(ctx, name, domain, ops_lines, comparator=None):
    """Runs one case (given op lines) on impl and model; returns (mismatch?, impl lines, model lines, hits)."""
    r = Run(ctx, name)
    r.set_ops("case 0 %s\n%s\n" % (domain, "\n".join(ops_lines)))
    r.exec_impl(timeout=600)
    r.exec_model(timeout=600)
    r.load()
    bad = r.diff(comparator)
    return bool(bad), r.impl.get("0", []), r.model.get("0", []), r.hits


def shrink_ops(ctx, domain, ops_lines, still_fails, keep_prefix=0, max_rounds=200):
    """Greedy delta debugging over op lines (the first keep_prefix lines are never removed)."""
    cur = list(ops_lines)
    n = 2
    rounds = 0
    while len(cur) - keep_prefix >= 2 and rounds < max_rounds:
        body = cur[keep_prefix:]
        chunk = max(1, len(body) // n)
        reduced = False
        for i in range(0, len(body), chunk):
            cand = cur[:keep_prefix] + body[:i] + body[i + chunk:]
            rounds += 1
            if len(cand) > keep_prefix and still_fails(cand):
                cur, reduced = cand, True
                n = max(n - 1, 2)
                break
        if not reduced:
            if chunk == 1:
                break
            n = min(n * 2, len(body))
    return cur


# ---------------------------------------------------------------------------------------------
# Context, verdict, evidence
# ---------------------------------------------------------------------------------------------

SEARCH_FAMILY = {"C01", "C02", "C03", "C04", "C06", "C07", "C10", "C13", "C20"}
SEARCH_MODEL_SITES = ["platform:crossPlatformTools", "platform:checkPlatformVariant-shape", "stopwords:func", "stopwords:literal",
                      "stopwords:tokenizer-uses-nlp.StopWords", "bm25:defaultParams", "bm25:params-literal"]


class Ctx:
    def __init__(self, pid, tier, seed, prop):
        self.pid, self.tier, self.seed, self.prop = pid, tier, seed, prop
        self.t0 = time.time()
        self.rundir = os.path.join(BUILD, "run", "%s-%d" % (pid, os.getpid()))
        shutil.rmtree(self.rundir, ignore_errors=True)
        os.makedirs(self.rundir, exist_ok=True)
        self.obligations = []   # dicts: name, kind, ok, detail
        self.hits = []          # dicts: class, what, detail, replay (dict)
        self.cov = dict(evaluations=0, distinct_nontrivial=0, traces_validated_against_impl=0, samples=[],
                        distribution={}, rule=prop.get("rule", ""))
        self.distinct = set()
        self.facts = {}
        self.logs = []
        self.assumptions = list(prop.get("assumptions", []))
        self.exhaustive = False

    # -- bookkeeping
    def log(self, *a):
        msg = " ".join(str(x) for x in a)
        self.logs.append(msg)
        print("[%s %6.1fs] %s" % (self.pid, time.time() - self.t0, msg), file=sys.stderr, flush=True)

    def oblige(self, name, kind, ok, detail=""):
        self.obligations.append(dict(name=name, kind=kind, ok=bool(ok), detail=detail[-4000:] if isinstance(detail, str) else detail))
        if not ok:
            self.log("OBLIGATION BROKEN:", kind, name, "--", (detail if isinstance(detail, str) else json.dumps(detail))[:600])

    def hit(self, cls, what, replay):
        self.hits.append(dict(cls=cls, what=what, replay=replay))

    def add_distribution(self, tags):
        d = self.cov["distribution"]
        for k, v in tags.items():
            d[k] = d.get(k, 0) + v

    # -- stages
    def stage_xlate(self, required_assertions=()):
        with BuildLock():
            ok, facts, out = run_xlate()
        self.facts = facts.get("facts", {})
        # literals of the source that property monitors need (the property says "the default limit", not which): handed to the
        # harness from the regenerated facts, so that a re-tuned default is followed instead of reported
        sp = self.facts.get("searchparams") or {}
        if str(sp.get("defaultLimit", "")).isdigit():
            os.environ["VERIF_UNIVERSAL_DEFAULT_LIMIT"] = str(sp["defaultLimit"])
        else:
            os.environ.pop("VERIF_UNIVERSAL_DEFAULT_LIMIT", None)
        self.stale_gen = set(facts.get("stale_gen", []))
        self.oblige("translator:run", "translator", ok, out)
        asserts = {a["site"]: a for a in facts.get("assertions", [])}
        # the regenerated tables every run of the SearchUniversal model reads: when one of them is not recognised the model is
        # stale, and the checks of the whole search family must name that site rather than a diffuse correspondence failure
        if self.pid in SEARCH_FAMILY:
            required_assertions = list(required_assertions) + [a for a in SEARCH_MODEL_SITES if a not in required_assertions]
        for site in required_assertions:
            a = asserts.get(site)
            if a is None:
                self.oblige("translator:" + site, "translator", False, "assertion not produced by translator")
            else:
                self.oblige("translator:" + site, "translator", a.get("ok", False), a.get("msg", ""))
        return ok

    def stale_obligations(self, modules, what):
        """A regenerated module that this run could not regenerate and that `modules` import: the tie is broken there."""
        stale = getattr(self, "stale_gen", set())
        if not stale:
            return
        done = getattr(self, "_stale_reported", set())
        for m in sorted(lean_import_closure(modules)):
            if m.startswith("WtfModel.Gen.") and m[len("WtfModel.Gen."):] in stale and (m, what) not in done:
                done.add((m, what))
                self.oblige("translator:regenerated-module-stale:%s(%s)" % (m, what), "translator", False,
                            "%s was not regenerated from the current source (its extractor did not recognise the code); %s import it" % (m, what))
        self._stale_reported = done

    def stage_prove(self, theorems, extra_targets=()):
        pid = self.pid
        targets = ["WtfModel.Props." + pid, "WtfModel.Audit." + pid] + list(extra_targets)
        self.stale_obligations(targets, "the property theorems")
        with BuildLock():
            ok, out = lake_build(targets)
            self.build_log = out
            if not ok:
                # which theorems are affected is not known: all of them are undischarged
                errs = "\n".join(l for l in out.split("\n") if "error" in l.lower())[:3000]
                for t in theorems:
                    self.oblige("theorem:" + t, "theorem", False, "lake build failed: " + errs)
                return False
            aok, ax, alog = audit_axioms(pid)
        for t in theorems:
            if t not in ax:
                self.oblige("theorem:" + t, "theorem", False, "not reported by Audit/%s.lean (missing or failed to elaborate)" % pid)
            else:
                extra = [a for a in ax[t] if a not in ALLOWED_AXIOMS]
                self.oblige("theorem:" + t, "theorem", not extra, "axioms=%s" % ax[t])
        self.axioms = ax
        bad = forbidden_scan()
        self.oblige("scan:no-sorry-admit-axiom-native_decide", "scan", not bad, "\n".join(bad))
        if self.tier == "thorough":
            rc, out = sh(["lake", "env", "leanchecker", "WtfModel.Props." + pid], cwd=LEAN, timeout=3000)
            self.oblige("leanchecker:WtfModel.Props." + pid, "recheck", rc == 0, out[-2000:])
        return all(o["ok"] for o in self.obligations if o["kind"] in ("theorem", "scan", "recheck"))

    def stage_build(self, race=False, need_driver=True):
        with BuildLock():
            ok, out = build_harness(race=race)
            self.oblige("build:harness(-tags verif, overlay)", "build", ok, out)
            if HARNESS_DEGRADED:
                self.cov["hooks_unavailable"] = dict(HARNESS_DEGRADED)
            ok2 = True
            if need_driver:
                ok2, out2 = build_driver()
                self.oblige("build:driver", "build", ok2, out2)
        # a model that no longer builds (a regenerated table was not produced, a proof module broke) must not stop the
        # search for a failing input: the implementation side and its property monitors still run (see correspond)
        self.driver_ok = ok2
        return ok

    def correspond(self, domain, n, name=None, args=None, comparator=None, nontrivial=None, seed_offset=0,
                   sample_n=3, on_mismatch=None, model=True, shrink=True, hit_props=None):
        """Generate n cases for `domain`, run real code and model, diff.  Returns the Run."""
        name = name or domain
        r = Run(self, name)
        seed = self.seed + seed_offset
        r.gen(domain, n, seed, self.tier, args)
        r.exec_impl()
        if model and driver_module_of(domain):
            self.stale_obligations([driver_module_of(domain)], "the model of domain " + domain)
        if model and not getattr(self, "driver_ok", True):
            model = False
            self.oblige("correspondence:%s" % name, "correspondence", False,
                        "the model driver did not build: the implementation was run alone, judged by the property monitors only")
        if model:
            r.exec_model()
        r.load()
        for idx, hops in getattr(r, "hung", []):
            # an operation of the real code that does not return: a violation in its own right for the properties that speak of
            # termination (no input hangs the engine / loading always ends / every command finishes), a broken run for the others
            det = dict(kind="impl-counterexample", domain=domain, seed=seed, case=idx, ops=hops, ops_pretty=[pretty(l) for l in hops],
                       what="the harness made no progress for the stall limit while executing this case: some operation in it does not terminate", **{"class": "hang"})
            if self.pid in ("C10", "C15", "C17"):
                self.hit("hang", "hang: an operation of case %s of domain %s does not terminate (ops: %s)" % (idx, domain, " | ".join(pretty(l) for l in hops[-3:])[:300]), det)
            else:
                self.oblige("correspondence:%s:harness-hung(case %s)" % (name, idx), "correspondence", False, det)
        if r.impl_rc != 0:
            self.oblige("correspondence:%s:harness-exit" % name, "correspondence", False, r.impl_err[-2000:])
        if model and r.model_rc != 0:
            self.oblige("correspondence:%s:driver-exit" % name, "correspondence", False, r.model_err[-2000:])
        bad = r.diff(comparator) if model else []
        ncases = len(r.order)
        self.cov["evaluations"] += ncases
        if model:
            self.cov["traces_validated_against_impl"] += ncases - len(bad)
        tot, per_case = r.tags()
        self.add_distribution({name + "." + k: v for k, v in tot.items()})
        # distinct non-trivial cases: by hash of op lines, non-trivial per rule callback on tags
        for idx in r.order:
            tg = per_case.get(idx, {})
            if nontrivial is None or nontrivial(tg, r.ops[idx], r.impl.get(idx, [])):
                self.distinct.add(hashlib.sha1("\n".join(r.ops[idx]).encode()).hexdigest())
        for idx in r.order[:sample_n]:
            self.cov["samples"].append(dict(domain=domain, ops=[pretty(l) for l in r.ops[idx][:12]],
                                            impl=[pretty(l) for l in r.impl.get(idx, [])[:12]]))
        if bad:
            idx, k, a, b = bad[0]
            ops = r.ops.get(idx, [])
            detail = dict(domain=domain, seed=seed, case=idx, op_index=k, impl_line=a, model_line=b, mismatching_cases=len(bad))
            # shrink
            try:
                def still(c):
                    mm, _, _, _ = run_single_case(self, name + "-shrink", domain, c, comparator)
                    return mm
                small = shrink_ops(self, domain, ops, still, keep_prefix=self.prop.get("keep_prefix", {}).get(domain, 0)) if (shrink and len(ops) <= 400) else ops
            except Exception as e:  # shrinking is best effort
                small = ops
            mm, il, ml, shits = run_single_case(self, name + "-final", domain, small, comparator)
            detail.update(ops=small, ops_pretty=[pretty(l) for l in small], impl=il, model=ml)
            props_ok = set(hit_props or [self.pid])
            for h in [h for h in shits if h.get("prop") in props_ok][:1]:  # the minimised case also fails the property monitor: best replay
                self.hits.insert(0, dict(cls=h.get("class", "?"), what="%s: %s" % (h.get("class"), json.dumps(h.get("detail"))[:300]),
                                         replay=dict(kind="impl-counterexample", domain=domain, seed=seed, case=idx, ops=small,
                                                     ops_pretty=[pretty(l) for l in small], detail=h.get("detail"), impl=il, model=ml,
                                                     **{"class": h.get("class")})))
            self.oblige("correspondence:%s" % name, "correspondence", False, detail)
            if on_mismatch:
                on_mismatch(r, bad, detail)
        elif model or getattr(self, "driver_ok", True):
            self.oblige("correspondence:%s" % name, "correspondence", True, "%d cases agree" % ncases if model else "%d cases run on the implementation under its monitors (no model in this stage)" % ncases)
        props_ok = set(hit_props or [self.pid])
        for h in r.hits:
            if h.get("prop") not in props_ok:
                continue
            ops = r.ops.get(str(h.get("case")), [])
            self.hit(h.get("class", "?"), "%s: %s" % (h.get("class"), json.dumps(h.get("detail"))[:300]),
                     dict(kind="impl-counterexample", domain=domain, seed=seed, case=h.get("case"), ops=ops,
                          ops_pretty=[pretty(l) for l in ops], detail=h.get("detail"), **{"class": h.get("class")}))
        return r

    # -- verdict
    def finish(self):
        kf_path = os.path.join(VERIF, "known_findings.json")
        known = []
        if os.path.exists(kf_path):
            known = [k for k in json.load(open(kf_path)).get("findings", []) if k.get("property") == self.pid and k.get("status") == "known"]
        self.cov["distinct_nontrivial"] = len(self.distinct)
        broken = [o for o in self.obligations if not o["ok"]]
        known_obl = set()
        for k in known:
            known_obl.update(k.get("obligations", []))
        new_broken = [o for o in broken if o["name"] not in known_obl]
        known_hits, new_hits = {}, []
        for h in self.hits:
            m = [k for k in known if re.fullmatch(k.get("class_regex", "$^"), h["cls"])]
            if m:
                known_hits.setdefault(m[0]["id"], (m[0], []))[1].append(h)
            else:
                new_hits.append(h)
        lines, rc = [], 0
        for k in known:
            seen = k["id"] in known_hits or any(o["name"] in k.get("obligations", []) for o in broken)
            if seen:
                lines.append("KNOWN-FINDING: property=%s %s" % (self.pid, k["what"]))
        os.makedirs(os.path.join(VERIF, "replays"), exist_ok=True)
        replay_path = None
        if new_hits or new_broken:
            rc = 1
            stamp = "%s-%d-%d" % (self.pid, self.seed, int(time.time()))
            replay_path = os.path.join(VERIF, "replays", stamp + ".json")
            rep = dict(property=self.pid, seed=self.seed, tier=self.tier,
                       broken_obligations=[dict(name=o["name"], kind=o["kind"], detail=o["detail"]) for o in new_broken])
            if new_hits:
                rep.update(kind="impl-counterexample", failing=new_hits[0]["replay"], what=new_hits[0]["what"],
                           other_hits=[h["what"] for h in new_hits[1:20]])
                lines.append("VIOLATION property=%s replay=%s" % (self.pid, replay_path))
            else:
                rep.update(kind="broken-obligation", what="no failing input found on the implementation; "
                           "the named theorem / correspondence / translator site no longer checks")
                lines.append("VIOLATION property=%s replay=%s no-failing-input-found" % (self.pid, replay_path))
            json.dump(rep, open(replay_path, "w"), indent=1, default=str)
        self.write_evidence(len(new_hits) + len(new_broken))
        for l in lines:
            print(l, flush=True)
        if rc == 0:
            print("OK property=%s tier=%s obligations=%d evaluations=%d wall=%.1fs" % (
                self.pid, self.tier, len(self.obligations), self.cov["evaluations"], time.time() - self.t0), flush=True)
        shutil.rmtree(self.rundir, ignore_errors=True)
        return rc

    def write_evidence(self, violations):
        level = self.prop.get("level", "proof")
        cov = dict(self.cov)
        cov["samples"] = cov["samples"][:8] or [dict(note="no correspondence cases in this run")]
        cov["obligations"] = len(self.obligations)
        cov["discharged"] = sum(1 for o in self.obligations if o["ok"])
        cov["obligation_list"] = [dict(name=o["name"], kind=o["kind"], ok=o["ok"],
                                       detail=(o["detail"] if isinstance(o["detail"], str) else "see replay")[:200])
                                  for o in self.obligations]
        cov["checker_cmd"] = "cd /verif/lean && lake build WtfModel.Props.%s WtfModel.Audit.%s && lake env lean WtfModel/Audit/%s.lean" % (self.pid, self.pid, self.pid)
        cov["trusted_base"] = TRUSTED_BASE + list(self.prop.get("trusted_extra", []))
        cov["exhaustive"] = bool(self.exhaustive)
        cov["explanation"] = self.prop.get("level_text", "")
        ev = dict(property_id=self.pid, tier=self.tier, seed=self.seed, level=level, coverage=cov,
                  assumptions=self.assumptions, wall_s=round(time.time() - self.t0, 2), violations=violations)
        # evidence describes /repo itself; runs against a scratch tree (WTF_REPO=...) write elsewhere
        evdir = os.path.join(VERIF, "evidence") if os.path.realpath(REPO) == "/repo" else os.path.join(BUILD, "evidence-scratch")
        os.makedirs(evdir, exist_ok=True)
        json.dump(ev, open(os.path.join(evdir, self.pid + ".json"), "w"), indent=1, default=str)
