namespace Sc
class ScoreOps (S : Type) where
  zero : S
  one : S
  add : S → S → S
  sub : S → S → S
  mul : S → S → S
  div : S → S → S
  le : S → S → Bool

instance : ScoreOps Float := ⟨0, 1, (· + ·), (· - ·), (· * ·), (· / ·), fun a b => a ≤ b⟩

open ScoreOps in
def fieldBM25 {S} [ScoreOps S] (k1 tf dl avgdl w b : S) : S :=
  let avgdl := if le avgdl zero then one else avgdl
  let norm := add (sub one b) (mul b (div dl avgdl))
  let tfw := mul w tf
  div (mul tfw (add k1 one)) (add tfw (mul k1 norm))
end Sc
