import Sc
import Mathlib.Algebra.Order.Field.Basic
import Mathlib.Tactic.Positivity
import Mathlib.Tactic.Linarith
namespace Sc
variable {S : Type} [Field S] [LinearOrder S] [IsStrictOrderedRing S]

instance fieldOps : ScoreOps S := ⟨0, 1, (· + ·), (· - ·), (· * ·), (· / ·), fun a b => decide (a ≤ b)⟩

theorem fieldBM25_nonneg (k1 tf dl avgdl w b : S) (hk : 0 < k1) (htf : 0 ≤ tf) (hdl : 0 ≤ dl)
    (hw : 0 ≤ w) (hb0 : 0 ≤ b) (hb1 : b ≤ 1) : 0 ≤ fieldBM25 k1 tf dl avgdl w b := by
  unfold fieldBM25
  simp only [ScoreOps.le, ScoreOps.zero, ScoreOps.one, ScoreOps.add, ScoreOps.sub, ScoreOps.mul, ScoreOps.div, decide_eq_true_eq]
  split
  · apply div_nonneg
    · positivity
    · have : 0 ≤ 1 - b := by linarith
      positivity
  · rename_i h
    have hav : 0 < avgdl := lt_of_not_ge h
    apply div_nonneg
    · positivity
    · have : 0 ≤ 1 - b := by linarith
      positivity
end Sc
#print axioms Sc.fieldBM25_nonneg
#eval Sc.fieldBM25 (S := Float) 1.2 1 3 4 3.5 0.75
