namespace Fz2
variable {α : Type} [DecidableEq α] (eq : α → α → Bool) (zero : α)

inductive Panic | oob
deriving Repr, DecidableEq

/-- state: remaining pattern (head = runes[patternIndex]) and whether the head was already seen -/
def run : List α → Bool → List α → Except Panic (List α)
  | rem, _, [] => .ok rem
  | [], _, _ :: _ => .error .oob
  | pc :: ps, seen, c :: rest =>
      let seen' := seen || eq c pc
      let nextp := ps.head?.getD zero
      let nextc := rest.head?.getD zero
      if (eq nextp nextc || decide (nextc = zero)) && seen' then run ps false rest
      else run (pc :: ps) seen' rest

def accepts (p t : List α) : Bool :=
  match run eq zero p false t with
  | .ok rem => rem.isEmpty
  | .error _ => false

def subseq : List α → List α → Bool
  | [], _ => true
  | _ :: _, [] => false
  | pc :: ps, c :: cs => if eq c pc then subseq ps cs else subseq (pc :: ps) cs

@[simp] theorem subseq_nil (t : List α) : subseq eq [] t = true := by cases t <;> rfl

theorem run_spec (hsym : ∀ a b, eq a b = eq b a) (hz : ∀ c, c ≠ zero → eq zero c = false) :
    ∀ (t : List α) (pc : α) (ps : List α) (seen : Bool), (∀ c ∈ t, c ≠ zero) → t ≠ [] →
      ∃ rem, run eq zero (pc :: ps) seen t = .ok rem ∧
        (rem.isEmpty = (if seen then subseq eq ps t.tail else subseq eq (pc :: ps) t)) := by
  intro t
  induction t with
  | nil => intro _ _ _ _ h; exact absurd rfl h
  | cons c rest ih =>
    intro pc ps seen hnz _
    have hnzr : ∀ x ∈ rest, x ≠ zero := fun x hx => hnz x (by simp [hx])
    cases rest with
    | nil =>
      cases seen <;> cases he : eq c pc <;> cases ps <;> simp [run, subseq, he]
    | cons c2 rest2 =>
      have hc2 : c2 ≠ zero := hnzr c2 (by simp)
      cases ps with
      | nil =>
        obtain ⟨rem, hrun, hacc⟩ := ih pc [] (seen || eq c pc) hnzr (by simp)
        refine ⟨rem, ?_, ?_⟩
        · rw [run]; simp [hz c2 hc2, hc2, hrun]
        · rw [hacc]; cases seen <;> cases he : eq c pc <;> simp [subseq, he]
      | cons pn ps2 =>
        by_cases hq : eq pn c2 = true
        · have hq' : eq c2 pn = true := by rw [hsym]; exact hq
          cases hs : (seen || eq c pc) with
          | true =>
            obtain ⟨rem, hrun, hacc⟩ := ih pn ps2 false hnzr (by simp)
            refine ⟨rem, ?_, ?_⟩
            · rw [run]; simp [hq, hs, hrun]
            · rw [hacc]
              cases seen <;> cases he : eq c pc <;> simp_all [subseq]
          | false =>
            obtain ⟨rem, hrun, hacc⟩ := ih pc (pn :: ps2) false hnzr (by simp)
            refine ⟨rem, ?_, ?_⟩
            · rw [run]; simp [hs, hrun]
            · rw [hacc]
              cases seen <;> cases he : eq c pc <;> simp_all [subseq]
        · have hq0 : eq pn c2 = false := by simpa using hq
          have hq' : eq c2 pn = false := by rw [hsym]; exact hq0
          obtain ⟨rem, hrun, hacc⟩ := ih pc (pn :: ps2) (seen || eq c pc) hnzr (by simp)
          refine ⟨rem, ?_, ?_⟩
          · rw [run]; simp [hq0, hc2, hrun]
          · rw [hacc]
            cases seen <;> cases he : eq c pc <;> simp_all [subseq]

theorem accepts_eq_subseq (p t : List α)
    (hsym : ∀ a b, eq a b = eq b a) (hz : ∀ c, c ≠ zero → eq zero c = false)
    (hp : p ≠ []) (ht : ∀ c ∈ t, c ≠ zero) :
    accepts eq zero p t = subseq eq p t := by
  unfold accepts
  cases p with
  | nil => exact absurd rfl hp
  | cons pc ps =>
    cases t with
    | nil => simp [run, subseq]
    | cons c rest =>
      obtain ⟨rem, hrun, hacc⟩ := run_spec eq zero hsym hz (c :: rest) pc ps false ht (by simp)
      simp [hrun, hacc]

end Fz2
#print axioms Fz2.accepts_eq_subseq
