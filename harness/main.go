//go:build verif

// wtfverif: correspondence / monitor harness for the WTF verification framework.
// This package lives in /verif/harness and is compiled *inside* the /repo module
// (as /repo/cmd/wtfverif) through `go build -overlay`, so it can import internal/ packages
// of the current working tree.  Nothing here is written into /repo.
//
//	wtfverif gen  <domain> -seed S -n N [-tier quick|thorough] [-arg k=v]...   > ops.txt
//	wtfverif exec [-mon hits.jsonl]                                  < ops.txt > impl.txt
//	wtfverif tool <name> [args...]
//
// Line protocol: `case <idx> <domain>` followed by op lines; exec answers `case <idx>` and exactly
// one line per op line.  Lines starting with '#' are metadata (ignored by the differ).
package main

import (
	"bufio"
	"encoding/json"
	"flag"
	"fmt"
	"os"
	"sort"
	"strings"
)

// Domain is one family of operations (one model module on the Lean side).
type Domain struct {
	Name string
	// Gen produces the op lines of case idx. All randomness must come from r.
	Gen func(r *Rng, tier string, idx int, args map[string]string) []string
	// Exec runs the op lines of one case against the real code: one output line per op.
	Exec func(ops []string, mon *Mon) []string
}

var domains = map[string]*Domain{}
var tools = map[string]func(args []string) int{}

func Register(d *Domain)                          { domains[d.Name] = d }
func RegisterTool(n string, f func([]string) int) { tools[n] = f }

// Mon collects property-monitor hits and non-triviality tags for the current case.
type Mon struct {
	w       *bufio.Writer
	caseIdx string
	domain  string
	tags    map[string]int
	Hits    int
}

// Hit records that property `prop` was observed to fail on the real code; class identifies the
// kind of failure (matched against known_findings.json), detail is free-form and replayable.
func (m *Mon) Hit(prop, class string, detail interface{}) {
	m.Hits++
	if m.w == nil {
		return
	}
	b, _ := json.Marshal(map[string]interface{}{"case": m.caseIdx, "domain": m.domain, "prop": prop, "class": class, "detail": detail})
	m.w.Write(b)
	m.w.WriteByte('\n')
}

// Tag counts a feature of the current case (used for non-triviality / distribution evidence).
func (m *Mon) Tag(k string) {
	if m.tags == nil {
		m.tags = map[string]int{}
	}
	m.tags[k]++
}

func (m *Mon) tagLine() string {
	if len(m.tags) == 0 {
		return ""
	}
	ks := make([]string, 0, len(m.tags))
	for k := range m.tags {
		ks = append(ks, k)
	}
	sort.Strings(ks)
	var sb strings.Builder
	sb.WriteString("#nt")
	for _, k := range ks {
		fmt.Fprintf(&sb, " %s=%d", k, m.tags[k])
	}
	return sb.String()
}

type kvFlags map[string]string

func (k kvFlags) String() string { return "" }
func (k kvFlags) Set(s string) error {
	i := strings.IndexByte(s, '=')
	if i < 0 {
		k[s] = "1"
	} else {
		k[s[:i]] = s[i+1:]
	}
	return nil
}

func cmdGen(args []string) int {
	if len(args) < 1 {
		fmt.Fprintln(os.Stderr, "gen: domain required")
		return 2
	}
	d, ok := domains[args[0]]
	if !ok {
		fmt.Fprintf(os.Stderr, "gen: unknown domain %q\n", args[0])
		return 2
	}
	fs := flag.NewFlagSet("gen", flag.ExitOnError)
	seed := fs.Uint64("seed", 1, "seed")
	n := fs.Int("n", 100, "cases")
	start := fs.Int("start", 0, "first case index")
	tier := fs.String("tier", "quick", "tier")
	kv := kvFlags{}
	fs.Var(kv, "arg", "k=v")
	fs.Parse(args[1:])
	w := bufio.NewWriterSize(os.Stdout, 1<<20)
	defer w.Flush()
	for i := *start; i < *start+*n; i++ {
		r := NewRng(*seed, uint64(i), d.Name)
		var ops []string
		func() {
			// generators call the real code for oracle values and directed inputs: a panic there is reported as the
			// single op of the case (the executor turns it into a line no model agrees with) instead of ending the run
			defer func() {
				if p := recover(); p != nil {
					ops = []string{"gen-panic " + Hx(strings.ReplaceAll(fmt.Sprint(p), "\n", " "))}
				}
			}()
			ops = d.Gen(r, *tier, i, kv)
		}()
		fmt.Fprintf(w, "case %d %s\n", i, d.Name)
		for _, o := range ops {
			w.WriteString(o)
			w.WriteByte('\n')
		}
	}
	return 0
}

func execCase(d *Domain, ops []string, mon *Mon) (out []string) {
	defer func() {
		if r := recover(); r != nil {
			// A panic escaping a domain is reported on every remaining line so the differ
			// flags the case; domains that *expect* panics recover them themselves.
			msg := "panic:" + strings.ReplaceAll(fmt.Sprint(r), "\n", " ")
			for len(out) < len(ops) {
				out = append(out, msg)
			}
		}
	}()
	if len(ops) == 1 && strings.HasPrefix(ops[0], "gen-panic ") {
		mon.Hit("C10", "panic", map[string]interface{}{"what": "generator of domain " + d.Name + " (it calls the real code)", "panic": UnHx(strings.TrimPrefix(ops[0], "gen-panic "))})
		return []string{"panic:in-generator " + UnHx(strings.TrimPrefix(ops[0], "gen-panic "))}
	}
	out = d.Exec(ops, mon)
	return out
}

func cmdExec(args []string) int {
	fs := flag.NewFlagSet("exec", flag.ExitOnError)
	monPath := fs.String("mon", "", "monitor hits file (jsonl)")
	fs.Parse(args)
	mon := &Mon{}
	if *monPath != "" {
		f, err := os.Create(*monPath)
		if err != nil {
			fmt.Fprintln(os.Stderr, err)
			return 2
		}
		defer f.Close()
		mon.w = bufio.NewWriter(f)
		defer mon.w.Flush()
	}
	sc := bufio.NewScanner(os.Stdin)
	sc.Buffer(make([]byte, 1<<20), 1<<30)
	w := bufio.NewWriterSize(os.Stdout, 1<<20)
	defer w.Flush()
	var curDom *Domain
	var curIdx string
	var ops []string
	have := false
	flush := func() {
		if !have {
			return
		}
		fmt.Fprintf(w, "case %s\n", curIdx)
		if curDom == nil {
			for range ops {
				w.WriteString("unknown-domain\n")
			}
		} else {
			mon.caseIdx, mon.domain, mon.tags = curIdx, curDom.Name, nil
			for _, o := range execCase(curDom, ops, mon) {
				w.WriteString(o)
				w.WriteByte('\n')
			}
			if t := mon.tagLine(); t != "" {
				w.WriteString(t)
				w.WriteByte('\n')
			}
		}
		w.Flush()
		if mon.w != nil {
			mon.w.Flush()
		}
	}
	for sc.Scan() {
		l := strings.TrimRight(sc.Text(), " \r\n")
		if strings.HasPrefix(l, "case ") {
			flush()
			f := strings.Split(l, " ")
			curIdx, curDom = "?", nil
			if len(f) == 3 {
				curIdx, curDom = f[1], domains[f[2]]
			}
			ops, have = nil, true
			continue
		}
		if l == "" || strings.HasPrefix(l, "#") {
			continue
		}
		ops = append(ops, l)
	}
	flush()
	return 0
}

func main() {
	if len(os.Args) < 2 {
		fmt.Fprintln(os.Stderr, "usage: wtfverif gen|exec|tool ...")
		os.Exit(2)
	}
	switch os.Args[1] {
	case "gen":
		os.Exit(cmdGen(os.Args[2:]))
	case "exec":
		os.Exit(cmdExec(os.Args[2:]))
	case "tool":
		if len(os.Args) < 3 {
			fmt.Fprintln(os.Stderr, "tool: name required")
			os.Exit(2)
		}
		f, ok := tools[os.Args[2]]
		if !ok {
			fmt.Fprintf(os.Stderr, "unknown tool %q\n", os.Args[2])
			os.Exit(2)
		}
		os.Exit(f(os.Args[3:]))
	case "domains":
		ns := []string{}
		for n := range domains {
			ns = append(ns, n)
		}
		sort.Strings(ns)
		fmt.Println(strings.Join(ns, " "))
	default:
		fmt.Fprintln(os.Stderr, "unknown command", os.Args[1])
		os.Exit(2)
	}
}
