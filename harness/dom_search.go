//go:build verif

package main

import (
	"encoding/hex"
	"math"
	"os"
	"path/filepath"
	"sort"
	"strconv"
	"strings"
	"unicode"
	"unicode/utf8"

	"github.com/sahilm/fuzzy"
	"gopkg.in/yaml.v3"

	"github.com/Vedant9500/WTF/internal/database"
	"github.com/Vedant9500/WTF/internal/nlp"
)

// search: correspondence of database.SearchUniversal with Model/Search.lean.  The generator runs the
// real NLP / TF-IDF / idf code to obtain the parameter values the model takes as inputs ("oracle"
// lines: nq pq ib cb tf fz idf ri host); exec re-runs the real search on the same database.
func init() {
	Register(&Domain{Name: "search", Gen: genSearch, Exec: execSearch})
}

var wordPool = []string{"list", "files", "file", "directory", "folder", "compress", "archive", "tar", "zip", "gzip",
	"find", "search", "grep", "copy", "move", "delete", "remove", "create", "make", "install", "git", "commit", "branch",
	"docker", "container", "process", "kill", "network", "ip", "download", "curl", "wget", "disk", "usage", "show",
	"display", "view", "permissions", "chmod", "user", "text", "replace", "sed", "awk", "log", "tail", "head", "ssh",
	"remote", "server", "port", "contents", "windows", "manage", "running", "setup", "config", "look", "read"}
var stopPool = []string{"the", "a", "of", "in", "to", "how", "do", "i", "with", "all", "and", "my", "is"}
var oddPool = []string{"x", "ab", "A1", "foo_bar", "foo-bar", "foo.bar", "ÉCOLE", "straße", "Kelvin", "İx", "naïve",
	"日本", "a\xffb", "\xc3", "C++", "(test)", "e-mail", "v2.0", "LS", "Tar"}
var toolPool = []string{"ls", "tar", "git", "docker", "grep", "find", "curl", "dir", "powershell", "ipconfig", "mkdir", "rm",
	"cat", "zip", "unzip", "kill", "ps", "chmod", "mytool", "Get-ChildItem", "pipeview"}
var platPool = [][]string{nil, nil, {"linux"}, {"macos"}, {"windows"}, {"cross-platform"}, {"linux", "macos"}, {"darwin"},
	{"powershell"}, {"bash"}, {"LINUX"}, {"Cross-Platform"}, {"plan9"}, {"windows", "cross-platform"}, {"cmd"}, {"unix", "plan9"},
	{"Kinux"}, {"macos-arm"}, {"linux-only"}, {"android"}, {"freebsd", "solaris"}}

func rword(r *Rng) string {
	switch x := r.Intn(100); {
	case x < 70:
		return Pick(r, wordPool)
	case x < 85:
		return Pick(r, stopPool)
	default:
		return Pick(r, oddPool)
	}
}

func rphrase(r *Rng, lo, hi int) string {
	n := r.Range(lo, hi)
	ws := make([]string, n)
	for i := range ws {
		ws[i] = rword(r)
	}
	sep := " "
	if r.Chance(1, 12) {
		sep = Pick(r, []string{"  ", "\t", "-", "_", ", ", "."})
	}
	return strings.Join(ws, sep)
}

func genCommand(r *Rng) database.Command {
	c := database.Command{}
	c.Command = Pick(r, toolPool)
	if r.Chance(3, 4) {
		c.Command += " " + rphrase(r, 0, 3)
	}
	if r.Chance(1, 8) {
		c.Command += Pick(r, []string{" | grep x", " && echo ok", " >> out.log", " | pipe", " PIPE it",
			// near misses of the pipeline test: a lone '&' or '>' is not a pipeline
			" &", " > out.txt", " 2>&1", " & disown", " a>b"})
	}
	if r.Chance(1, 40) {
		c.Command = ""
	}
	c.Description = rphrase(r, 0, 7)
	if r.Chance(1, 3) {
		c.Description = strings.ToUpper(c.Description[:len(c.Description)/2]) + c.Description[len(c.Description)/2:]
	}
	for i, n := 0, r.Intn(4); i < n; i++ {
		c.Keywords = append(c.Keywords, rword(r))
	}
	for i, n := 0, r.Intn(3); i < n; i++ {
		c.Tags = append(c.Tags, rword(r))
	}
	if r.Chance(1, 4) {
		c.Niche = Pick(r, wordPool)
	}
	c.Platform = append([]string(nil), Pick(r, platPool)...)
	c.Pipeline = r.Chance(1, 10)
	return c
}

func misspell(r *Rng, w string) string {
	if len(w) < 4 {
		return w + "q"
	}
	i := r.Range(1, len(w)-2)
	switch r.Intn(3) {
	case 0:
		return w[:i] + w[i+1:]
	case 1:
		return w[:i] + string(w[i+1]) + string(w[i]) + w[i+2:]
	default:
		return w[:i] + string(w[i]) + w[i:]
	}
}

func genQuery(r *Rng, dbWords []string) string {
	switch x := r.Intn(100); {
	case x < 45 && len(dbWords) > 0:
		n := r.Range(1, 4)
		ws := make([]string, n)
		for i := range ws {
			if r.Chance(3, 4) {
				ws[i] = Pick(r, dbWords)
			} else {
				ws[i] = rword(r)
			}
		}
		return strings.Join(ws, " ")
	case x < 60:
		return rphrase(r, 1, 4)
	case x < 75:
		return misspell(r, Pick(r, wordPool))
	case x < 80:
		return Pick(r, []string{"the", "a of", "?", "  ", "x", "!!", "-", "to the", ""})
	case x < 86:
		return rphrase(r, 11, 20)
	case x < 93:
		q := rphrase(r, 1, 3)
		return Pick(r, []string{"  ", "\t", ""}) + strings.ToUpper(q) + Pick(r, []string{" ", "\n", ""})
	default:
		if len(dbWords) > 0 {
			return misspell(r, Pick(r, dbWords))
		}
		return misspell(r, Pick(r, toolPool)) + Pick(r, []string{"", " fles", "x"})
	}
}

func genOptions(r *Rng) database.SearchOptions {
	o := database.SearchOptions{}
	o.Limit = Pick(r, []int{-1, 0, 1, 2, 3, 5, 10, 50, 50})
	if r.Chance(1, 3) {
		o.ContextBoosts = map[string]float64{}
		for i, n := 0, r.Range(1, 3); i < n; i++ {
			o.ContextBoosts[Pick(r, wordPool)] = Pick(r, []float64{1.5, 2, 3, 1.1, 0.5, 0, -1, 2.5})
		}
	}
	o.PipelineOnly = r.Chance(1, 10)
	o.PipelineBoost = Pick(r, []float64{0, 0, 1.5, 2, -1})
	o.UseFuzzy = r.Chance(3, 5)
	o.FuzzyThreshold = Pick(r, []int{0, 0, -30, -100, -5, 1, 50, -30})
	o.UseNLP = r.Bool()
	o.TopTermsCap = Pick(r, []int{0, 0, 0, 3, 5, 8, 12, -2})
	o.AllPlatforms = r.Chance(1, 7)
	o.Platforms = append([]string(nil), Pick(r, [][]string{nil, nil, nil, {"windows"}, {"linux", "macos"}, {"darwin"}, {"LINUX"}, {"macos"}, {"linux", "macos", "windows"}})...)
	o.NoCrossPlatform = r.Chance(1, 7)
	return o
}

// ---- encoding ---------------------------------------------------------------------------------

func hxList(xs []string) string {
	if len(xs) == 0 {
		return "-"
	}
	out := make([]string, len(xs))
	for i, s := range xs {
		if s == "" {
			out[i] = "_"
		} else {
			out[i] = Hx(s)
		}
	}
	return strings.Join(out, ",")
}

func unHxList(t string) []string {
	if t == "-" {
		return nil
	}
	parts := strings.Split(t, ",")
	out := make([]string, len(parts))
	for i, p := range parts {
		if p == "_" {
			out[i] = ""
		} else {
			out[i] = UnHx(p)
		}
	}
	return out
}

func cmdLine(c *database.Command) string {
	return strings.Join([]string{"cmd", Hx(c.Command), Hx(c.Description), hxList(c.Keywords), hxList(c.Tags), Hx(c.Niche),
		hxList(c.Platform), B(c.Pipeline), Hx(c.CommandLower), Hx(c.DescriptionLower), hxList(c.KeywordsLower), hxList(c.TagsLower)}, " ")
}

func parseCmdLine(f []string) database.Command {
	return database.Command{Command: UnHx(f[1]), Description: UnHx(f[2]), Keywords: unHxList(f[3]), Tags: unHxList(f[4]),
		Niche: UnHx(f[5]), Platform: unHxList(f[6]), Pipeline: f[7] == "1", CommandLower: UnHx(f[8]), DescriptionLower: UnHx(f[9]),
		KeywordsLower: unHxList(f[10]), TagsLower: unHxList(f[11])}
}

func optsTokens(o database.SearchOptions) string {
	bo := "-"
	if len(o.ContextBoosts) > 0 {
		ks := make([]string, 0, len(o.ContextBoosts))
		for k := range o.ContextBoosts {
			ks = append(ks, k)
		}
		sort.Strings(ks)
		ps := make([]string, len(ks))
		for i, k := range ks {
			ps[i] = Hx(k) + "=" + F(o.ContextBoosts[k])
		}
		bo = strings.Join(ps, ",")
	}
	return strings.Join([]string{Itoa(o.Limit), bo, B(o.PipelineOnly), F(o.PipelineBoost), B(o.UseFuzzy), Itoa(o.FuzzyThreshold),
		B(o.UseNLP), Itoa(o.TopTermsCap), B(o.AllPlatforms), hxList(o.Platforms), B(o.NoCrossPlatform)}, " ")
}

func parseOpts(f []string) database.SearchOptions {
	o := database.SearchOptions{Limit: Atoi(f[0]), PipelineOnly: f[2] == "1", PipelineBoost: unF(f[3]), UseFuzzy: f[4] == "1",
		FuzzyThreshold: Atoi(f[5]), UseNLP: f[6] == "1", TopTermsCap: Atoi(f[7]), AllPlatforms: f[8] == "1",
		Platforms: unHxList(f[9]), NoCrossPlatform: f[10] == "1"}
	if f[1] != "-" {
		o.ContextBoosts = map[string]float64{}
		for _, p := range strings.Split(f[1], ",") {
			kv := strings.SplitN(p, "=", 2)
			o.ContextBoosts[UnHx(kv[0])] = unF(kv[1])
		}
	}
	return o
}

func unF(t string) float64 {
	v, err := strconv.ParseUint(strings.TrimPrefix(t, "f:"), 16, 64)
	if err != nil {
		panic("bad float token " + t)
	}
	return math.Float64frombits(v)
}

// ---- database construction --------------------------------------------------------------------

// buildDB loads the commands through the real loader (YAML file -> LoadDatabase) when the YAML round
// trip reproduces them; otherwise it constructs the database directly the way the loader does.
func buildDB(cmds []database.Command, mon *Mon) *database.Database {
	if len(cmds) > 0 {
		if data, err := yaml.Marshal(cmds); err == nil {
			dir, _ := os.MkdirTemp("", "wtfverif-db")
			defer os.RemoveAll(dir)
			p := filepath.Join(dir, "db.yml")
			if os.WriteFile(p, data, 0o644) == nil {
				if db, err := database.LoadDatabase(p); err == nil && sameCommands(db.Commands, cmds) {
					if mon != nil {
						mon.Tag("db-via-loader")
					}
					return db
				}
			}
		}
	}
	cp := make([]database.Command, len(cmds))
	copy(cp, cmds)
	database.VerifPopulateCache(cp)
	db := &database.Database{Commands: cp}
	db.VerifBuildAll()
	if mon != nil {
		mon.Tag("db-direct")
	}
	return db
}

func sameCommands(a, b []database.Command) bool {
	if len(a) != len(b) {
		return false
	}
	eq := func(x, y []string) bool {
		if len(x) != len(y) {
			return false
		}
		for i := range x {
			if x[i] != y[i] {
				return false
			}
		}
		return true
	}
	for i := range a {
		if a[i].Command != b[i].Command || a[i].Description != b[i].Description || a[i].Niche != b[i].Niche ||
			a[i].Pipeline != b[i].Pipeline || !eq(a[i].Keywords, b[i].Keywords) || !eq(a[i].Tags, b[i].Tags) || !eq(a[i].Platform, b[i].Platform) {
			return false
		}
	}
	return true
}

// ---- oracle lines -----------------------------------------------------------------------------

func runeInfoLines(texts []string) []string {
	seen := map[rune]bool{}
	var rs []rune
	add := func(r rune) {
		if r >= 0x80 && !seen[r] {
			seen[r] = true
			rs = append(rs, r)
		}
	}
	for _, t := range texts {
		for _, r := range t {
			add(r)
			add(unicode.ToLower(r))
		}
	}
	sort.Slice(rs, func(i, j int) bool { return rs[i] < rs[j] })
	var out []string
	for _, r := range rs {
		rep := r
		for f := unicode.SimpleFold(r); f != r; f = unicode.SimpleFold(f) {
			if f < rep {
				rep = f
			}
		}
		fl := 0
		if unicode.IsLower(r) {
			fl |= 1
		}
		if unicode.IsUpper(r) {
			fl |= 2
		}
		if unicode.IsSpace(r) {
			fl |= 4
		}
		if unicode.IsLetter(r) || unicode.IsNumber(r) {
			fl |= 8
		}
		out = append(out, "ri "+Itoa(int(r))+" "+Itoa(int(unicode.ToLower(r)))+" "+Itoa(int(rep))+" "+Itoa(fl))
	}
	return out
}

func hexDecode(t string) ([]byte, error) {
	if t == "-" {
		return nil, nil
	}
	return hex.DecodeString(t)
}

// tfidfLogLines: the natural-logarithm table the TF-IDF model needs (math.Log(N/dc), dc = 1..N).
func tfidfLogLines(n int) []string {
	var out []string
	for dc := 1; dc <= n; dc++ {
		out = append(out, "lg "+Itoa(dc)+" "+F(math.Log(float64(n)/float64(dc))))
	}
	return out
}

func fuzzyTargets(db *database.Database) []string {
	ts := make([]string, len(db.Commands))
	for i, c := range db.Commands {
		ts[i] = strings.ReplaceAll(c.Command+" "+c.Description, "\x00", " ")
	}
	return ts
}

// oracleLines: what the real NLP / TF-IDF / fuzzy-sort code computes for (db, query).
func oracleLines(db *database.Database, q string) []string {
	nq := strings.ToLower(strings.TrimSpace(q))
	pq := nlp.NewQueryProcessor().ProcessQuery(nq)
	lines := []string{"nq " + Hx(nq),
		"pq " + hxList(pq.Actions) + " " + hxList(pq.Targets) + " " + hxList(pq.Keywords) + " " + hxList(pq.GetEnhancedKeywords())}
	ib, cb := make([]string, len(db.Commands)), make([]string, len(db.Commands))
	for i := range db.Commands {
		// the oracle values come from the real code: a panic in it must not take the generator down (the search op of the
		// case then panics on the same input in the executor, where it is recorded with the request that caused it)
		func() {
			defer func() {
				if recover() != nil {
					ib[i], cb[i] = F(1), F(1)
				}
			}()
			ib[i] = F(database.VerifIntentBoost(&db.Commands[i], pq))
			cb[i] = F(db.VerifCascadeBoost(&db.Commands[i], pq))
		}()
	}
	if len(ib) == 0 {
		lines = append(lines, "ib -", "cb -")
	} else {
		lines = append(lines, "ib "+strings.Join(ib, ","), "cb "+strings.Join(cb, ","))
	}
	if res, ok := db.VerifTFIDF(nq); !ok {
		lines = append(lines, "tf none")
	} else if len(res) == 0 {
		lines = append(lines, "tf -")
	} else {
		ps := make([]string, len(res))
		for i, r := range res {
			ps[i] = Itoa(r.CommandIndex) + "=" + F(r.Similarity)
		}
		lines = append(lines, "tf "+strings.Join(ps, ","))
	}
	fz := "-"
	func() {
		defer func() {
			if recover() != nil {
				fz = "-"
			}
		}()
		ms := fuzzy.Find(nq, fuzzyTargets(db))
		if len(ms) > 0 {
			ps := make([]string, len(ms))
			for i, m := range ms {
				ps[i] = Itoa(m.Index) + "=" + Itoa(m.Score)
			}
			fz = strings.Join(ps, ",")
		}
	}()
	return append(lines, "fz "+fz)
}

// SearchRecord is one executed search of a case, as seen by the property monitors.
type SearchRecord struct {
	DB      *database.Database
	Query   string
	Opts    database.SearchOptions
	Results []database.SearchResult
	IDs     []int // positions of the results in DB.Commands
	Panic   string
}

// searchMonitors are evaluated after every `search` op of the `search` domain; prev holds the earlier
// searches of the same case (same database), so paired-run properties can be checked.  Each property
// registers its monitor from its own file (harness/mon_cXX.go) in init().
var searchMonitors []func(mon *Mon, cur *SearchRecord, prev []*SearchRecord)

// searchStreams are alternative generators for the `search` domain, selected with -arg stream=<name>.
var searchStreams = map[string]func(r *Rng, tier string, idx int, args map[string]string) []string{}

// SearchCaseOps renders a database plus a list of (query, options) requests as op lines of the
// `search` domain (with the oracle lines the model needs).  Used by the directed streams.
func SearchCaseOps(cmds []database.Command, reqs []SearchReq, extra []string) []string {
	db := buildDB(cmds, nil)
	ops := []string{"host " + Hx(database.VerifCurrentPlatform())}
	texts := []string{"Kİſ"}
	for i := range db.Commands {
		c := &db.Commands[i]
		texts = append(texts, c.Command, c.Description)
		texts = append(texts, c.Keywords...)
		texts = append(texts, c.Tags...)
		texts = append(texts, c.Platform...)
	}
	for _, q := range reqs {
		texts = append(texts, q.Query)
		texts = append(texts, q.Opts.Platforms...)
	}
	for _, e := range extra { // byte strings carried by extra ops (e.g. `normq <hex>`)
		for _, tok := range strings.Split(e, " ")[1:] {
			if b, err := hexDecode(tok); err == nil {
				texts = append(texts, string(b))
			}
		}
	}
	ops = append(ops, runeInfoLines(texts)...)
	for i := range db.Commands {
		ops = append(ops, cmdLine(&db.Commands[i]))
	}
	for df := 0; df <= len(db.Commands); df++ {
		ops = append(ops, "idf "+Itoa(df)+" "+F(database.VerifIDF(len(db.Commands), df)))
	}
	ops = append(ops, tfidfLogLines(len(db.Commands))...)
	last := "\x00none"
	for _, q := range reqs {
		if q.Query != last {
			ops = append(ops, oracleLines(db, q.Query)...)
			last = q.Query
		}
		ops = append(ops, "search "+Hx(q.Query)+" "+optsTokens(q.Opts))
	}
	return append(ops, extra...)
}

// SearchReq is one request of a directed case.
type SearchReq struct {
	Query string
	Opts  database.SearchOptions
}

func genSearch(r *Rng, tier string, idx int, args map[string]string) []string {
	if st, ok := searchStreams[args["stream"]]; ok {
		return st(r, tier, idx, args)
	}
	maxN := 40
	if tier == "thorough" {
		maxN = 120
	}
	n := Pick(r, []int{0, 1, 2, 3, 5, 8, 12, 20, maxN})
	n = r.Range(n/2, n)
	cmds := make([]database.Command, 0, n)
	for i := 0; i < n; i++ {
		if i > 0 && r.Chance(1, 6) {
			cmds = append(cmds, cmds[r.Intn(i)]) // duplicates force score ties
		} else {
			cmds = append(cmds, genCommand(r))
		}
	}
	db := buildDB(cmds, nil)
	ops := []string{"host " + Hx(database.VerifCurrentPlatform())}
	texts := []string{}
	for i := range db.Commands {
		c := &db.Commands[i]
		texts = append(texts, c.Command, c.Description)
		texts = append(texts, c.Keywords...)
		texts = append(texts, c.Tags...)
		texts = append(texts, c.Platform...)
	}
	var dbWords []string
	for _, t := range texts {
		for _, w := range strings.Fields(t) {
			if len(w) >= 3 {
				dbWords = append(dbWords, w)
			}
		}
	}
	nQueries := r.Range(2, 6)
	queries := make([]string, nQueries)
	for i := range queries {
		queries[i] = genQuery(r, dbWords)
		texts = append(texts, queries[i])
	}
	texts = append(texts, "Kİſ")
	ops = append(ops, runeInfoLines(texts)...)
	for i := range db.Commands {
		ops = append(ops, cmdLine(&db.Commands[i]))
	}
	for df := 0; df <= len(db.Commands); df++ {
		ops = append(ops, "idf "+Itoa(df)+" "+F(database.VerifIDF(len(db.Commands), df)))
	}
	ops = append(ops, tfidfLogLines(len(db.Commands))...)
	for _, q := range queries {
		if r.Chance(1, 2) {
			ops = append(ops, "tfidf "+Hx(strings.ToLower(strings.TrimSpace(q))))
		}
		ops = append(ops, oracleLines(db, q)...)
		o := genOptions(r)
		ops = append(ops, "search "+Hx(q)+" "+optsTokens(o))
		if r.Chance(1, 2) { // paired run: same query, one option flipped
			o2 := o
			switch r.Intn(4) {
			case 0:
				o2.UseFuzzy = !o.UseFuzzy
			case 1:
				o2.UseNLP = !o.UseNLP
			case 2:
				o2.ContextBoosts = nil
			default:
				o2.Limit = len(db.Commands) + 1
			}
			ops = append(ops, "search "+Hx(q)+" "+optsTokens(o2))
		}
		if r.Chance(1, 3) {
			ops = append(ops, "tokens "+Hx(q))
		}
		if r.Chance(1, 2) {
			ops = append(ops, "normq "+Hx(q))
		}
	}
	for i := 0; i < len(db.Commands) && i < 6; i++ {
		o := genOptions(r)
		ops = append(ops, "passes "+Itoa(r.Intn(len(db.Commands)))+" "+B(o.AllPlatforms)+" "+hxList(o.Platforms)+" "+B(o.NoCrossPlatform)+" "+B(o.PipelineOnly))
	}
	return ops
}

func fmtResults(db *database.Database, rs []database.SearchResult) string {
	var sb strings.Builder
	sb.WriteString("res " + Itoa(len(rs)))
	for _, r := range rs {
		sb.WriteString(" " + Itoa(db.VerifIndexOf(r.Command)) + " " + F(r.Score))
	}
	return sb.String()
}

func execSearch(ops []string, mon *Mon) []string {
	out := make([]string, 0, len(ops))
	var cmds []database.Command
	var db *database.Database
	var prev []*SearchRecord
	getDB := func() *database.Database {
		if db == nil {
			db = buildDB(cmds, mon)
		}
		return db
	}
	for _, o := range ops {
		f := strings.Split(o, " ")
		switch f[0] {
		case "host":
			out = append(out, "ok")
		case "cmd":
			cmds = append(cmds, parseCmdLine(f))
			out = append(out, "ok")
		case "ri", "idf", "nq", "pq", "ib", "cb", "tf", "fz", "lg":
			out = append(out, "ok")
		case "tfidf":
			d := getDB()
			res, ok := d.VerifTFIDF(UnHx(f[1]))
			line := "tf " + Itoa(len(res))
			if !ok {
				line = "tf 0"
			}
			for _, r := range res {
				line += " " + Itoa(r.CommandIndex) + " " + F(r.Similarity)
			}
			out = append(out, line)
		case "normq":
			out = append(out, "nq "+Hx(strings.ToLower(strings.TrimSpace(UnHx(f[1])))))
		case "tokens":
			ts := database.VerifTokenize(UnHx(f[1]))
			s := "tok"
			for _, t := range ts {
				s += " " + Hx(t)
			}
			out = append(out, s)
		case "passes":
			d := getDB()
			i := Atoi(f[1])
			op := database.SearchOptions{AllPlatforms: f[2] == "1", Platforms: unHxList(f[3]), NoCrossPlatform: f[4] == "1", PipelineOnly: f[5] == "1"}
			out = append(out, B(database.VerifPassesFilters(&d.Commands[i], op)))
		case "search":
			d := getDB()
			q := UnHx(f[1])
			op := parseOpts(f[2:])
			line := ""
			rec := &SearchRecord{DB: d, Query: q, Opts: op}
			func() {
				defer func() {
					if r := recover(); r != nil {
						line = "panic:" + panicClass(r)
						rec.Panic = strings.ReplaceAll(toStr(r), "\n", " ")
						mon.Hit("C10", "search-panic", map[string]interface{}{"query": q, "panic": rec.Panic})
					}
				}()
				rs := d.SearchUniversal(q, op)
				line = fmtResults(d, rs)
				rec.Results = rs
				for _, x := range rs {
					rec.IDs = append(rec.IDs, d.VerifIndexOf(x.Command))
				}
				monitorSearch(mon, d, q, op, rs)
			}()
			for _, m := range searchMonitors {
				m(mon, rec, prev)
			}
			prev = append(prev, rec)
			out = append(out, line)
		default:
			out = append(out, "bad-op")
		}
	}
	return out
}

func toStr(r interface{}) string {
	if e, ok := r.(error); ok {
		return e.Error()
	}
	if s, ok := r.(string); ok {
		return s
	}
	return "panic"
}

func panicClass(r interface{}) string {
	s := toStr(r)
	switch {
	case strings.Contains(s, "index out of range"):
		return "index-out-of-range"
	case strings.Contains(s, "slice bounds out of range"):
		return "slice-bounds"
	case strings.Contains(s, "makeslice"):
		return "makeslice"
	case strings.Contains(s, "nil map"):
		return "nil-map"
	case strings.Contains(s, "nil pointer"):
		return "nil-pointer"
	}
	return "other"
}

// monitorSearch evaluates C01's clauses directly on the real answer (independent of the model).
func monitorSearch(mon *Mon, db *database.Database, q string, o database.SearchOptions, rs []database.SearchResult) {
	lim := o.Limit
	if lim <= 0 {
		lim = 10
	}
	det := func() map[string]interface{} {
		return map[string]interface{}{"query": q, "limit": o.Limit, "n": len(rs)}
	}
	if len(rs) > lim {
		mon.Hit("C01", "more-than-limit", det())
	}
	seen := map[int]bool{}
	for i, r := range rs {
		id := db.VerifIndexOf(r.Command)
		if id < 0 {
			mon.Hit("C01", "foreign-command", det())
		}
		if seen[id] {
			mon.Hit("C01", "duplicate-result", det())
		}
		seen[id] = true
		if math.IsNaN(r.Score) || math.IsInf(r.Score, 0) || r.Score < 0 {
			if finiteOpts(o) {
				mon.Hit("C01", "score-not-finite-nonnegative", det())
			}
		}
		if i > 0 && rs[i-1].Score < r.Score {
			mon.Hit("C01", "not-sorted", det())
		}
	}
	if len(rs) > 0 {
		mon.Tag("nonempty")
	} else {
		mon.Tag("empty")
	}
	if !utf8.ValidString(q) {
		mon.Tag("invalid-utf8-query")
	}
}

func finiteOpts(o database.SearchOptions) bool {
	if o.PipelineBoost < 0 {
		return false
	}
	for _, v := range o.ContextBoosts {
		if v < 0 || math.IsNaN(v) || math.IsInf(v, 0) {
			return false
		}
	}
	return true
}
