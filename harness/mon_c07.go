//go:build verif

package main

import (
	"math"
	"strings"

	"github.com/sahilm/fuzzy"

	"github.com/Vedant9500/WTF/internal/database"
)

// C07 — typo fallback runs only when nothing matches and returns genuine matches.
//
// Independent evaluation of the property on every search of the `search` domain that has typo tolerance
// switched on.  Written from the property statement; the engine is consulted only through its public
// entry point (the same request with UseFuzzy=false) and the matcher library through fuzzy.Find on single
// targets (to obtain "match quality").
//
//  (a) the answer without typo tolerance is non-empty      => the answer with it is the identical list
//  (b) nothing matches lexically and the fallback answers  => each result's text contains the characters
//      of the (trimmed, lower-cased) query in order ignoring case; its match quality is >= the threshold
//      when one is set; results are ordered best match first; each passes the platform / pipeline filters
//  (c) no threshold, nothing matches lexically, some eligible command's text contains the query's
//      characters in order                                 => the answer is not empty
//
// "Text" is command + " " + description with NUL bytes read as spaces (NUL carries no meaning in a
// command line; the engine neutralises it the same way before matching).

func c07Text(c *database.Command) string {
	return strings.ReplaceAll(c.Command+" "+c.Description, "\x00", " ")
}

// c07Quality: the library's score of the query against one text (ok=false: no match / library panic)
func c07Quality(nq, text string) (score int, ok bool) {
	defer func() {
		if recover() != nil {
			ok = false
		}
	}()
	ms := fuzzy.Find(nq, []string{text})
	if len(ms) != 1 {
		return 0, false
	}
	return ms[0].Score, true
}

func c07Eligible(c *database.Command, o database.SearchOptions) bool {
	ok, _ := c04Allowed(c, c04Host(), o)
	return ok && (!o.PipelineOnly || c04IsPipeline(c))
}

func c07SameAnswer(db *database.Database, a, b []database.SearchResult) bool {
	if len(a) != len(b) {
		return false
	}
	for i := range a {
		if a[i].Command != b[i].Command || math.Float64bits(a[i].Score) != math.Float64bits(b[i].Score) {
			return false
		}
	}
	return true
}

func sameOptsButFuzzy(a, b database.SearchOptions) bool {
	a.UseFuzzy, b.UseFuzzy = false, false
	return optsTokens(a) == optsTokens(b)
}

func c07Detail(rec *SearchRecord, extra map[string]interface{}) map[string]interface{} {
	d := map[string]interface{}{"query": rec.Query, "threshold": rec.Opts.FuzzyThreshold, "limit": rec.Opts.Limit,
		"use_nlp": rec.Opts.UseNLP, "pipeline_only": rec.Opts.PipelineOnly, "all_platforms": rec.Opts.AllPlatforms,
		"platforms": rec.Opts.Platforms, "no_cross_platform": rec.Opts.NoCrossPlatform, "answer_ids": rec.IDs}
	for k, v := range extra {
		d[k] = v
	}
	return d
}

// c07CheckAnswer: clause (b) on one fallback answer - every result is a genuine, eligible match of at least the
// requested quality, best first.  entry names the path that produced it ("" = SearchUniversal itself).
func c07CheckAnswer(mon *Mon, cur *SearchRecord, entry string) {
	nq := strings.ToLower(strings.TrimSpace(cur.Query))
	thr := cur.Opts.FuzzyThreshold
	lastQ := math.MaxInt
	for i, r := range cur.Results {
		text := c07Text(r.Command)
		det := func(extra map[string]interface{}) map[string]interface{} {
			extra["result_index"] = i
			extra["command"] = r.Command.Command
			extra["description"] = r.Command.Description
			if entry != "" {
				extra["path"] = entry
			}
			return c07Detail(cur, extra)
		}
		q, matched := c07Quality(nq, text)
		if nq == "" || !occursFolded(nq, text) || !matched {
			mon.Hit("C07", "fuzzy-result-not-subsequence", det(map[string]interface{}{"normalised_query": nq}))
			continue
		}
		if thr != 0 && q < thr {
			mon.Hit("C07", "fuzzy-below-threshold", det(map[string]interface{}{"match_quality": q}))
		}
		if q > lastQ {
			mon.Hit("C07", "fuzzy-not-best-first", det(map[string]interface{}{"match_quality": q, "previous": lastQ}))
		}
		lastQ = q
		if !c07Eligible(r.Command, cur.Opts) {
			mon.Hit("C07", "fuzzy-result-violates-filters", det(map[string]interface{}{"platform": r.Command.Platform}))
		}
	}
}

// c07CachedAndReplaced: the same typo query through the cache layer under a run of thresholds on ONE cache (an entry
// stored for one threshold must not answer another), and again after the command list was replaced by one of the same
// size (anything the fallback keeps per database must follow the replacement).
func c07CachedAndReplaced(mon *Mon, cur *SearchRecord) {
	defer func() {
		if r := recover(); r != nil {
			mon.Hit("C10", "search-panic", map[string]interface{}{"entry": "c07-cached", "query": cur.Query, "panic": strings.ReplaceAll(toStr(r), "\n", " ")})
		}
	}()
	cp := &database.Database{Commands: c03Clone(cur.DB.Commands)}
	cdb := database.NewCachedDatabase(cp)
	run := func(thr int, entry string) {
		o := cur.Opts
		o.FuzzyThreshold = thr
		rs := cdb.SearchWithOptionsAndCache(cur.Query, o)
		if off := o; true {
			off.UseFuzzy = false
			if len(cdb.Database.SearchUniversal(cur.Query, off)) > 0 {
				return // answered lexically on this database: not a fallback answer
			}
		}
		rec := &SearchRecord{DB: cdb.Database, Query: cur.Query, Opts: o, Results: rs}
		for _, x := range rs {
			id := cdb.Database.VerifIndexOf(x.Command)
			if id < 0 {
				mon.Hit("C07", "fuzzy-result-not-subsequence", c07Detail(rec, map[string]interface{}{"path": entry, "why": "result is not an entry of the searched database"}))
				return
			}
			rec.IDs = append(rec.IDs, id)
		}
		c07CheckAnswer(mon, rec, entry)
		mon.Tag("c07-" + entry)
	}
	for _, thr := range []int{0, -30, cur.Opts.FuzzyThreshold, -5, 0, -100} {
		run(thr, "cached-threshold-run")
	}
	// the same words with other inner spacing are a DIFFERENT pattern for the matcher (blanks are matched like any character):
	// an entry cached for one spelling must not answer the other
	if q := strings.TrimSpace(cur.Query); strings.Contains(q, " ") {
		orig := cur.Query
		i := strings.Index(q, " ")
		for _, sp := range []string{"  ", " \t", "   "} {
			cur.Query = q[:i] + sp + strings.TrimLeft(q[i:], " ")
			run(0, "cached-inner-spacing-variant")
		}
		cur.Query = orig
	}
	repl := c03Clone(cur.DB.Commands)
	for i, j := 0, len(repl)-1; i < j; i, j = i+1, j-1 {
		repl[i], repl[j] = repl[j], repl[i]
	}
	cdb.UpdateDatabase(repl)
	run(cur.Opts.FuzzyThreshold, "after-same-size-replacement")
	run(0, "after-same-size-replacement")
}

func init() {
	searchMonitors = append(searchMonitors, func(mon *Mon, cur *SearchRecord, prev []*SearchRecord) {
		if !cur.Opts.UseFuzzy {
			return
		}
		if cur.Panic != "" {
			// the matcher indexes past the pattern when a target contains NUL (other panics are C10's subject)
			if strings.Contains(cur.Panic, "index out of range") {
				mon.Hit("C07", "fuzzy-panic", c07Detail(cur, map[string]interface{}{"panic": cur.Panic}))
			}
			return
		}
		off, offPanicked := offAnswer(cur)
		if offPanicked {
			return
		}
		// a paired request earlier in the case (same query, same options, UseFuzzy off) must agree with `off`
		for i := len(prev) - 1; i >= 0; i-- {
			p := prev[i]
			if p.Query == cur.Query && !p.Opts.UseFuzzy && p.Panic == "" && sameOptsButFuzzy(p.Opts, cur.Opts) {
				mon.Tag("c07-paired-off-on")
				if !c07SameAnswer(cur.DB, p.Results, off) {
					mon.Hit("C07", "off-answer-not-reproducible", c07Detail(cur, nil))
				}
				break
			}
		}
		thr := cur.Opts.FuzzyThreshold
		mon.Tag("c07-threshold:" + Itoa(thr))
		// (a)
		if len(off) > 0 {
			mon.Tag("c07-lexical-answer-exists")
			if !c07SameAnswer(cur.DB, off, cur.Results) {
				offIDs := []int{}
				for _, x := range off {
					offIDs = append(offIDs, cur.DB.VerifIndexOf(x.Command))
				}
				mon.Hit("C07", "fuzzy-overrode-answer", c07Detail(cur, map[string]interface{}{"answer_without_fuzzy": offIDs}))
			}
			return
		}
		nq := strings.ToLower(strings.TrimSpace(cur.Query))
		// eligible commands whose text contains the query's characters in order, with their match quality
		type cand struct {
			id, q int
		}
		var cands []cand
		if nq != "" {
			for i := range cur.DB.Commands {
				c := &cur.DB.Commands[i]
				if c07Eligible(c, cur.Opts) && occursFolded(nq, c07Text(c)) {
					q, _ := c07Quality(nq, c07Text(c))
					cands = append(cands, cand{i, q})
				}
			}
		}
		if len(cands) > 0 {
			mon.Tag("c07-eligible-subsequence-exists")
		}
		// (b)
		c07CheckAnswer(mon, cur, "")
		if len(cands) > 0 {
			c07CachedAndReplaced(mon, cur)
		}
		if len(cur.Results) > 0 {
			mon.Tag("c07-fallback-answer")
			if thr != 0 {
				mon.Tag("c07-fallback-answer-under-threshold-setting")
			}
		} else {
			mon.Tag("c07-nothing-found")
		}
		if thr != 0 {
			for _, c := range cands {
				if c.q < thr {
					mon.Tag("c07-threshold-excluded-a-match")
					break
				}
			}
		}
		// (c)
		if thr == 0 && len(cands) > 0 {
			mon.Tag("c07-completeness-applicable")
			if len(cur.Results) == 0 {
				mon.Hit("C07", "fuzzy-missed-match", c07Detail(cur, map[string]interface{}{"normalised_query": nq,
					"eligible_command_with_subsequence": cur.DB.Commands[cands[0].id].Command}))
			}
		}
	})
	searchStreams["c07"] = genC07
}

// ---- directed stream: paired UseFuzzy off/on across thresholds, NLP on and off -------------------

var c07Thresholds = []int{0, -100, -30, -5, 1, 50}

func fragment(r *Rng, w string) string {
	rs := []rune(w)
	if len(rs) < 3 {
		return w
	}
	switch r.Intn(4) {
	case 0: // prefix
		return string(rs[:r.Range(1, len(rs)-1)])
	case 1: // suffix
		return string(rs[r.Range(1, len(rs)-1):])
	case 2: // every other letter
		var out []rune
		for i, c := range rs {
			if i%2 == 0 {
				out = append(out, c)
			}
		}
		return string(out)
	default: // consonant skeleton
		var out []rune
		for _, c := range rs {
			if !strings.ContainsRune("aeiouAEIOU", c) {
				out = append(out, c)
			}
		}
		return string(out)
	}
}

func genC07(r *Rng, tier string, idx int, args map[string]string) []string {
	n := r.Range(3, 16)
	if tier == "thorough" {
		n = r.Range(3, 60)
	}
	cmds := make([]database.Command, 0, n)
	for i := 0; i < n; i++ {
		c := genCommand(r)
		if r.Chance(1, 12) { // NUL bytes in the text: the matcher's end-of-text sentinel (guarded by the engine)
			c.Description += "\x00" + Pick(r, wordPool)
		}
		if r.Chance(1, 20) {
			c.Command = Pick(r, toolPool) + "\x00" + Pick(r, wordPool)
		}
		cmds = append(cmds, c)
	}
	var dbWords []string
	for _, c := range cmds {
		for _, w := range strings.Fields(strings.ReplaceAll(c.Command+" "+c.Description, "\x00", " ")) {
			if len(w) >= 3 {
				dbWords = append(dbWords, w)
			}
		}
	}
	if len(dbWords) == 0 {
		dbWords = []string{"list"}
	}
	queries := []string{
		Pick(r, dbWords),                 // exact word
		dropLetters(r, Pick(r, dbWords)), // misspelling that stays a subsequence
		misspell(r, Pick(r, dbWords)),    // misspelling (swap / doubling: usually no subsequence)
		fragment(r, Pick(r, dbWords)),    // fragment
		Pick(r, []string{"l", "x", "s", "é", "K", "-", "|", "..", "&&", "?", " ", "", "a b", "\x00", "I"}), // one letter / punctuation only
		"  " + strings.ToUpper(dropLetters(r, Pick(r, dbWords))) + " ",                                     // re-cased, padded
	}
	if r.Chance(1, 2) {
		queries = append(queries, genQuery(r, dbWords))
	}
	var reqs []SearchReq
	for _, q := range queries {
		base := database.SearchOptions{Limit: Pick(r, []int{0, 1, 3, 10}), PipelineBoost: Pick(r, []float64{0, 0, 1.5}),
			TopTermsCap: Pick(r, []int{0, 0, 5})}
		if r.Chance(1, 4) {
			base.Platforms = append([]string(nil), Pick(r, c04PlatformSets)...)
		}
		base.NoCrossPlatform = r.Chance(1, 8)
		base.AllPlatforms = r.Chance(1, 6)
		base.PipelineOnly = r.Chance(1, 10)
		for _, nlp := range []bool{false, true} {
			for _, thr := range c07Thresholds {
				o := base
				o.UseNLP, o.FuzzyThreshold = nlp, thr
				o.UseFuzzy = false
				reqs = append(reqs, SearchReq{Query: q, Opts: o})
				o.UseFuzzy = true
				reqs = append(reqs, SearchReq{Query: q, Opts: o})
			}
		}
	}
	return SearchCaseOps(cmds, reqs, nil)
}
