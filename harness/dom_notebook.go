//go:build verif

package main

import (
	"encoding/json"
	"fmt"
	"os"
	"path/filepath"
	"reflect"
	"strings"

	"github.com/Vedant9500/WTF/internal/cli"
	"github.com/Vedant9500/WTF/internal/database"

	"gopkg.in/yaml.v3"
)

// notebook (C08): sequences of saves through the real saveToPersonalDatabase on a real file, reloaded with
// database.LoadDatabase / LoadDatabaseWithPersonal and searched with SearchUniversal, against
// Model/Notebook.lean (`save`, `stepNb`, `mergedNb`).  The monitor keeps its own shadow list.
//
//	ent main|nb <cmd> <desc> <kws> <tags> <niche> <plats> <pipe>     an entry of the main database / initial notebook
//	nb none|empty|corrupt|list                                      initial notebook: no file, 0-byte file, unreadable, entries above
//	save <rt> <cmd> <desc> <kws> <niche> <plats> <pipe>             one `wtf save`; rt = the resulting list survives yaml.v3
//	load                                                            LoadDatabaseWithPersonal(main, notebook)
//	find <cmd> <marker>                                             index of the saved entry in the merged list (+ search monitor)
func init() {
	Register(&Domain{Name: "notebook", Gen: genNotebook, Exec: execNotebook})
	RegisterTool("parseargs", toolParseArgs)
	RegisterTool("rtcheck", toolRoundTrip)
}

// ---- encoding of entries on protocol lines

func nbHxList(xs []string) string {
	if len(xs) == 0 {
		return "."
	}
	o := make([]string, len(xs))
	for i, x := range xs {
		o[i] = Hx(x)
	}
	return strings.Join(o, ",")
}

func nbUnHxList(t string) []string {
	if t == "." {
		return nil
	}
	ps := strings.Split(t, ",")
	o := make([]string, len(ps))
	for i, p := range ps {
		o[i] = UnHx(p)
	}
	return o
}

func nbEntTok(c database.Command) string {
	return strings.Join([]string{Hx(c.Command), Hx(c.Description), nbHxList(c.Keywords), nbHxList(c.Tags), Hx(c.Niche), nbHxList(c.Platform), B(c.Pipeline)}, ";")
}

func nbStateTok(cs []database.Command) string {
	if len(cs) == 0 {
		return "[]"
	}
	o := make([]string, len(cs))
	for i, c := range cs {
		o[i] = nbEntTok(c)
	}
	return strings.Join(o, "|")
}

func nbSame(a, b database.Command) bool { return nbEntTok(a) == nbEntTok(b) }

func nbSaveShadow(xs []database.Command, e database.Command) []database.Command {
	out := append([]database.Command{}, xs...)
	for i := range out {
		if out[i].Command == e.Command {
			out[i] = e
			return out
		}
	}
	return append(out, e)
}

// nbRoundTrips evaluates the YAML contract on one concrete list with the real encoder and decoder.
func nbRoundTrips(xs []database.Command) bool {
	b, err := yaml.Marshal(xs)
	if err != nil {
		return false
	}
	var back []database.Command
	if err := yaml.Unmarshal(b, &back); err != nil {
		return false
	}
	return nbStateTok(back) == nbStateTok(xs)
}

// ---- generator

var nbHostile = []string{
	"", "-", "- x", "-x", ": ", "a: b", "key: value # c", "#", "# comment", " #x", "'", "\"", "'single'", "\"double\"", "it's", "say \"hi\"",
	"{{.Names}}", "{{ range . }}", "{a: 1}", "[1, 2]", "null", "Null", "~", "true", "false", "yes", "no", "on", "off", "0x1F", "1e3", "0o17", "12", "-3.5", ".inf", ".nan",
	"2001-01-01", "!!binary x", "!tag", "&anchor", "*alias", "%TAG", "---", "...", "|", ">", "|-", ">+", "? x", "@at", "`tick`", ",", "[", "]", "{", "}",
	"line1\nline2", "\nleading break", "trailing break\n", "\n", "\n\n", "a\n\nb", "  leading spaces", "trailing spaces  ", " ", "\ttab", "a\tb", "tab\t", "\r", "a\r\nb", "\r\n",
	"\x00", "a\x00b", "\x01\x02", "\x1b[31mred", "\x7f", "bell\x07", "\xff", "\xc3\x28", "ok\xf0\x28\x8c\x28", "\xe2\x82", "caf\xc3\xa9", "日本語", "\u2028sep", "\u0085nel", "\ufeffbom", "emoji 😀",
	"tar -czf backup.tar.gz /home/user", "docker ps -a --format 'table {{.Names}}\\t{{.Status}}'", "find . -name '*.go' -exec gofmt -w {} \\;",
	// multi-line texts with indentation (block scalars whose first line is indented decode differently at different nesting depths)
	"  make build\n  make test", "   a\n b", "\tfirst\n\tsecond", "  x\n", " \n y", "for f in *.log; do\n  gzip \"$f\"\ndone\n", "line\r\n", "two\n\n",
	"cat file.txt | wc -l | awk '{print \"Lines:\" $1}'", "grep ERROR /var/log/app.log | tail -20 | sort", "echo $HOME && ls > out.txt", "a\\b", "\\n", "C:\\path",
}

func nbText(r *Rng, marker string) string {
	var s string
	switch r.Intn(10) {
	case 0, 1, 2, 3:
		s = Pick(r, nbHostile)
	case 4, 5:
		s = Pick(r, nbHostile) + Pick(r, []string{"", " ", "\n", ": ", " #"}) + Pick(r, nbHostile)
	case 6:
		b := make([]byte, r.Range(1, 6))
		for i := range b {
			b[i] = byte(r.Intn(256))
		}
		s = string(b)
	case 7:
		s = strings.Repeat(Pick(r, []string{"x", "long text ", "é", "- ", "\n"}), Pick(r, []int{200, 1000, 5000}))
	default:
		s = Pick(r, awWords) + " " + Pick(r, awWords)
	}
	if marker != "" {
		s = Pick(r, []string{s + " " + marker, marker + " " + s, s + "\n" + marker, marker})
	}
	return s
}

func nbList(r *Rng, max int) []string {
	n := Pick(r, []int{0, 0, 1, 2, r.Intn(max + 1)})
	var o []string
	for i := 0; i < n; i++ {
		o = append(o, nbText(r, ""))
	}
	return o
}

func nbBenign(r *Rng, i int, tag string) database.Command {
	c := awEntry(r, i)
	c.Command = tag + c.Command
	return c
}

func genNotebook(r *Rng, tier string, idx int, args map[string]string) []string {
	ops := []string{}
	var main, shadow []database.Command
	for i := r.Intn(4); i > 0; i-- {
		c := nbBenign(r, len(main), "m")
		main = append(main, c)
		ops = append(ops, "ent main "+strings.ReplaceAll(nbEntTok(c), ";", " "))
	}
	state := Pick(r, []string{"none", "none", "empty", "list", "list", "list", "corrupt"})
	if state == "list" {
		for i := r.Range(1, 5); i > 0; i-- {
			c := nbBenign(r, len(shadow), "n")
			if len(shadow) > 0 && r.Chance(1, 6) { // a hand-edited notebook may repeat a command string
				c.Command = shadow[r.Intn(len(shadow))].Command
			}
			if r.Chance(1, 4) {
				c.Tags = []string{"tag" + Itoa(i)}
			}
			shadow = append(shadow, c)
			ops = append(ops, "ent nb "+strings.ReplaceAll(nbEntTok(c), ";", " "))
		}
	}
	ops = append(ops, "nb "+state)
	n := r.Range(2, 9)
	if tier == "thorough" {
		n = r.Range(2, 25)
	}
	used := []string{}
	for i := 0; i < n; i++ {
		switch x := r.Intn(10); {
		case x < 7:
			marker := "zq" + Itoa(idx) + "m" + Itoa(i) + Pick(r, []string{"a", "b", "c"})
			e := database.Command{Pipeline: r.Bool()}
			where := r.Intn(3)
			mk := func(w int) string {
				if w == where {
					return marker
				}
				return ""
			}
			switch {
			case len(used) > 0 && r.Chance(1, 3):
				e.Command = Pick(r, used) // replace an entry saved earlier
				where = 1 + r.Intn(2)
			case len(shadow) > 0 && r.Chance(1, 5):
				e.Command = shadow[r.Intn(len(shadow))].Command // replace an initial entry
				where = 1 + r.Intn(2)
			case len(used) > 0 && r.Chance(1, 6):
				// differs from an earlier command only in letter case: a DIFFERENT command string
				// (shell commands are case-sensitive), so it must be appended, not replace that entry
				base := Pick(r, used)
				e.Command = strings.ToUpper(base)
				if e.Command == base {
					e.Command = strings.ToLower(base)
				}
				where = 1 + r.Intn(2)
			case len(main) > 0 && r.Chance(1, 6):
				// the user re-saves a stock command with personal notes: the notebook entry must still
				// follow the main entries in the searched database and be found by its own words
				e.Command = main[r.Intn(len(main))].Command
				where = 1 + r.Intn(2)
			default:
				e.Command = nbText(r, mk(0))
			}
			e.Description = nbText(r, mk(1))
			e.Keywords = nbList(r, 4)
			if where == 2 {
				e.Keywords = append(e.Keywords, marker)
			}
			e.Niche = Pick(r, []string{"", "", "dev", Pick(r, nbHostile)})
			e.Platform = Pick(r, [][]string{nil, nil, {"linux"}, {"linux", "macos"}, {Pick(r, nbHostile)}, {"windows", ""}})
			used = append(used, e.Command)
			rt := false
			if state != "corrupt" {
				next := nbSaveShadow(shadow, e)
				if rt = nbRoundTrips(next); rt {
					shadow = next
					if state != "list" {
						state = "list"
					}
				}
			}
			ops = append(ops, fmt.Sprintf("save %s %s %s %s %s %s %s", B(rt), Hx(e.Command), Hx(e.Description), nbHxList(e.Keywords), Hx(e.Niche), nbHxList(e.Platform), B(e.Pipeline)))
			if rt && r.Chance(2, 3) {
				ops = append(ops, "find "+Hx(e.Command)+" "+Hx(marker))
			}
		case x < 8 && r.Chance(1, 2):
			// two saves of one command that differ ONLY in where a list is split (an element containing the
			// separator vs two elements): a "nothing changed" shortcut that compares joined lists would skip
			// the second one, which must replace the entry like any other re-save
			marker := "zq" + Itoa(idx) + "r" + Itoa(i)
			sep := Pick(r, []string{",", ",", ", ", " ", ";"})
			a, b := Pick(r, awWords), Pick(r, awWords)
			e1 := database.Command{Command: "resplit " + marker, Description: nbText(r, marker), Niche: Pick(r, []string{"", "dev"}), Pipeline: r.Bool()}
			e2 := e1
			switch r.Intn(3) {
			case 0:
				e1.Keywords, e2.Keywords = []string{a + sep + b}, []string{a, b}
			case 1:
				e1.Platform, e2.Platform = []string{"linux", "macos"}, []string{"linux" + sep + "macos"}
			default:
				e1.Keywords, e2.Keywords = []string{a, b}, []string{a + sep + b}
				e1.Platform, e2.Platform = []string{"linux" + sep + "macos"}, []string{"linux", "macos"}
			}
			for _, e := range []database.Command{e1, e2} {
				used = append(used, e.Command)
				rt := false
				if state != "corrupt" {
					next := nbSaveShadow(shadow, e)
					if rt = nbRoundTrips(next); rt {
						shadow = next
						state = "list"
					}
				}
				ops = append(ops, fmt.Sprintf("save %s %s %s %s %s %s %s", B(rt), Hx(e.Command), Hx(e.Description), nbHxList(e.Keywords), Hx(e.Niche), nbHxList(e.Platform), B(e.Pipeline)))
			}
		case x < 9:
			ops = append(ops, "load")
		default:
			if len(used) > 0 {
				ops = append(ops, "find "+Hx(Pick(r, used))+" -")
			}
		}
	}
	ops = append(ops, "load")
	return ops
}

// ---- executor + monitor

func nbLoad(path string) ([]database.Command, string) {
	if _, err := os.Stat(path); os.IsNotExist(err) {
		return nil, "missing"
	}
	db, err := database.LoadDatabase(path)
	if err != nil {
		return nil, "corrupt"
	}
	return db.Commands, ""
}

func execNotebook(ops []string, mon *Mon) (out []string) {
	dir, err := os.MkdirTemp("", "wtfverif-nb-")
	if err != nil {
		panic(err)
	}
	defer os.RemoveAll(dir)
	mainPath := filepath.Join(dir, "commands.yml")
	path := filepath.Join(dir, "home", ".config", "cmd-finder", "personal.yml")
	var main, initial, shadow []database.Command
	corrupt := false
	ready := false
	setup := func(kind string) {
		ready = true
		b, _ := yaml.Marshal(main)
		if len(main) == 0 {
			b = []byte("[]\n")
		}
		os.WriteFile(mainPath, b, 0o644)
		os.MkdirAll(filepath.Dir(path), 0o755)
		switch kind {
		case "empty":
			os.WriteFile(path, nil, 0o644)
			mon.Tag("start-empty-file")
		case "corrupt":
			os.WriteFile(path, []byte("- command: [unclosed\n  {{{\n"), 0o644)
			corrupt = true
			mon.Tag("start-corrupt")
		case "list":
			b, _ := yaml.Marshal(initial)
			os.WriteFile(path, b, 0o644)
			shadow = append([]database.Command{}, initial...)
			mon.Tag("start-populated")
		default:
			os.RemoveAll(filepath.Dir(path)) // the directory is created by the save
			mon.Tag("start-missing")
		}
	}
	for _, o := range ops {
		f := strings.Fields(o)
		if !ready && f[0] != "ent" && f[0] != "nb" {
			setup("none") // a case without an `nb` line starts from a missing notebook (as the model does)
		}
		func() {
			defer func() {
				if r := recover(); r != nil {
					mon.Hit("C08", "panic", map[string]interface{}{"op": nbPretty(o), "panic": fmt.Sprint(r)})
					out = append(out, "panic")
				}
			}()
			switch f[0] {
			case "ent":
				c := database.Command{Command: UnHx(f[2]), Description: UnHx(f[3]), Keywords: nbUnHxList(f[4]), Tags: nbUnHxList(f[5]), Niche: UnHx(f[6]),
					Platform: nbUnHxList(f[7]), Pipeline: f[8] == "1"}
				if f[1] == "main" {
					main = append(main, c)
				} else {
					initial = append(initial, c)
				}
				out = append(out, "ok")
			case "nb":
				setup(f[1])
				out = append(out, "ok")
			case "save":
				e := database.Command{Command: UnHx(f[2]), Description: UnHx(f[3]), Keywords: nbUnHxList(f[4]), Niche: UnHx(f[5]), Platform: nbUnHxList(f[6]), Pipeline: f[7] == "1"}
				before, _ := os.ReadFile(path)
				_, statErr := os.Stat(path)
				existed := statErr == nil
				err := cli.VerifSaveToPersonalDatabase(path, e)
				want := nbSaveShadow(shadow, e)
				det := map[string]interface{}{"op": nbPretty(o)}
				got, st := nbLoad(path)
				if err == nil {
					mon.Tag("save-ok")
					idx := len(shadow)
					for i := range shadow {
						if shadow[i].Command == e.Command {
							idx = i
							mon.Tag("replaced-existing")
							break
						}
					}
					switch {
					case st != "":
						det["file"] = st
						mon.Hit("C08", "success-but-unreadable-notebook", det)
					case nbStateTok(got) != nbStateTok(want):
						cls := "neighbour-changed"
						n := 0
						for _, g := range got {
							if g.Command == e.Command {
								n++
							}
						}
						nWant := 0
						for _, g := range want {
							if g.Command == e.Command {
								nWant++
							}
						}
						if n > nWant {
							cls = "duplicate-command"
						} else if idx >= len(got) || !nbSame(got[idx], e) {
							cls = "saved-entry-differs"
							if idx < len(got) {
								det["stored"] = nbPretty(strings.ReplaceAll(nbEntTok(got[idx]), ";", " "))
							}
						}
						det["entries_before"], det["entries_after"] = len(shadow), len(got)
						mon.Hit("C08", cls, det)
					}
					shadow = want
					if st == "" {
						shadow = got // keep following the real file so that one deviation is reported once
					}
					if len(e.Command) > 0 && (strings.ContainsAny(e.Command+e.Description, "\n\x00\xff") || strings.HasPrefix(e.Command, "-")) {
						mon.Tag("hostile-text-stored")
					}
				} else {
					mon.Tag("save-refused")
					after, _ := os.ReadFile(path)
					_, statErr2 := os.Stat(path)
					if string(after) != string(before) || (statErr2 == nil) != existed {
						mon.Hit("C08", "failed-save-changed-file", det)
					}
					if !corrupt && nbRoundTrips(want) {
						det["error"] = err.Error()
						mon.Hit("C08", "save-refused-storable-entry", det)
					}
				}
				res := "fail "
				if err == nil {
					res = "ok "
				}
				if st == "" {
					st = nbStateTok(got)
				}
				out = append(out, res+st)
			case "load":
				db, err := database.LoadDatabaseWithPersonal(mainPath, path)
				if err != nil {
					out = append(out, "load-error")
					if !corrupt {
						mon.Hit("C08", "notebook-unloadable", map[string]interface{}{"op": o, "error": err.Error()})
					}
					return
				}
				personal, _ := nbLoad(path)
				if nbStateTok(db.Commands) != nbStateTok(append(append([]database.Command{}, main...), personal...)) {
					mon.Hit("C08", "merged-order", map[string]interface{}{"op": o, "merged": len(db.Commands), "main": len(main), "personal": len(personal)})
				}
				mon.Tag("merged-load")
				out = append(out, "merged "+nbStateTok(db.Commands))
			case "find":
				cmdText, marker := UnHx(f[1]), UnHx(f[2])
				db, err := database.LoadDatabaseWithPersonal(mainPath, path)
				if err != nil {
					out = append(out, "load-error")
					return
				}
				idx := -1
				for i := len(main); i < len(db.Commands); i++ {
					if db.Commands[i].Command == cmdText {
						idx = i
						break
					}
				}
				if idx < 0 {
					out = append(out, "absent")
					return
				}
				out = append(out, "idx "+Itoa(idx))
				if marker != "" {
					res := db.SearchUniversal(marker, database.SearchOptions{Limit: len(db.Commands) + 10, UseNLP: false, AllPlatforms: true})
					found := false
					for _, r := range res {
						if r.Command == &db.Commands[idx] {
							found = true
						}
					}
					mon.Tag("searched-for-saved-word")
					if !found {
						mon.Hit("C08", "saved-not-found-by-search", map[string]interface{}{"op": nbPretty(o), "word": marker, "results": len(res), "db": len(db.Commands)})
					}
					// the keyword search behind `wtf pipeline` (what the save-pipeline message tells the user to run next)
					if db.Commands[idx].Pipeline {
						foundP := false
						for _, r := range db.SearchWithPipelineOptions(marker, database.SearchOptions{Limit: len(db.Commands) + 10, PipelineOnly: true}) {
							if r.Command == &db.Commands[idx] {
								foundP = true
							}
						}
						mon.Tag("pipeline-searched-for-saved-word")
						if !foundP {
							mon.Hit("C08", "saved-not-found-by-search", map[string]interface{}{"op": nbPretty(o), "word": marker, "entry_point": "SearchWithPipelineOptions (wtf pipeline)", "db": len(db.Commands)})
						}
						// the same behind a LARGE main database, at the default limit: forty main pipelines that share the word, the
						// notebook after them (where the loader puts it).  Judged against the engine's own unlimited ranking: an entry
						// that is strictly among the best of it must be in the limited answer.
						nbBehindLargeMain(mon, o, marker, db.Commands[len(main):], idx-len(main))
					}
				}
				// "exactly the main entries followed by the notebook entries": entry for entry what the loader makes of each file
				// on its own, every field included (the lower-case copies the keyword searches read, too)
				if m, e1 := database.LoadDatabase(mainPath); e1 == nil {
					if n, e2 := database.LoadDatabase(path); e2 == nil {
						want := append(append([]database.Command{}, m.Commands...), n.Commands...)
						if !reflect.DeepEqual(want, db.Commands) {
							at := -1
							for i := range want {
								if i >= len(db.Commands) || !reflect.DeepEqual(want[i], db.Commands[i]) {
									at = i
									break
								}
							}
							mon.Hit("C08", "merged-order", map[string]interface{}{"op": nbPretty(o), "why": "the merged database is not the main entries followed by the notebook entries as loaded on their own", "first_difference_at": at, "main": len(m.Commands), "personal": len(n.Commands), "merged": len(db.Commands)})
						}
					}
				}
			default:
				out = append(out, "bad-op")
			}
		}()
	}
	return out
}

func nbPretty(l string) string {
	fs := strings.Fields(l)
	for i, t := range fs {
		if i == 0 {
			continue
		}
		if t == "-" {
			fs[i] = `""`
		} else if len(t) >= 2 && len(t)%2 == 0 && strings.Trim(t, "0123456789abcdef") == "" && len(t) <= 400 {
			fs[i] = fmt.Sprintf("%q", UnHx(t))
		}
	}
	return strings.Join(fs, " ")
}

// tool parseargs save|save-pipeline <hex argv>... : what cobra/pflag hand to the handler (one JSON object)
func toolParseArgs(args []string) int {
	argv := make([]string, 0, len(args))
	for _, a := range args[1:] {
		argv = append(argv, UnHx(a))
	}
	res := map[string]interface{}{}
	func() {
		defer func() {
			if r := recover(); r != nil {
				res["ok"], res["panic"] = false, fmt.Sprint(r)
			}
		}()
		pos, kw, cat, plats, pipe, desc, err := cli.VerifParseSaveArgs(args[0] == "save-pipeline", argv)
		if err != nil {
			res["ok"], res["error"] = false, err.Error()
			return
		}
		res["ok"] = true
		res["args"], res["keywords"], res["category"], res["platforms"], res["pipeline"], res["description"] =
			awHexList(pos), nbHxList(kw), Hx(cat), nbHxList(plats), pipe, Hx(desc)
	}()
	b, _ := json.Marshal(res)
	fmt.Println(string(b))
	return 0
}

// tool rtcheck <notebook.yml>: does the list in the file survive yaml.v3 encode/decode (used by the CLI stream's oracle)
func toolRoundTrip(args []string) int {
	cs, st := nbLoad(args[0])
	fmt.Println(st == "" && nbRoundTrips(cs))
	return 0
}

func nbBehindLargeMain(mon *Mon, o, marker string, personal []database.Command, pidx int) {
	defer func() {
		if p := recover(); p != nil {
			mon.Tag("c08.large-main-stage-panicked")
		}
	}()
	if pidx < 0 || pidx >= len(personal) || strings.ContainsAny(marker, " \t\n") {
		return
	}
	var cmds []database.Command
	for i := 0; i < 40; i++ {
		cmds = append(cmds, database.Command{Command: "cat part" + Itoa(i) + ".log | " + marker + " | head -n " + Itoa(i+1),
			Description: marker + " the lines of part " + Itoa(i), Keywords: []string{marker}, Pipeline: true})
	}
	cmds = append(cmds, personal...)
	big := buildDB(cmds, nil)
	if big == nil || len(big.Commands) != len(cmds) {
		return
	}
	target := &big.Commands[40+pidx]
	q := target.Command
	full := big.SearchWithPipelineOptions(q, database.SearchOptions{Limit: len(big.Commands) + 10, PipelineOnly: true})
	lim := big.SearchWithPipelineOptions(q, database.SearchOptions{PipelineOnly: true})
	rank := -1
	for i, r := range full {
		if r.Command == target {
			rank = i
		}
	}
	k := len(lim)
	if k == 0 || rank < 0 || rank >= k || k >= len(full) || !(full[rank].Score > full[k].Score) {
		return // not strictly among the best k of the unlimited ranking: nothing to demand
	}
	mon.Tag("c08.behind-large-main")
	for _, r := range lim {
		if r.Command == target {
			return
		}
	}
	mon.Hit("C08", "saved-not-found-by-search", map[string]interface{}{"op": nbPretty(o), "query": q, "entry_point": "SearchWithPipelineOptions at the default limit, notebook behind 40 main pipelines that share the word " + marker,
		"rank_in_unlimited_answer": rank, "answer_size": k, "db": len(big.Commands)})
}
