//go:build verif

package main

import (
	"bytes"
	"encoding/json"
	"os"
	"os/exec"
	"path/filepath"
	"strings"

	"gopkg.in/yaml.v3"

	"github.com/Vedant9500/WTF/internal/database"
)

// legacy: correspondence of the remaining search entry points the CLI uses with Model/Legacy.lean:
//
//	pipe    database.SearchWithPipelineOptions (what `wtf pipeline` calls); the legacy scorer
//	        calculateScore is an uninterpreted function of the model, its real values are supplied
//	        as the oracle line `ls` (hook VerifLegacyScore)
//	recover recovery.RecoverFromSearchFailure (three substring scans)
//	cli     the real `wtf search --format json` binary ($WTF_BIN) on a database file: the engine's
//	        answer or, when it is empty, the recovered answer cut to the limit in force
//
// Lines `host ri cmd idf nq pq ib cb tf fz` are those of the search domain.
func init() {
	Register(&Domain{Name: "legacy", Gen: genLegacy, Exec: execLegacy})
}

var longTail = []string{
	"with a deliberately long explanatory description so that subsequence matches score far below the threshold",
	"and a second very long trailing description that pushes every typo match under the fuzzy threshold value",
}

func legacyDB(r *Rng, tier string, substr string) []database.Command {
	maxN := 30
	if tier == "thorough" {
		maxN = 80
	}
	n := Pick(r, []int{0, 1, 2, 3, 5, 8, 12, 20, maxN})
	n = r.Range(n/2, n)
	cmds := make([]database.Command, 0, n)
	for i := 0; i < n; i++ {
		switch {
		case i > 0 && r.Chance(1, 6):
			cmds = append(cmds, cmds[r.Intn(i)])
		default:
			c := genCommand(r)
			if r.Chance(1, 3) {
				c.Command += Pick(r, []string{" | sort", " | uniq -c", " && make", " >> log", " pipe"})
			}
			if substr != "" && r.Chance(2, 3) {
				c.Command += " " + substr
			}
			cmds = append(cmds, c)
		}
	}
	return cmds
}

func boostsToken(m map[string]float64) string {
	return strings.Split(optsTokens(database.SearchOptions{ContextBoosts: m}), " ")[1]
}

func legacyHeader(db *database.Database, queries []string) []string {
	ops := []string{"host " + Hx(database.VerifCurrentPlatform())}
	texts := []string{"Kİſ"}
	for i := range db.Commands {
		c := &db.Commands[i]
		texts = append(texts, c.Command, c.Description)
		texts = append(texts, c.Keywords...)
		texts = append(texts, c.Tags...)
		texts = append(texts, c.Platform...)
	}
	texts = append(texts, queries...)
	ops = append(ops, runeInfoLines(texts)...)
	for i := range db.Commands {
		ops = append(ops, cmdLine(&db.Commands[i]))
	}
	return ops
}

func legacyScoreLine(db *database.Database, q string, boosts map[string]float64) string {
	if len(db.Commands) == 0 {
		return "ls -"
	}
	words := strings.Fields(strings.ToLower(q))
	vs := make([]string, len(db.Commands))
	for i := range db.Commands {
		vs[i] = F(database.VerifLegacyScore(&db.Commands[i], words, boosts))
	}
	return "ls " + strings.Join(vs, ",")
}

func genLegacy(r *Rng, tier string, idx int, args map[string]string) []string {
	if args["stream"] == "cli" {
		return genLegacyCli(r, tier, idx)
	}
	// recovery-directed cases: a short substring that many commands contain, queried on its own
	substr := ""
	if r.Chance(1, 2) {
		substr = Pick(r, []string{"x", "q", "-z", "7", "_", "é", "X"})
	}
	cmds := legacyDB(r, tier, substr)
	db := buildDB(cmds, nil)
	var dbWords []string
	for i := range db.Commands {
		for _, w := range strings.Fields(db.Commands[i].Command + " " + db.Commands[i].Description) {
			dbWords = append(dbWords, w)
		}
	}
	type req struct {
		kind string
		q    string
		o    database.SearchOptions
	}
	var reqs []req
	var queries []string
	for i, n := 0, r.Range(2, 5); i < n; i++ {
		q := genQuery(r, dbWords)
		o := database.SearchOptions{Limit: Pick(r, []int{-1, 0, 1, 2, 3, 5, 50, len(cmds) + 1}),
			PipelineOnly: r.Chance(1, 2), PipelineBoost: Pick(r, []float64{0, 1.5, 2, 2, -1, 0.5})}
		if r.Chance(1, 3) {
			o.ContextBoosts = map[string]float64{}
			for j, m := 0, r.Range(1, 3); j < m; j++ {
				o.ContextBoosts[Pick(r, wordPool)] = Pick(r, []float64{1.5, 2, 3, 1.1, 0.5, 0, -1, 2.5})
			}
		}
		reqs = append(reqs, req{"pipe", q, o})
		queries = append(queries, q)
	}
	for i, n := 0, r.Range(2, 6); i < n; i++ {
		var q string
		switch x := r.Intn(100); {
		case x < 30 && substr != "":
			q = Pick(r, []string{substr, " " + substr, strings.ToUpper(substr), substr + " ?", "? " + substr})
		case x < 50 && len(dbWords) > 0:
			w := Pick(r, dbWords)
			q = w[:r.Range(1, len(w))]
		case x < 65 && len(dbWords) > 0:
			q = Pick(r, dbWords) + " " + Pick(r, dbWords)
		case x < 75:
			q = Pick(r, []string{"", " ", "\t", "a", "I", "zz qq", "  x  y ", "É", "\xff"})
		default:
			q = genQuery(r, dbWords)
		}
		reqs = append(reqs, req{"recover", q, database.SearchOptions{}})
		queries = append(queries, q)
	}
	ops := legacyHeader(db, queries)
	for _, rq := range reqs {
		switch rq.kind {
		case "pipe":
			ops = append(ops, legacyScoreLine(db, rq.q, rq.o.ContextBoosts))
			ops = append(ops, strings.Join([]string{"pipe", Hx(rq.q), Itoa(rq.o.Limit), boostsToken(rq.o.ContextBoosts), B(rq.o.PipelineOnly), F(rq.o.PipelineBoost)}, " "))
		case "recover":
			ops = append(ops, "recover "+Hx(rq.q))
		}
	}
	return ops
}

// genLegacyCli: cases for the real binary.  Entries are pairwise distinct (results are mapped back by
// command + description), plain ASCII (so the YAML file reproduces them), and many have long
// descriptions so that the typo fallback filters its matches and the recovery step is reached.
func genLegacyCli(r *Rng, tier string, idx int) []string {
	sub := Pick(r, []string{"x", "q", "z", "j", "k9"})
	n := r.Range(3, 14)
	cmds := make([]database.Command, 0, n)
	for i := 0; i < n; i++ {
		c := database.Command{Command: Pick(r, toolPool)}
		if r.Chance(2, 3) {
			c.Command += " " + Pick(r, wordPool)
		}
		if r.Chance(3, 4) {
			c.Command += " " + sub
		}
		c.Description = Pick(r, wordPool) + " " + Pick(r, wordPool) + " item" + Itoa(i)
		if r.Chance(4, 5) {
			c.Description += " " + Pick(r, longTail)
		}
		if r.Chance(1, 4) {
			c.Keywords = []string{Pick(r, wordPool)}
		}
		if r.Chance(1, 5) {
			c.Platform = []string{Pick(r, []string{"linux", "windows", "cross-platform"})}
		}
		cmds = append(cmds, c)
	}
	db := buildDB(cmds, nil)
	var queries []string
	for i, m := 0, r.Range(2, 4); i < m; i++ {
		switch x := r.Intn(100); {
		case x < 55:
			queries = append(queries, Pick(r, []string{sub, strings.ToUpper(sub), sub + " " + sub, "? " + sub}))
		case x < 75:
			queries = append(queries, Pick(r, wordPool)+" "+Pick(r, wordPool))
		case x < 90:
			queries = append(queries, misspell(r, Pick(r, wordPool)))
		default:
			queries = append(queries, Pick(r, []string{"zzzz", "a", "the", "item3", "how do i " + Pick(r, wordPool)}))
		}
	}
	ops := legacyHeader(db, queries)
	for df := 0; df <= len(db.Commands); df++ {
		ops = append(ops, "idf "+Itoa(df)+" "+F(database.VerifIDF(len(db.Commands), df)))
	}
	for _, q := range queries {
		ops = append(ops, oracleLines(db, q)...)
		ops = append(ops, "cli "+Hx(q)+" "+Itoa(Pick(r, []int{0, 1, 2, 3, 5, 20})))
	}
	return ops
}

type cliItem struct {
	Command     string  `json:"command"`
	Description string  `json:"description"`
	Score       float64 `json:"score"`
}

// runCli runs the real binary on a database file in an isolated HOME / working directory and maps the
// printed JSON items back to positions in cmds.
func runCli(cmds []database.Command, q string, limitFlag int) (ids []int, scores []float64, status string) {
	bin := os.Getenv("WTF_BIN")
	if bin == "" {
		return nil, nil, "no-binary"
	}
	dir, err := os.MkdirTemp("", "wtfverif-cli")
	if err != nil {
		return nil, nil, "tmpdir"
	}
	defer os.RemoveAll(dir)
	data, err := yaml.Marshal(cmds)
	if err != nil {
		return nil, nil, "yaml"
	}
	dbPath := filepath.Join(dir, "db.yml")
	if os.WriteFile(dbPath, data, 0o644) != nil {
		return nil, nil, "write"
	}
	work := filepath.Join(dir, "cwd")
	os.MkdirAll(work, 0o755)
	cmd := exec.Command(bin, "search", "--format", "json", "--verbose", "--limit", Itoa(limitFlag), "--database", dbPath, "--", q)
	cmd.Dir = work
	cmd.Env = []string{"HOME=" + dir, "XDG_CONFIG_HOME=" + filepath.Join(dir, ".config"), "NO_COLOR=1", "PATH=/usr/bin:/bin"}
	var out bytes.Buffer
	cmd.Stdout = &out
	cmd.Stderr = &out
	if err := cmd.Run(); err != nil {
		return nil, nil, "exit:" + strings.ReplaceAll(err.Error(), " ", "_")
	}
	text := out.String()
	if strings.Contains(text, "No commands found matching") {
		return nil, nil, "ok"
	}
	i := strings.Index(text, "\n[")
	if i < 0 {
		return nil, nil, "no-json"
	}
	dec := json.NewDecoder(strings.NewReader(text[i+1:]))
	var items []cliItem
	if err := dec.Decode(&items); err != nil {
		return nil, nil, "bad-json"
	}
	for _, it := range items {
		id := -1
		for k := range cmds {
			if cmds[k].Command == it.Command && cmds[k].Description == it.Description {
				id = k
				break
			}
		}
		ids = append(ids, id)
		scores = append(scores, it.Score)
	}
	if strings.Contains(text, "Warning: Search had issues") {
		return ids, scores, "ok-recovered"
	}
	return ids, scores, "ok"
}

func execLegacy(ops []string, mon *Mon) []string {
	out := make([]string, 0, len(ops))
	var cmds []database.Command
	var db *database.Database
	getDB := func() *database.Database {
		if db == nil {
			db = buildDB(cmds, mon)
		}
		return db
	}
	for _, o := range ops {
		f := strings.Split(o, " ")
		switch f[0] {
		case "cmd":
			cmds = append(cmds, parseCmdLine(f))
			out = append(out, "ok")
		case "host", "ri", "idf", "nq", "pq", "ib", "cb", "tf", "fz", "ls":
			out = append(out, "ok")
		case "pipe":
			d := getDB()
			q := UnHx(f[1])
			op := database.SearchOptions{Limit: Atoi(f[2]), PipelineOnly: f[4] == "1", PipelineBoost: unF(f[5])}
			op.ContextBoosts = parseOpts([]string{"0", f[3], "0", "f:0", "0", "0", "0", "0", "0", "-", "0"}).ContextBoosts
			line := ""
			func() {
				defer func() {
					if r := recover(); r != nil {
						line = "panic:" + panicClass(r)
						mon.Hit("C10", "search-panic", map[string]interface{}{"entry": "SearchWithPipelineOptions", "query": q, "panic": toStr(r)})
					}
				}()
				rs := d.SearchWithPipelineOptions(q, op)
				line = fmtResults(d, rs)
				c01Check(mon, "SearchWithPipelineOptions", d, q, op.Limit, effLimit(op.Limit, legacyDefaultLimit), rs, c01Finite(op))
				switch {
				case op.Limit <= 0:
					mon.Tag("c01.limit-nonpositive")
				case op.Limit > len(d.Commands):
					mon.Tag("c01.limit-above-N")
				default:
					mon.Tag("c01.limit-1..N")
				}
				if len(rs) > 0 {
					mon.Tag("nonempty")
				}
			}()
			out = append(out, line)
		case "recover":
			d := getDB()
			q := UnHx(f[1])
			line := ""
			func() {
				defer func() {
					if r := recover(); r != nil {
						line = "panic:" + panicClass(r)
						mon.Hit("C10", "search-panic", map[string]interface{}{"entry": "RecoverFromSearchFailure", "query": q, "panic": toStr(r)})
					}
				}()
				rs, err := quietRecover(q, d)
				if err != nil {
					rs = nil
					mon.Tag("recover-failed")
				}
				line = fmtResults(d, rs)
				c01Check(mon, "recovery-raw", d, q, 0, -1, rs, true)
				if len(rs) > 0 {
					mon.Tag("nonempty")
				}
				if len(rs) > legacyDefaultLimit {
					mon.Tag("recover-more-than-default-limit")
				}
			}()
			out = append(out, line)
		case "cli":
			q := UnHx(f[1])
			flag := Atoi(f[2])
			ids, scores, status := runCli(cmds, q, flag)
			if !strings.HasPrefix(status, "ok") {
				out = append(out, "cli-error "+status)
				mon.Tag("cli-error")
				continue
			}
			limit := flag
			if limit <= 0 {
				limit = legacyDefaultLimit // ValidateLimit(0) = constants.DefaultSearchLimit (= config default)
			}
			det := map[string]interface{}{"entry": "wtf search (binary)", "query": q, "limit_flag": flag, "n": len(ids)}
			if len(ids) > limit {
				mon.Hit("C01", "more-than-limit", det)
			}
			seen := map[int]bool{}
			var sb strings.Builder
			sb.WriteString("res " + Itoa(len(ids)))
			for i, id := range ids {
				if id < 0 {
					mon.Hit("C01", "foreign-command", det)
				}
				if seen[id] {
					mon.Hit("C01", "duplicate-result", det)
				}
				seen[id] = true
				if scores[i] < 0 {
					mon.Hit("C01", "score-not-finite-nonnegative", det)
				}
				if i > 0 && scores[i-1] < scores[i] {
					mon.Hit("C01", "not-sorted", det)
				}
				sb.WriteString(" " + Itoa(id) + " " + F(scores[i]))
			}
			mon.Tag("c01.cli")
			if status == "ok-recovered" {
				mon.Tag("c01.cli.recovered")
				if len(ids) == limit {
					mon.Tag("c01.cli.recovered-at-limit")
				}
			}
			if len(ids) > 0 {
				mon.Tag("nonempty")
			}
			out = append(out, sb.String())
		default:
			out = append(out, "bad-op")
		}
	}
	return out
}
