//go:build verif

package main

import (
	"fmt"
	"os"
	"sort"
	"strings"
	"unicode"
	"unicode/utf8"

	"github.com/Vedant9500/WTF/internal/database"
)

// C20 monitor: a query and any case re-spelling / outer white-space padding of it get the same answer
// from the engine on every path.  A re-spelling replaces a rune r by a member v of its simple-fold
// orbit with unicode.ToLower(v) == unicode.ToLower(r) ("differs only in the case of its letters").
// Enabled with VERIF_RESPELL=<variants per request>.

func caseVariants(r rune) []rune {
	out := []rune{r}
	lo := unicode.ToLower(r)
	for v := unicode.SimpleFold(r); v != r; v = unicode.SimpleFold(v) {
		if unicode.ToLower(v) == lo {
			out = append(out, v)
		}
	}
	return out
}

func respell(rng *Rng, q string) string {
	if !utf8.ValidString(q) {
		// keep invalid bytes in place: re-spell only the valid runes
		var sb strings.Builder
		for i := 0; i < len(q); {
			r, w := utf8.DecodeRuneInString(q[i:])
			if r == utf8.RuneError && w == 1 {
				sb.WriteByte(q[i])
			} else {
				sb.WriteRune(Pick(rng, caseVariants(r)))
			}
			i += w
		}
		return sb.String()
	}
	var sb strings.Builder
	for _, r := range q {
		sb.WriteRune(Pick(rng, caseVariants(r)))
	}
	return sb.String()
}

var padPool = []string{"", " ", "  ", "\t", "\n", " ", " ", " \t "}

func init() {
	searchMonitors = append(searchMonitors, func(mon *Mon, cur *SearchRecord, prev []*SearchRecord) {
		n := 0
		fmt.Sscanf(os.Getenv("VERIF_RESPELL"), "%d", &n)
		if n <= 0 || cur.Panic != "" {
			return
		}
		rng := NewRng(uint64(len(cur.Query))*7919+uint64(len(prev)), uint64(len(cur.DB.Commands)), "c20"+cur.Query)
		for k := 0; k < n; k++ {
			v := respell(rng, cur.Query)
			if k%2 == 1 {
				v = Pick(rng, padPool) + v + Pick(rng, padPool)
			}
			if v == cur.Query {
				continue
			}
			rs := cur.DB.SearchUniversal(v, cur.Opts)
			if !sameAnswer(cur.DB, cur.Results, cur.DB, rs) {
				path := "lexical"
				if len(cur.Results) > 0 && cur.Results[0].Score <= 1 {
					path = "fuzzy?"
				}
				mon.Hit("C20", "case-or-padding-changes-answer", map[string]interface{}{"query": cur.Query, "variant": v,
					"query_hex": Hx(cur.Query), "variant_hex": Hx(v), "answer": answerIDs(cur.DB, cur.Results), "variant_answer": answerIDs(cur.DB, rs), "path": path})
				return
			}
			mon.Tag("respelled")
			if len(cur.Results) > 0 {
				mon.Tag("respelled-nonempty")
			}
		}
	})

	// the cached path: case variants of a query are filed under one entry, so on ONE long-lived cache a query and its
	// re-spelling must get the same answer under identical options - also when the same text was asked just before under
	// options that differ in a single field, in either order of the two spellings
	searchMonitors = append(searchMonitors, func(mon *Mon, cur *SearchRecord, prev []*SearchRecord) {
		n := 0
		fmt.Sscanf(os.Getenv("VERIF_RESPELL"), "%d", &n)
		if n <= 0 || cur.Panic != "" {
			return
		}
		defer func() {
			if p := recover(); p != nil {
				mon.Tag("c20.cached-stage-panicked")
			}
		}()
		rng := NewRng(uint64(len(cur.Query))*104729+uint64(len(prev)), uint64(len(cur.DB.Commands)), "c20cached"+cur.Query)
		v := respell(rng, cur.Query)
		if v == cur.Query {
			return
		}
		o := cur.Opts
		deltas := []func(o *database.SearchOptions){
			func(o *database.SearchOptions) { o.NoCrossPlatform = !o.NoCrossPlatform },
			func(o *database.SearchOptions) { o.AllPlatforms = !o.AllPlatforms },
			func(o *database.SearchOptions) { o.UseFuzzy = !o.UseFuzzy },
			func(o *database.SearchOptions) { o.UseNLP = !o.UseNLP },
			func(o *database.SearchOptions) { o.PipelineOnly = !o.PipelineOnly },
			func(o *database.SearchOptions) { o.Limit = o.Limit + 1 },
			func(o *database.SearchOptions) {
				if len(o.Platforms) == 0 {
					o.Platforms = []string{"windows"}
				} else {
					o.Platforms = nil
				}
			},
		}
		cdb := database.NewCachedDatabase(cur.DB)
		check := func(what string, q1 string, o1 database.SearchOptions, q2 string, o2 database.SearchOptions) bool {
			a := cdb.SearchWithOptionsAndCache(q1, o1)
			b := cdb.SearchWithOptionsAndCache(q2, o2)
			if !sameAnswer(cur.DB, a, cur.DB, b) {
				mon.Hit("C20", "case-changes-cached-answer", map[string]interface{}{"history": what, "query_hex": Hx(q1), "variant_hex": Hx(q2),
					"query": q1, "variant": q2, "answer": answerIDs(cur.DB, a), "variant_answer": answerIDs(cur.DB, b)})
				return false
			}
			return true
		}
		if !check("q then variant, same options", cur.Query, o, v, o) {
			return
		}
		for k := 0; k < len(deltas); k++ {
			d := deltas[(k+len(cur.Query))%len(deltas)]
			o2 := o
			d(&o2)
			// the text as typed under o, at once again under o2; then its re-spelling under o2
			cdb.SearchWithOptionsAndCache(cur.Query, o)
			if !check("q under o, q under o', variant under o'", cur.Query, o2, v, o2) {
				return
			}
			// and the other way round
			cdb.SearchWithOptionsAndCache(v, o2)
			if !check("variant under o', variant under o, q under o", v, o, cur.Query, o) {
				return
			}
			mon.Tag("c20.cached-delta")
		}
		if len(cur.Results) > 0 {
			mon.Tag("c20.cached-nonempty")
		}
	})

	// directed stream: queries rich in case-bearing letters incl. U+212A, sigma forms, sharp s, dotless i
	searchStreams["c20"] = func(r *Rng, tier string, idx int, args map[string]string) []string {
		var cmds []database.Command
		special := []string{"look", "kelvin", "disk", "sigma σας", "straße", "ıi", "İstanbul", "naïve café", "ǅungla", "ǆ"}
		for i, n := 0, r.Range(3, 16); i < n; i++ {
			c := genCommand(r)
			if r.Chance(1, 3) {
				c.Description += " " + Pick(r, special)
			}
			if r.Chance(1, 5) {
				c.Command += " " + Pick(r, special)
			}
			cmds = append(cmds, c)
		}
		var words []string
		for _, c := range cmds {
			words = append(words, splitWords(c.Command+" "+c.Description)...)
		}
		var reqs []SearchReq
		for i, n := 0, r.Range(3, 6); i < n; i++ {
			o := genOptions(r)
			q := genQuery(r, words)
			switch r.Intn(5) {
			case 0:
				q = strings.ToUpper(q)
			case 1:
				q = "looK " + q // KELVIN SIGN
			case 2:
				q = strings.Title(q)
			}
			reqs = append(reqs, SearchReq{Query: q, Opts: o})
		}
		if idx%9 == 4 && len(words) > 0 {
			// a query of about a thousand bytes whose last words are index terms, spelled with letters whose upper and lower case
			// forms have different byte lengths (U+212A 3 bytes / k 1 byte, U+1E9E 3 / ß 2): any byte budget applied to the text
			// as typed cuts the two spellings at different places
			var sb strings.Builder
			for sb.Len() < Pick(r, []int{960, 985, 995}) {
				sb.WriteString(Pick(r, []string{"kelvin ", "look ", "disk ", "straße ", "kill ", "break "}))
			}
			tail := Pick(r, words) + " " + Pick(r, words)
			lower := sb.String() + tail
			o := genOptions(r)
			o.Limit = 50
			reqs = append(reqs, SearchReq{Query: lower, Opts: o},
				SearchReq{Query: strings.ReplaceAll(strings.ReplaceAll(lower, "k", "K"), "ß", "ẞ"), Opts: o})
		}
		extra := []string{}
		for _, q := range reqs {
			extra = append(extra, "normq "+Hx(q.Query), "normq "+Hx(Pick(r, padPool)+q.Query+Pick(r, padPool)))
		}
		return SearchCaseOps(cmds, reqs, extra)
	}

	// unicode-facts: exhaustive facts about the toolchain's Unicode tables that the text model relies on
	RegisterTool("unicode-facts", func(args []string) int {
		var asciiByLower, lowerNotInOrbit, notIdempotent, spaces, lowerNotLetNum []string
		for r := rune(0); r <= unicode.MaxRune; r++ {
			if r >= 0xD800 && r <= 0xDFFF {
				continue
			}
			lo := unicode.ToLower(r)
			if r >= 0x80 && lo < 0x80 {
				asciiByLower = append(asciiByLower, fmt.Sprintf("U+%04X", r))
			}
			if r < 0x80 && lo >= 0x80 {
				asciiByLower = append(asciiByLower, fmt.Sprintf("U+%04X(ascii->non)", r))
			}
			if unicode.ToLower(lo) != lo {
				notIdempotent = append(notIdempotent, fmt.Sprintf("U+%04X", r))
			}
			if lo != r {
				in := false
				for v := unicode.SimpleFold(r); v != r; v = unicode.SimpleFold(v) {
					if v == lo {
						in = true
					}
				}
				if !in {
					lowerNotInOrbit = append(lowerNotInOrbit, fmt.Sprintf("U+%04X", r))
				}
			}
			if unicode.IsSpace(r) {
				spaces = append(spaces, fmt.Sprintf("U+%04X", r))
			}
			if (unicode.IsLetter(r) || unicode.IsNumber(r)) && !(unicode.IsLetter(lo) || unicode.IsNumber(lo)) {
				lowerNotLetNum = append(lowerNotLetNum, fmt.Sprintf("U+%04X", r))
			}
		}
		sort.Strings(asciiByLower)
		fmt.Println("ascii-by-lower", strings.Join(asciiByLower, ","))
		fmt.Println("lower-not-in-fold-orbit", strings.Join(lowerNotInOrbit, ","))
		fmt.Println("lower-not-idempotent", strings.Join(notIdempotent, ","))
		fmt.Println("lower-breaks-letnum", strings.Join(lowerNotLetNum, ","))
		fmt.Println("spaces", strings.Join(spaces, ","))
		return 0
	})
}
