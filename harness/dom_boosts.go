//go:build verif

package main

import (
	"math"
	"strings"
	"unicode/utf8"

	"github.com/Vedant9500/WTF/internal/database"
	"github.com/Vedant9500/WTF/internal/nlp"
)

// boosts: correspondence of the per-document NLP factors of SearchUniversal with Model/Boosts.lean
// (calculateIntentBoost, buildBoostContext, calculateBoostForCommand; the analysis itself is Model/Nlp.lean).
//
// ops (driver: Driver/Search.lean, same database lines as the `search` domain):
//
//	host <hex> | ri <cp> <lower> <foldrep> <flags> | cmd <11 fields>
//	mpq  <hex query>   -> pq <actions> <targets> <keywords> <enhanced> <intent>
//	mctx <hex query>   -> ctx <actionTerms> <targetTerms> <keywordTerms> <hints> <contexts> <intent>      buildBoostContext
//	mib  <hex query>   -> ib <f:,f:,..|->      calculateIntentBoost for every document, in database order
//	mcb  <hex query>   -> cb <f:,f:,..|->      calculateBoostForCommand for every document
//
// The query text is handed to ProcessQuery as it is (SearchUniversal hands it the normalised query; most generated
// queries are normalised, some are not).  The vocabulary comes from the regenerated tables (-arg words= nlp table words,
// -arg lits= every literal of the translated boost functions); without them built-in pools are used.
//
// Monitor (C01's hypothesis on the factors): class oracle-negative-factor if an intent boost or a cascading boost is
// negative, NaN or infinite (the theorems prove more: intent boost > 0, cascading boost >= 1).
func init() {
	Register(&Domain{Name: "boosts", Gen: boostsGen, Exec: boostsExec})
}

var boostsBuiltinLits = []string{"find", "search", "ls", "grep", "cat", "less", "more", "head", "tail", "view", "display", "show", "print",
	"mkdir", "touch", "create", "make", "makepkg", "package", "rm", "del", "delete", "remove", "chmod", "chown", "edit", "modify", "change",
	"permission", "install", "add", "setup", "run", "exec", "start", "launch", "config", "set", "configure", "compress", "archive", "tar", "zip",
	"gzip", "locate", "git", "docker", "npm", "pip", "apt", "ssh", "curl", "wget", "python", "node", "go", "ip", "windows", "linux", "list",
	"uninstall", "new", "update", "undo", "revert", "reset"}

// hint literals of hints.go that are not literals of the boost functions (commands the hints name)
var boostsHintCmds = []string{"cp", "mv", "rmdir", "dir", "unzip", "gunzip", "ps", "kill", "pkill", "top", "htop", "df", "du", "scp", "rsync",
	"sed", "awk", "vi", "vim", "nano", "emacs", "sort", "cut", "ss", "netstat", "ifconfig", "ipconfig", "brew", "yum"}

var boostsFiller = []string{"-la", "-r", "-p", "x", "file.txt", "dir/", "--all", "-czf", "out.tar.gz", "*.log", "origin", "main", "8080", "user@host",
	"the", "of", "and", "files", "folder", "contents", "quickly", "recursively"}

func boostsSplit(s string) []string {
	if s == "" {
		return nil
	}
	return strings.Split(s, ",")
}

// boostsMangle varies the case / encoding of a word the way commands in the wild vary.
func boostsMangle(r *Rng, w string) string {
	switch x := r.Intn(100); {
	case x < 70:
		return w
	case x < 80:
		return strings.ToUpper(w)
	case x < 86:
		return strings.ToUpper(w[:1]) + w[1:]
	case x < 90: // letters whose lower case is ASCII: U+212A -> k, U+0130 -> i
		w2 := strings.Replace(w, "k", "K", 1)
		return strings.Replace(w2, "i", "İ", 1)
	case x < 93:
		return w + Pick(r, []string{"\xff", "\xc3", "é", "\xe2\x84"})
	case x < 96:
		return Pick(r, []string{"É", "ß", "日本", "\xff"}) + w
	default:
		i := r.Intn(len(w) + 1)
		return w[:i] + Pick(r, []string{"\xff", "-", "_", ".", "é"}) + w[i:]
	}
}

func boostsSep(r *Rng) string {
	switch x := r.Intn(100); {
	case x < 80:
		return " "
	case x < 86:
		return "  "
	case x < 90:
		return "\t"
	case x < 93:
		return " " // white space for strings.Fields, not for containsWord
	case x < 95:
		return " "
	case x < 97:
		return "\n"
	default:
		return "-"
	}
}

// boostsPhrase joins 0..n words drawn from the pools with (mostly) single spaces.
func boostsPhrase(r *Rng, lo, hi int, pools ...[]string) string {
	n := r.Range(lo, hi)
	var sb strings.Builder
	for i := 0; i < n; i++ {
		if i > 0 {
			sb.WriteString(boostsSep(r))
		}
		p := Pick(r, pools)
		if len(p) == 0 {
			p = boostsFiller
		}
		sb.WriteString(boostsMangle(r, Pick(r, p)))
	}
	return sb.String()
}

type boostsView struct {
	q        string
	pq       *nlp.ProcessedQuery
	enhanced []string
	aT, tT   []string // expanded action / target terms
	kT       []string
	ctxs     []string
}

// boostsCommand draws one command entry, often aimed at one branch of the boost functions for one of the queries.
func boostsCommand(r *Rng, lits, words []string, views []boostsView) database.Command {
	c := database.Command{}
	v := Pick(r, views)
	orFiller := func(xs []string) []string {
		if len(xs) == 0 {
			return boostsFiller
		}
		return xs
	}
	x := r.Intn(100)
	// aim the scenario at a query it can matter for, if there is one
	prefer := func(ok func(w boostsView) bool) {
		var cands []boostsView
		for _, w := range views {
			if ok(w) {
				cands = append(cands, w)
			}
		}
		if len(cands) > 0 {
			v = Pick(r, cands)
		}
	}
	switch {
	case x < 30:
		prefer(func(w boostsView) bool { return w.pq.Intent != nlp.IntentGeneral })
	case x >= 52 && x < 60:
		prefer(func(w boostsView) bool {
			for _, a := range w.pq.Actions {
				if a == "compress" || a == "archive" {
					return true
				}
			}
			return false
		})
	case x >= 60 && x < 68:
		prefer(func(w boostsView) bool { return w.pq.Intent == nlp.IntentCreate })
	case x >= 68 && x < 86:
		prefer(func(w boostsView) bool { return len(w.ctxs) > 0 || len(w.aT) > len(w.pq.Actions) })
	}
	switch {
	case x < 14: // command = a hint exactly / its first field is a hint / a hint preceded by something
		h := Pick(r, orFiller(v.enhanced))
		switch r.Intn(6) {
		case 0:
			c.Command = h
		case 1:
			c.Command = strings.ToUpper(h)
		case 2:
			c.Command = h + boostsSep(r) + boostsPhrase(r, 1, 3, boostsFiller, lits)
		case 3:
			c.Command = Pick(r, []string{" ", "\t", "  ", " "}) + h + " " + Pick(r, boostsFiller)
		case 4:
			c.Command = "sudo " + h + " " + Pick(r, boostsFiller)
		default:
			c.Command = boostsMangle(r, h) + " " + Pick(r, boostsFiller)
		}
		c.Description = boostsPhrase(r, 0, 5, words, boostsFiller, lits)
	case x < 30: // command (or only the description) contains a literal the intent function of the query's intent reacts to
		c.Command = boostsPhrase(r, 1, 3, lits, lits, boostsFiller)
		c.Description = boostsPhrase(r, 0, 5, words, boostsFiller)
		probe := &nlp.ProcessedQuery{Intent: v.pq.Intent}
		for try := 0; try < 40; try++ {
			l := Pick(r, lits)
			if database.VerifIntentBoost(&database.Command{Command: l}, probe) != 1 {
				c.Command = boostsMangle(r, l) + Pick(r, []string{"", " ", "x ", " -"}) + boostsPhrase(r, 0, 2, boostsFiller)
				break
			}
			if database.VerifIntentBoost(&database.Command{Description: l}, probe) != 1 {
				c.Command = boostsPhrase(r, 1, 2, boostsHintCmds, boostsFiller)
				c.Description = boostsPhrase(r, 0, 2, boostsFiller) + " " + boostsMangle(r, l) + boostsPhrase(r, 0, 2, boostsFiller)
				break
			}
		}
	case x < 42: // only the description matches
		c.Command = boostsPhrase(r, 1, 2, boostsHintCmds, boostsFiller)
		c.Description = boostsPhrase(r, 1, 6, lits, v.pq.Actions, v.pq.Targets, v.aT, v.tT, boostsFiller)
	case x < 52: // actions / targets of the query inside the command or the description
		c.Command = boostsPhrase(r, 1, 3, orFiller(v.pq.Actions), orFiller(v.pq.Targets), boostsHintCmds)
		c.Description = boostsPhrase(r, 0, 5, orFiller(v.pq.Actions), orFiller(v.pq.Targets), words)
	case x < 60: // compression special case
		c.Command = Pick(r, []string{"tar", "zip", "gzip", "find", "locate", "TAR", "bzip2", "7z"}) + " " + boostsPhrase(r, 0, 3, boostsFiller, []string{"tar", "zip", "find", "locate", "compress", "archive", "gzip"})
		c.Description = boostsPhrase(r, 0, 5, []string{"compress", "archive", "files", "folder", "extract"}, words)
	case x < 68: // makepkg penalty
		c.Command = Pick(r, []string{"makepkg", "makepkg -si", "MAKEPKG -s", "make", "cmake ..", "makepkg --clean", "xmakepkg"})
		c.Description = Pick(r, []string{"build a package", "Build A PACKAGE", "make package", "create a new package from PKGBUILD", "create directory", "make things", "", "packag e", "compile pkg"})
	case x < 78: // synonyms of the query's terms / contexts (expanded terms that are not query terms)
		c.Command = boostsPhrase(r, 1, 2, boostsHintCmds, orFiller(v.ctxs), boostsFiller)
		c.Description = boostsPhrase(r, 1, 5, orFiller(v.aT), orFiller(v.tT), orFiller(v.kT), orFiller(v.ctxs))
	case x < 86: // contexts: raw command vs lower-cased text
		k := Pick(r, orFiller(v.ctxs))
		c.Command = Pick(r, []string{k, strings.ToUpper(k), k + " status", "x" + k, k + "x", "sudo " + k + " x", k + " x", k + "-x"})
		c.Description = boostsPhrase(r, 0, 4, words, boostsFiller)
	default:
		c.Command = boostsPhrase(r, 0, 4, lits, words, boostsFiller, boostsHintCmds)
		c.Description = boostsPhrase(r, 0, 7, lits, words, boostsFiller)
	}
	if r.Chance(1, 30) {
		c.Command = ""
	}
	if r.Chance(1, 25) {
		c.Description = ""
	}
	for i, n := 0, r.Intn(4); i < n; i++ {
		c.Keywords = append(c.Keywords, boostsMangle(r, Pick(r, Pick(r, [][]string{lits, words, orFiller(v.kT), orFiller(v.ctxs), orFiller(v.aT)}))))
	}
	if r.Chance(1, 12) {
		c.Keywords = append(c.Keywords, Pick(r, []string{"", "two words", " lead", "trail "}))
	}
	for i, n := 0, r.Intn(2); i < n; i++ {
		c.Tags = append(c.Tags, Pick(r, words))
	}
	return c
}

func boostsQuery(r *Rng, idx, i int, lits, words []string) string {
	n := Pick(r, []int{1, 2, 2, 3, 3, 4, 5, 6, 8, 12})
	ws := make([]string, 0, n+1)
	for j := 0; j < n; j++ {
		switch x := r.Intn(100); {
		case x < 50:
			ws = append(ws, Pick(r, words))
		case x < 80:
			ws = append(ws, Pick(r, lits))
		case x < 90:
			ws = append(ws, Pick(r, stopPool))
		default:
			ws = append(ws, Pick(r, []string{"ÉCOLE", "straße", "Kelvin", "a\xffb", "foo_bar", "v2.0", "e-mail", "日本", "x"}))
		}
	}
	switch i { // every table word and every literal is the subject of some case
	case 0:
		ws[r.Intn(len(ws))] = words[idx%len(words)]
	case 1:
		ws[r.Intn(len(ws))] = lits[idx%len(lits)]
	case 2: // compression actions with something else
		ws = append(ws, Pick(r, []string{"compress", "archive", "zip", "pack", "backup"}))
	case 3: // a word that decides the intent (actions first, then keywords)
		ws = append([]string{Pick(r, []string{"find", "show", "create", "make", "delete", "modify", "change", "install", "run", "configure", "setup",
			"permissions", "config", "installation", "running", "contents"})}, ws...)
	}
	if r.Chance(1, 10) {
		ws = append(ws, Pick(r, []string{"without opening", "without editing"}))
	}
	q := strings.Join(ws, Pick(r, []string{" ", " ", " ", " ", "  ", ", ", "\t"}))
	if r.Chance(1, 6) { // not normalised (SearchUniversal never passes such a text; ProcessQuery accepts it)
		return Pick(r, []string{"", " ", "\t"}) + strings.ToUpper(q[:len(q)/2]) + q[len(q)/2:] + Pick(r, []string{"", "?", " "})
	}
	return strings.ToLower(strings.TrimSpace(q))
}

func boostsGen(r *Rng, tier string, idx int, args map[string]string) []string {
	lits := boostsSplit(args["lits"])
	if len(lits) == 0 {
		lits = boostsBuiltinLits
	}
	words := boostsSplit(args["words"])
	if len(words) == 0 {
		words = nlpBuiltin
	}
	nq := r.Range(4, 6)
	views := make([]boostsView, nq)
	scratch := &database.Database{}
	for i := range views {
		q := boostsQuery(r, idx, i, lits, words)
		pq := nlp.NewQueryProcessor().ProcessQuery(q)
		a, t, k, h, c, _ := scratch.VerifBoostsContext(pq)
		views[i] = boostsView{q: q, pq: pq, enhanced: h, aT: a, tT: t, kT: k, ctxs: c}
	}
	n := Pick(r, []int{0, 1, 3, 5, 8, 12, 16})
	if tier == "thorough" {
		n = Pick(r, []int{0, 1, 3, 5, 8, 12, 16, 30, 60})
	}
	cmds := make([]database.Command, 0, n)
	for i := 0; i < n; i++ {
		cmds = append(cmds, boostsCommand(r, lits, words, views))
	}
	db := buildDB(cmds, nil)
	ops := []string{"host " + Hx(database.VerifCurrentPlatform())}
	texts := []string{"Kİſ"}
	for i := range db.Commands {
		c := &db.Commands[i]
		texts = append(texts, c.Command, c.Description)
		texts = append(texts, c.Keywords...)
		texts = append(texts, c.Tags...)
	}
	for _, v := range views {
		texts = append(texts, v.q)
	}
	ops = append(ops, runeInfoLines(texts)...)
	for i := range db.Commands {
		ops = append(ops, cmdLine(&db.Commands[i]))
	}
	for _, v := range views {
		h := Hx(v.q)
		ops = append(ops, "mpq "+h, "mctx "+h, "mib "+h, "mcb "+h)
	}
	return ops
}

func boostsFloats(xs []float64) string {
	if len(xs) == 0 {
		return "-"
	}
	out := make([]string, len(xs))
	for i, x := range xs {
		out[i] = F(x)
	}
	return strings.Join(out, ",")
}

// boostsTagIntent records which branch of calculateIntentBoost a (command, analysis) pair takes (distribution only).
func boostsTagIntent(mon *Mon, c *database.Command, pq *nlp.ProcessedQuery, v float64) {
	p := database.VerifBoostsIntentParts(c, pq)
	cl, dl := strings.ToLower(c.Command), strings.ToLower(c.Description)
	if p[0] != 1 {
		mon.Tag("ib.intent-" + string(pq.Intent) + "-hit")
		if p[0] < 1 {
			mon.Tag("ib.intent-factor-below-1") // today: the makepkg penalty
		}
	} else if pq.Intent != nlp.IntentGeneral {
		mon.Tag("ib.intent-" + string(pq.Intent) + "-miss")
	}
	switch pq.Intent { // description-only branches
	case nlp.IntentView, nlp.IntentModify, nlp.IntentInstall, nlp.IntentConfigure:
		if p[0] != 1 && database.VerifIntentBoost(&database.Command{Command: c.Command}, &nlp.ProcessedQuery{Intent: pq.Intent}) == 1 {
			mon.Tag("ib.intent-" + string(pq.Intent) + "-by-description")
		}
	case nlp.IntentCreate:
		if strings.Contains(cl, "makepkg") && strings.Contains(dl, "package") {
			mon.Tag("ib.makepkg-with-package")
		}
	}
	for _, a := range pq.Actions {
		switch {
		case strings.Contains(cl, a):
			mon.Tag("ib.action-in-command")
		case strings.Contains(dl, a):
			mon.Tag("ib.action-in-description-only")
		}
		if a == "compress" || a == "archive" {
			mon.Tag("ib.compress-action")
			if strings.Contains(cl, "tar") || strings.Contains(cl, "zip") {
				mon.Tag("ib.compress-tool")
			}
			if strings.Contains(cl, "find") || strings.Contains(cl, "locate") {
				mon.Tag("ib.compress-search-penalty")
			}
			if p[1] < 1 {
				mon.Tag("ib.action-factor-below-1")
			}
		}
	}
	for _, t := range pq.Targets {
		switch {
		case strings.Contains(cl, t):
			mon.Tag("ib.target-in-command")
		case strings.Contains(dl, t):
			mon.Tag("ib.target-in-description-only")
		}
	}
	if v == 1 {
		mon.Tag("ib.neutral")
	} else if v < 1 {
		mon.Tag("ib.below-1")
	} else {
		mon.Tag("ib.above-1")
	}
}

func boostsTagCascade(mon *Mon, db *database.Database, c *database.Command, pq *nlp.ProcessedQuery, hints, ctxs []string, v float64) {
	h := db.VerifBoostsCascadeHits(c, pq)
	names := []string{"hint", "action-term", "context", "target-term", "keyword-term", "intent"}
	for i, b := range h {
		if b {
			mon.Tag("cb." + names[i])
		}
	}
	if h[0] { // via the first field or via the whole command
		cl := strings.ToLower(c.Command)
		whole, base := false, false
		for _, x := range hints {
			if cl == strings.ToLower(x) {
				whole = true
			}
			if database.VerifBoostsCommandBase(cl) == strings.ToLower(x) {
				base = true
			}
		}
		if whole {
			mon.Tag("cb.hint-whole-command")
		}
		if base && !whole {
			mon.Tag("cb.hint-first-field-only")
		}
		if c.Command != cl {
			mon.Tag("cb.hint-case-folded")
		}
	}
	if h[2] {
		raw := false
		for _, x := range ctxs {
			if database.VerifBoostsContainsWord(c.Command, x) {
				raw = true
			}
		}
		if raw {
			mon.Tag("cb.context-in-raw-command")
		} else {
			mon.Tag("cb.context-in-text-only")
		}
	}
	if v == 1 {
		mon.Tag("cb.neutral")
	}
}

func boostsExec(ops []string, mon *Mon) []string {
	out := make([]string, 0, len(ops))
	var cmds []database.Command
	var db *database.Database
	getDB := func() *database.Database {
		if db == nil {
			db = buildDB(cmds, mon)
			for i := range db.Commands {
				c := &db.Commands[i]
				all := c.Command + " " + c.Description + " " + strings.Join(c.Keywords, " ")
				switch {
				case !utf8.ValidString(all):
					mon.Tag("doc.invalid-utf8")
				case len(all) != utf8.RuneCountInString(all):
					mon.Tag("doc.non-ascii")
				}
				if all != strings.ToLower(all) {
					mon.Tag("doc.upper-case")
				}
				if len(strings.Fields(c.Command)) > 1 {
					mon.Tag("doc.multi-word-command")
				}
				if len(strings.Fields(c.Command)) == 0 {
					mon.Tag("doc.blank-command")
				}
			}
		}
		return db
	}
	for _, o := range ops {
		f := strings.Split(o, " ")
		switch f[0] {
		case "host", "ri":
			out = append(out, "ok")
		case "cmd":
			if len(f) != 12 {
				out = append(out, "bad-op")
				continue
			}
			cmds = append(cmds, parseCmdLine(f))
			out = append(out, "ok")
		case "mpq", "mctx", "mib", "mcb":
			if len(f) != 2 {
				out = append(out, "bad-op")
				continue
			}
			d := getDB()
			q := UnHx(f[1])
			pq := nlp.NewQueryProcessor().ProcessQuery(q)
			switch f[0] {
			case "mpq":
				out = append(out, "pq "+hxList(pq.Actions)+" "+hxList(pq.Targets)+" "+hxList(pq.Keywords)+" "+hxList(pq.GetEnhancedKeywords())+" "+Hx(string(pq.Intent)))
				mon.Tag("q.intent-" + string(pq.Intent))
				if len(pq.Actions) > 0 {
					mon.Tag("q.actions")
				}
				if len(pq.Targets) > 0 {
					mon.Tag("q.targets")
				}
				if q != strings.ToLower(strings.TrimSpace(q)) {
					mon.Tag("q.not-normalised")
				}
			case "mctx":
				a, t, k, h, c, in := d.VerifBoostsContext(pq)
				out = append(out, "ctx "+hxList(a)+" "+hxList(t)+" "+hxList(k)+" "+hxList(h)+" "+hxList(c)+" "+Hx(in))
				if len(a) > len(pq.Actions) || len(t) > len(pq.Targets) || len(k) > len(pq.Keywords) {
					mon.Tag("ctx.synonyms-added")
				}
				if len(c) > 0 {
					mon.Tag("ctx.contexts")
				}
			case "mib":
				vs := make([]float64, len(d.Commands))
				for i := range d.Commands {
					v := database.VerifIntentBoost(&d.Commands[i], pq)
					vs[i] = v
					boostsTagIntent(mon, &d.Commands[i], pq, v)
					if !(v >= 0) || math.IsInf(v, 0) {
						mon.Hit("C01", "oracle-negative-factor", map[string]interface{}{"what": "calculateIntentBoost is negative or not finite",
							"query": q, "doc": i, "command": d.Commands[i].Command, "description": d.Commands[i].Description, "value": v})
					}
				}
				out = append(out, "ib "+boostsFloats(vs))
			case "mcb":
				_, _, _, hints, ctxs, _ := d.VerifBoostsContext(pq)
				vs := make([]float64, len(d.Commands))
				for i := range d.Commands {
					v := d.VerifCascadeBoost(&d.Commands[i], pq)
					vs[i] = v
					boostsTagCascade(mon, d, &d.Commands[i], pq, hints, ctxs, v)
					if v < 1 {
						mon.Tag("cb.below-1")
					}
					if !(v >= 0) || math.IsInf(v, 0) {
						mon.Hit("C01", "oracle-negative-factor", map[string]interface{}{"what": "calculateBoostForCommand is negative or not finite",
							"query": q, "doc": i, "command": d.Commands[i].Command, "description": d.Commands[i].Description, "value": v})
					}
				}
				out = append(out, "cb "+boostsFloats(vs))
			}
		default:
			out = append(out, "bad-op")
		}
	}
	return out
}
