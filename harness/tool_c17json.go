//go:build verif

package main

// c17jsonparse (C17): the JSON result blocks the real `wtf --format json` printed, judged by Go's own encoding/json.
//
//	wtfverif tool c17jsonparse   < requests.jsonl   > verdicts.jsonl
//
// One request per line: {"block_hex": <hex of the block as cut from stdout>, "want": <number of results the answer has>,
// "texts_hex": [[hex of command, description, category, keywords..., platforms... as the DATABASE has them] per result]}.
// For each block the tool answers {"class": "" | "<monitor class>", "detail": "..."}:
//
//	json-block-invalid       json.Valid rejects the bytes (the property says: a well-formed JSON array)
//	json-block-not-objects   it does not decode into a slice of objects with string keys
//	json-block-count         the slice does not have one element per expected result
//	json-block-roundtrip     a string member does not decode back to the database text as encoding/json coerces it
//	                         (strings.ToValidUTF8-per-byte: every byte utf8.DecodeRune rejects is U+FFFD) -- the round
//	                         trip `Wtf.C17.json_wellformed` proves for the model, observed on the real decoder
//
// The Python side (lib/props/c17.py) turns a non-empty class into a monitor hit.  This is independent of the Lean
// recogniser and of Python's parser: the judge is the decoder of the same standard library that wrote the text.

import (
	"bufio"
	"encoding/hex"
	"encoding/json"
	"fmt"
	"os"
	"strings"
	"unicode/utf8"
)

func init() { RegisterTool("c17jsonparse", c17jsonParseTool) }

type c17jsonReq struct {
	Block string     `json:"block_hex"`
	Want  int        `json:"want"`
	Texts [][]string `json:"texts_hex"`
}

type c17jsonVerdict struct {
	Class  string `json:"class"`
	Detail string `json:"detail"`
}

// c17jsonCoerce is what encoding/json makes of a Go string before escaping it: byte-wise replacement of what
// utf8.DecodeRune rejects by U+FFFD (written independently of the encoder: a plain loop over DecodeRuneInString).
func c17jsonCoerce(s string) string {
	var b strings.Builder
	for i := 0; i < len(s); {
		r, w := utf8.DecodeRuneInString(s[i:])
		if r == utf8.RuneError && w == 1 {
			b.WriteRune(utf8.RuneError)
		} else {
			b.WriteString(s[i : i+w])
		}
		i += w
	}
	return b.String()
}

func c17jsonStrings(v interface{}, out *[]string) {
	switch t := v.(type) {
	case string:
		*out = append(*out, t)
	case []interface{}:
		for _, x := range t {
			c17jsonStrings(x, out)
		}
	}
}

func c17jsonJudge(req *c17jsonReq) c17jsonVerdict {
	block, err := hex.DecodeString(req.Block)
	if err != nil {
		return c17jsonVerdict{"bad-request", err.Error()}
	}
	if !json.Valid(block) {
		var probe interface{}
		perr := json.Unmarshal(block, &probe)
		return c17jsonVerdict{"json-block-invalid", fmt.Sprintf("encoding/json rejects the block: %v", perr)}
	}
	if !utf8.Valid(block) {
		return c17jsonVerdict{"json-block-invalid", "the block is not valid UTF-8 (RFC 8259 section 8.1)"}
	}
	var arr []map[string]interface{}
	if err := json.Unmarshal(block, &arr); err != nil {
		return c17jsonVerdict{"json-block-not-objects", fmt.Sprintf("not an array of objects: %v", err)}
	}
	if arr == nil {
		return c17jsonVerdict{"json-block-not-objects", "the block is `null`, not an array"}
	}
	for i, o := range arr {
		if o == nil {
			return c17jsonVerdict{"json-block-not-objects", fmt.Sprintf("element %d is null, not an object", i)}
		}
	}
	if len(arr) != req.Want {
		return c17jsonVerdict{"json-block-count", fmt.Sprintf("%d elements for %d results", len(arr), req.Want)}
	}
	for i, o := range arr {
		if i >= len(req.Texts) {
			break
		}
		// the string members in struct order: command, description, keywords..., category, platforms...
		var got []string
		for _, k := range []string{"command", "description", "keywords", "category", "platforms"} {
			if v, ok := o[k]; ok {
				c17jsonStrings(v, &got)
			}
		}
		want := map[string]int{}
		for _, hx := range req.Texts[i] {
			raw, err := hex.DecodeString(hx)
			if err != nil {
				return c17jsonVerdict{"bad-request", err.Error()}
			}
			want[c17jsonCoerce(string(raw))]++
		}
		for _, g := range got {
			if want[g] == 0 {
				return c17jsonVerdict{"json-block-roundtrip", fmt.Sprintf("object %d: the string %q is not the (coerced) text of any field of result %d", i, g, i)}
			}
		}
	}
	return c17jsonVerdict{}
}

func c17jsonParseTool(args []string) int {
	out := bufio.NewWriterSize(os.Stdout, 1<<20)
	defer out.Flush()
	sc := bufio.NewScanner(os.Stdin)
	sc.Buffer(make([]byte, 1<<20), 1<<28)
	enc := json.NewEncoder(out)
	for sc.Scan() {
		line := strings.TrimSpace(sc.Text())
		if line == "" {
			continue
		}
		var req c17jsonReq
		if err := json.Unmarshal([]byte(line), &req); err != nil {
			enc.Encode(c17jsonVerdict{"bad-request", err.Error()})
			continue
		}
		enc.Encode(c17jsonJudge(&req))
	}
	return 0
}
