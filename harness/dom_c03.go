//go:build verif

package main

import (
	"os"
	"path/filepath"
	"strings"
	"unicode"

	"gopkg.in/yaml.v3"

	"github.com/Vedant9500/WTF/internal/database"
)

// Domain c03 (model: lean/Driver/C03.lean over Model/Index.lean and Model/DbState.lean).
//
//	stream=index : `cmd` lines then `snapshot` -> canonical dump of the real uIndex vs `build db`
//	stream=hist  : histories  load | loadp <k> <present> | update | grow | hsearch <q> <opts>
//	               over pending `cmd` lines, through the real LoadDatabase(WithPersonal) (temp YAML files),
//	               CachedDatabase.UpdateDatabase and direct append to db.Commands; every search is also
//	               compared with the same search on a database freshly built from the same commands
//	               (monitor classes stale-index / stale-reranker)
//	stream=ship  : the shipped assets/commands.yml, lexical queries vs the reference scorer (no model run)
func init() {
	Register(&Domain{Name: "c03", Gen: genC03, Exec: execC03})
}

func genC03(r *Rng, tier string, idx int, args map[string]string) []string {
	switch args["stream"] {
	case "hist":
		return genC03Hist(r, tier, idx)
	case "ship":
		return genC03Ship(r, tier, idx, args)
	default:
		return genC03Index(r, tier, idx)
	}
}

// ---- index snapshots --------------------------------------------------------------------------

func c03GenCmd(r *Rng) database.Command {
	c := genCommand(r)
	switch r.Intn(12) {
	case 0:
		c.Keywords = []string{"", "a", "the"} // nothing survives
	case 1:
		c.Tags = []string{"foo", "bar baz", "foo"} // multi-word element, repeated element
	case 2:
		c.Description = strings.Repeat(Pick(r, wordPool)+" ", r.Range(2, 5))
	case 3:
		c.Keywords = []string{"ab", "cd"} // "ab"+"cd" must not glue into "abcd"
		c.Tags = []string{"x", "y"}       // one-letter elements must not glue into "xy"
	case 4:
		// one word several hundred times in one field (a pasted log line, a generated tag list):
		// term-frequency counters narrower than int would wrap
		w := Pick(r, wordPool)
		rep := strings.TrimSpace(strings.Repeat(w+" ", Pick(r, []int{255, 256, 257, 300, 520})))
		switch r.Intn(4) {
		case 0:
			c.Command = rep
		case 1:
			c.Description = rep
		case 2:
			c.Keywords = append(c.Keywords, rep)
		default:
			c.Tags = strings.Fields(rep)
		}
	}
	return c
}

func genC03Index(r *Rng, tier string, idx int) []string {
	maxN := 10
	if tier == "thorough" {
		maxN = 40
	}
	n := r.Range(0, Pick(r, []int{1, 2, 4, maxN}))
	cmds := make([]database.Command, 0, n)
	for i := 0; i < n; i++ {
		if i > 0 && r.Chance(1, 5) {
			cmds = append(cmds, cmds[r.Intn(i)])
		} else {
			cmds = append(cmds, c03GenCmd(r))
		}
	}
	mode := r.Intn(4) // 0,1: loader-like caches; 2: empty caches; 3: inconsistent caches (excluded point of WFCache: model = code still)
	switch mode {
	case 0, 1:
		database.VerifPopulateCache(cmds)
	case 3:
		database.VerifPopulateCache(cmds)
		for i := range cmds {
			if r.Chance(1, 2) {
				cmds[i].CommandLower = Pick(r, wordPool) + " stale"
			}
			if r.Chance(1, 3) {
				cmds[i].KeywordsLower = []string{"other", Pick(r, wordPool)}
			}
			if r.Chance(1, 3) {
				cmds[i].TagsLower = nil
			}
		}
	}
	ops := c03RiLines(cmds, nil)
	if idx == 0 {
		ops = append(ops, "foldscan")
	}
	for i := range cmds {
		ops = append(ops, cmdLine(&cmds[i]))
	}
	return append(ops, "snapshot")
}

func c03RiLines(cmds []database.Command, queries []string) []string {
	texts := []string{"Kİſ"}
	for i := range cmds {
		c := &cmds[i]
		texts = append(texts, c.Command, c.Description, c.CommandLower, c.DescriptionLower)
		texts = append(texts, c.Keywords...)
		texts = append(texts, c.Tags...)
		texts = append(texts, c.KeywordsLower...)
		texts = append(texts, c.TagsLower...)
		texts = append(texts, c.Platform...)
	}
	texts = append(texts, queries...)
	return append([]string{"host " + Hx(database.VerifCurrentPlatform())}, runeInfoLines(texts)...)
}

// ---- histories --------------------------------------------------------------------------------

func c03Clone(cmds []database.Command) []database.Command {
	out := make([]database.Command, len(cmds))
	for i, c := range cmds {
		c.Keywords = append([]string(nil), c.Keywords...)
		c.Tags = append([]string(nil), c.Tags...)
		c.Platform = append([]string(nil), c.Platform...)
		c.KeywordsLower = append([]string(nil), c.KeywordsLower...)
		c.TagsLower = append([]string(nil), c.TagsLower...)
		out[i] = c
	}
	return out
}

// c03Fresh: a database freshly built from exactly these command values.
func c03Fresh(cmds []database.Command) *database.Database {
	db := &database.Database{Commands: c03Clone(cmds)}
	db.VerifBuildAll()
	return db
}

func c03Populated(cmds []database.Command) []database.Command {
	out := c03Clone(cmds)
	database.VerifPopulateCache(out)
	return out
}

func genC03Hist(r *Rng, tier string, idx int) []string {
	type step struct {
		kind    string
		cmds    []database.Command // pending list (as written on the cmd lines)
		k       int                // loadp: size of the main part
		present bool               // loadp: personal file exists
		query   string
		opts    database.SearchOptions
	}
	small := func(lo, hi int) []database.Command {
		n := r.Range(lo, hi)
		out := make([]database.Command, n)
		for i := range out {
			out[i] = c03GenCmd(r)
			if r.Chance(1, 3) { // near-duplicates of "lister"-style entries: re-ranking decides their order
				w := Pick(r, []string{"list", "files", "compress", "search"})
				out[i].Command = w + "er" + Itoa(r.Intn(3))
				out[i].Description = w + " " + Pick(r, wordPool)
				out[i].Keywords = []string{w}
			}
		}
		return out
	}
	var steps []step
	var cur []database.Command // the command values the database holds after each step
	idxN := -1                 // number of commands the engine's index currently describes (-1: none built yet)
	nsteps := r.Range(2, 6)
	for s := 0; s < nsteps; s++ {
		kind := "load"
		if s > 0 {
			kind = Pick(r, []string{"update", "update", "grow", "grow", "loadp", "load", "update-same-n", "update-inplace", "replace", "replace"})
		} else {
			kind = Pick(r, []string{"load", "loadp", "loadp", "grow", "update"})
		}
		st := step{kind: kind}
		switch kind {
		case "load":
			st.cmds = small(0, 6)
			cur = c03Populated(st.cmds)
		case "loadp":
			main, pers := small(1, 5), small(0, 4)
			st.k, st.present = len(main), r.Chance(4, 5)
			st.cmds = append(append([]database.Command{}, main...), pers...)
			if st.present {
				cur = c03Populated(st.cmds)
			} else {
				cur = c03Populated(main)
			}
		case "update", "update-same-n", "update-inplace":
			st.kind = "update"
			if kind == "update-inplace" && len(cur) > 0 {
				// the caller edits the list it already holds (same backing array, same length) and hands it
				// back through UpdateDatabase: no slice-identity or length test can notice the change
				st.kind = "update inplace"
				st.cmds = small(len(cur), len(cur))
			} else if kind == "update-same-n" && len(cur) > 0 {
				st.cmds = small(len(cur), len(cur)) // replacement of equal size: only an eager rebuild notices
			} else {
				st.cmds = small(0, 6)
			}
			if r.Chance(2, 3) {
				database.VerifPopulateCache(st.cmds) // a caller passing on loader output
			}
			cur = c03Clone(st.cmds)
		case "replace":
			// the command list is replaced behind the engine's back by a list of a DIFFERENT length
			// (longer, with unrelated content, or shorter): the lazy rebuild must start from scratch
			// (a list exactly as long as the index still is cannot be noticed by the engine's
			// `N != len` test: the documented boundary of the property's "replaced", see Props/C03.lean)
			for tries := 0; ; tries++ {
				if len(cur) > 1 && r.Chance(1, 4) {
					st.cmds = small(0, len(cur)-1)
				} else {
					st.cmds = small(len(cur)+1, len(cur)+4)
				}
				if len(st.cmds) != idxN || tries > 20 {
					break
				}
			}
			if len(st.cmds) == idxN {
				st.cmds = append(st.cmds, c03GenCmd(r))
			}
			if r.Chance(2, 3) {
				database.VerifPopulateCache(st.cmds)
			}
			cur = c03Clone(st.cmds)
		case "grow":
			st.cmds = small(0, 3)
			if len(cur) != idxN && len(cur)+len(st.cmds) == idxN {
				// the list was changed behind the engine's back since the index was built (len != N) and this append would
				// bring it back to exactly N entries: the same boundary as a same-length replacement (see "replace")
				st.cmds = append(st.cmds, c03GenCmd(r))
			}
			if r.Chance(2, 3) {
				database.VerifPopulateCache(st.cmds)
			}
			cur = append(c03Clone(cur), c03Clone(st.cmds)...)
		}
		steps = append(steps, st)
		switch st.kind {
		case "load", "loadp", "update", "update inplace":
			idxN = len(cur) // eager rebuild
		}
		// searches after the step (sometimes none: two state changes in a row)
		for k, m := 0, Pick(r, []int{0, 1, 1, 2, 3}); k < m; k++ {
			var words []string
			for i := range cur {
				words = append(words, c03Tokens(strings.ToLower(cur[i].Command+" "+cur[i].Description))...)
			}
			q := rphrase(r, 1, 3)
			if len(words) > 0 && r.Chance(4, 5) {
				q = Pick(r, words)
				if r.Bool() {
					q += " " + Pick(r, words)
				}
			}
			o := database.SearchOptions{Limit: Pick(r, []int{0, 3, 10, 50}), UseNLP: r.Bool(), UseFuzzy: r.Chance(1, 4)}
			if r.Chance(1, 4) {
				o.ContextBoosts = map[string]float64{Pick(r, wordPool): 2}
			}
			o.AllPlatforms = r.Chance(1, 2)
			steps = append(steps, step{kind: "hsearch", query: q, opts: o, cmds: c03Clone(cur)})
			idxN = len(cur) // lazy rebuild happened if the size had changed
		}
	}
	// render
	var all []database.Command
	var qs []string
	for _, st := range steps {
		all = append(all, st.cmds...)
		all = append(all, c03Populated(st.cmds)...)
		qs = append(qs, st.query)
	}
	ops := c03RiLines(all, qs)
	lastN := -1
	for _, st := range steps {
		switch st.kind {
		case "hsearch":
			fresh := c03Fresh(st.cmds)
			if len(st.cmds) != lastN {
				lastN = len(st.cmds)
				for df := 0; df <= lastN; df++ {
					ops = append(ops, "idf "+Itoa(df)+" "+F(database.VerifIDF(lastN, df)))
				}
			}
			ops = append(ops, oracleLines(fresh, st.query)...)
			ops = append(ops, "hsearch "+Hx(st.query)+" "+optsTokens(st.opts))
		default:
			for i := range st.cmds {
				ops = append(ops, cmdLine(&st.cmds[i]))
			}
			switch st.kind {
			case "loadp":
				ops = append(ops, "loadp "+Itoa(st.k)+" "+B(st.present))
			default:
				ops = append(ops, st.kind)
			}
		}
	}
	return ops
}

// c03LoadViaFiles writes the entries to temporary YAML files and goes through the real loader; when
// YAML cannot carry the byte strings unchanged it builds the database the way the loader does.
func c03LoadViaFiles(mon *Mon, main, personal []database.Command, withPersonal, present bool) *database.Database {
	want := c03Clone(main)
	if withPersonal && present {
		want = append(want, c03Clone(personal)...)
	}
	dir, err := os.MkdirTemp("", "wtfverif-c03")
	if err == nil {
		defer os.RemoveAll(dir)
		mp, pp := filepath.Join(dir, "main.yml"), filepath.Join(dir, "personal.yml")
		ok := true
		write := func(p string, cs []database.Command) {
			if cs == nil {
				cs = []database.Command{}
			}
			data, e := yaml.Marshal(cs)
			if e != nil || os.WriteFile(p, data, 0o644) != nil {
				ok = false
			}
		}
		write(mp, main)
		if withPersonal && present {
			write(pp, personal)
		}
		if ok {
			var db *database.Database
			var e error
			if withPersonal {
				db, e = database.LoadDatabaseWithPersonal(mp, pp)
			} else {
				db, e = database.LoadDatabase(mp)
			}
			if e == nil && db != nil && sameCommands(db.Commands, want) {
				mon.Tag("hist-via-loader")
				return db
			}
		}
	}
	mon.Tag("hist-loader-emulated")
	database.VerifPopulateCache(want)
	db := &database.Database{Commands: want}
	db.VerifBuildAll()
	return db
}

func execC03(ops []string, mon *Mon) []string {
	out := make([]string, 0, len(ops))
	var pending []database.Command
	var cdb *database.CachedDatabase
	ensure := func() *database.CachedDatabase {
		if cdb == nil {
			cdb = database.NewCachedDatabase(&database.Database{})
		}
		return cdb
	}
	st := func() string { return "st " + Itoa(len(ensure().Database.Commands)) }
	nsteps := 0
	for _, o := range ops {
		f := strings.Split(o, " ")
		switch f[0] {
		case "host", "ri", "idf", "nq", "pq", "ib", "cb", "tf", "fz":
			out = append(out, "ok")
		case "cmd":
			pending = append(pending, parseCmdLine(f))
			out = append(out, "ok")
		case "foldscan":
			// every non-ASCII code point whose unicode.ToLower is ASCII, over the whole code space
			line := "fold"
			for r := rune(0x80); r <= unicode.MaxRune; r++ {
				if unicode.ToLower(r) < 0x80 {
					line += " " + Itoa(int(r))
				}
			}
			mon.Tag("foldscan")
			out = append(out, line)
		case "snapshot":
			db := &database.Database{Commands: c03Clone(pending)}
			db.BuildUniversalIndex()
			out = append(out, db.VerifIndexSnapshot())
			mon.Tag("snapshot")
			if len(pending) > 0 {
				mon.Tag("snapshot-nonempty")
			}
			pending = nil
		case "load":
			cdb = database.NewCachedDatabase(c03LoadViaFiles(mon, pending, nil, false, false))
			pending = nil
			nsteps++
			mon.Tag("op-load")
			out = append(out, st())
		case "loadp":
			k := Atoi(f[1])
			cdb = database.NewCachedDatabase(c03LoadViaFiles(mon, pending[:k], pending[k:], true, f[2] == "1"))
			pending = nil
			nsteps++
			mon.Tag("op-loadp")
			out = append(out, st())
		case "update":
			if c := ensure(); len(f) > 1 && f[1] == "inplace" && len(pending) == len(c.Commands) {
				copy(c.Commands, c03Clone(pending))
				c.UpdateDatabase(c.Commands)
				mon.Tag("op-update-inplace")
			} else {
				c.UpdateDatabase(c03Clone(pending))
			}
			pending = nil
			nsteps++
			mon.Tag("op-update")
			out = append(out, st())
		case "replace":
			d := ensure().Database
			d.Commands = c03Clone(pending)
			pending = nil
			nsteps++
			mon.Tag("op-replace")
			out = append(out, st())
		case "grow":
			d := ensure().Database
			d.Commands = append(d.Commands, c03Clone(pending)...)
			pending = nil
			nsteps++
			mon.Tag("op-grow")
			out = append(out, st())
		case "hsearch":
			d := ensure().Database
			q := UnHx(f[1])
			op := parseOpts(f[2:])
			line := c03RunSearch(d, q, op)
			out = append(out, line)
			if nsteps >= 2 {
				mon.Tag("search-after-2+-changes")
			}
			mon.Tag("hsearch")
			// the property: same answer as a database freshly built from the same commands
			fresh := c03Fresh(d.Commands)
			fl := c03RunSearch(fresh, q, op)
			if fl != line {
				cls := "stale-index"
				if op.UseNLP {
					off := op
					off.UseNLP = false
					if c03RunSearch(d, q, off) == c03RunSearch(fresh, q, off) {
						cls = "stale-reranker"
					}
				}
				mon.Hit("C03", cls, map[string]interface{}{"query": q, "nlp": op.UseNLP, "got": line, "fresh": fl, "n": len(d.Commands)})
			}
			if !d.VerifRerankerCurrent() {
				mon.Hit("C03", "stale-reranker", map[string]interface{}{"query": q, "why": "after the search the re-ranker's command map does not describe db.Commands", "n": len(d.Commands)})
			}
			if d.VerifIndexSnapshot() != fresh.VerifIndexSnapshot() {
				mon.Hit("C03", "stale-index", map[string]interface{}{"query": q, "why": "after the search the index differs from a freshly built one", "n": len(d.Commands)})
			}
			if !op.UseNLP && c03CachesLoaderLike(d.Commands) && !strings.HasPrefix(line, "panic") {
				rs := d.SearchUniversal(q, op)
				ids := make([]int, len(rs))
				for i, x := range rs {
					ids[i] = d.VerifIndexOf(x.Command)
				}
				c03Check(mon, d, nil, q, op, rs, ids)
			}
		case "ship":
			out = append(out, c03ShipLoad(UnHx(f[1])))
		case "sq":
			out = append(out, c03ShipQuery(mon, UnHx(f[1]), parseOpts(f[2:])))
		default:
			out = append(out, "bad-op")
		}
	}
	return out
}

func c03RunSearch(d *database.Database, q string, op database.SearchOptions) (line string) {
	defer func() {
		if r := recover(); r != nil {
			line = "panic:" + panicClass(r)
		}
	}()
	return fmtResults(d, d.SearchUniversal(q, op))
}

// ---- shipped database -------------------------------------------------------------------------

var c03Ship struct {
	path string
	db   *database.Database
	ref  *c03Ref
	pos  map[*database.Command]int
}

func c03ShipLoad(path string) string {
	if c03Ship.db == nil || c03Ship.path != path {
		db, err := database.LoadDatabase(path)
		if err != nil {
			return "ship-error"
		}
		c03Ship.path, c03Ship.db, c03Ship.ref = path, db, c03BuildRef(db.Commands)
		c03Ship.pos = make(map[*database.Command]int, len(db.Commands))
		for i := range db.Commands {
			c03Ship.pos[&db.Commands[i]] = i
		}
	}
	return "ship " + Itoa(len(c03Ship.db.Commands))
}

func c03ShipQuery(mon *Mon, q string, op database.SearchOptions) string {
	db := c03Ship.db
	if db == nil {
		return "no-db"
	}
	if op.Limit < 0 {
		op.Limit = len(db.Commands)
	}
	rs := db.SearchUniversal(q, op)
	ids := make([]int, len(rs))
	for i, x := range rs {
		if p, ok := c03Ship.pos[x.Command]; ok {
			ids[i] = p
		} else {
			ids[i] = -1
		}
	}
	c03Check(mon, db, c03Ship.ref, q, op, rs, ids)
	mon.Tag("ship-query")
	if len(rs) > 0 {
		mon.Tag("ship-nonempty")
	}
	line := "res " + Itoa(len(rs))
	for i := range rs {
		if i >= 5 {
			break
		}
		line += " " + Itoa(ids[i]) + " " + F(rs[i].Score)
	}
	return line
}

func genC03Ship(r *Rng, tier string, idx int, args map[string]string) []string {
	path := args["path"]
	ops := []string{"ship " + Hx(path)}
	// real words of the shipped database
	var words []string
	if c03ShipLoad(path) != "ship-error" {
		for k := 0; k < 400; k++ {
			c := &c03Ship.db.Commands[r.Intn(len(c03Ship.db.Commands))]
			words = append(words, c03Tokens(strings.ToLower(c.Command+" "+c.Description+" "+strings.Join(c.Keywords, " ")))...)
		}
	}
	if len(words) == 0 {
		words = wordPool
	}
	fixed := []string{"list files", "compress directory", "find text in files", "git commit", "docker container logs", "disk usage",
		"kill process", "download file", "show ip address", "copy files recursively", "search and replace", "tar gz extract",
		"ssh remote server", "chmod permissions", "Kelvin", "the", "list list list", "zzzzqqqq"}
	nq := 30
	if tier == "thorough" {
		nq = 150
	}
	for k := 0; k < nq; k++ {
		q := ""
		if idx == 0 && k < len(fixed) {
			q = fixed[k]
		} else {
			var qw []string
			for j, m := 0, Pick(r, []int{1, 2, 2, 3, 4, 7, 10, 12}); j < m; j++ {
				qw = append(qw, Pick(r, words))
			}
			q = strings.Join(qw, " ")
		}
		o := database.SearchOptions{Limit: Pick(r, []int{-1, -1, 10, 50}), UseNLP: false, UseFuzzy: false, AllPlatforms: r.Bool()}
		if r.Chance(1, 3) {
			o.ContextBoosts = map[string]float64{Pick(r, words): 2.5}
		}
		ops = append(ops, "sq "+Hx(q)+" "+optsTokens(o))
	}
	return ops
}
