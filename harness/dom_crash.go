//go:build verif

package main

import (
	"errors"
	"os"
	"path/filepath"
	"strings"
	"time"

	"gopkg.in/yaml.v3"

	"github.com/Vedant9500/WTF/internal/database"
	apperrors "github.com/Vedant9500/WTF/internal/errors"
	"github.com/Vedant9500/WTF/internal/recovery"
)

// crash (C10): arbitrary file contents through the loader, then arbitrary queries / options through
// every search entry point, suggestions and the recovery searches.  Every call is made under recover();
// a panic or an over-long call is a monitor hit.  There is no model side for this domain beyond the
// error classification (the `search` domain compares panic classes with the model).
func init() {
	Register(&Domain{Name: "crash", Gen: genCrash, Exec: execCrash})
}

var yamlShapes = []string{
	"", "\n", "[]", "{}", "null", "~", "42", "true", "just a string", "- a\n- b\n", "- 1\n- 2\n",
	"- command: ls\n  description: list\n", "- command: [a, b]\n", "- command: {a: b}\n", "- keywords: notalist\n",
	"- command: ls\n  keywords: [1, 2.5, true, null]\n", "- command: ls\n  pipeline: maybe\n", "- command: ls\n  pipeline: 1\n",
	"- command: ls\n  platform: linux\n", "- &a {command: x, description: y}\n- *a\n- *a\n",
	"a: &a [x, x]\nb: &b [*a, *a]\nc: [*b, *b]\n", "- command: |\n    multi\n    line\n  description: >\n    folded\n",
	"- command: \"a\\0b\"\n  description: \"nul\\0inside\"\n", "- command: \"\\xff\"\n", "---\n- command: a\n---\n- command: b\n",
	"- command: a\n  command: b\n", "- !!binary aGVsbG8=\n", "- command: !!binary aGVsbG8=\n", "%YAML 1.1\n---\n- command: x\n",
	"- command: ls\n\tdescription: tab\n", "- command: 'unterminated\n", "[1, 2", "{a: 1", "- - - - - - - - deep\n",
	"- command: x\n  keywords:\n    - - nested\n", "- command: x\n  tags: {a: 1}\n", "- command: 9999999999999999999999\n  description: 1e400\n",
	"- ? [complex, key]\n  : v\n", "- command: x\n  unknown_field: 1\n  niche: n\n", "\xef\xbb\xbf- command: bom\n", "- command: \u2028line sep\n",
}

var metaWords = []string{"c++", "printf(", "[options", "a|b", "x{2", "**", "?)", "(unclosed", "back\\slash", "$HOME", "^start", "end$", "a+b", "[[", "{{.Names}}", "*.go", "%d%s"}

func genFileContent(r *Rng) string {
	switch x := r.Intn(100); {
	case x < 35:
		return Pick(r, yamlShapes)
	case x < 60: // well-formed list produced by the encoder
		var cmds []database.Command
		for i, n := 0, r.Intn(8); i < n; i++ {
			c := genCommand(r)
			if r.Chance(1, 2) { // texts with regexp / format / shell metacharacters
				c.Description += " " + Pick(r, metaWords)
				c.Command += " " + Pick(r, metaWords)
				c.Keywords = append(c.Keywords, Pick(r, metaWords))
			}
			cmds = append(cmds, c)
		}
		b, _ := yaml.Marshal(cmds)
		s := string(b)
		if r.Chance(1, 4) && len(s) > 4 { // damaged: truncated or byte-flipped
			if r.Bool() {
				s = s[:r.Intn(len(s))]
			} else {
				bs := []byte(s)
				bs[r.Intn(len(bs))] = byte(r.Intn(256))
				s = string(bs)
			}
		}
		return s
	case x < 75: // binary
		b := make([]byte, r.Intn(200))
		for i := range b {
			b[i] = byte(r.Intn(256))
		}
		return string(b)
	case x < 85: // deep / wide structures
		n := r.Range(10, 400)
		return strings.Repeat("- ", n) + "x\n"
	default:
		return Pick(r, yamlShapes) + Pick(r, yamlShapes)
	}
}

func hostileQuery(r *Rng) string {
	switch x := r.Intn(100); {
	case x < 30:
		return genQuery(r, wordPool)
	case x < 40:
		s := strings.Repeat(Pick(r, []string{"a", "ab ", "é", "\xff", "list ", "x y "}), 1001)
		return s[:Pick(r, []int{1, 999, 1000, 1001, 50})]
	case x < 50:
		return "a\x00b"
	case x < 55:
		return "\x00"
	case x < 65:
		b := make([]byte, r.Intn(40))
		for i := range b {
			b[i] = byte(r.Intn(256))
		}
		return string(b)
	case x < 70:
		return ""
	case x < 80:
		return Pick(r, []string{"(", "[a-z", "\\", "*?+", ".*", "$^", "%s%d", "{{.}}", "'; drop", "\u202e", "\ufeff", "\U0010ffff"})
	case x < 84:
		// far beyond what the CLI's validation lets through: the engine's entry points take any string (wave 7, C10-B: a
		// histogram of query lengths indexed past its last bucket for more than 10000 bytes, on the monitored path only)
		u := Pick(r, []string{"a", "list files ", "é", "x\x00", "-"})
		n := Pick(r, []int{10000, 10001, 16385, 65537})
		return strings.Repeat(u, n/len(u)+1)[:n]
	default:
		return strings.Repeat(Pick(r, wordPool)+" ", r.Range(1, 60))
	}
}

func hostileOptions(r *Rng) database.SearchOptions {
	o := genOptions(r)
	if r.Chance(1, 3) {
		o.Limit = Pick(r, []int{-1 << 63, -1, 0, 1, 1 << 31, 1 << 62, (1 << 62) + 1, 3074457345618258603, 1<<63 - 1, 1 << 61, 4611686018427387904})
	}
	if r.Chance(1, 4) {
		o.TopTermsCap = Pick(r, []int{-1 << 63, 1<<63 - 1, 1, 2})
	}
	if r.Chance(1, 4) {
		o.FuzzyThreshold = Pick(r, []int{-1 << 63, 1<<63 - 1})
	}
	if r.Chance(1, 5) {
		o.PipelineBoost = Pick(r, []float64{1e308, -1e308, 5e-324})
	}
	if r.Chance(1, 5) {
		o.ContextBoosts = map[string]float64{"list": 1e308, "": 2, "a\x00b": 3}
	}
	if r.Chance(1, 6) {
		o.Platforms = []string{"", "\x00", strings.Repeat("x", 5000), "\xff"}
	}
	return o
}

var entryPoints = []string{"universal", "search", "options", "pipeline", "fuzzy", "nlp", "cached", "monitored", "suggest", "recovery"}

func genCrash(r *Rng, tier string, idx int, args map[string]string) []string {
	var ops []string
	for i, n := 0, r.Range(1, 3); i < n; i++ {
		content := genFileContent(r)
		ops = append(ops, "load "+Hx(content))
		own := strings.Fields(content) // raw words of the file (punctuation kept): queries that hit the loaded texts
		for j, m := 0, r.Range(2, 8); j < m; j++ {
			q := hostileQuery(r)
			if len(own) > 0 && r.Chance(2, 5) {
				ws := make([]string, r.Range(1, 3))
				for k := range ws {
					ws[k] = Pick(r, own)
				}
				q = strings.Join(ws, " ")
			} else if r.Chance(1, 6) {
				q = Pick(r, metaWords) + " " + Pick(r, metaWords)
			}
			ops = append(ops, "q "+Pick(r, entryPoints)+" "+Hx(q)+" "+optsTokens(hostileOptions(r)))
		}
	}
	if r.Chance(1, 3) {
		ops = append(ops, "loadmissing")
	}
	if r.Chance(1, 4) {
		ops = append(ops, "loaddir")
	}
	return ops
}

func loadErrClass(err error) string {
	var ae *apperrors.AppError
	if errors.As(err, &ae) {
		switch {
		case strings.Contains(strings.ToLower(ae.Message), "not found"):
			return "notfound"
		case ae.Type == apperrors.ErrorTypePermission:
			return "permission"
		case strings.Contains(strings.ToLower(ae.Message), "pars") || strings.Contains(strings.ToLower(ae.Message), "yaml") || strings.Contains(strings.ToLower(ae.Message), "format"):
			return "parse"
		}
		return "app:" + string(ae.Type)
	}
	return "other"
}

func execCrash(ops []string, mon *Mon) []string {
	out := make([]string, 0, len(ops))
	dir, _ := os.MkdirTemp("", "wtfverif-crash")
	defer os.RemoveAll(dir)
	var db *database.Database
	fallback := buildDB([]database.Command{{Command: "ls -la", Description: "list files"}, {Command: "a\x00b", Description: "nul \x00 here"}}, nil)
	guard := func(what string, detail interface{}, f func() string) string {
		res := ""
		start := time.Now()
		func() {
			defer func() {
				if r := recover(); r != nil {
					res = "panic:" + panicClass(r)
					mon.Hit("C10", "panic", map[string]interface{}{"what": what, "detail": detail, "panic": strings.ReplaceAll(toStr(r), "\n", " ")})
				}
			}()
			res = f()
		}()
		if d := time.Since(start); d > 5*time.Second {
			mon.Hit("C10", "slow-call", map[string]interface{}{"what": what, "detail": detail, "seconds": d.Seconds()})
		}
		return res
	}
	for _, o := range ops {
		f := strings.Split(o, " ")
		switch f[0] {
		case "load":
			content := UnHx(f[1])
			p := filepath.Join(dir, "db.yml")
			os.WriteFile(p, []byte(content), 0o644)
			out = append(out, guard("LoadDatabase", Hx(content), func() string {
				d, err := database.LoadDatabase(p)
				// what the decoder itself says about the content (the loader must agree)
				var probe []database.Command
				perr := yaml.Unmarshal([]byte(content), &probe)
				if err != nil {
					db = nil
					cls := loadErrClass(err)
					if perr == nil {
						mon.Hit("C10", "wellformed-list-rejected", map[string]interface{}{"content": Hx(content), "error": err.Error()})
					} else if cls != "parse" {
						mon.Hit("C10", "undecodable-not-reported-as-parse-error", map[string]interface{}{"content": Hx(content), "class": cls, "error": err.Error()})
					}
					mon.Tag("load-" + cls)
					return "err " + cls
				}
				if perr != nil {
					mon.Hit("C10", "undecodable-content-loaded", map[string]interface{}{"content": Hx(content)})
				}
				db = d
				mon.Tag("load-ok")
				return "ok " + Itoa(len(d.Commands))
			}))
		case "loadmissing":
			out = append(out, guard("LoadDatabase(missing)", nil, func() string {
				_, err := database.LoadDatabase(filepath.Join(dir, "does-not-exist.yml"))
				if err == nil {
					mon.Hit("C10", "missing-file-loaded", nil)
					return "ok"
				}
				cls := loadErrClass(err)
				if cls != "notfound" {
					mon.Hit("C10", "missing-not-reported-as-notfound", map[string]interface{}{"class": cls, "error": err.Error()})
				}
				return "err " + cls
			}))
		case "loaddir":
			out = append(out, guard("LoadDatabase(dir)", nil, func() string {
				_, err := database.LoadDatabase(dir)
				if err == nil {
					mon.Hit("C10", "directory-loaded", nil)
					return "ok"
				}
				return "err " + loadErrClass(err)
			}))
		case "q":
			d := db
			if d == nil {
				d = fallback
			}
			q := UnHx(f[2])
			op := parseOpts(f[3:])
			ep := f[1]
			mon.Tag("ep-" + ep)
			out = append(out, guard(ep, map[string]interface{}{"query": Hx(q), "limit": op.Limit}, func() string {
				n := 0
				switch ep {
				case "universal":
					n = len(d.SearchUniversal(q, op))
				case "search":
					n = len(d.Search(q, op.Limit))
				case "options":
					n = len(d.SearchWithOptions(q, op))
				case "pipeline":
					n = len(d.SearchWithPipelineOptions(q, op))
				case "fuzzy":
					n = len(d.SearchWithFuzzy(q, op))
				case "nlp":
					n = len(d.SearchWithNLP(q, op))
				case "cached":
					n = len(database.NewCachedDatabase(d).SearchWithOptionsAndCache(q, op))
				case "monitored":
					n = len(database.NewMonitoredDatabase(d).SearchWithOptionsAndMonitoring(q, op))
				case "suggest":
					n = len(d.GetSuggestions(q, op.Limit))
				case "recovery":
					old := os.Stdout
					null, _ := os.Open(os.DevNull)
					os.Stdout = null
					rs, _ := recovery.NewSearchRecovery().RecoverFromSearchFailure(q, nil, d)
					os.Stdout = old
					null.Close()
					n = len(rs)
				}
				return "n " + Itoa(n)
			}))
		default:
			out = append(out, "bad-op")
		}
	}
	return out
}
