//go:build verif

package main

import (
	"encoding/json"
	"fmt"
	"math"
	"os"
	"path/filepath"
	"sort"
	"strings"

	wtfctx "github.com/Vedant9500/WTF/internal/context"
)

// context: correspondence of context.NewAnalyzer().AnalyzeDirectory + GetContextBoosts with
// Model/Context.lean on generated temporary directories, and the C13 analyzer monitor
// (types duplicate-free, generic iff nothing recognised, boosts finite and >= 1, deterministic).
//
//	ri <cp> <lower> <foldrep> <flags>
//	dir <names> <scripts> <Makefile> <makefile>
//	    names:   hex list of the directory entries ("/"-suffixed hex = the entry is a directory)
//	    scripts: what encoding/json produced for package.json (the model's parameter): none | - | hex list
//	    Makefile / makefile: none (absent or a directory) | x<hex content>
//	pkg <hex>       content of package.json for the next `dir` op (the model ignores it: JSON parsing is a parameter)
//	missing
func init() {
	Register(&Domain{Name: "context", Gen: genContext, Exec: execContext})
}

// fallback literal list (used when the check does not pass the regenerated one with -arg lits=…)
// used when the translator cannot read the literals off the current source (snapshot of the rule set at the time of writing)
var ctxDefaultLits = [][2]string{{"eq", ".git"}, {"eq", "Dockerfile"}, {"eq", "docker-compose.yml"}, {"eq", "docker-compose.yaml"}, {"eq", "package.json"}, {"eq", "node_modules"}, {"eq", "yarn.lock"}, {"eq", "pnpm-lock.yaml"}, {"eq", "webpack.config.js"}, {"eq", "webpack.config.ts"}, {"eq", "vite.config.js"}, {"eq", "vite.config.ts"}, {"eq", "requirements.txt"}, {"eq", "setup.py"}, {"eq", "pyproject.toml"}, {"eq", "Pipfile"}, {"eq", "go.mod"}, {"eq", "go.sum"}, {"eq", "Cargo.toml"}, {"eq", "Cargo.lock"}, {"eq", "pom.xml"}, {"eq", "build.gradle"}, {"eq", "build.gradle.kts"}, {"suffix", ".csproj"}, {"suffix", ".vbproj"}, {"suffix", ".fsproj"}, {"eq", "global.json"}, {"eq", "nuget.config"}, {"eq", "Gemfile"}, {"eq", "Rakefile"}, {"eq", "composer.json"}, {"eq", "composer.lock"}, {"eq", "CMakeLists.txt"}, {"eq", "Makefile"}, {"eq", "makefile"}, {"contains", "k8s"}, {"contains", "kubernetes"}, {"suffix", ".yaml"}, {"suffix", ".yml"}, {"eq", "kustomization.yaml"}, {"eq", "kustomization.yml"}, {"suffix", ".tf"}, {"suffix", ".tfvars"}, {"eq", "ansible.cfg"}, {"eq", "hosts"}, {"eq", "inventory"}, {"contains", "playbook"}, {"suffix", ".yml"}, {"suffix", ".yaml"}}

func ctxLiterals(args map[string]string) [][2]string {
	a := args["lits"]
	if a == "" {
		return ctxDefaultLits
	}
	var out [][2]string
	for _, p := range strings.Split(a, ",") {
		kv := strings.SplitN(p, ":", 2)
		if len(kv) == 2 {
			out = append(out, [2]string{kv[0], UnHx(kv[1])})
		}
	}
	return out
}

var ctxNearMiss = []string{"Dockerfile.bak", "k8s.txt", "x.tf.bak", "playbook.txt", "MAKEFILE", "README.md", "main.go", "src", "docker-compose.yml.orig",
	"Package.json", "package.json5", "go.mod.sum", "Cargo.tom", ".gitignore", ".github", "requirements.txt~", "pom.xml.bak", "Gemfile.lock",
	"kubernetes", "k8s", "playbook", "hosts.txt", "inventory.ini", "terraform.tfstate", "app.csproj.user", ".tfvars.json", "Makefile.am", "yaml", ".yml~"}

var ctxScriptNames = []string{"build", "test", "start", "dev", "lint", "deploy", "run", "a b", "pre:build", "", "ünï", "BUILD", "x", "install", "serve", "git", "docker"}

var ctxMakeLines = []string{"all: build", "build:", "\tgo build ./...", "\techo a:b", "A=b:c", "A := b", ".PHONY: all clean", "# comment: x", "  indented: target",
	"x:y:z", "target : dep", ": empty", "a=b", "test:", "clean:\r", " nbsp: x", "  \t# c: d", "VAR ?= v: w", "%.o: %.c", "$(OBJ): x", "install clean: all",
	"weird\u0085: x", "ünï: x", "\xff: x", "", "   ", "run:: double", "deploy:\t", " em: sp", "docker: image", "no colon here", ".hidden: x", "a.b: c", "=: x", "t\t: y",
	"git: status", "\ttab-led: recipe", " \t: x", "make: make"}

func genPackageJSON(r *Rng) string {
	names := func() []string {
		n := r.Range(0, 4)
		out := make([]string, 0, n)
		for i := 0; i < n; i++ {
			out = append(out, Pick(r, ctxScriptNames))
		}
		return out
	}
	obj := func(ns []string, val func(int) string) string {
		ps := make([]string, len(ns))
		for i, n := range ns {
			k, _ := json.Marshal(n)
			ps[i] = string(k) + ":" + val(i)
		}
		return "{" + strings.Join(ps, ",") + "}"
	}
	str := func(int) string { return `"cmd"` }
	switch r.Intn(12) {
	case 0, 1, 2, 3, 4:
		return `{"name":"x","scripts":` + obj(names(), str) + `}`
	case 5:
		return `{"name":"x","version":"1.0.0"}`
	case 6:
		return `{"name": "x", "scripts": {` // invalid JSON
	case 7:
		return `{"scripts":` + obj(append(names(), "n"), func(i int) string { return Pick(r, []string{"1", "true", "null", `["a"]`, `"ok"`}) }) + `}`
	case 8:
		return Pick(r, []string{`{"scripts":[]}`, `{"scripts":"build"}`, `{"scripts":null}`, `[]`, `null`, ``, `{"scripts":{}} trailing`, "\xff\xfe"})
	case 9:
		return `{"scripts":{"a":"x","a":"y","b":"z"},"Scripts":{"c":"w"}}` // duplicate keys, case-folded field name
	case 10:
		return `{"SCRIPTS":` + obj(names(), str) + `}`
	default:
		return "\ufeff" + `{"scripts":{"bom":"x"}}`
	}
}

func genMakefile(r *Rng) string {
	n := r.Range(0, 8)
	ls := make([]string, n)
	for i := range ls {
		ls[i] = Pick(r, ctxMakeLines)
	}
	sep := "\n"
	if r.Chance(1, 5) {
		sep = "\r\n"
	}
	s := strings.Join(ls, sep)
	if r.Chance(1, 2) {
		s += sep
	}
	return s
}

// ctxDir is one generated directory.
type ctxDir struct {
	names  []string          // entry names; a trailing "/" marks a directory
	files  map[string]string // contents of package.json / Makefile / makefile when they are files
	isDir  map[string]bool
	listed []string // names without the directory marker
}

func genCtxDir(r *Rng, lits [][2]string, tier string) *ctxDir {
	d := &ctxDir{files: map[string]string{}, isDir: map[string]bool{}}
	seen := map[string]bool{}
	add := func(n string) {
		if n == "" || n == "." || n == ".." || strings.ContainsAny(n, "/\x00") || len(n) > 200 || seen[n] {
			return
		}
		seen[n] = true
		d.listed = append(d.listed, n)
	}
	var eqs, sufs, cons []string
	for _, l := range lits {
		switch l[0] {
		case "eq":
			eqs = append(eqs, l[1])
		case "suffix":
			sufs = append(sufs, l[1])
		case "contains":
			cons = append(cons, l[1])
		}
	}
	mode := r.Intn(10)
	if mode == 9 && len(eqs)+len(sufs)+len(cons) > 0 {
		// exactly ONE marker (each literal of the rule set gets its turn) among files that mean nothing: whatever a rule does
		// with a weak hint, the directory is either recognised as something or reported as generic - never as nothing
		k := r.Intn(len(eqs) + len(sufs) + len(cons))
		switch {
		case k < len(eqs):
			add(eqs[k])
		case k < len(eqs)+len(sufs):
			add(Pick(r, []string{"main", "x", "deploy"}) + sufs[k-len(eqs)])
		default:
			add("my-" + cons[k-len(eqs)-len(sufs)] + ".txt")
		}
		for i, n := 0, r.Range(0, 3); i < n; i++ {
			add(Pick(r, []string{"README.md", "notes.txt", "src", "data.csv", "LICENSE", "a.out"}))
		}
	} else if mode >= 2 { // marker files
		p := Pick(r, []int{4, 8, 12, 25, 50})
		for _, e := range eqs {
			if r.Intn(100) < p {
				add(e)
			}
		}
		for _, s := range sufs {
			if r.Intn(100) < p {
				add(Pick(r, []string{"main", "x", "", "a.b", "deploy-k8s", "playbook"}) + s)
			}
		}
		for _, c := range cons {
			if r.Intn(100) < p {
				suf := ".txt"
				if len(sufs) > 0 && r.Chance(2, 3) {
					suf = Pick(r, sufs)
				}
				add(Pick(r, []string{"", "my-", "x"}) + c + Pick(r, []string{"", "-prod", "s"}) + suf)
			}
		}
	}
	if mode == 1 || r.Chance(1, 2) { // near misses
		for i, n := 0, r.Range(1, 5); i < n; i++ {
			add(Pick(r, ctxNearMiss))
		}
		if len(eqs) > 0 && r.Chance(1, 2) {
			e := Pick(r, eqs)
			add(Pick(r, []string{e + ".bak", "x" + e, strings.ToUpper(e), e[:len(e)-1], e + " "}))
		}
	}
	if r.Chance(1, 4) {
		add("package.json")
	}
	if r.Chance(1, 4) {
		add(Pick(r, []string{"Makefile", "makefile"}))
		if r.Chance(1, 4) {
			add("Makefile")
			add("makefile")
		}
	}
	// shuffle the creation order (os.ReadDir sorts)
	for i := len(d.listed) - 1; i > 0; i-- {
		j := r.Intn(i + 1)
		d.listed[i], d.listed[j] = d.listed[j], d.listed[i]
	}
	for _, n := range d.listed {
		dir := r.Chance(1, 12)
		if n == "node_modules" || n == ".git" || n == "src" || n == ".github" {
			dir = r.Chance(3, 4)
		}
		d.isDir[n] = dir
		if dir {
			d.names = append(d.names, n+"/")
			continue
		}
		d.names = append(d.names, n)
		switch n {
		case "package.json":
			d.files[n] = genPackageJSON(r)
		case "Makefile", "makefile":
			d.files[n] = genMakefile(r)
		}
	}
	return d
}

// materialize creates the directory on disk; the caller removes it.
func (d *ctxDir) materialize() (string, error) {
	root, err := os.MkdirTemp("", "wtfverif-ctx")
	if err != nil {
		return "", err
	}
	return root, d.materializeIn(root)
}

// materializeNested creates the same listing two levels below a directory that itself looks like a checkout of everything
// (.git, go.mod, package.json, Dockerfile, Makefile): what is detected must depend on the directory's OWN listing only.
// Returns (outer directory to remove, directory to analyse).
func (d *ctxDir) materializeNested() (string, string, error) {
	outer, err := os.MkdirTemp("", "wtfverif-ctxn")
	if err != nil {
		return "", "", err
	}
	for _, n := range []string{".git", "node_modules"} {
		os.Mkdir(filepath.Join(outer, n), 0o755)
	}
	for _, n := range []string{"go.mod", "package.json", "Dockerfile", "Makefile", "Cargo.toml", "requirements.txt"} {
		os.WriteFile(filepath.Join(outer, n), []byte("{}"), 0o644)
	}
	inner := filepath.Join(outer, "services", "api")
	if err := os.MkdirAll(inner, 0o755); err != nil {
		os.RemoveAll(outer)
		return "", "", err
	}
	if err := d.materializeIn(inner); err != nil {
		os.RemoveAll(outer)
		return "", "", err
	}
	return outer, inner, nil
}

func (d *ctxDir) materializeIn(root string) error {
	var err error
	for _, n := range d.listed {
		p := filepath.Join(root, n)
		if d.isDir[n] {
			err = os.Mkdir(p, 0o755)
		} else {
			err = os.WriteFile(p, []byte(d.files[n]), 0o644)
		}
		if err != nil {
			os.RemoveAll(root)
			return err
		}
	}
	return nil
}

// scriptsOracle: what encoding/json produces for the package.json content (the model's parameter).
func scriptsOracle(content string) (string, bool) {
	var pkg struct {
		Scripts map[string]string `json:"scripts"`
	}
	if err := json.Unmarshal([]byte(content), &pkg); err != nil {
		return "none", false
	}
	ks := make([]string, 0, len(pkg.Scripts))
	for k := range pkg.Scripts {
		ks = append(ks, k)
	}
	sort.Strings(ks)
	return hxList(ks), true
}

func (d *ctxDir) opLines() []string {
	names := make([]string, len(d.names))
	for i, n := range d.names {
		if strings.HasSuffix(n, "/") {
			names[i] = Hx(strings.TrimSuffix(n, "/")) + "/"
		} else {
			names[i] = Hx(n)
		}
	}
	nameTok := "-"
	if len(names) > 0 {
		nameTok = strings.Join(names, ",")
	}
	scripts := "none"
	var meta []string
	if c, ok := d.files["package.json"]; ok {
		scripts, _ = scriptsOracle(c)
		meta = append(meta, "pkg "+Hx(c))
	}
	mk := func(n string) string {
		if c, ok := d.files[n]; ok {
			return "x" + Hx(c)
		}
		return "none"
	}
	return append(meta, "dir "+nameTok+" "+scripts+" "+mk("Makefile")+" "+mk("makefile"))
}

func genContext(r *Rng, tier string, idx int, args map[string]string) []string {
	lits := ctxLiterals(args)
	n := r.Range(1, 4)
	var dirs []*ctxDir
	var texts []string
	for i := 0; i < n; i++ {
		d := genCtxDir(r, lits, tier)
		dirs = append(dirs, d)
		for _, k := range []string{"Makefile", "makefile"} {
			texts = append(texts, d.files[k])
		}
	}
	ops := runeInfoLines(texts)
	for _, d := range dirs {
		ops = append(ops, d.opLines()...)
	}
	if r.Chance(1, 10) {
		ops = append(ops, "missing")
	}
	return ops
}

// ---- exec ---------------------------------------------------------------------------------------

type ctxView struct {
	types   []string
	boosts  map[string]float64
	scripts []string
	targets []string
}

func viewOf(c *wtfctx.Context) ctxView {
	v := ctxView{boosts: c.GetContextBoosts()}
	for _, t := range c.ProjectTypes {
		v.types = append(v.types, string(t))
	}
	for k := range c.PackageScripts {
		v.scripts = append(v.scripts, k)
	}
	sort.Strings(v.scripts)
	v.targets = append(v.targets, c.MakeTargets...)
	return v
}

func (v ctxView) line(order []string) string {
	ks := make([]string, 0, len(v.boosts))
	for k := range v.boosts {
		ks = append(ks, k)
	}
	sort.Strings(ks)
	bs := make([]string, len(ks))
	for i, k := range ks {
		h := Hx(k)
		if k == "" {
			h = "_"
		}
		bs[i] = h + "=" + F(v.boosts[k])
	}
	bt := "-"
	if len(bs) > 0 {
		bt = strings.Join(bs, ",")
	}
	return "ctx " + hxList(v.types) + " " + bt + " " + hxList(v.scripts) + " " + hxList(v.targets) + " " + hxList(order)
}

func sameView(a, b ctxView) bool {
	eq := func(x, y []string) bool {
		if len(x) != len(y) {
			return false
		}
		for i := range x {
			if x[i] != y[i] {
				return false
			}
		}
		return true
	}
	if !eq(a.types, b.types) || !eq(a.scripts, b.scripts) || !eq(a.targets, b.targets) || len(a.boosts) != len(b.boosts) {
		return false
	}
	for k, v := range a.boosts {
		w, ok := b.boosts[k]
		if !ok || math.Float64bits(v) != math.Float64bits(w) {
			return false
		}
	}
	return true
}

// monitorContext evaluates the analyzer clauses of C13 on the real outputs (independent of the model).
func monitorContext(mon *Mon, root string, entries []string, v ctxView, again ctxView) {
	det := func(extra string) map[string]interface{} {
		return map[string]interface{}{"entries": entries, "types": v.types, "what": extra}
	}
	seen := map[string]bool{}
	for _, t := range v.types {
		if seen[t] {
			mon.Hit("C13", "context-type-reported-twice", det(t))
		}
		seen[t] = true
	}
	generic := string(wtfctx.ProjectTypeGeneric)
	if seen[generic] && len(v.types) != 1 {
		mon.Hit("C13", "context-generic-with-other-types", det(""))
	}
	if len(v.types) == 0 {
		mon.Hit("C13", "context-no-type-at-all", det(""))
	}
	for k, b := range v.boosts {
		if math.IsNaN(b) || math.IsInf(b, 0) || b < 1 {
			mon.Hit("C13", "context-boost-below-one-or-not-finite", det(k))
		}
	}
	if !sameView(v, again) {
		mon.Hit("C13", "context-not-deterministic", det(""))
	}
	// "generic exactly when nothing is recognised", checked compositionally on the real analyzer:
	// the directory is generic iff every entry on its own (a directory holding just that entry) is;
	// and otherwise the set of types is the union of the entries' own types.
	if len(entries) <= 16 {
		union := map[string]bool{}
		for _, e := range entries {
			one, err := os.MkdirTemp("", "wtfverif-ctx1")
			if err != nil {
				continue
			}
			src := filepath.Join(root, e)
			if st, err := os.Stat(src); err == nil && st.IsDir() {
				os.Mkdir(filepath.Join(one, e), 0o755)
			} else {
				data, _ := os.ReadFile(src)
				os.WriteFile(filepath.Join(one, e), data, 0o644)
			}
			c, _ := wtfctx.NewAnalyzer().AnalyzeDirectory(one)
			os.RemoveAll(one)
			for _, t := range c.ProjectTypes {
				if string(t) != generic {
					union[string(t)] = true
				}
			}
		}
		if len(union) == 0 {
			if !(len(v.types) == 1 && v.types[0] == generic) {
				mon.Hit("C13", "context-generic-missing-when-nothing-recognised", det(""))
			}
		} else {
			if seen[generic] {
				mon.Hit("C13", "context-generic-although-recognised", det(""))
			}
			for t := range union {
				if !seen[t] {
					mon.Hit("C13", "context-type-lost", det(t))
				}
			}
			for _, t := range v.types {
				if t != generic && !union[t] {
					mon.Hit("C13", "context-type-from-nowhere", det(t))
				}
			}
		}
	}
	if seen[generic] {
		mon.Tag("generic")
	} else {
		mon.Tag("typed")
	}
	if len(v.types) >= 3 {
		mon.Tag("types-3plus")
	}
	if len(v.scripts) > 0 {
		mon.Tag("scripts")
	}
	if len(v.targets) > 0 {
		mon.Tag("targets")
	}
}

func ctxAnalyzeRecovered(root string) (c *wtfctx.Context, pan interface{}) {
	defer func() { pan = recover() }()
	c, _ = wtfctx.NewAnalyzer().AnalyzeDirectory(root)
	return c, nil
}

func execContext(ops []string, mon *Mon) []string {
	out := make([]string, 0, len(ops))
	pkgContent := ""
	for _, o := range ops {
		f := strings.Split(o, " ")
		switch f[0] {
		case "ri":
			out = append(out, "ok")
		case "pkg":
			pkgContent = UnHx(f[1])
			out = append(out, "ok")
		case "missing":
			c, err := wtfctx.NewAnalyzer().AnalyzeDirectory(filepath.Join(os.TempDir(), "wtfverif-ctx-does-not-exist", "x"))
			if err != nil || c == nil {
				out = append(out, "error")
				continue
			}
			mon.Tag("unreadable")
			out = append(out, viewOf(c).line(nil))
		case "dir":
			if len(f) != 5 {
				out = append(out, "bad-op")
				continue
			}
			d := &ctxDir{files: map[string]string{}, isDir: map[string]bool{}}
			if f[1] != "-" {
				for _, t := range strings.Split(f[1], ",") {
					dir := strings.HasSuffix(t, "/")
					n := UnHx(strings.TrimSuffix(t, "/"))
					d.listed = append(d.listed, n)
					d.isDir[n] = dir
				}
			}
			for i, n := range []string{"Makefile", "makefile"} {
				if tok := f[3+i]; strings.HasPrefix(tok, "x") {
					d.files[n] = UnHx(tok[1:])
				}
			}
			if _, listed := d.isDir["package.json"]; listed && !d.isDir["package.json"] {
				d.files["package.json"] = pkgContent
			}
			root, err := d.materialize()
			if err != nil {
				out = append(out, "fs-error")
				continue
			}
			var order []string
			if ents, err := os.ReadDir(root); err == nil {
				for _, e := range ents {
					order = append(order, e.Name())
				}
			}
			// C13 calls detection a function of the listing: an analysis that panics yields no context at all. The panic is
			// caught here so that it is reported with the listing and the file contents that provoke it (wave 7, C13-A: a
			// Makefile line beginning with ':'), instead of only as a line the model disagrees with.
			c1, pan := ctxAnalyzeRecovered(root)
			if pan != nil {
				mon.Hit("C13", "context-analyzer-panic", map[string]interface{}{"entries": order, "panic": fmt.Sprint(pan),
					"Makefile_hex": Hx(d.files["Makefile"]), "makefile_hex": Hx(d.files["makefile"]), "package_json_hex": Hx(d.files["package.json"]),
					"what": "AnalyzeDirectory panicked on this directory: no project types, scripts, targets or boosts are detected at all"})
				os.RemoveAll(root)
				out = append(out, "panic:"+strings.ReplaceAll(fmt.Sprint(pan), "\n", " "))
				pkgContent = ""
				continue
			}
			c2, _ := wtfctx.NewAnalyzer().AnalyzeDirectory(root)
			v1, v2 := viewOf(c1), viewOf(c2)
			monitorContext(mon, root, order, v1, v2)
			// the same listing somewhere else (below a directory full of project markers): same detection
			if outer, inner, e := d.materializeNested(); e == nil {
				if cn, en := wtfctx.NewAnalyzer().AnalyzeDirectory(inner); en == nil {
					if vn := viewOf(cn); !sameView(v1, vn) || strings.Join(v1.types, ",") != strings.Join(vn.types, ",") {
						mon.Hit("C13", "context-not-deterministic", map[string]interface{}{"entries": order, "types": v1.types, "types_when_nested": vn.types,
							"what": "the same listing analysed two levels below a directory holding .git, go.mod, package.json ... is detected differently: detection depends on more than the directory's listing"})
					}
					mon.Tag("context-nested-twin")
				}
				os.RemoveAll(outer)
			}
			// the boosts of ONE analysis, asked for repeatedly: where several project types boost the same word
			// with different factors the merged value must not depend on the call (Go re-randomises map order)
			if len(v1.types) > 1 {
				mon.Tag("context-several-types")
				for k := 0; k < 12; k++ {
					if !sameView(v1, viewOf(c1)) {
						mon.Hit("C13", "context-not-deterministic", map[string]interface{}{"entries": order, "types": v1.types, "what": "GetContextBoosts of the same analysis returned different boosts on call " + Itoa(k+2)})
						break
					}
				}
			}
			os.RemoveAll(root)
			out = append(out, v1.line(order))
			pkgContent = ""
		default:
			out = append(out, "bad-op")
		}
	}
	return out
}
