//go:build verif

package main

import (
	"math"
	"sort"
	"strings"

	"github.com/Vedant9500/WTF/internal/database"
	"github.com/Vedant9500/WTF/internal/nlp"
)

// C03 monitor: SearchUniversal{UseNLP:false} against a reference scorer written directly from the
// property statement.  Nothing here touches the inverted index: every field of every command is
// tokenised (maximal runs of ASCII letters/digits of the lower-cased text, length >= 2, stop words
// dropped), document frequencies / field lengths / averages are counted from those token lists, and
// the score is  sum over the query's content words (in order, with multiplicity) of
//     idf(N, df) * boost(word) * sum over fields  w_f*tf*(k1+1) / (w_f*tf + k1*((1-b_f) + b_f*len_f/avg_f))
// with k1, w_f, b_f read through VerifBM25Params() (so re-tuning is followed, not flagged) and idf
// through VerifIDF.  The reference has no idf threshold: the statement has none.
//
// classes:  candidate-set-differs, score-differs

var c03Stop = nlp.StopWords()

// c03Tokens: the tokeniser as the property describes it, byte level, independent of regexp/unicode.
func c03Tokens(s string) []string {
	var out []string
	cur := make([]byte, 0, 16)
	flush := func() {
		if len(cur) >= 2 && !c03Stop[string(cur)] {
			out = append(out, string(cur))
		}
		cur = cur[:0]
	}
	for i := 0; i < len(s); i++ {
		b := s[i]
		switch {
		case b >= 'a' && b <= 'z', b >= '0' && b <= '9':
			cur = append(cur, b)
		case b >= 'A' && b <= 'Z':
			cur = append(cur, b+32)
		default:
			flush()
		}
	}
	flush()
	return out
}

type c03Doc struct {
	tf   [4]map[string]int // cmd, desc, keys, tags
	lens [4]int
}

type c03Ref struct {
	docs []c03Doc
	df   map[string]int
	sum  [4]int
}

// c03BuildRef tokenises the lower-cased raw fields of every command (keywords and tags one by one:
// a token never spans two list elements).
func c03BuildRef(cmds []database.Command) *c03Ref {
	r := &c03Ref{docs: make([]c03Doc, len(cmds)), df: map[string]int{}}
	for i := range cmds {
		c := &cmds[i]
		var fields [4][]string
		fields[0] = c03Tokens(strings.ToLower(c.Command))
		fields[1] = c03Tokens(strings.ToLower(c.Description))
		for _, k := range c.Keywords {
			fields[2] = append(fields[2], c03Tokens(strings.ToLower(k))...)
		}
		for _, k := range c.Tags {
			fields[3] = append(fields[3], c03Tokens(strings.ToLower(k))...)
		}
		seen := map[string]bool{}
		for f := 0; f < 4; f++ {
			r.docs[i].tf[f] = map[string]int{}
			r.docs[i].lens[f] = len(fields[f])
			r.sum[f] += len(fields[f])
			for _, t := range fields[f] {
				r.docs[i].tf[f][t]++
				if !seen[t] {
					seen[t] = true
					r.df[t]++
				}
			}
		}
	}
	return r
}

func c03IsPipeline(c *database.Command) bool {
	return c.Pipeline || strings.Contains(c.Command, "|") || strings.Contains(strings.ToLower(c.Command), "pipe") ||
		strings.Contains(c.Command, "&&") || strings.Contains(c.Command, ">>")
}

// c03CachesLoaderLike: the cached lower-case fields are what the loader would have put there.
func c03CachesLoaderLike(cmds []database.Command) bool {
	for i := range cmds {
		c := &cmds[i]
		if c.CommandLower != strings.ToLower(c.Command) || c.DescriptionLower != strings.ToLower(c.Description) ||
			len(c.KeywordsLower) != len(c.Keywords) || len(c.TagsLower) != len(c.Tags) {
			return false
		}
		for j := range c.Keywords {
			if c.KeywordsLower[j] != strings.ToLower(c.Keywords[j]) {
				return false
			}
		}
		for j := range c.Tags {
			if c.TagsLower[j] != strings.ToLower(c.Tags[j]) {
				return false
			}
		}
	}
	return true
}

// c03Check evaluates the property on one executed lexical search.  ref may be nil (built on demand).
func c03Check(mon *Mon, db *database.Database, ref *c03Ref, q string, o database.SearchOptions, rs []database.SearchResult, ids []int) {
	if o.UseNLP {
		return
	}
	if ref == nil {
		ref = c03BuildRef(db.Commands)
	}
	n := len(db.Commands)
	terms := c03Tokens(strings.ToLower(strings.TrimSpace(q)))
	termCap := o.TopTermsCap
	if termCap <= 0 {
		termCap = 10
	}
	exact := len(terms) <= termCap // all content words are used; otherwise only the first four are guaranteed
	par := db.VerifBM25Params()    // k1, b(cmd,desc,keys,tags), w(cmd,desc,keys,tags), minIDF
	k1 := par[0]
	bb := [4]float64{par[1], par[2], par[3], par[4]}
	ww := [4]float64{par[5], par[6], par[7], par[8]}
	var avg [4]float64
	for f := 0; f < 4; f++ {
		if n > 0 {
			avg[f] = float64(ref.sum[f]) / float64(n)
		}
		if avg[f] <= 0 {
			avg[f] = 1
		}
	}
	elig := make([]bool, n)
	for i := range db.Commands {
		elig[i] = database.VerifPassesFilters(&db.Commands[i], o)
	}
	contains := func(d int, t string) bool {
		for f := 0; f < 4; f++ {
			if ref.docs[d].tf[f][t] > 0 {
				return true
			}
		}
		return false
	}
	score := map[int]float64{}
	for _, t := range terms {
		df := ref.df[t]
		if df == 0 {
			continue
		}
		idf := database.VerifIDF(n, df)
		boost := 1.0
		if b, ok := o.ContextBoosts[t]; ok && b > 0 {
			boost = b
		}
		for d := 0; d < n; d++ {
			if !elig[d] || !contains(d, t) {
				continue
			}
			s := 0.0
			for f := 0; f < 4; f++ {
				tf := float64(ref.docs[d].tf[f][t])
				if tf > 0 {
					norm := (1 - bb[f]) + bb[f]*(float64(ref.docs[d].lens[f])/avg[f])
					s += (ww[f] * tf * (k1 + 1)) / (ww[f]*tf + k1*norm)
				}
			}
			score[d] += idf * boost * s
		}
	}
	// first four distinct content words: guaranteed to be used whatever the length
	first := map[string]bool{}
	for i, t := range terms {
		if i < 4 {
			first[t] = true
		}
	}
	lim := o.Limit
	if lim <= 0 {
		lim = 10
	}
	det := func(extra map[string]interface{}) map[string]interface{} {
		m := map[string]interface{}{"query": q, "terms": terms, "limit": o.Limit, "n_db": n, "results": ids}
		for k, v := range extra {
			m[k] = v
		}
		return m
	}
	if len(score) == 0 && exact && o.UseFuzzy {
		mon.Tag("c03-fallback-skipped")
		return // typo fallback territory (C07)
	}
	if !exact && o.UseFuzzy && len(rs) > 0 {
		// cannot tell a fuzzy answer from a lexical one without knowing the selected terms
		anyLex := false
		for _, d := range ids {
			if d >= 0 && d < n {
				for _, t := range terms {
					if contains(d, t) {
						anyLex = true
					}
				}
			}
		}
		if !anyLex {
			return
		}
	}
	got := map[int]float64{}
	for i, d := range ids {
		got[d] = rs[i].Score
		if d < 0 || d >= n {
			mon.Hit("C03", "candidate-set-differs", det(map[string]interface{}{"why": "foreign result"}))
			return
		}
		if !elig[d] {
			mon.Hit("C03", "candidate-set-differs", det(map[string]interface{}{"why": "ineligible command returned", "doc": d}))
			return
		}
		any := false
		for _, t := range terms {
			if contains(d, t) {
				any = true
				break
			}
		}
		if !any {
			mon.Hit("C03", "candidate-set-differs", det(map[string]interface{}{"why": "returned command contains no content word of the query", "doc": d}))
			return
		}
	}
	if exact {
		mon.Tag("c03-exact-checked")
		want := len(score)
		if want > lim {
			want = lim
			mon.Tag("c03-limit-cuts")
		}
		if len(rs) != want {
			mon.Hit("C03", "candidate-set-differs", det(map[string]interface{}{"why": "number of results", "expected": want, "candidates": len(score)}))
			return
		}
		cut := math.Inf(1)
		for i, d := range ids {
			exp, ok := score[d]
			if !ok {
				mon.Hit("C03", "candidate-set-differs", det(map[string]interface{}{"why": "not a candidate", "doc": d}))
				return
			}
			g := rs[i].Score
			okScore := relClose(g, exp)
			if !okScore && o.PipelineBoost > 0 && c03IsPipeline(&db.Commands[d]) {
				okScore = relClose(g, exp*o.PipelineBoost)
				exp *= o.PipelineBoost
			}
			if !okScore {
				mon.Hit("C03", "score-differs", det(map[string]interface{}{"doc": d, "got": g, "expected": exp}))
				return
			}
			if g < cut {
				cut = g
			}
		}
		if len(score) > lim && o.PipelineBoost <= 0 {
			// the limit cut: nothing left out may beat what was returned
			ds := make([]int, 0, len(score))
			for d := range score {
				ds = append(ds, d)
			}
			sort.Ints(ds)
			for _, d := range ds {
				if _, in := got[d]; !in && score[d] > cut*(1+1e-9)+1e-12 {
					mon.Hit("C03", "candidate-set-differs", det(map[string]interface{}{"why": "a better candidate was left out", "doc": d, "its_score": score[d], "cutoff": cut}))
					return
				}
			}
		}
		if len(score) > 0 {
			mon.Tag("c03-nonempty-candidates")
		}
		return
	}
	// long query: the used terms contain the first four and are a subset of the query's words
	mon.Tag("c03-long-query-checked")
	if lim >= n {
		for d := 0; d < n; d++ {
			if !elig[d] {
				continue
			}
			for t := range first {
				if contains(d, t) && ref.df[t] > 0 {
					if _, in := got[d]; !in {
						mon.Hit("C03", "candidate-set-differs", det(map[string]interface{}{"why": "command containing one of the first four words is missing", "doc": d, "word": t}))
						return
					}
				}
			}
		}
	}
}

func relClose(a, b float64) bool {
	if a == b {
		return true
	}
	if math.IsNaN(a) || math.IsNaN(b) || math.IsInf(a, 0) || math.IsInf(b, 0) {
		return false
	}
	return math.Abs(a-b) <= 1e-12+1e-9*math.Max(math.Abs(a), math.Abs(b))
}

func init() {
	searchMonitors = append(searchMonitors, func(mon *Mon, cur *SearchRecord, prev []*SearchRecord) {
		if cur.Panic != "" || cur.DB == nil {
			return
		}
		if !c03CachesLoaderLike(cur.DB.Commands) {
			mon.Tag("c03-nonloader-caches")
			return
		}
		c03Check(mon, cur.DB, nil, cur.Query, cur.Opts, cur.Results, cur.IDs)
	})

	// c03tok: tokenizer correspondence.  Cases 0..K-1 enumerate ALL byte strings of length <= maxlen
	// over a 13-byte alphabet (K = ceil(count/chunk)); later cases are random adversarial strings.
	searchStreams["c03tok"] = func(r *Rng, tier string, idx int, args map[string]string) []string {
		maxlen := 3
		if v, ok := args["maxlen"]; ok {
			maxlen = Atoi(v)
		}
		chunk := c03TokChunk
		total := c03TokCount(maxlen)
		var ops []string
		lo := idx * chunk
		if lo < total {
			for k := lo; k < lo+chunk && k < total; k++ {
				ops = append(ops, "tokens "+Hx(c03TokString(k)))
			}
			return ops
		}
		pool := []string{"a", "Z", "0", "_", "-", ".", " ", "\t", "é", "\xff", "K", "İ", "ab", "the", "of", "The", "OF", "x1", "9z", "foo", "Bar",
			"日本", "\xc3", "\xe2\x84", ",", "/", "\n", "go", "GO", "it's", "a.b", "a_b", "a-b", "Z9", "ß", "ǅ", "\x00", "١٢", "²"}
		for i := 0; i < 40; i++ {
			var sb strings.Builder
			for j, m := 0, r.Range(1, 9); j < m; j++ {
				sb.WriteString(Pick(r, pool))
			}
			ops = append(ops, "tokens "+Hx(sb.String()))
		}
		return ops
	}

	// c03scan: lexical searches (NLP off) whose limit does not cut, on databases with duplicates, empty
	// fields, shared words across fields, per-term boosts, long queries around the term cap.
	searchStreams["c03scan"] = func(r *Rng, tier string, idx int, args map[string]string) []string {
		maxN := 25
		if tier == "thorough" {
			maxN = 80
		}
		n := r.Range(1, Pick(r, []int{3, 6, 12, maxN}))
		cmds := make([]database.Command, 0, n)
		for i := 0; i < n; i++ {
			switch {
			case i > 0 && r.Chance(1, 5):
				cmds = append(cmds, cmds[r.Intn(i)])
			case r.Chance(1, 8):
				c := genCommand(r)
				c.Keywords, c.Tags = nil, nil
				if r.Bool() {
					c.Description = ""
				}
				cmds = append(cmds, c)
			case r.Chance(1, 6):
				// the same word in several fields and several times in one field
				w := Pick(r, wordPool)
				c := genCommand(r)
				c.Command += " " + w + " " + w
				c.Description = w + " " + c.Description + " " + w
				c.Keywords = append(c.Keywords, w, w+" "+Pick(r, wordPool))
				c.Tags = append(c.Tags, strings.ToUpper(w))
				cmds = append(cmds, c)
			default:
				cmds = append(cmds, genCommand(r))
			}
		}
		ubiq := ""
		if r.Chance(1, 4) {
			// a word that (nearly) every command contains, in a database of 10+ entries: its idf is tiny but
			// positive, so it must still select candidates and contribute to scores
			ubiq = Pick(r, []string{"docker", "git", "list", "run", "zz9"})
			for len(cmds) < r.Range(10, maxN+10) {
				cmds = append(cmds, genCommand(r))
			}
			skip := -1
			if r.Bool() {
				skip = r.Intn(len(cmds))
			}
			for i := range cmds {
				if i != skip {
					cmds[i].Command = ubiq + " " + cmds[i].Command
				}
			}
			n = len(cmds)
		}
		var words []string
		if ubiq != "" {
			for k := 0; k < 8; k++ {
				words = append(words, ubiq)
			}
		}
		for i := range cmds {
			for _, t := range [][]string{{cmds[i].Command, cmds[i].Description}, cmds[i].Keywords, cmds[i].Tags} {
				for _, s := range t {
					words = append(words, c03Tokens(strings.ToLower(s))...)
				}
			}
		}
		if len(words) == 0 {
			words = wordPool
		}
		var reqs []SearchReq
		for k, m := 0, r.Range(2, 5); k < m; k++ {
			var qw []string
			nw := Pick(r, []int{1, 1, 2, 3, 4, 6, 9, 10, 11, 13, 18})
			for j := 0; j < nw; j++ {
				switch x := r.Intn(10); {
				case x < 6:
					qw = append(qw, Pick(r, words))
				case x < 8:
					qw = append(qw, Pick(r, wordPool))
				case x < 9 && len(qw) > 0:
					qw = append(qw, qw[r.Intn(len(qw))]) // repeated word: counted with multiplicity
				default:
					qw = append(qw, rword(r))
				}
			}
			q := strings.Join(qw, Pick(r, []string{" ", " ", " ", "  ", ", ", "-", "_"}))
			if r.Chance(1, 5) {
				q = strings.ToUpper(q)
			}
			o := database.SearchOptions{Limit: n + r.Intn(3), UseNLP: false, UseFuzzy: false}
			if r.Chance(1, 10) {
				o.Limit = Pick(r, []int{1, 2, 3, 0})
			}
			if r.Chance(1, 2) {
				o.ContextBoosts = map[string]float64{}
				for i, m := 0, r.Range(1, 3); i < m; i++ {
					o.ContextBoosts[Pick(r, words)] = Pick(r, []float64{1.5, 2, 3, 1.1, 0.5, 0, -1, 2.5})
				}
			}
			o.TopTermsCap = Pick(r, []int{0, 0, 0, 0, 3, 5, 12, -2})
			o.AllPlatforms = r.Chance(1, 3)
			o.Platforms = append([]string(nil), Pick(r, [][]string{nil, nil, {"windows"}, {"linux", "macos"}})...)
			o.NoCrossPlatform = r.Chance(1, 8)
			o.PipelineOnly = r.Chance(1, 12)
			o.PipelineBoost = Pick(r, []float64{0, 0, 0, 1.5})
			reqs = append(reqs, SearchReq{Query: q, Opts: o})
		}
		return SearchCaseOps(cmds, reqs, nil)
	}
}

// enumeration of all strings of length <= maxlen over c03Alphabet
var c03Alphabet = []byte{'a', 'Z', '0', '_', '-', '.', ' ', 0xC3, 0xA9, 0xFF, 0xE2, 0x84, 0xAA}

const c03TokChunk = 120

func c03TokCount(maxlen int) int {
	t, p := 0, 1
	for l := 0; l <= maxlen; l++ {
		t += p
		p *= len(c03Alphabet)
	}
	return t
}

func c03TokString(k int) string {
	l, p := 0, 1
	for k >= p {
		k -= p
		p *= len(c03Alphabet)
		l++
	}
	b := make([]byte, l)
	for i := l - 1; i >= 0; i-- {
		b[i] = c03Alphabet[k%len(c03Alphabet)]
		k /= len(c03Alphabet)
	}
	return string(b)
}
