//go:build verif

package main

import "strings"

// echo: protocol self-test domain (hex round trip).
func init() {
	Register(&Domain{
		Name: "echo",
		Gen: func(r *Rng, tier string, idx int, _ map[string]string) []string {
			n := r.Range(1, 4)
			out := []string{}
			for i := 0; i < n; i++ {
				b := make([]byte, r.Intn(6))
				for j := range b {
					b[j] = byte(r.Intn(256))
				}
				out = append(out, "hex "+Hx(string(b)))
			}
			return out
		},
		Exec: func(ops []string, mon *Mon) []string {
			out := make([]string, 0, len(ops))
			for _, o := range ops {
				f := strings.Split(o, " ")
				if len(f) == 2 && f[0] == "hex" {
					s := UnHx(f[1])
					out = append(out, Itoa(len(s))+" "+Hx(s))
				} else {
					out = append(out, "bad-op")
				}
			}
			return out
		},
	})
}
