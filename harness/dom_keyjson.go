//go:build verif

package main

import (
	"crypto/sha256"
	"encoding/hex"
	"encoding/json"
	"math"
	"reflect"
	"sort"
	"strconv"
	"strings"
	"unicode"
	"unicode/utf8"

	"github.com/Vedant9500/WTF/internal/cache"
)

// Domain keyjson (property C05, the key text): the bytes that (*SearchCache).generateCacheKey hashes, against
// Wtf.KeyJson.keyText (lean/WtfModel/Model/KeyJson.lean).
//
//	keytext <query hex> F=<bits>:<text hex>,... <Field=value ...>     request at the level of cache.SearchOptions; F always lists +0
//	                                                                   (tokens as in dom_cachelayer.go; map entries in any order)
//	coerce <hex>                                                       pass 1 of the string encoder alone
//
// The F token is the ORACLE for the model's float formatter: the text encoding/json prints for each finite float of the
// request (json.Marshal of the float64 alone).  Output of keytext: the text in hex, or `fallback` when json.Marshal
// fails (the %#v text is not modelled), then ` 1` iff keyPrefix + hex(sha256(text)) is the key the real generateCacheKey
// returns (so the text compared here is the text that is hashed).
//
// Monitor (on the real code alone, per case):
//
//	key-text-collision         two requests of the case whose key views differ (normalised query after UTF-8 coercion; per
//	                           field: absent under omitempty-and-empty, else the value with coerced strings) have the same
//	                           real key or the same text
//	fallback-text-collision    the same for the %#v family on the Go-syntax view;   fallback-text-shape: it starts "struct {"
//	float-format               a float text leaves the alphabet [0-9.eE+-] or two different finite bit patterns print alike
//	norm-query-invalid-utf8    ToLower(TrimSpace(q)) is not valid UTF-8
func init() {
	Register(&Domain{Name: "keyjson", Gen: keyjsonGen, Exec: keyjsonExec})
}

var keyjsonOptType = reflect.TypeOf(cache.SearchOptions{})

// ---------------------------------------------------------------------------------------------
// requests <-> tokens
// ---------------------------------------------------------------------------------------------

func keyjsonFloatText(x float64) (string, bool) {
	b, err := json.Marshal(x)
	if err != nil {
		return "", false
	}
	return string(b), true
}

// keyjsonOptTokens renders the non-zero fields; map entries in an order drawn from r (nil r: sorted).
func keyjsonOptTokens(r *Rng, o cache.SearchOptions) (toks []string, floats []float64) {
	v := reflect.ValueOf(o)
	for i := 0; i < v.NumField(); i++ {
		f, name := v.Field(i), keyjsonOptType.Field(i).Name
		switch f.Kind() {
		case reflect.Int, reflect.Int8, reflect.Int16, reflect.Int32, reflect.Int64:
			if f.Int() != 0 {
				toks = append(toks, name+"="+Itoa64(f.Int()))
			}
		case reflect.Bool:
			if f.Bool() {
				toks = append(toks, name+"=1")
			}
		case reflect.Float64, reflect.Float32:
			if b := math.Float64bits(f.Float()); b != 0 {
				toks = append(toks, name+"=f:"+strconv.FormatUint(b, 16))
				floats = append(floats, f.Float())
			}
		case reflect.String:
			if f.Len() > 0 {
				toks = append(toks, name+"="+Hx(f.String()))
			}
		case reflect.Slice:
			if !f.IsNil() {
				toks = append(toks, name+"=["+c05HexList(f.Interface().([]string))+"]")
			}
		case reflect.Map:
			if !f.IsNil() {
				m := f.Interface().(map[string]float64)
				ks := make([]string, 0, len(m))
				for k := range m {
					ks = append(ks, k)
				}
				sort.Strings(ks)
				if r != nil {
					for j := len(ks) - 1; j > 0; j-- {
						k := r.Intn(j + 1)
						ks[j], ks[k] = ks[k], ks[j]
					}
				}
				ps := make([]string, len(ks))
				for j, k := range ks {
					ps[j] = Hx(k) + ":" + strconv.FormatUint(math.Float64bits(m[k]), 16)
					floats = append(floats, m[k])
				}
				toks = append(toks, name+"={"+strings.Join(ps, ",")+"}")
			}
		}
	}
	return
}

// keyjsonDriverLower is the lower-case mapping the driver's query normaliser implements (Driver/CacheLayer.lean `lowerCp`): ASCII,
// Latin-1, basic Greek and Cyrillic capitals, U+0130, U+212A, U+212B.
func keyjsonDriverLower(c rune) rune {
	switch {
	case c >= 65 && c <= 90, c >= 0xC0 && c <= 0xDE && c != 0xD7, c >= 0x391 && c <= 0x3A9 && c != 0x3A2, c >= 0x410 && c <= 0x42F:
		return c + 32
	case c == 0x130:
		return 0x69
	case c == 0x212A:
		return 0x6B
	case c == 0x212B:
		return 0xE5
	}
	return c
}

// keyjsonKnownCase replaces every letter whose lower-case form the driver's normaliser does not know (the query text is
// lower-cased by the key; the text model of THIS domain carries a fixed table, not the per-case rune facts of the search domain)
func keyjsonKnownCase(q string) string {
	var b strings.Builder
	for i := 0; i < len(q); {
		c, size := utf8.DecodeRuneInString(q[i:])
		if !(c == utf8.RuneError && size == 1) && unicode.ToLower(c) != keyjsonDriverLower(c) {
			b.WriteByte('x')
		} else {
			b.WriteString(q[i : i+size])
		}
		i += size
	}
	return b.String()
}

func keyjsonLine(r *Rng, q string, o cache.SearchOptions) string {
	q = keyjsonKnownCase(q)
	toks, floats := keyjsonOptTokens(r, o)
	seen := map[uint64]bool{}
	var fs []string
	floats = append(floats, 0) // a float field without omitempty prints its zero
	for _, x := range floats {
		b := math.Float64bits(x)
		if seen[b] {
			continue
		}
		seen[b] = true
		if t, ok := keyjsonFloatText(x); ok {
			fs = append(fs, strconv.FormatUint(b, 16)+":"+Hx(t))
		}
	}
	f := "F=" + strings.Join(fs, ",")
	return strings.Join(append([]string{"keytext", Hx(q), f}, toks...), " ")
}

func keyjsonParseOpts(toks []string) cache.SearchOptions {
	var o cache.SearchOptions
	v := reflect.ValueOf(&o).Elem()
	for _, t := range toks {
		i := strings.IndexByte(t, '=')
		if i < 0 {
			panic("bad option token " + t)
		}
		f := v.FieldByName(t[:i])
		if !f.IsValid() {
			panic("unknown key field " + t[:i])
		}
		s := t[i+1:]
		switch f.Kind() {
		case reflect.Int, reflect.Int8, reflect.Int16, reflect.Int32, reflect.Int64:
			f.SetInt(Atoi64(s))
		case reflect.Bool:
			f.SetBool(s == "1")
		case reflect.Float64, reflect.Float32:
			b, err := strconv.ParseUint(strings.TrimPrefix(s, "f:"), 16, 64)
			if err != nil {
				panic("bad float token " + t)
			}
			f.SetFloat(math.Float64frombits(b))
		case reflect.String:
			f.SetString(UnHx(s))
		case reflect.Slice:
			if s == "nil" {
				continue
			}
			xs := []string{}
			if in := s[1 : len(s)-1]; in != "" {
				for _, h := range strings.Split(in, ",") {
					xs = append(xs, UnHx(h))
				}
			}
			f.Set(reflect.ValueOf(xs))
		case reflect.Map:
			if s == "nil" {
				continue
			}
			m := map[string]float64{}
			if in := s[1 : len(s)-1]; in != "" {
				for _, p := range strings.Split(in, ",") {
					kv := strings.Split(p, ":")
					b, err := strconv.ParseUint(kv[1], 16, 64)
					if err != nil {
						panic("bad map token " + t)
					}
					m[UnHx(kv[0])] = math.Float64frombits(b)
				}
			}
			f.Set(reflect.ValueOf(m))
		}
	}
	return o
}

// ---------------------------------------------------------------------------------------------
// the views (what the property says the key may depend on), written from the statement, not from encoding/json
// ---------------------------------------------------------------------------------------------

// keyjsonCoerce: every byte at which utf8.DecodeRuneInString reports (RuneError, 1) becomes 0xFF.
func keyjsonCoerce(s string) string {
	if utf8.ValidString(s) {
		return s
	}
	var sb strings.Builder
	for i := 0; i < len(s); {
		c, n := utf8.DecodeRuneInString(s[i:])
		if c == utf8.RuneError && n == 1 {
			sb.WriteByte(0xFF)
		} else {
			sb.WriteString(s[i : i+n])
		}
		i += n
	}
	return sb.String()
}

func keyjsonIsEmpty(f reflect.Value) bool {
	switch f.Kind() {
	case reflect.Int, reflect.Int8, reflect.Int16, reflect.Int32, reflect.Int64:
		return f.Int() == 0
	case reflect.Bool:
		return !f.Bool()
	case reflect.Float64, reflect.Float32:
		return f.Float() == 0
	case reflect.String, reflect.Slice, reflect.Map:
		return f.Len() == 0
	}
	return false
}

func keyjsonRenderField(f reflect.Value, str func(string) string, flt func(float64) string) string {
	switch f.Kind() {
	case reflect.Int, reflect.Int8, reflect.Int16, reflect.Int32, reflect.Int64:
		return "i" + Itoa64(f.Int())
	case reflect.Bool:
		return "b" + B(f.Bool())
	case reflect.Float64, reflect.Float32:
		return "f" + flt(f.Float())
	case reflect.String:
		return "s" + Hx(str(f.String()))
	case reflect.Slice:
		if f.IsNil() {
			return "nil"
		}
		xs := f.Interface().([]string)
		ps := make([]string, len(xs))
		for i, x := range xs {
			ps[i] = Hx(str(x))
		}
		return "[" + strings.Join(ps, ",") + "]"
	case reflect.Map:
		if f.IsNil() {
			return "nil"
		}
		m := f.Interface().(map[string]float64)
		ks := make([]string, 0, len(m))
		for k := range m {
			ks = append(ks, k)
		}
		sort.Strings(ks) // bytewise, on the raw keys
		ps := make([]string, len(ks))
		for i, k := range ks {
			ps[i] = Hx(str(k)) + ":" + flt(m[k])
		}
		return "{" + strings.Join(ps, ",") + "}"
	}
	return "?"
}

func keyjsonBits(x float64) string { return strconv.FormatUint(math.Float64bits(x), 16) }

// keyjsonView: the JSON view of a request.
func keyjsonView(nq string, o cache.SearchOptions) string {
	var sb strings.Builder
	sb.WriteString("json|q=" + Hx(keyjsonCoerce(nq)))
	v := reflect.ValueOf(o)
	for i := 0; i < v.NumField(); i++ {
		sf := keyjsonOptType.Field(i)
		omit := false
		for _, p := range strings.Split(sf.Tag.Get("json"), ",")[1:] {
			if p == "omitempty" {
				omit = true
			}
		}
		sb.WriteString("|" + sf.Name + "=")
		if omit && keyjsonIsEmpty(v.Field(i)) {
			sb.WriteString("absent")
		} else {
			sb.WriteString(keyjsonRenderField(v.Field(i), keyjsonCoerce, keyjsonBits))
		}
	}
	return sb.String()
}

// keyjsonGoView: the Go-syntax view (every field, strings exactly, all NaNs alike).
func keyjsonGoView(nq string, o cache.SearchOptions) string {
	var sb strings.Builder
	sb.WriteString("go|q=" + Hx(nq))
	v := reflect.ValueOf(o)
	flt := func(x float64) string {
		if math.IsNaN(x) {
			return "NaN"
		}
		return keyjsonBits(x)
	}
	for i := 0; i < v.NumField(); i++ {
		sb.WriteString("|" + keyjsonOptType.Field(i).Name + "=" + keyjsonRenderField(v.Field(i), func(s string) string { return s }, flt))
	}
	return sb.String()
}

// ---------------------------------------------------------------------------------------------
// execution on the real code
// ---------------------------------------------------------------------------------------------

func keyjsonNumAlphabet(s string) bool {
	if s == "" {
		return false
	}
	for i := 0; i < len(s); i++ {
		if !strings.ContainsRune("0123456789.eE+-", rune(s[i])) {
			return false
		}
	}
	return true
}

func keyjsonExec(ops []string, mon *Mon) []string {
	out := make([]string, 0, len(ops))
	type seenT struct{ view, line string }
	byKey, byText := map[string]seenT{}, map[string]seenT{}
	byView := map[string]string{}
	floatText := map[string]uint64{}
	short := func(l string) string {
		if len(l) > 1500 {
			return l[:1500] + "..."
		}
		return l
	}
	for _, l := range ops {
		f := strings.Split(l, " ")
		switch {
		case f[0] == "coerce" && len(f) == 2:
			out = append(out, Hx(keyjsonCoerce(UnHx(f[1])))+" 1")
		case f[0] == "keytext" && len(f) >= 3:
			q := UnHx(f[1])
			o := keyjsonParseOpts(f[3:])
			text, fallback, nq := cache.VerifKeyjsonText(q, o)
			key := cache.VerifKeyjsonKey(q, o)
			sum := sha256.Sum256(text)
			agree := cache.VerifKeyjsonPrefix()+hex.EncodeToString(sum[:]) == key
			if !utf8.ValidString(nq) {
				mon.Hit("C05", "norm-query-invalid-utf8", map[string]interface{}{"query": Hx(q), "normalised": Hx(nq)})
			}
			view := keyjsonView(nq, o)
			cls := "key-text-collision"
			if fallback {
				view = keyjsonGoView(nq, o)
				cls = "fallback-text-collision"
				mon.Tag("fallback")
				if !strings.HasPrefix(string(text), "struct {") {
					mon.Hit("C05", "fallback-text-shape", map[string]interface{}{"op": short(l), "text": short(string(text))})
				}
			} else {
				mon.Tag("json")
			}
			check := func(m map[string]seenT, k string) {
				if p, ok := m[k]; ok {
					if p.view != view {
						mon.Hit("C05", cls, map[string]interface{}{"a": short(p.line), "b": short(l), "key": key, "text": short(string(text)),
							"view_a": short(p.view), "view_b": short(view)})
					} else {
						mon.Tag("same-view-same-key")
					}
				} else {
					m[k] = seenT{view, l}
				}
			}
			check(byKey, key)
			check(byText, string(text))
			if pk, ok := byView[view]; ok && pk != key {
				mon.Tag("view-split") // never on the unchanged code: the view is exactly what the text determines
			}
			byView[view] = key
			// the float formatter on the floats of this request
			_, floats := keyjsonOptTokens(nil, o)
			for _, x := range floats {
				t, ok := keyjsonFloatText(x)
				if !ok {
					continue
				}
				mon.Tag("float")
				if !keyjsonNumAlphabet(t) {
					mon.Hit("C05", "float-format", map[string]interface{}{"bits": keyjsonBits(x), "text": t, "why": "alphabet"})
				}
				if b, ok := floatText[t]; ok && b != math.Float64bits(x) {
					mon.Hit("C05", "float-format", map[string]interface{}{"bits": keyjsonBits(x), "other": strconv.FormatUint(b, 16), "text": t, "why": "not injective"})
				}
				floatText[t] = math.Float64bits(x)
			}
			keyjsonTagText(mon, text, fallback)
			if fallback {
				out = append(out, "fallback "+B(agree))
			} else {
				out = append(out, Hx(string(text))+" "+B(agree))
			}
		default:
			out = append(out, "bad-op")
		}
	}
	return out
}

// keyjsonTagText counts which escape classes and value shapes the real text of the case exercised.
func keyjsonTagText(mon *Mon, text []byte, fallback bool) {
	if fallback {
		return
	}
	s := string(text)
	for _, p := range []struct{ tag, sub string }{
		{"esc-quote", `\"`}, {"esc-backslash", `\\`}, {"esc-short", `\n`}, {"esc-short", `\t`}, {"esc-short", `\r`}, {"esc-short", `\b`}, {"esc-short", `\f`},
		{"esc-control", `\u00`}, {"esc-html", `\u003c`}, {"esc-html", `\u003e`}, {"esc-html", `\u0026`}, {"esc-2028", `\u2028`}, {"esc-2028", `\u2029`},
		{"esc-invalid", `\ufffd`}, {"val-null", "null"}, {"val-negzero", ":-0"}, {"val-exp", "e+"}, {"val-exp", "e-"}, {"val-empty-array", "[]"},
		{"val-empty-object", "{}"}, {"val-empty-string", `""`},
	} {
		if strings.Contains(s, p.sub) {
			mon.Tag(p.tag)
		}
	}
	if len(s) > 2000 {
		mon.Tag("long-text")
	}
	if !utf8.Valid(text) || strings.ContainsRune(s, utf8.RuneError) {
		mon.Tag("genuine-fffd")
	}
}

// ---------------------------------------------------------------------------------------------
// generators
// ---------------------------------------------------------------------------------------------

// string pieces by escape class; `q` = usable inside a query (the driver's normaliser knows these code points)
var keyjsonPlain = []string{"a", "list", "files", "x y", "Zz", "0", "_", "~", "\x7f", "/", "'", "a,b", "a b", ":", "[", "]", "{", "}", "null", "true", "-0", "1e5"}
var keyjsonSyntax = []string{`"`, `\`, `\\`, `\"`, `","`, `"}`, `":`, `"]`, `],"`, "\\u0041", "\\ufffd", "\\u2028", `\n`, "\\u003c", `"a","b"`, `a","b`, "\\ufffd\\ufffd"}
var keyjsonHTML = []string{"<", ">", "&", "<script>", "&amp;", "a<b>c&d"}
var keyjsonUni = []string{"\xc3\xa9", "\xc3\x89", "\xcf\x83", "\xce\xa3", "\xd0\xb6", "\xd0\x96", "\xc4\xb0", "\xe2\x84\xaa", "\xe6\x97\xa5\xe6\x9c\xac", "\xf0\x9f\x98\x80", "\xe2\x80\xa8", "\xe2\x80\xa9", "\xe2\x80\xa7", "\xe2\x80\xaa", "\xc2\xa0", "\xe3\x80\x80", "\xc2\x85", "\xef\xbf\xbd", "\xef\xbf\xbc", "\xef\xbf\xbf", "\xf4\x8f\xbf\xbf", "\xc2\x80", "\xdf\xbf", "\xe0\xa0\x80", "\xf0\x90\x80\x80"} // é É σ Σ ж Ж U+0130 U+212A CJK emoji U+2028 U+2029 U+2027 U+202A NBSP U+3000 U+0085 U+FFFD U+FFFC U+FFFF U+10FFFF U+0080 U+07FF U+0800 U+10000
var keyjsonInvalid = []string{"\xff", "\xfe", "\x80", "\xbf", "\xc0\x80", "\xc1\xbf", "\xe0\x80\x80", "\xed\xa0\x80", "\xed\xbf\xbf", "\xed\xa0\x80\xed\xb0\x80",
	"\xf4\x90\x80\x80", "\xf5\x80\x80\x80", "\xf0\x80\x80\x80", "\xe2\x80", "\xe2", "\xe2\x28\xa8", "\xc3", "\xf0\x9f\x98", "\xe2\x80\xff", "\xff\xe2\x80\xa8"}

func keyjsonControl(r *Rng, idx int) string {
	// every control byte is reached: cycle through them with the case index, plus a random one
	return string([]byte{byte(idx % 32)}) + string([]byte{byte(r.Intn(32))})
}

func keyjsonPiece(r *Rng, idx int) string {
	switch r.Intn(12) {
	case 0, 1:
		return Pick(r, keyjsonPlain)
	case 2, 3:
		return Pick(r, keyjsonSyntax)
	case 4:
		return Pick(r, keyjsonHTML)
	case 5, 6:
		return Pick(r, keyjsonUni)
	case 7, 8, 9:
		return Pick(r, keyjsonInvalid)
	default:
		return keyjsonControl(r, idx)
	}
}

func keyjsonString(r *Rng, idx int) string {
	n := r.Range(0, 5)
	var sb strings.Builder
	for i := 0; i < n; i++ {
		sb.WriteString(keyjsonPiece(r, idx))
	}
	return sb.String()
}

func keyjsonLong(r *Rng, idx int, tier string) string {
	n := 1500
	if tier == "thorough" {
		n = 12000
	}
	n = r.Range(n/2, n)
	var sb strings.Builder
	for sb.Len() < n {
		if r.Chance(1, 6) {
			sb.WriteString(keyjsonPiece(r, idx))
		} else {
			sb.WriteString(Pick(r, keyjsonPlain))
		}
	}
	return sb.String()
}

// keyjsonStringVariants: strings that are close to s, some with the same view (another invalid byte), most with a different one.
func keyjsonStringVariants(r *Rng, idx int, s string) []string {
	out := []string{s}
	if !utf8.ValidString(s) {
		other := func(repl func(b byte) string) string {
			var sb strings.Builder
			for i := 0; i < len(s); {
				c, n := utf8.DecodeRuneInString(s[i:])
				if c == utf8.RuneError && n == 1 {
					sb.WriteString(repl(s[i]))
				} else {
					sb.WriteString(s[i : i+n])
				}
				i += n
			}
			return sb.String()
		}
		out = append(out,
			other(func(b byte) string { // still invalid, another byte: same view
				if b == 0xff {
					return "\xfe"
				}
				return "\xff"
			}),
			other(func(byte) string { return "\xef\xbf\xbd" }), // a genuine U+FFFD: different view
			other(func(byte) string { return `\ufffd` }),       // the six ASCII characters
			other(func(byte) string { return "" }))
	}
	if b, err := json.Marshal(s); err == nil && len(b) >= 2 {
		out = append(out, string(b[1:len(b)-1]), string(b)) // its own escaped form, with and without the quotes
	}
	p := keyjsonPiece(r, idx)
	out = append(out, s+p, p+s, s+s)
	if len(s) > 0 {
		i := r.Intn(len(s))
		out = append(out, s[:i]+s[i+1:], s[:i]+p+s[i:])
	}
	return out
}

var keyjsonInts = []int64{0, 1, -1, 9, 10, 11, 99, 100, 101, -10, 12345, math.MaxInt32, math.MinInt32, math.MaxInt32 + 1, math.MaxInt64, math.MinInt64, math.MinInt64 + 1, math.MaxInt64 - 1, 1000000000000}

func keyjsonFloatPool() []float64 {
	nz := math.Copysign(0, -1)
	minNormal := math.Float64frombits(0x0010000000000000)
	return []float64{0, nz, 1, -1, 0.5, 5, -5, 100, 12345, 1e20, 1e21, math.Nextafter(1e21, 0), math.Nextafter(1e21, math.Inf(1)), 1e22, -1e21,
		1e-6, math.Nextafter(1e-6, 0), math.Nextafter(1e-6, 1), 1e-7, -1e-7, 1e-5, 9.5e-7, 5e-324, -5e-324, math.Float64frombits(0x000fffffffffffff), minNormal,
		math.Nextafter(minNormal, 0), math.MaxFloat64, -math.MaxFloat64, 0.1, 0.2, 0.30000000000000004, 1.0 / 3, 2.0 / 3, 123456789012345678, 1e15, 1e16,
		9007199254740993, 4.35, 2.5e-10, 1.7976931348623155e308, 1e100, 1e-100, 1.5, 2.5, 1e9, 1.0000000000000002, 0.9999999999999999}
}

func keyjsonFloat(r *Rng) float64 {
	if r.Chance(3, 5) {
		return Pick(r, keyjsonFloatPool())
	}
	b := r.Next()
	if (b>>52)&0x7ff == 0x7ff { // keep it finite
		b &^= 1 << 62
	}
	if r.Chance(1, 4) { // subnormal
		b &= 0x800fffffffffffff
	}
	return math.Float64frombits(b)
}

var keyjsonNonFinite = []uint64{0x7ff8000000000001, 0xfff8000000000000, 0x7ff0000000000001, 0x7ff0000000000000, 0xfff0000000000000, 0x7fffffffffffffff}

func keyjsonFieldsOfKind(ks ...reflect.Kind) []string {
	var out []string
	for i := 0; i < keyjsonOptType.NumField(); i++ {
		for _, k := range ks {
			if keyjsonOptType.Field(i).Type.Kind() == k {
				out = append(out, keyjsonOptType.Field(i).Name)
			}
		}
	}
	return out
}

func keyjsonSet(o *cache.SearchOptions, name string, val interface{}) {
	f := reflect.ValueOf(o).Elem().FieldByName(name)
	if !f.IsValid() {
		return
	}
	switch x := val.(type) {
	case int64:
		f.SetInt(x)
	case bool:
		f.SetBool(x)
	case float64:
		f.SetFloat(x)
	case string:
		f.SetString(x)
	case []string:
		f.Set(reflect.ValueOf(x))
	case map[string]float64:
		f.Set(reflect.ValueOf(x))
	}
}

func keyjsonMap(r *Rng, idx int, n int) map[string]float64 {
	m := map[string]float64{}
	for i := 0; i < n; i++ {
		k := keyjsonString(r, idx)
		if r.Chance(1, 3) {
			k = Pick(r, keyjsonPlain) + Itoa(r.Intn(50))
		}
		m[k] = keyjsonFloat(r)
	}
	return m
}

// keyjsonRandField sets field `name` to a random non-trivial value of its kind.
func keyjsonRandField(r *Rng, idx int, o *cache.SearchOptions, name string) {
	sf, _ := keyjsonOptType.FieldByName(name)
	switch sf.Type.Kind() {
	case reflect.Int, reflect.Int8, reflect.Int16, reflect.Int32, reflect.Int64:
		if r.Chance(1, 2) {
			keyjsonSet(o, name, Pick(r, keyjsonInts))
		} else {
			keyjsonSet(o, name, int64(r.Next()))
		}
	case reflect.Bool:
		keyjsonSet(o, name, true)
	case reflect.Float64, reflect.Float32:
		keyjsonSet(o, name, keyjsonFloat(r))
	case reflect.String:
		keyjsonSet(o, name, keyjsonString(r, idx))
	case reflect.Slice:
		n := r.Range(0, 4)
		xs := make([]string, n)
		for i := range xs {
			xs[i] = keyjsonString(r, idx)
		}
		keyjsonSet(o, name, xs)
	case reflect.Map:
		keyjsonSet(o, name, keyjsonMap(r, idx, r.Range(0, 5)))
	}
}

func keyjsonRandOpts(r *Rng, idx int) cache.SearchOptions {
	var o cache.SearchOptions
	for i := 0; i < keyjsonOptType.NumField(); i++ {
		if r.Chance(1, 2) {
			keyjsonRandField(r, idx, &o, keyjsonOptType.Field(i).Name)
		}
	}
	return o
}

// keyjsonUpperASCII upper-cases the ASCII letters only (the driver's normaliser knows the lower-case mapping of a fixed set of
// non-ASCII code points; strings.ToUpper would introduce others, e.g. U+0178).
func keyjsonUpperASCII(s string) string {
	b := []byte(s)
	for i, c := range b {
		if c >= 'a' && c <= 'z' {
			b[i] = c - 32
		}
	}
	return string(b)
}

// queries: the base queries and respellings of the cache-layer domain, plus strings over the escape classes
func keyjsonQuery(r *Rng, idx int) string {
	switch r.Intn(4) {
	case 0:
		return c05Variant(r, c05BaseQuery(r))
	case 1:
		return keyjsonString(r, idx)
	case 2:
		return Pick(r, []string{" ", "\t", "\xc2\xa0", ""}) + keyjsonString(r, idx) + Pick(r, []string{" ", "\n", "\xe3\x80\x80", ""})
	default:
		return c05BaseQuery(r)
	}
}

func keyjsonGen(r *Rng, tier string, idx int, args map[string]string) []string {
	var ops []string
	add := func(q string, o cache.SearchOptions) { ops = append(ops, keyjsonLine(r, q, o)) }
	q := keyjsonQuery(r, idx)
	base := cache.SearchOptions{}
	if r.Chance(1, 2) {
		base = keyjsonRandOpts(r, idx)
	}
	keyjsonSet(&base, "Limit", int64(Pick(r, []int{0, 5, 10, 10, 20})))
	strFields := keyjsonFieldsOfKind(reflect.String)
	sliceFields := keyjsonFieldsOfKind(reflect.Slice)
	mapFields := keyjsonFieldsOfKind(reflect.Map)
	intFields := keyjsonFieldsOfKind(reflect.Int, reflect.Int8, reflect.Int16, reflect.Int32, reflect.Int64)
	floatFields := keyjsonFieldsOfKind(reflect.Float64, reflect.Float32)
	family := idx % 8
	if args["family"] != "" {
		family = Atoi(args["family"])
	}
	switch family {
	case 0: // a string slot over the escape classes and its near variants
		s := keyjsonString(r, idx)
		if r.Chance(1, 5) {
			s = keyjsonLong(r, idx, tier)
		}
		slot := r.Intn(4)
		for _, v := range keyjsonStringVariants(r, idx, s) {
			o := base
			switch {
			case slot == 0:
				add(v, o)
				continue
			case slot == 1 && len(sliceFields) > 0:
				keyjsonSet(&o, Pick(r, sliceFields), []string{"p", v, "q"})
			case slot == 2 && len(mapFields) > 0:
				keyjsonSet(&o, Pick(r, mapFields), map[string]float64{v: 1.5, "zz": 2})
			case len(strFields) > 0:
				keyjsonSet(&o, Pick(r, strFields), v)
			case len(sliceFields) > 0:
				keyjsonSet(&o, Pick(r, sliceFields), []string{v})
			}
			add(q, o)
		}
		ops = append(ops, "coerce "+Hx(s))
	case 1: // integers
		for _, f := range intFields {
			for k := 0; k < 4; k++ {
				o := base
				keyjsonSet(&o, f, Pick(r, keyjsonInts))
				add(q, o)
			}
		}
		if len(intFields) >= 2 { // the same number in two different fields
			n := Pick(r, keyjsonInts)
			for _, f := range intFields {
				var o cache.SearchOptions
				keyjsonSet(&o, f, n)
				add(q, o)
			}
		}
	case 2: // floats, alone and as map values; a float that prints like an integer
		for k := 0; k < 6; k++ {
			o := base
			x := keyjsonFloat(r)
			if len(floatFields) > 0 && r.Bool() {
				keyjsonSet(&o, Pick(r, floatFields), x)
			} else if len(mapFields) > 0 {
				keyjsonSet(&o, Pick(r, mapFields), map[string]float64{"k": x, "l": -x, "m": keyjsonFloat(r)})
			}
			add(q, o)
		}
		for _, x := range []float64{5, 0, math.Copysign(0, -1)} {
			var o cache.SearchOptions
			if len(floatFields) > 0 {
				keyjsonSet(&o, floatFields[0], x)
			}
			add(q, o)
			var o2 cache.SearchOptions
			if len(mapFields) > 0 {
				keyjsonSet(&o2, mapFields[0], map[string]float64{"k": x})
			}
			add(q, o2)
			var o3 cache.SearchOptions
			if len(intFields) > 0 {
				keyjsonSet(&o3, intFields[len(intFields)-1], int64(x))
			}
			add(q, o3)
		}
	case 3: // maps: keys that collide after coercion, many keys, keys needing escapes, empty key, prefixes
		if len(mapFields) > 0 {
			f := Pick(r, mapFields)
			sets := []map[string]float64{
				nil, {}, {"": 1}, {"a": 1}, {"a": 1, "b": 2}, {"b": 1, "a": 2}, {"a": 2, "b": 1}, {"ab": 1}, {"a": 1, "": 2},
				{"a\xff": 1, "a\xfe": 2}, {"a\xff": 2, "a\xfe": 1}, {"a\xff": 1}, {"a\xfe": 1}, {"a\xef\xbf\xbd": 1}, {"a\xff": 1, "a\xef\xbf\xbd": 2}, {"a\xef\xbf\xbd": 1, "a\xff": 2},
				{"a": 1, "A": 2, "a ": 3, " a": 4, "a\x00": 5}, {"\xef\xbf\xbf": 1, "\U00010000": 2, "": 3}, {"k\"": 1, "k\\": 2, "k<": 3},
				{`a":1,"b`: 2}, {"a": 1, "b": 2, "c": 0}, {"a": 0}, {"a": math.Copysign(0, -1)},
			}
			for _, m := range sets {
				o := base
				keyjsonSet(&o, f, m)
				add(q, o)
			}
			n := 12
			if tier == "thorough" {
				n = 120
			}
			big := keyjsonMap(r, idx, r.Range(n/2, n))
			o := base
			keyjsonSet(&o, f, big)
			add(q, o)
			add(q, o) // the same map once more, entries listed in another order
			for k := range big {
				big2 := map[string]float64{}
				for k2, v2 := range big {
					big2[k2] = v2
				}
				delete(big2, k)
				keyjsonSet(&o, f, big2)
				add(q, o)
				break
			}
		}
	case 4: // slices
		if len(sliceFields) > 0 {
			f := Pick(r, sliceFields)
			for _, xs := range [][]string{nil, {}, {""}, {"", ""}, {"a"}, {"a", "b"}, {"b", "a"}, {"a b"}, {"a,b"}, {`a","b`}, {"ab"}, {"a", "b", ""}, {"", "a", "b"},
				{"a", "", "b"}, {"[]"}, {"null"}, {"\xff"}, {"\xfe"}, {"\xef\xbf\xbd"}, {"a", "\xff"}, {"a\xff"}} {
				o := base
				keyjsonSet(&o, f, xs)
				add(q, o)
			}
			n := r.Range(5, 40)
			xs := make([]string, n)
			for i := range xs {
				xs[i] = keyjsonString(r, idx)
			}
			o := base
			keyjsonSet(&o, f, xs)
			add(q, o)
			keyjsonSet(&o, f, append([]string{}, xs[1:]...))
			add(q, o)
		}
	case 5: // presence: every field empty / non-empty, one at a time from the zero record and from a full record
		var zero, full cache.SearchOptions
		for i := 0; i < keyjsonOptType.NumField(); i++ {
			keyjsonRandField(r, idx, &full, keyjsonOptType.Field(i).Name)
		}
		add(q, zero)
		add(q, full)
		for i := 0; i < keyjsonOptType.NumField(); i++ {
			name := keyjsonOptType.Field(i).Name
			o := zero
			keyjsonRandField(r, idx, &o, name)
			add(q, o)
			o2 := full
			reflect.ValueOf(&o2).Elem().Field(i).Set(reflect.Zero(keyjsonOptType.Field(i).Type))
			add(q, o2)
			// empty but not nil
			switch keyjsonOptType.Field(i).Type.Kind() {
			case reflect.Slice:
				o3 := zero
				keyjsonSet(&o3, name, []string{})
				add(q, o3)
			case reflect.Map:
				o3 := zero
				keyjsonSet(&o3, name, map[string]float64{})
				add(q, o3)
			case reflect.Float64:
				o3 := zero
				keyjsonSet(&o3, name, math.Copysign(0, -1))
				add(q, o3)
			}
		}
	case 6: // queries: respellings (same normal form), paddings, the escape classes inside the query
		b := c05BaseQuery(r)
		add(b, base)
		for k := 0; k < 4; k++ {
			add(c05Variant(r, b), base)
		}
		s := keyjsonString(r, idx)
		for _, v := range []string{s, " " + s, s + "\t", keyjsonUpperASCII(s), s + "x", "x" + s} {
			add(v, base)
		}
		ops = append(ops, "coerce "+Hx(s), "coerce "+Hx(keyjsonString(r, idx)))
	default: // random requests, single-field deltas, an exact repeat; NaN / ±Inf now and then
		o := keyjsonRandOpts(r, idx)
		add(q, o)
		add(q, o)
		for k := 0; k < 5; k++ {
			o2 := o
			keyjsonRandField(r, idx, &o2, keyjsonOptType.Field(r.Intn(keyjsonOptType.NumField())).Name)
			add(q, o2)
		}
		if r.Chance(1, 2) && (len(floatFields) > 0 || len(mapFields) > 0) {
			for k := 0; k < 4; k++ {
				o2 := o
				x := math.Float64frombits(Pick(r, keyjsonNonFinite))
				if len(floatFields) > 0 && r.Bool() {
					keyjsonSet(&o2, Pick(r, floatFields), x)
				} else if len(mapFields) > 0 {
					keyjsonSet(&o2, Pick(r, mapFields), map[string]float64{"n": x, "a\xff": 1})
				}
				add(q, o2)
				if r.Bool() { // another field differs under the same non-finite value
					keyjsonRandField(r, idx, &o2, Pick(r, append(intFields, sliceFields...)))
					add(q, o2)
				}
			}
		}
	}
	if len(ops) == 0 {
		add(q, base)
	}
	return ops
}
