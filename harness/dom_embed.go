//go:build verif

package main

import (
	"encoding/binary"
	"encoding/hex"
	"errors"
	"fmt"
	"io"
	"math"
	"os"
	"os/exec"
	"path/filepath"
	"regexp"
	"runtime"
	"sort"
	"strconv"
	"strings"
	"syscall"
	"time"

	"github.com/Vedant9500/WTF/internal/constants"
	"github.com/Vedant9500/WTF/internal/database"
	"github.com/Vedant9500/WTF/internal/embedding"
)

// embed: correspondence of internal/embedding (CosineSimilarity, the two loaders, EmbedQuery) and
// of the semantic stage of internal/database with Model/Embedding.lean, plus the C19 monitor.
//
//	cos <vecA> <vecB>                    -> f:<bits>            (vectors: hex of little-endian float32s, "-" empty)
//	loadwv <file>                        -> ok <vocab> <fnv> | err <class>
//	loadce <dim> <file>                  -> ok <n> <fnv> | err <class> untouched|partial:<len>
//	loademb <glove|none> <cmd|none>      -> has=<0|1> words=<n> cmds=<n>   ((*Database).LoadEmbeddings in a child whose cwd holds the files)
//	idx <dim> / word <w> <vec> / cmdemb <vec|nil> / db <n> <built> / attach <0|1>   -> ok
//	embedq <query>                       -> nil | <vec> | panic:index | nonascii
//	sem <query> (<id> f:<score>)*        -> (<id> f:<score>)* | - | panic:index | nonascii
//	search <query> <usenlp>              -> ok        (monitor only: paired SearchUniversal runs)
func init() {
	Register(&Domain{Name: "embed", Gen: genEmbed, Exec: execEmbed})
	RegisterTool("c19-load", toolC19Load)
	RegisterTool("c19-loademb", toolC19LoadEmb)
	// c19-trunc-n <kind> <base seed>: number of cases of the exhaustive truncation stream
	RegisterTool("c19-trunc-n", func(a []string) int {
		if len(a) != 2 {
			return 2
		}
		fmt.Println(truncCases(map[string]string{"base": a[1]}, a[0]))
		return 0
	})
}

// ---------------------------------------------------------------------------------------------
// encoding helpers
// ---------------------------------------------------------------------------------------------

func vecHex(bits []uint32) string {
	if len(bits) == 0 {
		return "-"
	}
	b := make([]byte, 4*len(bits))
	for i, v := range bits {
		binary.LittleEndian.PutUint32(b[4*i:], v)
	}
	return hex.EncodeToString(b)
}

func unVecBits(tok string) []uint32 {
	b := []byte(UnHx(tok))
	out := make([]uint32, 0, len(b)/4)
	for i := 0; i+4 <= len(b); i += 4 {
		out = append(out, binary.LittleEndian.Uint32(b[i:]))
	}
	return out
}

func f32s(bits []uint32) []float32 {
	out := make([]float32, len(bits))
	for i, v := range bits {
		out[i] = math.Float32frombits(v)
	}
	return out
}

func bitsOf(v []float32) []uint32 {
	out := make([]uint32, len(v))
	for i, x := range v {
		out[i] = math.Float32bits(x)
	}
	return out
}

func fb(x float32) uint32 { return math.Float32bits(x) }

type fnv64 uint64

func newFnv() fnv64 { return 14695981039346656037 }
func (h *fnv64) add(b byte) {
	*h = (*h ^ fnv64(b)) * 1099511628211
}
func (h *fnv64) u32(v uint32) {
	h.add(byte(v))
	h.add(byte(v >> 8))
	h.add(byte(v >> 16))
	h.add(byte(v >> 24))
}

// ---------------------------------------------------------------------------------------------
// generators
// ---------------------------------------------------------------------------------------------

var embPool = []string{"ls", "cp", "git", "commit", "tar", "compress", "files", "list", "directory", "docker", "run", "container",
	"find", "search", "text", "network", "copy", "remove", "archive", "zip", "show", "disk"}

func randVecBits(r *Rng, dim int, family int) []uint32 {
	v := make([]uint32, dim)
	for i := range v {
		switch family {
		case 0: // small integers, exactly representable
			v[i] = fb(float32(r.Range(-4, 4)))
		case 1: // generic
			v[i] = fb(float32(r.Float()*2 - 1))
		case 2: // zeros of both signs
			if r.Bool() {
				v[i] = 0x80000000
			}
		case 3: // denormals
			v[i] = uint32(r.Range(1, 0x7fffff)) | uint32(r.Intn(2))<<31
		case 4: // huge magnitudes: squares overflow float32 but not float64; sums stay finite
			v[i] = fb(float32(3e38) * float32(r.Range(1, 10)) / 10)
			if r.Bool() {
				v[i] |= 0x80000000
			}
		case 5: // NaN / Inf bit patterns mixed with ordinary values
			v[i] = Pick(r, []uint32{0x7fc00000, 0x7f800000, 0xff800000, 0x7fa00001, 0xffc00000, fb(1), fb(-2), 0})
		case 6: // arbitrary bit patterns
			v[i] = uint32(r.Next())
		case 9: // positive components: pairwise cosines are large
			v[i] = fb(float32(r.Float()))
		case 7: // GloVe-like magnitudes
			v[i] = fb(float32((r.Float()*2 - 1) * 1.7))
		default: // tiny normal numbers: squares underflow towards 0 in float64? (no: 1e-38^2 = 1e-76 is fine)
			v[i] = fb(float32(1e-38) * float32(r.Range(1, 9)))
		}
	}
	return v
}

func genCos(r *Rng, tier string) []string {
	n := 12
	ops := make([]string, 0, n+2)
	// the historical overshoot: cos([1,1,1],[1,1,1]) = 3/(sqrt(3)*sqrt(3)) = 1.0000000000000002 without the clamp
	if r.Chance(1, 4) {
		one3 := []uint32{fb(1), fb(1), fb(1)}
		ops = append(ops, "cos "+vecHex(one3)+" "+vecHex(one3))
	}
	if r.Chance(1, 3) {
		// non-identical parallel vectors of decimal fractions
		k := Pick(r, []float32{3, 10, 0.1, -3})
		a := []float32{0.1, 0.1, 1}
		if r.Bool() {
			a = []float32{0.3, 0.7, 0.1, 0.9}
		}
		av, bv := make([]uint32, len(a)), make([]uint32, len(a))
		for j := range a {
			av[j], bv[j] = fb(a[j]), fb(a[j]*k)
		}
		ops = append(ops, "cos "+vecHex(av)+" "+vecHex(bv))
	}
	for i := 0; i < n; i++ {
		dim := Pick(r, []int{0, 1, 2, 3, 3, 5, 8, 100, 100})
		a := randVecBits(r, dim, r.Intn(9))
		var b []uint32
		switch r.Intn(10) {
		case 0, 1: // identical (overshoot candidates)
			b = append([]uint32{}, a...)
		case 2: // negated
			b = make([]uint32, dim)
			for j := range a {
				b[j] = a[j] ^ 0x80000000
			}
		case 3: // scaled by 2 (exact)
			b = make([]uint32, dim)
			for j := range a {
				b[j] = fb(math.Float32frombits(a[j]) * 2)
			}
		case 6: // parallel or anti-parallel up to rounding (scaled by 3, 10, 0.1 ...): three separately rounded sums, |cos| ~ 1
			k := Pick(r, []float32{3, 10, 0.1, -3, -0.1, 7, 1.1, -10})
			b = make([]uint32, dim)
			for j := range a {
				b[j] = fb(math.Float32frombits(a[j]) * k)
			}
		case 4: // mismatched length
			b = randVecBits(r, Pick(r, []int{0, 1, dim + 1, dim + 3}), r.Intn(9))
		case 5: // all zero
			b = randVecBits(r, dim, 2)
		default:
			b = randVecBits(r, dim, r.Intn(9))
		}
		if r.Bool() {
			a, b = b, a
		}
		ops = append(ops, "cos "+vecHex(a)+" "+vecHex(b))
	}
	return ops
}

func le32(v uint32) []byte {
	b := make([]byte, 4)
	binary.LittleEndian.PutUint32(b, v)
	return b
}

type wvRec struct {
	word string
	vec  []uint32
}

func buildWV(count uint32, recs []wvRec) []byte {
	out := le32(count)
	for _, rc := range recs {
		out = append(out, byte(len(rc.word)), byte(len(rc.word)>>8))
		out = append(out, rc.word...)
		for _, v := range rc.vec {
			out = append(out, le32(v)...)
		}
	}
	return out
}

func buildCE(count, dim uint32, vecs [][]uint32) []byte {
	out := append(le32(count), le32(dim)...)
	for _, v := range vecs {
		for _, x := range v {
			out = append(out, le32(x)...)
		}
	}
	return out
}

func randWord(r *Rng) string {
	switch r.Intn(8) {
	case 0:
		return ""
	case 1:
		return string([]byte{byte(r.Intn(256)), byte(r.Intn(256))})
	case 2:
		return strings.Repeat("x", r.Range(1, 40))
	default:
		return Pick(r, embPool)
	}
}

func randWVRecs(r *Rng, n int) []wvRec {
	recs := make([]wvRec, n)
	for i := range recs {
		recs[i] = wvRec{randWord(r), randVecBits(r, 100, Pick(r, []int{0, 1, 5, 6, 7}))}
	}
	return recs
}

// hostile header counts relative to the n records really present
func headerCounts(n int) []uint32 {
	return []uint32{0, 1, uint32(n), uint32(n + 1), 1 << 31, 1<<32 - 1, uint32(n) + 1<<16, 1 << 24}
}

func genFiles(r *Rng, tier string) []string {
	ops := []string{}
	maxRec := 4
	if tier == "thorough" {
		maxRec = 12
	}
	for k := 0; k < 4; k++ {
		// word vectors
		n := r.Range(0, maxRec)
		recs := randWVRecs(r, n)
		cnt := uint32(n)
		if r.Chance(1, 2) {
			cnt = Pick(r, headerCounts(n))
		}
		file := buildWV(cnt, recs)
		switch r.Intn(8) {
		case 0: // truncated somewhere
			file = file[:r.Intn(len(file)+1)]
		case 1: // trailing garbage
			for i := r.Range(1, 500); i > 0; i-- {
				file = append(file, byte(r.Intn(256)))
			}
		case 2: // a word length that points past the end
			if n > 0 {
				file[4], file[5] = 0xff, 0xff
			}
		case 3: // random bytes
			file = make([]byte, r.Range(0, 900))
			for i := range file {
				file[i] = byte(r.Intn(256))
			}
		case 4: // random bytes behind a small count
			file = append(le32(uint32(r.Range(0, 3))), make([]byte, r.Range(0, 900))...)
			for i := 4; i < len(file); i++ {
				file[i] = byte(r.Intn(256))
			}
		}
		ops = append(ops, "loadwv "+Hx(string(file)))
		// command embeddings
		idim := Pick(r, []int{100, 100, 3, 1, 0, 7})
		fdim := uint32(idim)
		if r.Chance(1, 5) {
			fdim = Pick(r, []uint32{0, 1, 3, 99, 101, 100, 1 << 31, 1<<32 - 1, 1 << 30})
		}
		m := r.Range(0, maxRec)
		vecs := make([][]uint32, m)
		for i := range vecs {
			vecs[i] = randVecBits(r, int(fdim%1000), Pick(r, []int{0, 1, 5, 6, 7}))
		}
		ccnt := uint32(m)
		if r.Chance(1, 2) {
			ccnt = Pick(r, headerCounts(m))
		}
		cfile := buildCE(ccnt, fdim, vecs)
		switch r.Intn(8) {
		case 0:
			cfile = cfile[:r.Intn(len(cfile)+1)]
		case 1:
			for i := r.Range(1, 50); i > 0; i-- {
				cfile = append(cfile, byte(r.Intn(256)))
			}
		case 2:
			cfile = make([]byte, r.Range(0, 60))
			for i := range cfile {
				cfile[i] = byte(r.Intn(256))
			}
		}
		ops = append(ops, "loadce "+Itoa(idim)+" "+Hx(string(cfile)))
		if k == 0 { // LoadEmbeddings on a directory holding (or not) these two files
			g, c := Hx(string(file)), Hx(string(cfile))
			switch r.Intn(6) {
			case 0:
				g = "none"
			case 1:
				c = "none"
			case 2:
				g, c = "none", "none"
			case 3: // a loadable word-vector file next to whatever the command file is
				g = Hx(string(buildWV(uint32(n), recs)))
			case 4: // both loadable
				g = Hx(string(buildWV(uint32(n), recs)))
				cv := make([][]uint32, m)
				for i := range cv {
					cv[i] = randVecBits(r, 100, 7)
				}
				c = Hx(string(buildCE(uint32(m), 100, cv)))
			}
			ops = append(ops, "loademb "+g+" "+c)
		}
	}
	return ops
}

// the base files of the exhaustive truncation streams depend on the run seed only
func truncBase(args map[string]string, kind string) (file []byte, dim int) {
	seed, _ := strconv.ParseUint(args["base"], 10, 64)
	r := NewRng(seed, 0, "embed-trunc-"+kind)
	switch kind {
	case "wv":
		// The size check admits a prefix only if it holds 402 bytes per claimed record, so short reads
		// inside records need slack: a 900-byte word makes prefixes of 808..1712 bytes pass the check
		// and fail in the word / vector of record 0 and in every field of record 1.
		recs := []wvRec{{strings.Repeat(Pick(r, embPool), 450)[:900], randVecBits(r, 100, 7)}, {Pick(r, embPool), randVecBits(r, 100, 6)}}
		return buildWV(2, recs), 100
	case "ce100":
		return buildCE(2, 100, [][]uint32{randVecBits(r, 100, 7), randVecBits(r, 100, 6)}), 100
	default: // ce3
		return buildCE(3, 3, [][]uint32{randVecBits(r, 3, 1), randVecBits(r, 3, 6), randVecBits(r, 3, 0)}), 3
	}
}

const truncPerCase = 16

// TruncCases: how many cases the exhaustive stream of `kind` has (used by `tool c19-trunc-n`).
func truncCases(args map[string]string, kind string) int {
	f, _ := truncBase(args, kind)
	return (len(f) + 1 + truncPerCase - 1) / truncPerCase
}

func genTrunc(args map[string]string, idx int) []string {
	kind := args["kind"]
	file, dim := truncBase(args, kind)
	ops := []string{}
	for off := idx * truncPerCase; off < (idx+1)*truncPerCase && off <= len(file); off++ {
		if kind == "wv" {
			ops = append(ops, "loadwv "+Hx(string(file[:off])))
		} else {
			ops = append(ops, "loadce "+Itoa(dim)+" "+Hx(string(file[:off])))
		}
	}
	return ops
}

func randQuery(r *Rng, words []string) string {
	n := Pick(r, []int{0, 1, 2, 2, 3, 3, 4})
	parts := []string{}
	for i := 0; i < n; i++ {
		switch r.Intn(16) {
		case 0:
			parts = append(parts, strings.ToUpper(Pick(r, words)))
		case 1:
			parts = append(parts, "zzunknown")
		case 2:
			parts = append(parts, Pick(r, []string{"a", "x", "7"}))
		case 3:
			parts = append(parts, Pick(r, words)+Pick(r, []string{"-", "_", ".", "/", "!!"})+Pick(r, words))
		default:
			parts = append(parts, Pick(r, words))
		}
	}
	q := strings.Join(parts, Pick(r, []string{" ", "  ", ",", " - "}))
	if r.Chance(1, 12) {
		q += Pick(r, []string{" caf\xc3\xa9", " \xff\xfe", " \xe2\x84\xaa"})
	}
	return q
}

func genSem(r *Rng, tier string) []string {
	dim := Pick(r, []int{3, 3, 3, 3, 5, 5, 2, 1, 0, 100})
	ops := []string{"idx " + Itoa(dim)}
	words := append([]string{}, embPool...)
	nw := Pick(r, []int{0, 3, 10, 20, 30, 30})
	// a hand-made index whose word vectors do not have the index's dimension (the loaders never
	// produce one: theorem embed_no_panic) makes EmbedQuery index out of range; such cases check the
	// model of that panic and contain no whole-search op
	incons := r.Chance(1, 12)
	for i := 0; i < nw; i++ {
		w := Pick(r, words)
		switch r.Intn(12) {
		case 0:
			w = strings.ToUpper(w) // never matches a (lower-cased) token
		case 1:
			w = "x" // shorter than 2 bytes: never a token
		}
		vdim := dim
		if incons && r.Chance(1, 4) {
			vdim = dim + 1
		} else if incons && r.Chance(1, 4) && dim > 0 {
			vdim = dim - 1
		}
		fam := Pick(r, []int{0, 1, 9, 9, 9, 9, 7, 2})
		if r.Chance(1, 25) {
			fam = Pick(r, []int{4, 5})
		}
		ops = append(ops, "word "+Hx(w)+" "+vecHex(randVecBits(r, vdim, fam)))
	}
	n := r.Range(1, 9)
	ncmd := Pick(r, []int{n, n, n, n, n, 0, n - 1, n + 2})
	for i := 0; i < ncmd; i++ {
		if r.Chance(1, 15) {
			ops = append(ops, "cmdemb nil")
		} else {
			fam := Pick(r, []int{0, 1, 9, 9, 9, 7, 2})
			ops = append(ops, "cmdemb "+vecHex(randVecBits(r, dim, fam)))
		}
	}
	ops = append(ops, "db "+Itoa(n)+" "+B(r.Bool()))
	attached := r.Chance(4, 5)
	ops = append(ops, "attach "+B(attached))
	scores := []float64{0, 0.5, 1, 2.75, 2.75, 10, 10, 3.5, 1e-300, 1e300, 7.25, 0.1}
	for k := r.Range(2, 5); k > 0; k-- {
		kind := r.Intn(5)
		if incons && kind == 4 {
			kind = 1
		}
		switch kind {
		case 0:
			ops = append(ops, "embedq "+Hx(randQuery(r, words)))
		case 1, 2, 3:
			m := Pick(r, []int{0, 1, n, n, n + 1, r.Range(0, n+1)})
			toks := []string{}
			list := make([][2]interface{}, 0, m)
			for i := 0; i < m; i++ {
				id := r.Intn(n)
				if r.Chance(1, 12) {
					id = n + r.Intn(2) // a result that does not belong to the database
				}
				s := Pick(r, scores)
				if r.Chance(1, 30) {
					s = -s
				}
				list = append(list, [2]interface{}{id, s})
			}
			if r.Chance(3, 4) { // what the pipeline delivers: already in descending order
				sort.SliceStable(list, func(i, j int) bool { return list[i][1].(float64) > list[j][1].(float64) })
			}
			for _, e := range list {
				toks = append(toks, Itoa(e[0].(int)), F(e[1].(float64)))
			}
			ops = append(ops, strings.TrimSpace("sem "+Hx(randQuery(r, words))+" "+strings.Join(toks, " ")))
		default:
			ops = append(ops, "search "+Hx(randQuery(r, words))+" "+B(r.Bool()))
		}
		if r.Chance(1, 6) {
			attached = !attached
			ops = append(ops, "attach "+B(attached))
		}
		if dim > 0 && ncmd > 0 && r.Chance(1, 3) {
			// a second command-embedding file loaded into the SAME index (regenerated embeddings): as many commands as before,
			// other vectors (other magnitudes) - anything the index keeps per command must follow the new file
			toks := make([]string, ncmd)
			fam := Pick(r, []int{9, 7, 2, 1})
			for i := range toks {
				toks[i] = vecHex(randVecBits(r, dim, fam))
			}
			ops = append(ops, "reloadce "+strings.Join(toks, " "))
		}
	}
	return ops
}

func genEmbed(r *Rng, tier string, idx int, args map[string]string) []string {
	switch args["stream"] {
	case "cos":
		return genCos(r, tier)
	case "files":
		return genFiles(r, tier)
	case "trunc":
		return genTrunc(args, idx)
	case "sem":
		return genSem(r, tier)
	}
	switch idx % 3 {
	case 0:
		return genCos(r, tier)
	case 1:
		return genFiles(r, tier)
	}
	return genSem(r, tier)
}

// ---------------------------------------------------------------------------------------------
// running the loaders
// ---------------------------------------------------------------------------------------------

var reShortAt = regexp.MustCompile(`^failed to read (word length|word|vector|embedding) at (\d+): `)
var reTooShort = regexp.MustCompile(`file too short for (\d+) (entries|embeddings)$`)
var reDim = regexp.MustCompile(`^dimension mismatch: expected (-?\d+), got (\d+)$`)

// errClass maps a loader error to the model's error enum.
func errClass(err error) string {
	msg := err.Error()
	kind := ""
	switch {
	case errors.Is(err, io.ErrUnexpectedEOF):
		kind = "ueof"
	case errors.Is(err, io.EOF):
		kind = "eof"
	}
	part := map[string]string{"word length": "wordLen", "word": "word", "vector": "vector", "embedding": "embedding"}
	if m := reShortAt.FindStringSubmatch(msg); m != nil && kind != "" {
		return "short:" + part[m[1]] + ":" + m[2] + ":" + kind
	}
	for pre, p := range map[string]string{"failed to read vocab size: ": "vocabSize", "failed to read num commands: ": "numCommands", "failed to read dimension: ": "dimension"} {
		if strings.HasPrefix(msg, pre) && kind != "" {
			return "short:" + p + ":0:" + kind
		}
	}
	if m := reTooShort.FindStringSubmatch(msg); m != nil {
		return "tooshort:" + m[1]
	}
	if m := reDim.FindStringSubmatch(msg); m != nil {
		return "dim:" + m[1] + ":" + m[2]
	}
	return "other:" + strings.ReplaceAll(msg, " ", "_")
}

func scratchDir() string {
	d := os.Getenv("WTFVERIF_SCRATCH")
	if d == "" { // next to the harness binary (.build/), never a fixed place outside the framework
		d = os.TempDir()
		if self, err := os.Executable(); err == nil {
			d = filepath.Join(filepath.Dir(self), "scratch-c19")
		}
	}
	os.MkdirAll(d, 0o755)
	return d
}

func writeScratch(content []byte) (string, error) {
	f, err := os.CreateTemp(scratchDir(), "c19-*.bin")
	if err != nil {
		return "", err
	}
	defer f.Close()
	if _, err := f.Write(content); err != nil {
		return "", err
	}
	return f.Name(), nil
}

// loadWVLine runs LoadWordVectors on a file and renders the protocol line.
func loadWVLine(path string) (line string, idx *embedding.Index) {
	idx, err := embedding.LoadWordVectors(path)
	if err != nil {
		if idx != nil {
			return "err " + errClass(err) + " index-not-nil", idx
		}
		return "err " + errClass(err), nil
	}
	if idx == nil {
		return "nil-nil", nil
	}
	keys := make([]string, 0, len(idx.WordVectors))
	for k := range idx.WordVectors {
		keys = append(keys, k)
	}
	sort.Strings(keys)
	h := newFnv()
	for _, k := range keys {
		h.add(byte(len(k)))
		h.add(byte(len(k) >> 8))
		for i := 0; i < len(k); i++ {
			h.add(k[i])
		}
		for _, x := range idx.WordVectors[k] {
			h.u32(math.Float32bits(x))
		}
	}
	return fmt.Sprintf("ok %d %x", len(keys), uint64(h)), idx
}

var ceSentinel = [][]float32{{42}}

func loadCELine(dim int, path string) (line string, idx *embedding.Index) {
	idx = &embedding.Index{Dimension: dim, CmdEmbeddings: ceSentinel}
	err := idx.LoadCommandEmbeddings(path)
	untouched := len(idx.CmdEmbeddings) == 1 && &idx.CmdEmbeddings[0] == &ceSentinel[0]
	if err != nil {
		if untouched {
			return "err " + errClass(err) + " untouched", idx
		}
		return fmt.Sprintf("err %s partial:%d", errClass(err), len(idx.CmdEmbeddings)), idx
	}
	if untouched {
		return "ok-but-untouched", idx
	}
	h := newFnv()
	for _, v := range idx.CmdEmbeddings {
		for _, x := range v {
			h.u32(math.Float32bits(x))
		}
	}
	return fmt.Sprintf("ok %d %x", len(idx.CmdEmbeddings), uint64(h)), idx
}

func vmKB(field string) int64 {
	b, err := os.ReadFile("/proc/self/status")
	if err != nil {
		return -1
	}
	for _, l := range strings.Split(string(b), "\n") {
		if strings.HasPrefix(l, field+":") {
			f := strings.Fields(l)
			if len(f) >= 2 {
				v, _ := strconv.ParseInt(f[1], 10, 64)
				return v
			}
		}
	}
	return -1
}

// capAddressSpace lets this process map at most `extra` more bytes of address space.
func capAddressSpace(extra int64) {
	if cur := vmKB("VmSize"); cur > 0 && extra > 0 {
		lim := uint64(cur*1024 + extra)
		syscall.Setrlimit(syscall.RLIMIT_AS, &syscall.Rlimit{Cur: lim, Max: lim})
	}
}

// tool c19-load wv <path> | ce <dim> <path>  [-as <bytes of address space beyond the current size>]
// Runs one loader in this (child) process under an address-space cap it imposes on itself and
// prints the protocol line and the peak resident set size.
func toolC19Load(args []string) int {
	extra := int64(1 << 30)
	if len(args) >= 2 && args[0] == "-as" {
		extra, _ = strconv.ParseInt(args[1], 10, 64)
		args = args[2:]
	}
	capAddressSpace(extra)
	base := vmKB("VmHWM")
	line := "bad-args"
	switch {
	case len(args) == 2 && args[0] == "wv":
		line, _ = loadWVLine(args[1])
	case len(args) == 3 && args[0] == "ce":
		line, _ = loadCELine(Atoi(args[1]), args[2])
	}
	fmt.Printf("R %s\nHWM %d %d\n", line, base, vmKB("VmHWM"))
	return 0
}

// tool c19-loademb <dir>: (*Database).LoadEmbeddings with <dir> as working directory.
func toolC19LoadEmb(args []string) int {
	if len(args) != 1 || os.Chdir(args[0]) != nil {
		fmt.Println("bad-args")
		return 2
	}
	capAddressSpace(1 << 30)
	db := &database.Database{}
	err := db.LoadEmbeddings()
	idx := db.VerifEmbeddingIndex()
	w, c := -1, -1
	if idx != nil {
		w, c = idx.VocabSize(), idx.NumCommands()
	}
	fmt.Printf("err=%v has=%s words=%d cmds=%d\n", err != nil, B(db.HasEmbeddings()), w, c)
	return 0
}

// execLoadEmb: LoadEmbeddings in a child process whose working directory holds glove.bin /
// cmd_embeddings.bin (or not).
func execLoadEmb(g, c, op string, mon *Mon) string {
	dir, err := os.MkdirTemp(scratchDir(), "c19-emb-*")
	if err != nil {
		return "scratch-error"
	}
	defer os.RemoveAll(dir)
	if g != "none" {
		target := dir
		if len(c)%2 == 0 && len(g)%4 == 0 { // both lookup locations of FindAssetPath
			target = filepath.Join(dir, "assets")
			os.Mkdir(target, 0o755)
		}
		os.WriteFile(filepath.Join(target, "glove.bin"), []byte(UnHx(g)), 0o644)
	}
	if c != "none" {
		os.WriteFile(filepath.Join(dir, "cmd_embeddings.bin"), []byte(UnHx(c)), 0o644)
	}
	self, err := os.Executable()
	if err != nil {
		return "no-executable"
	}
	var errb strings.Builder
	var out []byte
	for attempt := 0; attempt < 5; attempt++ {
		cmd := exec.Command(self, "tool", "c19-loademb", dir)
		cmd.Env = append(os.Environ(), "GOMEMLIMIT=512MiB", "GOMAXPROCS=2")
		errb.Reset()
		cmd.Stderr = &errb
		out, err = cmd.Output()
		if err != nil && c19ChildCouldNotStart(errb.String()) && len(out) == 0 {
			// EAGAIN from clone: the machine's thread budget, not the loader - run it again
			mon.Tag("c19.child-could-not-start-a-thread(retried)")
			time.Sleep(time.Duration(500+1000*attempt) * time.Millisecond)
			continue
		}
		break
	}
	line := strings.TrimSpace(string(out))
	if err != nil || !strings.HasPrefix(line, "err=") {
		e := errb.String()
		if len(e) > 300 {
			e = e[:300]
		}
		mon.Hit("C19", "loademb-crash", map[string]interface{}{"op": op, "child": fmt.Sprintf("%v: %s", err, strings.ReplaceAll(e, "\n", " | "))})
		return "crash"
	}
	f := strings.Fields(line)
	if f[0] != "err=false" {
		mon.Hit("C19", "loademb-error", map[string]interface{}{"op": op, "result": line})
	}
	// what the two loaders themselves say about these files decides what must be attached
	want := "has=0 words=-1 cmds=-1"
	if g == "none" {
		mon.Tag("loademb-no-glove")
	} else if wl := strings.Fields(runLoader("wv", 100, []byte(UnHx(g)), &Mon{}, op)); len(wl) >= 2 && wl[0] == "ok" {
		mon.Tag("loademb-index")
		cmds := "0"
		if c != "none" {
			if cl := strings.Fields(runLoader("ce", 100, []byte(UnHx(c)), &Mon{}, op)); len(cl) >= 2 && cl[0] == "ok" {
				cmds = cl[1]
			}
		}
		want = "has=1 words=" + wl[1] + " cmds=" + cmds
	} else {
		mon.Tag("loademb-bad-glove")
	}
	got := strings.Join(f[1:], " ")
	if got != want {
		cls := "loademb-wrong-index"
		if want == "has=0 words=-1 cmds=-1" {
			cls = "loademb-not-absent"
		}
		mon.Hit("C19", cls, map[string]interface{}{"op": op, "result": got, "expected": want})
	}
	return got
}

// childLoad runs the loader on `path` in a child process (hostile header counts never run in the
// harness process itself: before commit 4457add they took all the memory of the machine).
func childLoad(kind string, dim int, path string) (line string, hwmKB int64, crash string) {
	self, err := os.Executable()
	if err != nil {
		return "", 0, "no-executable"
	}
	a := []string{"tool", "c19-load", kind}
	if kind == "ce" {
		a = append(a, Itoa(dim))
	}
	a = append(a, path)
	var errb strings.Builder
	var out []byte
	for attempt := 0; attempt < 5; attempt++ {
		cmd := exec.Command(self, a...)
		cmd.Env = append(os.Environ(), "GOMEMLIMIT=512MiB", "GOMAXPROCS=2")
		errb.Reset()
		cmd.Stderr = &errb
		out, err = cmd.Output()
		if err != nil && c19ChildCouldNotStart(errb.String()) && len(out) == 0 {
			time.Sleep(time.Duration(500+1000*attempt) * time.Millisecond)
			continue
		}
		break
	}
	for _, l := range strings.Split(string(out), "\n") {
		if strings.HasPrefix(l, "R ") {
			line = l[2:]
		}
		if strings.HasPrefix(l, "HWM ") {
			f := strings.Fields(l)
			if len(f) == 3 {
				hwmKB, _ = strconv.ParseInt(f[2], 10, 64)
			}
		}
	}
	if err != nil || line == "" {
		e := errb.String()
		if i := strings.Index(e, "\n\n"); i > 0 {
			e = e[:i]
		}
		if len(e) > 300 {
			e = e[:300]
		}
		return line, hwmKB, fmt.Sprintf("%v: %s", err, strings.ReplaceAll(e, "\n", " | "))
	}
	return line, hwmKB, ""
}

// headerPlausible: can the file hold the records its header claims?  (Decides only *where* the
// real loader runs — in process or in a capped child — never what is expected of it.)
func headerPlausible(kind string, dim int, file []byte) bool {
	if len(file) < 4 {
		return true
	}
	n := int64(binary.LittleEndian.Uint32(file))
	if kind == "wv" {
		return n*402 <= int64(len(file)) && n <= 1<<16
	}
	if len(file) < 8 {
		return true
	}
	d := int64(binary.LittleEndian.Uint32(file[4:]))
	if d != int64(dim) {
		return true // refused before anything is allocated
	}
	return n <= 1<<16 && n*4*d <= int64(len(file))
}

// memory the harness tolerates for one load: generous multiples of the file size
const (
	allocSlack  = 256 << 10 // bytes
	allocFactor = 16
	rssSlackKB  = 64 << 10 // 64 MiB
	rssFactor   = 64
)

func runLoader(kind string, dim int, file []byte, mon *Mon, op string) string {
	path, err := writeScratch(file)
	if err != nil {
		return "scratch-error"
	}
	defer os.Remove(path)
	var line string
	var idx *embedding.Index
	if headerPlausible(kind, dim, file) {
		mon.Tag("load-inproc")
		func() {
			defer func() {
				if rec := recover(); rec != nil {
					line = "panic"
					mon.Hit("C19", "loader-panic", map[string]interface{}{"op": op, "panic": fmt.Sprint(rec)})
				}
			}()
			var m0, m1 runtime.MemStats
			runtime.ReadMemStats(&m0)
			if kind == "wv" {
				line, idx = loadWVLine(path)
			} else {
				line, idx = loadCELine(dim, path)
			}
			runtime.ReadMemStats(&m1)
			if d := m1.TotalAlloc - m0.TotalAlloc; d > uint64(allocFactor*len(file)+allocSlack) {
				mon.Hit("C19", "loader-alloc", map[string]interface{}{"op": op, "allocated": d, "file_bytes": len(file)})
			}
		}()
	} else {
		mon.Tag("load-child")
		var hwm int64
		var crash string
		line, hwm, crash = childLoad(kind, dim, path)
		if crash != "" {
			mon.Hit("C19", "loader-memory", map[string]interface{}{"op": op, "child": crash, "file_bytes": len(file)})
			return "crash"
		}
		if hwm > int64(rssSlackKB+rssFactor*len(file)/1024) {
			mon.Hit("C19", "loader-memory", map[string]interface{}{"op": op, "peak_rss_kb": hwm, "file_bytes": len(file)})
		}
	}
	// the property on the real outcome
	f := strings.Fields(line)
	switch {
	case len(f) >= 2 && f[0] == "ok":
		mon.Tag(kind + "-ok")
		n := Atoi(f[1])
		if kind == "wv" {
			if int64(n)*402 > int64(len(file))-4 {
				mon.Hit("C19", "loader-count", map[string]interface{}{"op": op, "vectors": n, "file_bytes": len(file)})
			}
			if idx != nil {
				for w, v := range idx.WordVectors {
					if len(v) != idx.Dimension {
						mon.Hit("C19", "loader-shape", map[string]interface{}{"op": op, "word": w, "len": len(v)})
						break
					}
				}
			}
		} else {
			if int64(n)*4*int64(dim) > int64(len(file))-8 && n > 0 {
				mon.Hit("C19", "loader-count", map[string]interface{}{"op": op, "vectors": n, "file_bytes": len(file)})
			}
			if idx != nil {
				for i, v := range idx.CmdEmbeddings {
					if v == nil || len(v) != dim {
						mon.Hit("C19", "loader-shape", map[string]interface{}{"op": op, "slot": i, "len": len(v)})
						break
					}
				}
			}
		}
	case len(f) >= 2 && f[0] == "err":
		mon.Tag(kind + "-err-" + strings.SplitN(f[1], ":", 2)[0])
		if strings.HasPrefix(f[1], "other:") {
			mon.Tag("err-unclassified")
		}
		if kind == "ce" && len(f) >= 3 && strings.HasPrefix(f[2], "partial") {
			// vectors *and* an error: a half-filled table with nil slots was left behind
			mon.Hit("C19", "loader-partial-table", map[string]interface{}{"op": op, "result": line})
		}
		if kind == "wv" && len(f) >= 3 {
			mon.Hit("C19", "loader-index-and-error", map[string]interface{}{"op": op, "result": line})
		}
	case line != "panic":
		mon.Hit("C19", "loader-neither-vectors-nor-error", map[string]interface{}{"op": op, "result": line})
	}
	return line
}

// ---------------------------------------------------------------------------------------------
// exec
// ---------------------------------------------------------------------------------------------

type embState struct {
	idx      *embedding.Index
	db       *database.Database
	never    *database.Database // same commands, never had an index
	foreign  []database.Command
	attached bool
}

func embCommands(n int) []database.Command {
	cmds := make([]database.Command, n)
	for i := range cmds {
		a, b, c := embPool[i%len(embPool)], embPool[(i*7+3)%len(embPool)], embPool[(i*3+11)%len(embPool)]
		cmd := database.Command{
			Command:     a + " " + b + " --" + c,
			Description: "use " + a + " to " + b + " the " + c + " number " + Itoa(i%3),
			Keywords:    []string{a, c},
		}
		cmd.CommandLower = strings.ToLower(cmd.Command)
		cmd.DescriptionLower = strings.ToLower(cmd.Description)
		cmd.KeywordsLower = append([]string{}, cmd.Keywords...)
		cmd.TagsLower = []string{}
		cmds[i] = cmd
	}
	return cmds
}

func isASCII(s string) bool {
	for i := 0; i < len(s); i++ {
		if s[i] >= 0x80 {
			return false
		}
	}
	return true
}

func allZero(v []float32) bool {
	for _, x := range v {
		if x != 0 {
			return false
		}
	}
	return true
}

func safely(f func() string) (out string) {
	defer func() {
		if rec := recover(); rec != nil {
			msg := fmt.Sprint(rec)
			if strings.Contains(msg, "index out of range") {
				out = "panic:index"
			} else {
				out = "panic:" + strings.ReplaceAll(msg, " ", "_")
			}
		}
	}()
	return f()
}

type resItem struct {
	id    int
	score float64
}

func execEmbed(ops []string, mon *Mon) []string {
	st := &embState{}
	alpha, floor := float64(constants.SemanticAlpha), float64(constants.SemanticMinScore)
	out := make([]string, 0, len(ops))
	for _, o := range ops {
		f := strings.Fields(o)
		line := "bad-op"
		switch {
		case f[0] == "cos" && len(f) == 3:
			a, b := f32s(unVecBits(f[1])), f32s(unVecBits(f[2]))
			line = safely(func() string {
				x := embedding.CosineSimilarity(a, b)
				y := embedding.CosineSimilarity(b, a)
				if math.Float64bits(x) != math.Float64bits(y) {
					mon.Hit("C19", "cos-asymmetric", map[string]interface{}{"op": o, "ab": x, "ba": y})
				}
				if !(x >= -1 && x <= 1) {
					mon.Hit("C19", "cos-range", map[string]interface{}{"op": o, "value": fmt.Sprint(x)})
				}
				degenerate := len(a) != len(b) || len(a) == 0 || allZero(a) || allZero(b)
				if degenerate && x != 0 {
					mon.Hit("C19", "cos-zero", map[string]interface{}{"op": o, "value": fmt.Sprint(x)})
				}
				switch {
				case degenerate:
					mon.Tag("cos-degenerate")
				case x == 1 || x == -1:
					mon.Tag("cos-extreme")
				default:
					mon.Tag("cos-generic")
				}
				return F(x)
			})
			if strings.HasPrefix(line, "panic") {
				mon.Hit("C19", "cos-panic", map[string]interface{}{"op": o, "panic": line})
			}
		case f[0] == "loadwv" && len(f) == 2:
			line = runLoader("wv", 100, []byte(UnHx(f[1])), mon, o)
		case f[0] == "loadce" && len(f) == 3:
			line = runLoader("ce", Atoi(f[1]), []byte(UnHx(f[2])), mon, o)
		case f[0] == "loademb" && len(f) == 3:
			line = execLoadEmb(f[1], f[2], o, mon)
		case f[0] == "idx" && len(f) == 2:
			st = &embState{idx: &embedding.Index{Dimension: Atoi(f[1]), WordVectors: map[string][]float32{}}}
			line = "ok"
		case f[0] == "word" && len(f) == 3 && st.idx != nil:
			st.idx.WordVectors[UnHx(f[1])] = f32s(unVecBits(f[2]))
			line = "ok"
		case f[0] == "cmdemb" && len(f) == 2 && st.idx != nil:
			if f[1] == "nil" {
				st.idx.CmdEmbeddings = append(st.idx.CmdEmbeddings, nil)
			} else {
				st.idx.CmdEmbeddings = append(st.idx.CmdEmbeddings, f32s(unVecBits(f[1])))
			}
			line = "ok"
		case f[0] == "reloadce" && len(f) >= 2 && st.idx != nil:
			vecs := make([][]uint32, 0, len(f)-1)
			for _, t := range f[1:] {
				vecs = append(vecs, unVecBits(t))
			}
			line = "scratch-error"
			if path, err := writeScratch(buildCE(uint32(len(vecs)), uint32(st.idx.Dimension), vecs)); err == nil {
				if err := st.idx.LoadCommandEmbeddings(path); err != nil {
					line = "load-error " + errClass(err)
				} else {
					line = "ok"
					mon.Tag("command-embeddings-reloaded")
				}
				os.Remove(path)
			}
		case f[0] == "db" && len(f) == 3:
			n := Atoi(f[1])
			st.db = &database.Database{Commands: embCommands(n)}
			st.never = &database.Database{Commands: embCommands(n)}
			st.foreign = embCommands(4)
			st.attached = false
			if f[2] == "1" { // LoadDatabase's state: inverted index, TF-IDF re-ranker and command index map built
				st.db.SearchUniversal("zzzz", database.SearchOptions{})
				mon.Tag("db-built")
			}
			line = "ok"
		case f[0] == "attach" && len(f) == 2 && st.db != nil:
			if f[1] == "1" {
				st.db.VerifSetEmbeddingIndex(st.idx)
			} else {
				st.db.VerifSetEmbeddingIndex(nil)
			}
			st.attached = f[1] == "1" && st.idx != nil
			line = "ok"
		case f[0] == "embedq" && len(f) == 2 && st.idx != nil:
			q := UnHx(f[1])
			r := safely(func() string {
				v := st.idx.EmbedQuery(q)
				if v == nil {
					return "nil"
				}
				if len(v) == 0 {
					return "empty"
				}
				bits := bitsOf(v)
				for i, x := range v {
					if x != x { // canonical NaN: payload propagation is not part of the model
						bits[i] = 0x7fc00000
					}
				}
				return vecHex(bits)
			})
			// C02: the embedding of a query is a function of the index and the text - the same call again gives the same bits
			// (a sum taken in the iteration order of a map would not)
			for k := 0; k < 6 && !strings.HasPrefix(r, "panic"); k++ {
				again := safely(func() string {
					v := st.idx.EmbedQuery(q)
					if len(v) == 0 {
						return "nil-or-empty"
					}
					bits := bitsOf(v)
					for i, x := range v {
						if x != x {
							bits[i] = 0x7fc00000
						}
					}
					return vecHex(bits)
				})
				if again != r && !(again == "nil-or-empty" && (r == "nil" || r == "empty")) {
					mon.Hit("C02", "nondeterministic-embedding", map[string]interface{}{"query": q, "first": r, "again": again, "call": k + 2})
					break
				}
			}
			if isASCII(q) {
				line = r
			} else {
				line = "nonascii"
				mon.Tag("nonascii-query")
			}
		case f[0] == "sem" && len(f) >= 2 && len(f)%2 == 0 && st.db != nil:
			line = execSem(st, f, o, alpha, floor, mon)
		case f[0] == "search" && len(f) == 3 && st.db != nil:
			line = safely(func() string { return embExecSearch(st, UnHx(f[1]), f[2] == "1", o, alpha, mon) })
			if line != "ok" {
				mon.Hit("C19", "search-panic", map[string]interface{}{"op": o, "panic": line})
			}
		}
		out = append(out, line)
	}
	return out
}

func sortedDesc(xs []resItem) bool {
	for i := 1; i < len(xs); i++ {
		if xs[i].score > xs[i-1].score {
			return false
		}
	}
	return true
}

func execSem(st *embState, f []string, op string, alpha, floor float64, mon *Mon) string {
	q := UnHx(f[1])
	n := len(st.db.Commands)
	in := []resItem{}
	results := []database.SearchResult{}
	ptrID := map[*database.Command]int{}
	for i := range st.db.Commands {
		ptrID[&st.db.Commands[i]] = i
	}
	for i := range st.foreign {
		ptrID[&st.foreign[i]] = n + i
	}
	for i := 2; i+1 < len(f); i += 2 {
		id := Atoi(f[i])
		s := f_ofTok(f[i+1])
		in = append(in, resItem{id, s})
		var c *database.Command
		if id < n {
			c = &st.db.Commands[id]
		} else {
			c = &st.foreign[(id-n)%len(st.foreign)]
		}
		results = append(results, database.SearchResult{Command: c, Score: s})
	}
	var got []resItem
	r := safely(func() string {
		res := st.db.VerifPostSemantic(results, q)
		toks := []string{}
		for _, x := range res {
			id, ok := ptrID[x.Command]
			if !ok {
				id = -1
			}
			got = append(got, resItem{id, x.Score})
			toks = append(toks, Itoa(id), F(x.Score))
		}
		if len(toks) == 0 {
			return "-"
		}
		return strings.Join(toks, " ")
	})
	if strings.HasPrefix(r, "panic") {
		mon.Tag("sem-panic-inconsistent-index")
	} else {
		// the property on the real output
		changed := len(got) != len(in)
		for i := range got {
			if i < len(in) && (got[i].id != in[i].id || math.Float64bits(got[i].score) != math.Float64bits(in[i].score)) {
				changed = true
			}
		}
		if !st.attached && changed {
			mon.Hit("C19", "semantic-not-absent", map[string]interface{}{"op": op, "out": r})
		}
		cin, cout := map[int]int{}, map[int]int{}
		for _, x := range in {
			cin[x.id]++
		}
		for _, x := range got {
			cout[x.id]++
		}
		same := len(cin) == len(cout)
		for k, v := range cin {
			if cout[k] != v {
				same = false
			}
		}
		if !same {
			mon.Hit("C19", "semantic-not-permutation", map[string]interface{}{"op": op, "out": r})
		}
		boosted := false
		for _, x := range in {
			if cin[x.id] != 1 || math.IsNaN(x.score) || x.score < 0 {
				continue
			}
			for _, y := range got {
				if y.id != x.id {
					continue
				}
				if y.score != x.score {
					boosted = true
				}
				if !(y.score >= x.score) {
					mon.Hit("C19", "semantic-lowers", map[string]interface{}{"op": op, "id": x.id, "before": x.score, "after": y.score})
				}
				if !(y.score <= x.score*(1.0+alpha*1.0)) {
					mon.Hit("C19", "semantic-unbounded", map[string]interface{}{"op": op, "id": x.id, "before": x.score, "after": y.score})
				}
			}
		}
		if !boosted && len(in) == len(got) { // duplicates of one command: compare the score multisets
			a, b := make([]float64, len(in)), make([]float64, len(got))
			for i := range in {
				a[i], b[i] = in[i].score, got[i].score
			}
			sort.Float64s(a)
			sort.Float64s(b)
			for i := range a {
				if a[i] != b[i] {
					boosted = true
				}
			}
		}
		if (sortedDesc(in) || changed) && !sortedDesc(got) {
			mon.Hit("C19", "semantic-unordered", map[string]interface{}{"op": op, "out": r})
		}
		switch {
		case boosted:
			mon.Tag("sem-boosted")
		case st.attached:
			mon.Tag("sem-attached-unchanged")
		default:
			mon.Tag("sem-absent")
		}
	}
	if !isASCII(q) {
		mon.Tag("nonascii-query")
		return "nonascii"
	}
	return r
}

func f_ofTok(t string) float64 {
	v, err := strconv.ParseUint(strings.TrimPrefix(t, "f:"), 16, 64)
	if err != nil {
		panic("bad float token: " + t)
	}
	return math.Float64frombits(v)
}

// embExecSearch: paired SearchUniversal runs. `never` never had an index; `db` has the index attached or
// detached as the case says. Limit exceeds the database size so both runs rank the same candidates.
func embExecSearch(st *embState, q string, nlp bool, op string, alpha float64, mon *Mon) string {
	opts := database.SearchOptions{Limit: len(st.db.Commands) + 5, UseNLP: nlp, AllPlatforms: true}
	base := st.never.SearchUniversal(q, opts)
	got := st.db.SearchUniversal(q, opts)
	idOf := func(d *database.Database, c *database.Command) int {
		for i := range d.Commands {
			if &d.Commands[i] == c {
				return i
			}
		}
		return -1
	}
	bs := map[int]float64{}
	for _, x := range base {
		bs[idOf(st.never, x.Command)] = x.Score
	}
	if len(base) > 0 {
		mon.Tag("search-nonempty")
	}
	if !st.attached {
		mon.Tag("search-absent")
		same := len(base) == len(got)
		for i := 0; same && i < len(got); i++ {
			same = idOf(st.never, base[i].Command) == idOf(st.db, got[i].Command) &&
				math.Float64bits(base[i].Score) == math.Float64bits(got[i].Score)
		}
		if !same {
			mon.Hit("C19", "search-not-absent", map[string]interface{}{"op": op, "without": len(base), "detached": len(got)})
		}
		return "ok"
	}
	if len(got) != len(base) {
		mon.Hit("C19", "search-candidates-differ", map[string]interface{}{"op": op, "without": len(base), "with": len(got)})
		return "ok"
	}
	boosted := false
	for i, x := range got {
		id := idOf(st.db, x.Command)
		s, ok := bs[id]
		if !ok {
			mon.Hit("C19", "search-candidates-differ", map[string]interface{}{"op": op, "id": id})
			continue
		}
		if x.Score != s {
			boosted = true
		}
		if s >= 0 && !(x.Score >= s) {
			mon.Hit("C19", "search-lowers", map[string]interface{}{"op": op, "id": id, "without": s, "with": x.Score})
		}
		if s >= 0 && !(x.Score <= s*(1.0+alpha*1.0)) {
			mon.Hit("C19", "search-unbounded", map[string]interface{}{"op": op, "id": id, "without": s, "with": x.Score})
		}
		if i > 0 && x.Score > got[i-1].Score {
			mon.Hit("C19", "search-unordered", map[string]interface{}{"op": op, "pos": i})
		}
	}
	if boosted {
		mon.Tag("search-boosted")
	} else {
		mon.Tag("search-attached-unchanged")
	}
	return "ok"
}

// c19ChildCouldNotStart: the capped child died because a thread could not be created (EAGAIN from clone, the machine's
// process / thread budget) - which says nothing about the loader.  Running out of memory is NOT among these.
func c19ChildCouldNotStart(stderr string) bool {
	for _, x := range []string{"pthread_create failed", "failed to create new OS thread", "newosproc"} {
		if strings.Contains(stderr, x) {
			return true
		}
	}
	return false
}
