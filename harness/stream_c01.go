//go:build verif

package main

import (
	"bufio"
	"encoding/json"
	"flag"
	"fmt"
	"os"
	"sort"
	"strings"

	"github.com/Vedant9500/WTF/internal/database"
)

// Directed generator for C01 (search domain, -arg stream=c01): tie-heavy databases (k identical
// entries, k > limit), typo-only queries with many matches, every limit class (<= 0, 1..N, > N).
func init() {
	searchStreams["c01"] = genC01
	RegisterTool("c01-shipped", toolC01Shipped)
}

func genC01(r *Rng, tier string, idx int, args map[string]string) []string {
	if idx%3 == 2 {
		return genC01Clamp(r)
	}
	word := Pick(r, []string{"compress", "directory", "network", "container", "permissions", "download", "archive"})
	tool := Pick(r, toolPool)
	k := r.Range(2, 16) // identical entries
	base := database.Command{Command: tool + " " + word, Description: Pick(r, wordPool) + " " + word + " " + Pick(r, wordPool)}
	if r.Chance(1, 3) {
		base.Keywords = []string{word}
	}
	if r.Chance(1, 4) {
		base.Pipeline = true
	}
	var cmds []database.Command
	for i := 0; i < k; i++ {
		cmds = append(cmds, base)
	}
	// a few near-duplicates (same score up to one field) and unrelated entries, shuffled in
	for i, n := 0, r.Range(0, 6); i < n; i++ {
		c := base
		switch r.Intn(3) {
		case 0:
			c.Description += " " + Pick(r, wordPool)
		case 1:
			c = genCommand(r)
		default:
			c.Platform = append([]string(nil), Pick(r, platPool)...)
		}
		at := r.Intn(len(cmds) + 1)
		cmds = append(cmds[:at], append([]database.Command{c}, cmds[at:]...)...)
	}
	n := len(cmds)
	limits := []int{-3, 0, 1, 2, k - 1, k, k + 1, n, n + 1, n + 50}
	typo := misspellDrop(r, word)
	queries := []string{word, tool + " " + word, typo, typo, strings.ToUpper(word), base.Description}
	if idx%7 == 3 {
		// a query of several KB that repeats action / target words: any per-occurrence factor that is not taken once per
		// distinct word multiplies hundreds of times (scores must stay finite on the library path, which has no length limit)
		queries = append(queries, strings.TrimSpace(strings.Repeat(Pick(r, []string{"compress archive directory ", "find search files ", "install download package ", "delete remove " + word + " "}), Pick(r, []int{120, 300, 450}))))
	}
	var reqs []SearchReq
	for i, m := 0, r.Range(4, 8); i < m; i++ {
		q := Pick(r, queries)
		o := database.SearchOptions{Limit: Pick(r, limits), UseNLP: r.Bool(), UseFuzzy: r.Chance(4, 5),
			FuzzyThreshold: Pick(r, []int{0, -30, -100, -1000}), PipelineBoost: Pick(r, []float64{0, 2, 1.5}),
			AllPlatforms: r.Chance(1, 2), TopTermsCap: Pick(r, []int{0, 0, 3})}
		if r.Chance(1, 4) {
			o.ContextBoosts = map[string]float64{word: Pick(r, []float64{2, 0.5, -1, 0, 1e6})}
		}
		if r.Chance(1, 8) {
			o.PipelineOnly = true
		}
		reqs = append(reqs, SearchReq{Query: q, Opts: o})
	}
	sort.SliceStable(reqs, func(i, j int) bool { return reqs[i].Query < reqs[j].Query }) // one oracle block per query
	return SearchCaseOps(cmds, reqs, nil)
}

// genC01Clamp: typo-fallback answers whose raw normalised score lies outside [0,1]: one-letter words
// only (no index token, so the fallback always runs), targets much shorter than the pattern bonus
// (raw score > 1) and targets with > 100 unmatched bytes (raw score < 0), thresholds that let them through.
func genC01Clamp(r *Rng) []string {
	a, b := Pick(r, []string{"q", "z", "j", "x"}), Pick(r, []string{"k", "v", "w", "y"})
	filler := strings.Repeat(Pick(r, wordPool)+" ", r.Range(18, 30))
	var cmds []database.Command
	for i, n := 0, r.Range(3, 12); i < n; i++ {
		c := database.Command{Command: a + " " + b}
		switch r.Intn(4) {
		case 0: // short target: positive library score
		case 1:
			c.Description = filler
		case 2:
			c.Command = a + " -" + b + " " + Pick(r, toolPool)
			c.Description = filler[:len(filler)/2]
		default:
			c.Command = Pick(r, toolPool) + " " + a + " " + b
			c.Description = Pick(r, wordPool)
		}
		cmds = append(cmds, c)
	}
	var reqs []SearchReq
	for _, q := range []string{a + " " + b, a + b, strings.ToUpper(a) + " " + b} {
		for i, m := 0, r.Range(1, 3); i < m; i++ {
			reqs = append(reqs, SearchReq{Query: q, Opts: database.SearchOptions{Limit: Pick(r, []int{0, 1, 2, 5, 50}), UseFuzzy: true,
				UseNLP: r.Bool(), FuzzyThreshold: Pick(r, []int{0, 0, -1000, -30, 20}), AllPlatforms: true}})
		}
	}
	return SearchCaseOps(cmds, reqs, nil)
}

// misspellDrop removes one inner letter: the result is a subsequence of w (the typo matcher accepts
// it) but no longer an index token.
func misspellDrop(r *Rng, w string) string {
	i := r.Range(1, len(w)-2)
	return w[:i] + w[i+1:]
}

// toolC01Shipped: the shipped database (assets/commands.yml, loaded by the real loader) under real
// queries through every entry point, evaluated by the C01 monitors.  Prints one JSON summary.
//
//	wtfverif tool c01-shipped -db <path> -n <queries> -seed <s>
func toolC01Shipped(args []string) int {
	fs := flag.NewFlagSet("c01-shipped", flag.ExitOnError)
	dbPath := fs.String("db", "", "database file")
	n := fs.Int("n", 50, "queries")
	seed := fs.Uint64("seed", 1, "seed")
	fs.Parse(args)
	db, err := database.LoadDatabase(*dbPath)
	if err != nil {
		fmt.Println(`{"error":"load failed"}`)
		return 1
	}
	hitsFile, _ := os.CreateTemp("", "c01-shipped-hits")
	defer os.Remove(hitsFile.Name())
	mon := &Mon{w: bufio.NewWriter(hitsFile), caseIdx: "shipped", domain: "c01-shipped"}
	r := NewRng(*seed, 0, "c01-shipped")
	var dbWords []string
	for i := 0; i < 400; i++ {
		c := &db.Commands[r.Intn(len(db.Commands))]
		for _, w := range strings.Fields(c.Command + " " + c.Description) {
			if len(w) >= 3 {
				dbWords = append(dbWords, w)
			}
		}
	}
	fixed := []string{"compress a directory", "comprss fles", "find files by name", "git commit changes", "x", "?", "a", "zzzzqqqq",
		"how do i list all running docker containers", "LIST FILES", "  show   disk usage ", "é", "tar", "grep -r"}
	results := 0
	for i := 0; i < *n; i++ {
		var q string
		if i < len(fixed) {
			q = fixed[i]
		} else {
			q = genQuery(r, dbWords)
		}
		o := genOptions(r)
		if i%3 == 0 {
			o.Limit = Pick(r, []int{-1, 0, 3, 10, 100, len(db.Commands) + 1})
		}
		if i%5 == 0 { // what the CLI passes
			o = database.SearchOptions{Limit: Pick(r, []int{1, 3, 5, 20}), UseFuzzy: true, FuzzyThreshold: -30, UseNLP: true}
		}
		guarded(mon, "SearchUniversal", q, func() {
			rs := db.SearchUniversal(q, o)
			results += len(rs)
			c01Check(mon, "SearchUniversal", db, q, o.Limit, effLimit(o.Limit, universalDefaultLimit), rs, c01Finite(o))
			monitorSearch(mon, db, q, o, rs)
			if len(rs) == 0 { // what the CLI does next
				if rec, err := quietRecover(q, db); err == nil && len(rec) > 0 {
					mon.Tag("c01.shipped.recovery-reached")
					if len(rec) > effLimit(o.Limit, universalDefaultLimit) {
						mon.Tag("c01.shipped.recovery-longer-than-limit")
					}
				}
			}
		})
		c01AllEntryPoints(mon, db, q, o)
		if i < 12 || i%10 == 0 {
			c01Oracle(mon, db, q)
		}
	}
	mon.w.Flush()
	hitsFile.Seek(0, 0)
	var hits []json.RawMessage
	sc := bufio.NewScanner(hitsFile)
	sc.Buffer(make([]byte, 1<<20), 1<<26)
	for sc.Scan() {
		if len(sc.Bytes()) > 0 {
			hits = append(hits, append(json.RawMessage(nil), sc.Bytes()...))
		}
	}
	out, _ := json.Marshal(map[string]interface{}{"db_size": len(db.Commands), "queries": *n, "results": results, "tags": mon.tags, "hits": hits})
	fmt.Println(string(out))
	return 0
}
