//go:build verif

package main

import (
	"fmt"
	"os"
	"path/filepath"
	"sort"
	"strings"
	"time"
	"unicode/utf8"

	"github.com/Vedant9500/WTF/internal/history"
)

// hist: step-by-step correspondence of history.SearchHistory with Model/History.lean over one real
// file in a private temp directory, plus the C16 monitor (the property evaluated on the real outputs,
// with its own bookkeeping, independent of the Lean model).
//
// ops (one output line each):
//
//	new <max>                          ok <MaxSize>           a new SearchHistory on the same file ("next process")
//	add <hexq> <results> <hexctx> <ms> ok <len> | panic:<class>
//	save                               ok | err
//	load                               ok|parse|read <len> <MaxSize>
//	loadraw <hex bytes | ->            same, after writing the bytes to the file
//	rmfile                             ok
//	clear                              ok | err
//	recent <n>   top <n>   stats   entries   pattern <hex>   chrono   max
func init() {
	Register(&Domain{Name: "hist", Gen: genHist, Exec: execHist})
}

var histSizes = []int{-3, -1, 0, 1, 2, 3, 5, 100}

// query pool: repeats are forced by drawing from a few strings; the list mixes plain ASCII, case variants,
// JSON-hostile characters, non-ASCII, and (rarely used) invalid UTF-8.
var histQueries = []string{
	"list files", "docker ps", "git log", "find", "tar", "List Files", "a", "", "grep -r \"x\" .", "a\\b/c",
	"<b>&amp;</b>", "tab\there", "line\nbreak", "café", "日本語", "emoji \U0001F600", "sep x", "İstanbul", "Kelvin", "nul\x00byte", "del\x7f",
}
var histBadUTF8 = []string{"bad\xffbyte", "\xc3", "trunc\xe2\x82", "\xed\xa0\x80surrogate", "ok\xf5"}
var histContexts = []string{"", "", "", "go", "node", "python \"venv\"", "docker+go"}

func histGenAdd(r *Rng, pool []string, last *string) string {
	q := Pick(r, pool)
	if *last != "\x00none" && r.Chance(1, 4) {
		q = *last // immediate repeat
	}
	*last = q
	res := Pick(r, []int{0, 0, 1, 2, 3, 5, 10, 42})
	dur := Pick(r, []int{0, 0, 1, 3, 12, 250})
	return "add " + Hx(q) + " " + Itoa(res) + " " + Hx(Pick(r, histContexts)) + " " + Itoa(dur)
}

func genHist(r *Rng, tier string, idx int, args map[string]string) []string {
	// directed history of the merge-on-load defect (fixed in fa71af5): must stay in every run
	if idx%40 == 7 {
		return []string{"new 1", "add " + Hx("a") + " 1 - 0", "save", "add " + Hx("b") + " 2 " + Hx("ctxB") + " 7", "load", "entries",
			"new 5", "add " + Hx("x") + " 1 " + Hx("cx") + " 1", "add " + Hx("y") + " 2 " + Hx("cy") + " 2", "save",
			"add " + Hx("y") + " 9 " + Hx("other") + " 9", "add " + Hx("z") + " 3 " + Hx("cz") + " 3", "load", "entries", "chrono"}
	}
	// directed: a cleared log is a SAVED empty log - searches recorded after the clear and not saved are gone after a load,
	// on this handle and on a second one
	if idx%40 == 23 {
		return []string{"new 5", "add " + Hx("a") + " 1 - 0", "add " + Hx("b") + " 2 - 0", "save", "clear", "add " + Hx("c") + " 3 - 0", "load", "entries",
			"add " + Hx("d") + " 1 - 0", "save", "clear", "new 7", "load", "entries", "max"}
	}
	npool := r.Range(2, 6)
	pool := make([]string, npool)
	for i := range pool {
		pool[i] = Pick(r, histQueries)
	}
	if r.Chance(1, 12) || args["badutf8"] != "" {
		pool[r.Intn(npool)] = Pick(r, histBadUTF8)
	}
	n := r.Range(6, 36)
	if tier == "thorough" {
		n = r.Range(6, 90)
	}
	fileHeavy := r.Chance(1, 3) || args["files"] != ""
	big := args["big"] != ""
	size := Pick(r, histSizes)
	if big {
		size = Pick(r, []int{100, 0, -1})
		n = r.Range(230, 320)
		npool = 150
		pool = make([]string, npool)
		for i := range pool {
			pool[i] = "q" + Itoa(i)
		}
	}
	ops := []string{"new " + Itoa(size)}
	last := "\x00none"
	fg := &histFileGen{r: r, pool: pool}
	if fileHeavy && r.Bool() {
		ops = append(ops, "loadraw "+Hx(fg.file()))
	}
	for i := 0; i < n; i++ {
		x := r.Intn(100)
		if big {
			x = x % 72 // mostly adds, some save/load and the views over many distinct queries; no clear
			if x >= 54 && x < 56 {
				x = 64
			}
		}
		switch {
		case x < 40:
			ops = append(ops, histGenAdd(r, pool, &last))
		case x < 47:
			ops = append(ops, "save")
		case x < 54:
			ops = append(ops, "load")
			last = "\x00none"
		case x < 56:
			ops = append(ops, "clear")
			last = "\x00none"
		case x < 62:
			ops = append(ops, "recent "+Itoa(Pick(r, []int{-1, 0, 1, 2, 3, 10, 200})))
		case x < 68:
			ops = append(ops, "top "+Itoa(Pick(r, []int{-1, 0, 1, 2, 3, 10, 200})))
		case x < 73:
			ops = append(ops, "stats")
		case x < 79:
			ops = append(ops, "entries")
		case x < 82:
			// patterns are ASCII only (strings.ToLower of non-ASCII text is outside the byte-level model)
			p := histASCII(Pick(r, pool))
			if len(p) > 2 && r.Bool() {
				p = p[1:3]
			}
			if r.Bool() {
				p = strings.ToUpper(p)
			}
			ops = append(ops, "pattern "+Hx(p))
		case x < 85:
			ops = append(ops, "chrono")
		case x < 87:
			ops = append(ops, "max")
		case x < 91:
			// a new process on the same file, the way the CLI uses it: new, load, add, save
			ops = append(ops, "new "+Itoa(Pick(r, histSizes)), "load")
			last = "\x00none"
		case x < 92:
			ops = append(ops, "rmfile")
		default:
			if fileHeavy || r.Chance(1, 3) {
				ops = append(ops, "loadraw "+Hx(fg.file()))
				// the obligation of the property: recording a search after ANY file content must not crash
				ops = append(ops, histGenAdd(r, pool, &last), histGenAdd(r, pool, &last))
			} else {
				ops = append(ops, histGenAdd(r, pool, &last))
			}
		}
	}
	ops = append(ops, "entries", "chrono", "stats")
	return ops
}

// ---- generated file contents -----------------------------------------------------------------

type histFileGen struct {
	r    *Rng
	pool []string
	tsN  int // timestamps handed out so far in this case: all distinct, all in the past
}

func (g *histFileGen) ts() string {
	g.tsN++
	t := time.Date(2001+g.tsN/300, time.Month(1+g.tsN%12), 1+g.tsN%28, g.tsN%24, (g.tsN*7)%60, (g.tsN*13)%60, 0, time.UTC)
	base := t.Format("2006-01-02T15:04:05")
	switch g.r.Intn(4) {
	case 0:
		return base + "Z"
	case 1:
		return base + fmt.Sprintf(".%dZ", 1+g.r.Intn(9))
	case 2:
		return base + fmt.Sprintf(".%09dZ", g.r.Intn(1000000000))
	default:
		return base + fmt.Sprintf(".%06d%06dZ", g.r.Intn(1000000), g.r.Intn(1000000)) // more than 9 digits: truncated
	}
}

// jstr renders a JSON string literal for s, choosing among escape styles; may deliberately be invalid.
func (g *histFileGen) jstr(s string) string {
	var sb strings.Builder
	sb.WriteByte('"')
	style := g.r.Intn(6)
	for i := 0; i < len(s); i++ {
		c := s[i]
		switch {
		case c == '"' || c == '\\':
			sb.WriteByte('\\')
			sb.WriteByte(c)
		case c == '\n':
			sb.WriteString("\\n")
		case c == '\t':
			sb.WriteString("\\t")
		case c < 0x20:
			fmt.Fprintf(&sb, "\\u%04x", c)
		case style == 1 && c < 0x80 && g.r.Chance(1, 4):
			if g.r.Bool() {
				fmt.Fprintf(&sb, "\\u%04X", c)
			} else {
				fmt.Fprintf(&sb, "\\u%04x", c)
			}
		case style == 2 && c == '/':
			sb.WriteString("\\/")
		default:
			sb.WriteByte(c)
		}
	}
	switch style {
	case 3:
		sb.WriteString(Pick(g.r, []string{"\\ud83d\\ude00", "\\ud800", "\\udc00x", "\\ud800\\u0041", "\\uD83D\\uDE00", "\\b\\f\\r", "\xff", "\xe2\x82", "\xed\xa0\x80", "\xc0\xaf"}))
	}
	sb.WriteByte('"')
	return sb.String()
}

func (g *histFileGen) tsValue() (string, bool) {
	r := g.r
	switch x := r.Intn(40); {
	case x < 30:
		return "\"" + g.ts() + "\"", true
	case x < 32:
		return "", false // member absent
	case x < 33:
		return "null", true
	default:
		return Pick(r, []string{"\"yesterday\"", "\"\"", "\"2001-02-30T00:00:00Z\"", "\"2001-01-01T24:00:00Z\"", "\"2001-01-01T00:60:00Z\"", "\"2001-13-01T00:00:00Z\"",
			"\"2001-01-01t00:00:00Z\"", "\"2001-01-01T00:00:00\"", "\"2001-01-01T00:00:00.Z\"", "\"2004-02-29T23:59:59.999999999Z\"", "\"1900-02-29T00:00:00Z\"", "\"2000-02-29T00:00:00Z\"",
			"\"0000-01-01T00:00:00Z\"", "\"2001-01-01T00:00:00\\u005a\"", "1000000", "true", "{}", "[]", "12.5"}), true
	}
}

func (g *histFileGen) intValue(normal []string) string {
	r := g.r
	if r.Chance(5, 6) {
		return Pick(r, normal)
	}
	return Pick(r, []string{"-0", "1.0", "1e2", "1E+2", "-5", "999999999999", "9223372036854775807", "9223372036854775808", "-9223372036854775808", "-9223372036854775809",
		"\"3\"", "null", "true", "[]", "{}", "0.5", "12345678901234567890123"})
}

func (g *histFileGen) entry() string {
	r := g.r
	switch x := r.Intn(30); {
	case x == 0:
		return Pick(r, []string{"null", "{}", "7", "\"str\"", "[]", "true"})
	}
	var ms []string
	key := func(k string) string {
		if r.Chance(1, 15) {
			return "\"" + Pick(r, []string{strings.ToUpper(k), strings.Title(k), strings.Replace(k, "s", "ſ", 1), strings.Replace(k, "k", "K", 1), k + " ", "x" + k}) + "\""
		}
		return "\"" + k + "\""
	}
	if r.Chance(14, 15) {
		q := Pick(r, g.pool)
		if r.Chance(1, 6) {
			q = Pick(r, histQueries)
		}
		v := g.jstr(q)
		if r.Chance(1, 25) {
			v = Pick(r, []string{"null", "5", "true", "[\"a\"]", "{\"q\":1}"})
		}
		ms = append(ms, key("query")+":"+v)
	}
	if v, ok := g.tsValue(); ok {
		ms = append(ms, key("timestamp")+": "+v)
	}
	if r.Chance(9, 10) {
		ms = append(ms, key("results_count")+":"+g.intValue([]string{"0", "1", "2", "3", "10"}))
	}
	if r.Chance(1, 3) {
		v := g.jstr(Pick(r, histContexts))
		if r.Chance(1, 20) {
			v = Pick(r, []string{"null", "0", "false"})
		}
		ms = append(ms, key("context")+":"+v)
	}
	if r.Chance(1, 3) {
		ms = append(ms, key("duration")+":"+g.intValue([]string{"0", "1", "5", "250"}))
	}
	if r.Chance(1, 10) {
		ms = append(ms, Pick(r, []string{"\"extra\":{\"a\":[1,2,{\"b\":null}],\"c\":\"d\"}", "\"-\":1", "\"FilePath\":\"/x\"", "\"\":0", "\"query\":\"dup\"", "\"context\":\"dupctx\""}))
	}
	r.Shuffle(ms)
	return "{" + strings.Join(ms, Pick(r, []string{",", ", ", ",\n  "})) + "}"
}

func (g *histFileGen) doc() string {
	r := g.r
	var ms []string
	entriesVal := func() string {
		switch x := r.Intn(20); {
		case x == 0:
			return "null"
		case x == 1:
			return Pick(r, []string{"\"none\"", "3", "{}", "true", "[1,2]", "[[]]"})
		}
		k := r.Intn(7)
		if r.Chance(1, 10) {
			k = r.Range(7, 14)
		}
		es := make([]string, k)
		for i := range es {
			es[i] = g.entry()
		}
		return "[" + strings.Join(es, Pick(r, []string{",", ", ", " ,\n"})) + "]"
	}
	if r.Chance(9, 10) {
		ms = append(ms, Pick(r, []string{"\"entries\"", "\"entries\"", "\"entries\"", "\"Entries\"", "\"ENTRIES\"", "\"entrieſ\""})+":"+entriesVal())
	}
	if r.Chance(1, 12) { // a second "entries" member: encoding/json decodes it INTO the first one's slice
		ms = append(ms, "\"entries\":"+entriesVal())
	}
	if r.Chance(5, 6) {
		v := Pick(r, []string{"0", "-1", "-3", "1000000000", "1", "2", "3", "5", "100", "100"})
		if r.Chance(1, 6) {
			v = g.intValue([]string{"7"})
		}
		ms = append(ms, Pick(r, []string{"\"max_size\"", "\"max_size\"", "\"max_size\"", "\"MAX_SIZE\"", "\"Max_Size\"", "\"max_ſize\"", "\"maxsize\""})+": "+v)
	}
	if r.Chance(1, 12) {
		ms = append(ms, "\"max_size\":"+Pick(r, []string{"0", "-2", "4", "null"}))
	}
	if r.Chance(1, 8) {
		ms = append(ms, Pick(r, []string{"\"version\":2", "\"file_path\":\"/etc/passwd\"", "\"FilePath\":\"x\"", "\"-\":{}", "\"nested\":[[[{\"a\":{}}]]]"}))
	}
	r.Shuffle(ms)
	ws := Pick(r, []string{"", " ", "\n", "\t\r\n "})
	return ws + "{" + ws + strings.Join(ms, ","+ws) + ws + "}" + ws
}

func (g *histFileGen) file() string {
	r := g.r
	switch x := r.Intn(100); {
	case x < 4:
		return "" // empty file
	case x < 8:
		return Pick(r, []string{" ", "\n", "null", " null ", "{}", "[]", "\"str\"", "123", "true", "{\"entries\":[]}", "{\"max_size\":-3}", "{\"max_size\":0}"})
	case x < 20: // truncated
		d := g.doc()
		if len(d) > 1 {
			d = d[:1+r.Intn(len(d)-1)]
		}
		return d
	case x < 25: // binary
		n := r.Range(1, 40)
		b := make([]byte, n)
		for i := range b {
			b[i] = byte(r.Intn(256))
		}
		return string(b)
	case x < 32: // damaged: one byte replaced / garbage around a valid document
		d := g.doc()
		switch r.Intn(5) {
		case 0:
			return "\xef\xbb\xbf" + d
		case 1:
			return d + Pick(r, []string{"x", "{}", ",", "]", "\x00"})
		case 2:
			return strings.Replace(d, ":", Pick(r, []string{"=", "::", ""}), 1)
		case 3:
			return strings.Replace(d, "\"", Pick(r, []string{"'", "\\\"", "\"\x01"}), 1)
		default:
			b := []byte(d)
			b[r.Intn(len(b))] = byte(r.Intn(256))
			return string(b)
		}
	default:
		return g.doc()
	}
}

func histASCII(s string) string {
	var sb strings.Builder
	for i := 0; i < len(s); i++ {
		if s[i] < 0x80 {
			sb.WriteByte(s[i])
		}
	}
	return sb.String()
}

func (r *Rng) Shuffle(xs []string) {
	for i := len(xs) - 1; i > 0; i-- {
		j := r.Intn(i + 1)
		xs[i], xs[j] = xs[j], xs[i]
	}
}

// ---- execution and monitor -----------------------------------------------------------------------

type histShadow struct {
	q, ctx string
	res    int
	dur    int64
	ts     time.Time
}

func histSnap(sh *history.SearchHistory) []histShadow {
	out := make([]histShadow, len(sh.Entries))
	for i, e := range sh.Entries {
		out[i] = histShadow{e.Query, e.Context, e.ResultsCount, e.Duration, e.Timestamp}
	}
	return out
}

// what encoding/json does to a string that is not valid UTF-8: every offending byte becomes U+FFFD
func histSanitize(s string) string {
	if utf8.ValidString(s) {
		return s
	}
	var sb strings.Builder
	for i := 0; i < len(s); {
		r, n := utf8.DecodeRuneInString(s[i:])
		if r == utf8.RuneError && n == 1 {
			sb.WriteString("\uFFFD")
		} else {
			sb.WriteString(s[i : i+n])
		}
		i += n
	}
	return sb.String()
}

func histPanicClass(v interface{}) string {
	s := fmt.Sprint(v)
	switch {
	case strings.Contains(s, "slice bounds out of range"):
		return "slice-bounds"
	case strings.Contains(s, "index out of range"):
		return "index"
	case strings.Contains(s, "nil map"), strings.Contains(s, "nil pointer"):
		return "nil"
	default:
		return "other"
	}
}

func histEffLimit(n int) int {
	if n <= 0 {
		return 10
	}
	return n
}

func execHist(ops []string, mon *Mon) []string {
	dir, err := os.MkdirTemp("", "wtfverif-hist-")
	if err != nil {
		panic("mkdirtemp: " + err.Error())
	}
	defer os.RemoveAll(dir)
	path := filepath.Join(dir, "cfg", "wtf", "search_history.json")

	var sh *history.SearchHistory
	// monitor state
	var saved []histShadow // entries at the time the tool last wrote the file
	savedMax := 0          //   and its MaxSize
	fileIsTool := false    // the file on disk is what Save/Clear of this code wrote
	savedTrusted := false  // ... from a state whose timestamps all came from AddEntry
	savedOverlong := false // ... from a state that was over-long (see overlong)
	tsTrusted := true      // every timestamp in memory came from AddEntry (directly or through a tool-written file)
	overlong := false      // a hand-made file with more entries than its maximum was loaded; lasts until the next trim
	rawLoaded := false     // some loadraw happened in this case
	hits := 0
	hit := func(class string, detail interface{}) {
		hits++
		if hits <= 5 {
			mon.Hit("C16", class, detail)
		}
	}
	out := make([]string, 0, len(ops))

	for opi, o := range ops {
		f := strings.Split(o, " ")
		if sh == nil && f[0] != "new" {
			out = append(out, "bad-op")
			continue
		}
		line := func() (line string) {
			defer func() {
				if r := recover(); r != nil {
					cls := histPanicClass(r)
					line = "panic:" + cls
					c := "panic-" + f[0]
					if f[0] == "add" && rawLoaded {
						c = "add-panic-after-loadraw"
					}
					hit(c, map[string]interface{}{"op": o, "op_index": opi, "panic": fmt.Sprint(r), "max_size": sh.MaxSize, "len": len(sh.Entries)})
				}
			}()
			switch f[0] {
			case "new":
				sh = history.NewSearchHistory(path, Atoi(f[1]))
				tsTrusted, overlong = true, false
				return "ok " + Itoa(sh.MaxSize)
			case "add":
				q, res, ctx, ms := UnHx(f[1]), Atoi(f[2]), UnHx(f[3]), Atoi64(f[4])
				before := histSnap(sh)
				maxBefore := sh.MaxSize
				if !utf8.ValidString(q) || !utf8.ValidString(ctx) {
					mon.Tag("invalid-utf8-add")
				}
				sh.AddEntry(q, res, ctx, time.Duration(ms)*time.Millisecond)
				after := histSnap(sh)
				// expected by the property (own bookkeeping)
				var want []histShadow
				ne := histShadow{q: q, ctx: ctx, res: res, dur: ms}
				if n := len(before); n > 0 && before[n-1].q == q {
					want = append(append(want, before[:n-1]...), ne)
					mon.Tag("immediate-dup")
				} else {
					want = append(append(want, before...), ne)
					if maxBefore > 0 && len(want) > maxBefore {
						want = want[len(want)-maxBefore:]
						mon.Tag("trim")
						overlong = false
					}
				}
				if maxBefore > 0 {
					if !histSameEntries(want, after, false) {
						hit("add-wrong-entries", map[string]interface{}{"op": o, "op_index": opi, "want": histShow(want), "got": histShow(after), "max_size": maxBefore})
					} else {
						// the kept entries keep their timestamps (want[i] was copied from `before`)
						for i := 0; i+1 < len(after); i++ {
							if !after[i].ts.Equal(want[i].ts) {
								hit("add-changed-old-timestamp", map[string]interface{}{"op": o, "op_index": opi, "index": i})
								break
							}
						}
					}
				}
				if sh.MaxSize != maxBefore {
					hit("add-changed-max", map[string]interface{}{"op": o, "before": maxBefore, "after": sh.MaxSize})
				}
				mon.Tag("add")
				return "ok " + Itoa(len(sh.Entries))
			case "save":
				if err := sh.Save(); err != nil {
					return "err"
				}
				saved, savedMax, fileIsTool, savedTrusted, savedOverlong = histSnap(sh), sh.MaxSize, true, tsTrusted, overlong
				mon.Tag("save")
				return "ok"
			case "load", "loadraw":
				if f[0] == "loadraw" {
					data := UnHx(f[1])
					if err := os.MkdirAll(filepath.Dir(path), 0o755); err != nil {
						panic(err)
					}
					if err := os.WriteFile(path, []byte(data), 0o644); err != nil {
						panic(err)
					}
					fileIsTool, rawLoaded = false, true
					mon.Tag("loadraw")
				}
				before := histSnap(sh)
				maxBefore := sh.MaxSize
				_, statErr := os.Stat(path)
				err := sh.Load()
				cls := "ok"
				if err != nil {
					cls = "read"
					if strings.Contains(err.Error(), "parse") {
						cls = "parse"
					}
					mon.Tag("load-" + cls)
				}
				after := histSnap(sh)
				if statErr == nil && !fileIsTool {
					// a file this code did not write (hand-made content)
					// (a load that reports an error but still changed the state counts as accepted content)
					if fi, e := os.Stat(path); e == nil && fi.Size() > 0 && (err == nil || !histSameEntries(before, after, true)) {
						mon.Tag("loadraw-accepted")
						tsTrusted = len(after) == 0
						overlong = len(after) > sh.MaxSize
						if overlong {
							mon.Tag("obs-loadraw-more-entries-than-max")
						}
					}
				} else if statErr == nil && fileIsTool {
					mon.Tag("load-after-save")
					// saving and loading gives back the same entries (and the same maximum)
					if err != nil {
						hit("load-error-on-saved-file", map[string]interface{}{"op_index": opi, "err": err.Error()})
					} else {
						same := histSameEntries(saved, after, true)
						if !same {
							// distinguish the (fixed) merge defect: only omitempty fields differ
							if histSameCore(saved, after) {
								hit("load-merge-stale-fields", map[string]interface{}{"op_index": opi, "saved": histShow(saved), "loaded": histShow(after), "in_memory_before_load": histShow(before)})
							} else if histSameSanitized(saved, after) {
								mon.Tag("obs-invalid-utf8-roundtrip-changed") // excluded point: U+FFFD substitution by encoding/json
							} else {
								hit("roundtrip-mismatch", map[string]interface{}{"op_index": opi, "saved": histShow(saved), "loaded": histShow(after)})
							}
						}
						if savedMax > 0 && sh.MaxSize != savedMax {
							hit("roundtrip-max-size", map[string]interface{}{"op_index": opi, "saved": savedMax, "loaded": sh.MaxSize})
						}
						tsTrusted = savedTrusted
						overlong = savedOverlong
					}
				} else if statErr != nil {
					if fileIsTool {
						// the last thing that happened to the file was a Save / Clear of this handle that reported success:
						// "saving and loading gives back the same entries" needs the saved log to be there
						if !histSameEntries(saved, after, true) {
							hit("saved-log-not-loaded-back", map[string]interface{}{"op_index": opi, "saved": histShow(saved), "loaded": histShow(after), "file": "missing"})
						}
					}
					if err != nil || !histSameEntries(before, after, true) || sh.MaxSize != maxBefore {
						hit("load-without-file-changed-state", map[string]interface{}{"op_index": opi})
					}
				}
				return cls + " " + Itoa(len(sh.Entries)) + " " + Itoa(sh.MaxSize)
			case "rmfile":
				os.Remove(path)
				fileIsTool = false
				return "ok"
			case "clear":
				if err := sh.Clear(); err != nil {
					return "err"
				}
				saved, savedMax, fileIsTool, savedTrusted, savedOverlong = nil, sh.MaxSize, true, true, false
				tsTrusted, overlong = true, false
				if len(sh.Entries) != 0 {
					hit("clear-left-entries", len(sh.Entries))
				}
				return "ok"
			case "recent":
				n := Atoi(f[1])
				got := sh.GetRecentQueries(n)
				// reference: walk from the newest entry, keep first sightings
				var want []string
				seen := map[string]bool{}
				// a non-positive limit asks for "the default number": how many that is is not part of the property (the model knows
				// the source's default, so the correspondence notices a change) - the answer must be a non-empty prefix of the
				// distinct newest-first list
				lim := n
				if n <= 0 {
					lim = len(got)
					if lim == 0 {
						lim = 1
					}
				}
				for i := len(sh.Entries) - 1; i >= 0 && len(want) < lim; i-- {
					if q := sh.Entries[i].Query; !seen[q] {
						seen[q] = true
						want = append(want, q)
					}
				}
				if strings.Join(hexAll(got), ",") != strings.Join(hexAll(want), ",") {
					hit("recent-wrong", map[string]interface{}{"op": o, "got": hexAll(got), "want": hexAll(want)})
				}
				if len(got) > 1 {
					mon.Tag("recent-multi")
				}
				return strings.Join(hexAll(got), ",") + ";"
			case "top":
				n := Atoi(f[1])
				got := sh.GetTopQueries(n)
				full := sh.GetTopQueries(len(sh.Entries) + 1)
				topLim := n
				if n <= 0 { // the default number of rows is not part of the property: a non-empty prefix of the full ranking
					topLim = len(got)
					if topLim == 0 {
						topLim = 1
					}
				}
				histCheckTop(sh, got, full, topLim, hit, o)
				if len(got) > 1 {
					mon.Tag("top-multi")
				}
				return histCanonTop(got, full)
			case "stats":
				st := sh.GetStats()
				uniq := map[string]bool{}
				for _, e := range sh.Entries {
					uniq[e.Query] = true
				}
				if st.TotalSearches != len(sh.Entries) || st.UniqueQueries != len(uniq) {
					hit("stats-wrong", map[string]interface{}{"total": st.TotalSearches, "unique": st.UniqueQueries, "len": len(sh.Entries), "distinct": len(uniq)})
				}
				if n := len(sh.Entries); n > 0 && (!st.OldestEntry.Equal(sh.Entries[0].Timestamp) || !st.NewestEntry.Equal(sh.Entries[n-1].Timestamp)) {
					hit("stats-wrong", "oldest/newest are not the first/last entry's timestamps")
				}
				return Itoa(st.TotalSearches) + " " + Itoa(st.UniqueQueries) + " " + F(st.AvgResultsPerSearch) + " " + F(st.AvgSearchDuration)
			case "entries":
				xs := make([]string, len(sh.Entries))
				for i, e := range sh.Entries {
					xs[i] = Hx(e.Query) + ":" + Itoa(e.ResultsCount) + ":" + Hx(e.Context) + ":" + Itoa64(e.Duration)
				}
				return strings.Join(xs, ",") + ";"
			case "pattern":
				got := sh.GetEntriesByPattern(UnHx(f[1]))
				// newest first; entries with EQUAL timestamps (possible only for hand-made files) come out of the
				// unstable sort in an unspecified order: print each such run sorted
				var xs []string
				for i := 0; i < len(got); {
					j := i + 1
					for j < len(got) && got[j].Timestamp.Equal(got[i].Timestamp) {
						j++
					}
					var run []string
					for _, e := range got[i:j] {
						run = append(run, Hx(e.Query)+":"+Itoa(e.ResultsCount))
					}
					sort.Strings(run)
					xs = append(xs, run...)
					i = j
				}
				for i := 1; i < len(got); i++ {
					if got[i].Timestamp.After(got[i-1].Timestamp) {
						hit("pattern-not-newest-first", map[string]interface{}{"op": o, "index": i})
						break
					}
				}
				return strings.Join(xs, ",") + ";"
			case "chrono":
				ok := true
				for i := 1; i < len(sh.Entries); i++ {
					if sh.Entries[i].Timestamp.Before(sh.Entries[i-1].Timestamp) {
						ok = false
					}
				}
				return B(ok)
			case "max":
				return Itoa(sh.MaxSize)
			}
			return "bad-op"
		}()
		out = append(out, line)

		// invariants of the property, after every op
		if sh != nil {
			if sh.MaxSize <= 0 {
				hit("maxsize-nonpositive", map[string]interface{}{"op": o, "op_index": opi, "max_size": sh.MaxSize})
			} else if len(sh.Entries) > sh.MaxSize && !overlong {
				hit("length-exceeds-max", map[string]interface{}{"op": o, "op_index": opi, "len": len(sh.Entries), "max_size": sh.MaxSize})
			}
			if tsTrusted {
				for i := 1; i < len(sh.Entries); i++ {
					if sh.Entries[i].Timestamp.Before(sh.Entries[i-1].Timestamp) {
						hit("timestamps-decrease", map[string]interface{}{"op": o, "op_index": opi, "index": i})
						break
					}
				}
			}
			if len(sh.Entries) == sh.MaxSize {
				mon.Tag("full")
			}
		}
	}
	return out
}

func hexAll(xs []string) []string {
	out := make([]string, len(xs))
	for i, x := range xs {
		out[i] = Hx(x)
	}
	return out
}

func histShow(xs []histShadow) []string {
	out := make([]string, len(xs))
	for i, e := range xs {
		out[i] = fmt.Sprintf("%q res=%d ctx=%q dur=%d", e.q, e.res, e.ctx, e.dur)
	}
	return out
}

func histSameEntries(a, b []histShadow, withTime bool) bool {
	if len(a) != len(b) {
		return false
	}
	for i := range a {
		if a[i].q != b[i].q || a[i].res != b[i].res || a[i].ctx != b[i].ctx || a[i].dur != b[i].dur {
			return false
		}
		if withTime && !a[i].ts.Equal(b[i].ts) {
			return false
		}
	}
	return true
}

func histSameCore(a, b []histShadow) bool {
	if len(a) != len(b) {
		return false
	}
	for i := range a {
		if a[i].q != b[i].q || a[i].res != b[i].res || !a[i].ts.Equal(b[i].ts) {
			return false
		}
	}
	return true
}

func histSameSanitized(a, b []histShadow) bool {
	if len(a) != len(b) {
		return false
	}
	for i := range a {
		if histSanitize(a[i].q) != b[i].q || a[i].res != b[i].res || histSanitize(a[i].ctx) != b[i].ctx || a[i].dur != b[i].dur || !a[i].ts.Equal(b[i].ts) {
			return false
		}
	}
	return true
}

func histCheckTop(sh *history.SearchHistory, got, full []history.QueryFrequency, lim int, hit func(string, interface{}), o string) {
	freq := map[string]int{}
	for _, e := range sh.Entries {
		freq[e.Query]++
	}
	bad := ""
	sum := 0
	seen := map[string]bool{}
	for i, qf := range full {
		sum += qf.Count
		if freq[qf.Query] != qf.Count {
			bad = "count is not the frequency of " + Hx(qf.Query)
		}
		if seen[qf.Query] {
			bad = "query listed twice"
		}
		seen[qf.Query] = true
		if i > 0 && full[i-1].Count < qf.Count {
			bad = "not sorted by count"
		}
	}
	if sum != len(sh.Entries) || len(full) != len(freq) {
		bad = fmt.Sprintf("counts sum to %d over %d queries, entries=%d distinct=%d", sum, len(full), len(sh.Entries), len(freq))
	}
	wantLen := lim
	if len(full) < wantLen {
		wantLen = len(full)
	}
	if len(got) != wantLen {
		bad = fmt.Sprintf("limit %d over %d distinct queries returned %d", lim, len(full), len(got))
	}
	for i, qf := range got {
		if freq[qf.Query] != qf.Count || (i > 0 && got[i-1].Count < qf.Count) {
			bad = "limited answer: wrong count or order"
		}
		// nothing outside the answer may be strictly more frequent than something inside
		if i == len(got)-1 {
			for q, c := range freq {
				in := false
				for _, g := range got {
					if g.Query == q {
						in = true
					}
				}
				if !in && c > qf.Count {
					bad = "a more frequent query was left out"
				}
			}
		}
	}
	if bad != "" {
		hit("top-wrong", map[string]interface{}{"op": o, "why": bad})
	}
}

// histCanonTop prints a top-N answer canonically: runs of equal (count, last used) sorted by query; a run cut by
// the limit is replaced by "~" (which of its members appear is not determined: sort.Slice over map order).
func histCanonTop(got, full []history.QueryFrequency) string {
	same := func(a, b history.QueryFrequency) bool { return a.Count == b.Count && a.LastUsed.Equal(b.LastUsed) }
	cut := len(got) > 0 && len(full) > len(got) && same(got[len(got)-1], full[len(got)])
	var toks []string
	i := 0
	for i < len(got) {
		j := i + 1
		for j < len(got) && same(got[i], got[j]) {
			j++
		}
		if j == len(got) && cut {
			break
		}
		var run []string
		for _, qf := range got[i:j] {
			run = append(run, Hx(qf.Query)+":"+Itoa(qf.Count))
		}
		sort.Strings(run)
		toks = append(toks, run...)
		i = j
	}
	if cut {
		toks = append(toks, "~")
	}
	return strings.Join(toks, ",") + ";"
}
