//go:build verif

package main

import (
	"math"
	"os"
	"strconv"
	"strings"

	"github.com/Vedant9500/WTF/internal/constants"
	"github.com/Vedant9500/WTF/internal/database"
	"github.com/Vedant9500/WTF/internal/nlp"
	"github.com/Vedant9500/WTF/internal/recovery"
)

// C01 monitors: the five clauses of the property (+ IsInf / IsNaN) evaluated on the real answers of
// every public search entry point, independently of the model:
//   SearchUniversal (checked by monitorSearch in dom_search.go and again here with the stricter
//   finiteness domain), Search, CachedDatabase.SearchWithOptionsAndCache (miss and hit),
//   SearchWithPipelineOptions, recovery.RecoverFromSearchFailure (validity / order / scores only: the
//   raw recovery answer is unbounded by design, the CLI step cuts it — checked on the CLI runs).
// plus the hypotheses the theorems make about the un-modelled NLP functions (class
// oracle-negative-factor): idf, intent boost, cascade boost, TF-IDF similarity are never negative / NaN.

// The property says "the default limit", not which.  SearchUniversal's default is an inline literal: the orchestration hands
// the value the translator read off the source on this run (Gen.SearchParams.defaultLimit) through the environment; 10 is what
// it was when this was written and is used only when the translator could not read it (then the check is a violation anyway).
// The legacy entry points use a named constant, read directly.
var universalDefaultLimit = c01EnvInt("VERIF_UNIVERSAL_DEFAULT_LIMIT", 10)
var legacyDefaultLimit = int(constants.DefaultSearchLimit)

func c01EnvInt(name string, def int) int {
	if v, err := strconv.Atoi(os.Getenv(name)); err == nil && v > 0 {
		return v
	}
	return def
}

// c01Finite: the option domain on which "every score is finite" is claimed (DESIGN.md C01, domain
// note): boosts finite and of magnitude ≤ 1e6.  Negative and zero boosts are inside the domain: the
// code guards them (`b > 0`), so scores stay non-negative.
func c01Finite(o database.SearchOptions) bool {
	ok := func(v float64) bool { return !math.IsNaN(v) && !math.IsInf(v, 0) && math.Abs(v) <= 1e6 }
	if !ok(o.PipelineBoost) {
		return false
	}
	for _, v := range o.ContextBoosts {
		if !ok(v) {
			return false
		}
	}
	return true
}

// c01Check evaluates the clauses on one answer.  limit < 0 means "no bound claimed" (raw recovery).
func c01Check(mon *Mon, entry string, db *database.Database, q string, reqLimit, limit int, rs []database.SearchResult, finite bool) {
	det := func(extra string) map[string]interface{} {
		return map[string]interface{}{"entry": entry, "query": q, "limit": reqLimit, "n": len(rs), "what": extra}
	}
	if limit >= 0 && len(rs) > limit {
		mon.Hit("C01", "more-than-limit", det(Itoa(len(rs))+" results for limit in force "+Itoa(limit)))
	}
	seen := map[int]bool{}
	for i, r := range rs {
		id := -1
		if r.Command != nil {
			id = db.VerifIndexOf(r.Command)
		}
		if id < 0 {
			mon.Hit("C01", "foreign-command", det("result "+Itoa(i)+" is not an entry of the searched database"))
			continue
		}
		if seen[id] {
			mon.Hit("C01", "duplicate-result", det("entry "+Itoa(id)+" appears twice"))
		}
		seen[id] = true
		if finite && (math.IsNaN(r.Score) || math.IsInf(r.Score, 0) || r.Score < 0) {
			mon.Hit("C01", "score-not-finite-nonnegative", det("score "+F(r.Score)+" of entry "+Itoa(id)))
		}
		if i > 0 && rs[i-1].Score < r.Score {
			mon.Hit("C01", "not-sorted", det("score rises at position "+Itoa(i)))
		}
	}
	mon.Tag("c01." + entry)
	if len(rs) > 0 {
		mon.Tag("c01." + entry + ".nonempty")
	}
	if limit >= 0 && len(rs) == limit {
		mon.Tag("c01." + entry + ".at-limit")
	}
}

func effLimit(l, dflt int) int {
	if l <= 0 {
		return dflt
	}
	return l
}

// quietRecover runs the recovery search with os.Stdout pointed at /dev/null (it prints a warning).
func quietRecover(q string, db *database.Database) ([]database.SearchResult, error) {
	old := os.Stdout
	if f, err := os.OpenFile(os.DevNull, os.O_WRONLY, 0); err == nil {
		os.Stdout = f
		defer func() { os.Stdout = old; f.Close() }()
	}
	return recovery.NewSearchRecovery().RecoverFromSearchFailure(q, nil, db)
}

// guarded runs f and reports a panic of a search entry point to C10 (not C01's subject).
func guarded(mon *Mon, entry, q string, f func()) {
	defer func() {
		if r := recover(); r != nil {
			mon.Hit("C10", "search-panic", map[string]interface{}{"entry": entry, "query": q, "panic": strings.ReplaceAll(toStr(r), "\n", " ")})
		}
	}()
	f()
}

// c01AllEntryPoints runs one request through every other public entry point and checks the clauses.
func c01AllEntryPoints(mon *Mon, db *database.Database, q string, o database.SearchOptions) {
	fin := c01Finite(o)
	guarded(mon, "Search", q, func() {
		c01Check(mon, "Search", db, q, o.Limit, effLimit(o.Limit, universalDefaultLimit), db.Search(q, o.Limit), true)
	})
	guarded(mon, "SearchWithOptionsAndCache", q, func() {
		cdb := database.NewCachedDatabase(db)
		r1 := cdb.SearchWithOptionsAndCache(q, o)
		c01Check(mon, "cached-miss", db, q, o.Limit, effLimit(o.Limit, universalDefaultLimit), r1, fin)
		r2 := cdb.SearchWithOptionsAndCache(q, o)
		c01Check(mon, "cached-hit", db, q, o.Limit, effLimit(o.Limit, universalDefaultLimit), r2, fin)
		if len(r1) > 0 && cdb.GetCacheStats()["search"].Hits > 0 {
			mon.Tag("c01.cache-hit-served")
		}
		// the same request under a run of different limits on ONE cache: every answer (miss or hit,
		// whatever was cached before under another limit) must respect the limit it was asked with
		lims := []int{0, -1, 5, 10, 3, 1, len(db.Commands) + 1, 5, 0, 2, 10}
		start := len(q) % len(lims)
		for k := 0; k < len(lims); k++ {
			o2 := o
			o2.Limit = lims[(start+k)%len(lims)]
			c01Check(mon, "cached-varied-limits", db, q, o2.Limit, effLimit(o2.Limit, universalDefaultLimit), cdb.SearchWithOptionsAndCache(q, o2), fin)
		}
	})
	// the cached answer after the command list was replaced (also while the cache was switched off, and by an
	// empty list): every result must be an entry of the database as it is NOW
	guarded(mon, "cached-after-update", q, func() {
		cp := &database.Database{Commands: c03Clone(db.Commands)}
		cdb := database.NewCachedDatabase(cp)
		first := cdb.SearchWithOptionsAndCache(q, o)
		repl := c03Clone(db.Commands)
		for i, j := 0, len(repl)-1; i < j; i, j = i+1, j-1 { // same entries, other positions, other array
			repl[i], repl[j] = repl[j], repl[i]
		}
		switch len(q) % 3 {
		case 0:
			cdb.EnableCache(false)
			cdb.UpdateDatabase(repl)
			cdb.EnableCache(true)
			mon.Tag("c01.update-while-cache-off")
		case 1:
			cdb.UpdateDatabase(repl)
		default:
			cdb.UpdateDatabase(nil)
			c01Check(mon, "cached-after-empty-update", cdb.Database, q, o.Limit, effLimit(o.Limit, universalDefaultLimit), cdb.SearchWithOptionsAndCache(q, o), fin)
			cdb.UpdateDatabase(repl)
		}
		c01Check(mon, "cached-after-update", cdb.Database, q, o.Limit, effLimit(o.Limit, universalDefaultLimit), cdb.SearchWithOptionsAndCache(q, o), fin)
		if len(first) > 0 {
			mon.Tag("c01.cached-after-update.first-nonempty")
		}
	})
	guarded(mon, "SearchWithPipelineOptions", q, func() {
		c01Check(mon, "SearchWithPipelineOptions", db, q, o.Limit, effLimit(o.Limit, legacyDefaultLimit), db.SearchWithPipelineOptions(q, o), fin)
	})
	guarded(mon, "RecoverFromSearchFailure", q, func() {
		rs, err := quietRecover(q, db)
		if err == nil {
			c01Check(mon, "recovery-raw", db, q, o.Limit, -1, rs, true)
		}
	})
}

// c01Oracle checks what the theorems assume about the un-modelled functions, on their real values.
type c01OracleKey struct {
	db *database.Database
	q  string
}

var c01OracleSeen = map[c01OracleKey]bool{}
var c01IdfSeen = map[*database.Database]bool{}

func c01Oracle(mon *Mon, db *database.Database, q string) {
	bad := func(v float64) bool { return math.IsNaN(v) || v < 0 }
	if !c01IdfSeen[db] {
		if len(c01IdfSeen) > 64 {
			c01IdfSeen = map[*database.Database]bool{}
		}
		c01IdfSeen[db] = true
		n := len(db.Commands)
		for df := 0; df <= n; df++ {
			if v := database.VerifIDF(n, df); bad(v) || math.IsInf(v, 0) {
				mon.Hit("C01", "oracle-negative-factor", map[string]interface{}{"what": "idf", "n": n, "df": df, "value": F(v)})
			}
		}
		p := db.VerifBM25Params()
		if !(p[0] > 0) || !(p[5] > 0 && p[6] > 0 && p[7] > 0 && p[8] > 0) || !(p[1] >= 0 && p[1] <= 1 && p[2] >= 0 && p[2] <= 1 && p[3] >= 0 && p[3] <= 1 && p[4] >= 0 && p[4] <= 1) {
			mon.Hit("C01", "oracle-negative-factor", map[string]interface{}{"what": "bm25 parameters in force are not sane", "params": p})
		}
	}
	k := c01OracleKey{db, q}
	if c01OracleSeen[k] {
		return
	}
	if len(c01OracleSeen) > 256 {
		c01OracleSeen = map[c01OracleKey]bool{}
	}
	c01OracleSeen[k] = true
	nq := strings.ToLower(strings.TrimSpace(q))
	pq := nlp.NewQueryProcessor().ProcessQuery(nq)
	for i := range db.Commands {
		if v := database.VerifIntentBoost(&db.Commands[i], pq); bad(v) || math.IsInf(v, 0) {
			mon.Hit("C01", "oracle-negative-factor", map[string]interface{}{"what": "calculateIntentBoost", "query": q, "doc": i, "value": F(v)})
		}
		if v := db.VerifCascadeBoost(&db.Commands[i], pq); bad(v) || math.IsInf(v, 0) {
			mon.Hit("C01", "oracle-negative-factor", map[string]interface{}{"what": "calculateBoostForCommand", "query": q, "doc": i, "value": F(v)})
		}
	}
	if res, ok := db.VerifTFIDF(nq); ok {
		for _, r := range res {
			if bad(r.Similarity) || math.IsInf(r.Similarity, 0) {
				mon.Hit("C01", "oracle-negative-factor", map[string]interface{}{"what": "tf-idf similarity", "query": q, "doc": r.CommandIndex, "value": F(r.Similarity)})
			}
		}
	}
	mon.Tag("c01.oracle-checked")
}

func init() {
	searchMonitors = append(searchMonitors, func(mon *Mon, cur *SearchRecord, prev []*SearchRecord) {
		if cur.Panic == "" {
			// SearchUniversal itself, on the full finiteness domain (monitorSearch skips negative boosts)
			c01Check(mon, "SearchUniversal", cur.DB, cur.Query, cur.Opts.Limit, effLimit(cur.Opts.Limit, universalDefaultLimit), cur.Results, c01Finite(cur.Opts))
			switch {
			case cur.Opts.Limit <= 0:
				mon.Tag("c01.limit-nonpositive")
			case cur.Opts.Limit > len(cur.DB.Commands):
				mon.Tag("c01.limit-above-N")
			default:
				mon.Tag("c01.limit-1..N")
			}
			if len(cur.Results) > 0 { // which internal path answered
				path := "c01.path-lexical"
				if cur.Opts.UseNLP {
					path = "c01.path-lexical-nlp"
				}
				if cur.Opts.UseFuzzy {
					o2 := cur.Opts
					o2.UseFuzzy = false
					guarded(mon, "SearchUniversal", cur.Query, func() {
						if len(cur.DB.SearchUniversal(cur.Query, o2)) == 0 {
							path = "c01.path-typo-fallback"
						}
					})
				}
				mon.Tag(path)
			}
			ties := 0
			for i := 1; i < len(cur.Results); i++ {
				if cur.Results[i].Score == cur.Results[i-1].Score {
					ties++
				}
			}
			if ties > 0 {
				mon.Tag("c01.tied-neighbours")
			}
		}
		c01AllEntryPoints(mon, cur.DB, cur.Query, cur.Opts)
		c01Oracle(mon, cur.DB, cur.Query)
	})
}
