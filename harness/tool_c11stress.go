//go:build verif

package main

// c11stress (C11, dynamic SUPPORT -- not proof): meant to be run from the binary built with -race.
//
//	wtfverif-race tool c11stress -seed S -dur MS -out DIR [-tier quick|thorough] [-repo /repo]
//
// Phase A  searches: a generated database is written as YAML and loaded with database.LoadDatabase
//          (index and TF-IDF built: the "loaded" precondition).  Every (query, options) case is first
//          answered ALONE (twice, to exclude cases that are not deterministic even alone -- C02's subject --
//          and cases whose cache key collides with a different answer -- C05's subject).  Then G goroutines
//          hammer direct / cached / monitored search while others invalidate, sweep, read statistics and
//          the performance report.  Every concurrent answer must be bit-identical to the solitary one;
//          metric totals must equal the number of monitored calls.
// Phase B  raw LRU under load with small capacities and short lifetimes: size never above capacity,
//          a hit returns a value that was put under that key, hits+misses = number of Get calls.
// Phase C  many short recorded histories (<= 8 operations, 2-4 goroutines, TTL 0) with a global atomic
//          sequence number taken before each call and after each return; written as `linearize` cases
//          for the Lean driver (and the Go checker of dom_linearize.go).
//
// Data races are reported by the race runtime on stderr ("WARNING: DATA RACE", exit status 66).

import (
	"encoding/json"
	"flag"
	"fmt"
	"math"
	"os"
	"path/filepath"
	"reflect"
	"runtime"
	"sort"
	"strings"
	"sync"
	"sync/atomic"
	"time"

	"gopkg.in/yaml.v3"

	"github.com/Vedant9500/WTF/internal/cache"
	"github.com/Vedant9500/WTF/internal/database"
)

func init() { RegisterTool("c11stress", c11stress) }

type c11Case struct {
	Query string
	Opts  database.SearchOptions
	key   string
	exp   []c11Res
	skip  string
}

type c11Res struct {
	Idx  int
	Bits uint64
}

type c11Mismatch struct {
	Path     string   `json:"path"`
	QueryHex string   `json:"query_hex"`
	Query    string   `json:"query"`
	Options  string   `json:"options"`
	Expected []c11Res `json:"expected_alone"`
	Got      []c11Res `json:"got_concurrently"`
}

type c11Report struct {
	Seed        uint64             `json:"seed"`
	DBSize      int                `json:"db_size"`
	Cases       int                `json:"cases"`
	Excluded    map[string]int     `json:"excluded"`
	Calls       map[string]int64   `json:"calls"`
	NonEmpty    int64              `json:"nonempty_results"`
	Mismatches  []c11Mismatch      `json:"mismatches"`
	NMismatch   int64              `json:"mismatch_count"`
	Metrics     map[string]float64 `json:"metrics"`
	MetricFails []string           `json:"metric_failures"`
	LruFails    []string           `json:"lru_failures"`
	Lru         map[string]int64   `json:"lru"`
	Histories   int                `json:"histories"`
	Overlapping int                `json:"histories_with_overlap"`
	Goroutines  int                `json:"goroutines"`
	GOMAXPROCS  int                `json:"gomaxprocs"`
	Panics      []string           `json:"panics"`
	Stalls      []string           `json:"stalls"`
	OrderFails  []string           `json:"order_failures"`
}

var c11Words = []string{"list", "files", "directory", "find", "search", "text", "compress", "archive", "extract", "copy",
	"move", "delete", "remove", "create", "show", "display", "network", "interface", "address", "process", "kill", "disk",
	"usage", "install", "package", "download", "file", "git", "commit", "branch", "docker", "container", "image", "tar",
	"gzip", "zip", "unzip", "grep", "sed", "awk", "curl", "wget", "ssh", "permissions", "change", "owner", "log", "view",
	"edit", "replace", "count", "lines", "sort", "unique", "port", "listen", "memory", "cpu", "service", "restart", "user",
	"password", "mount", "partition", "kernel", "version", "python", "pip", "node", "npm", "rename", "recursive", "hidden",
	"size", "largest", "empty", "symlink", "link", "checksum", "hash", "encrypt", "decrypt", "key", "certificate"}
var c11Tools = []string{"git", "docker", "tar", "find", "grep", "ls", "cat", "curl", "wget", "ssh", "chmod", "chown", "ps",
	"kill", "df", "du", "apt", "pip", "npm", "sed", "awk", "zip", "unzip", "gzip", "mv", "cp", "rm", "mkdir", "ip", "netstat",
	"systemctl", "mount", "openssl", "sha256sum", "ln", "head", "tail", "wc", "sort", "uniq", "kubectl", "foo-tool", "xyzzy"}
var c11Platforms = [][]string{nil, {"linux"}, {"macos"}, {"windows"}, {"linux", "macos"}, {"cross-platform"}, {"linux", "macos", "windows"}, {"LINUX"}, {"bash"}}

func c11Phrase(r *Rng, n int) string {
	w := make([]string, n)
	for i := range w {
		w[i] = Pick(r, c11Words)
	}
	return strings.Join(w, " ")
}

func c11GenDB(r *Rng, n int, repo string) []database.Command {
	cmds := make([]database.Command, 0, n)
	// a sample of the shipped database, when it is readable (realistic text)
	if b, err := os.ReadFile(filepath.Join(repo, "assets", "commands.yml")); err == nil {
		var all []database.Command
		if yaml.Unmarshal(b, &all) == nil && len(all) > 0 {
			for i := 0; i < n/3; i++ {
				c := all[r.Intn(len(all))]
				cmds = append(cmds, database.Command{Command: c.Command, Description: c.Description, Keywords: c.Keywords,
					Tags: c.Tags, Niche: c.Niche, Platform: c.Platform, Pipeline: c.Pipeline})
			}
		}
	}
	for len(cmds) < n {
		tool := Pick(r, c11Tools)
		c := database.Command{
			Command:     tool + " " + Pick(r, []string{"-a", "-r", "-v", "--all", "-x", ""}) + " " + Pick(r, c11Words),
			Description: strings.ToUpper(Pick(r, c11Words)[:1]) + c11Phrase(r, r.Range(3, 9)),
			Platform:    Pick(r, c11Platforms),
			Pipeline:    r.Chance(1, 5),
		}
		if c.Pipeline {
			c.Command += " | " + Pick(r, c11Tools) + " " + Pick(r, c11Words)
		}
		for i := r.Intn(5); i > 0; i-- {
			c.Keywords = append(c.Keywords, Pick(r, c11Words))
		}
		for i := r.Intn(3); i > 0; i-- {
			c.Tags = append(c.Tags, Pick(r, c11Words))
		}
		if r.Chance(1, 12) && len(cmds) > 0 { // exact duplicates force score ties
			c = cmds[r.Intn(len(cmds))]
		}
		cmds = append(cmds, c)
	}
	return cmds
}

func c11Misspell(r *Rng, w string) string {
	if len(w) < 4 {
		return w
	}
	i := r.Range(1, len(w)-2)
	switch r.Intn(3) {
	case 0:
		return w[:i] + w[i+1:]
	case 1:
		return w[:i] + string(w[i+1]) + string(w[i]) + w[i+2:]
	default:
		return w[:i] + string(w[i]) + w[i:]
	}
}

func c11GenCases(r *Rng, n int) []*c11Case {
	out := make([]*c11Case, 0, n)
	for i := 0; i < n; i++ {
		var q string
		switch x := r.Intn(10); {
		case x < 5:
			q = c11Phrase(r, r.Range(1, 5))
		case x < 6:
			q = Pick(r, c11Tools) + " " + Pick(r, c11Words)
		case x < 8:
			q = c11Misspell(r, Pick(r, c11Words)) + " " + c11Misspell(r, Pick(r, c11Words))
		case x < 9:
			q = "how to " + c11Phrase(r, r.Range(2, 12))
		default:
			q = Pick(r, []string{"", "  ", "the of", "a", "Find FILES ", " LIST  hidden"})
		}
		o := database.SearchOptions{Limit: Pick(r, []int{0, 1, 2, 3, 5, 10, 12}), UseNLP: r.Bool(), UseFuzzy: r.Chance(2, 3)}
		if r.Chance(1, 4) {
			o.PipelineOnly = true
		}
		if r.Chance(1, 4) {
			o.PipelineBoost = Pick(r, []float64{1.5, 2, 0.5})
		}
		if r.Chance(1, 3) {
			o.AllPlatforms = true
		}
		if r.Chance(1, 5) {
			o.Platforms = Pick(r, [][]string{{"windows"}, {"macos"}, {"linux", "windows"}})
		}
		if r.Chance(1, 6) {
			o.NoCrossPlatform = true
		}
		if r.Chance(1, 4) {
			o.FuzzyThreshold = Pick(r, []int{-30, -10, -100})
		}
		if r.Chance(1, 5) {
			o.TopTermsCap = Pick(r, []int{1, 2, 4})
		}
		if r.Chance(1, 4) {
			o.ContextBoosts = map[string]float64{Pick(r, c11Words): 1.5, Pick(r, c11Tools): 2.0}
		}
		out = append(out, &c11Case{Query: q, Opts: o})
	}
	return out
}

// c11CacheOpts copies the same-named fields by reflection, so that adding or removing a key field in
// the repository does not break the harness build (the key's contents are C05's subject, not this tool's).
func c11CacheOpts(o database.SearchOptions) cache.SearchOptions {
	var c cache.SearchOptions
	src := reflect.ValueOf(o)
	dst := reflect.ValueOf(&c).Elem()
	for i := 0; i < dst.NumField(); i++ {
		f := src.FieldByName(dst.Type().Field(i).Name)
		if f.IsValid() && f.Type().AssignableTo(dst.Field(i).Type()) {
			dst.Field(i).Set(f)
		}
	}
	return c
}

func c11Conv(db *database.Database, rs []database.SearchResult) []c11Res {
	out := make([]c11Res, len(rs))
	if len(db.Commands) == 0 {
		return out
	}
	for i, r := range rs {
		idx := -1
		for j := range db.Commands { // small databases: a linear scan keeps this free of any shared map
			if &db.Commands[j] == r.Command {
				idx = j
				break
			}
		}
		out[i] = c11Res{idx, math.Float64bits(r.Score)}
	}
	return out
}

func c11Equal(a, b []c11Res) bool {
	if len(a) != len(b) {
		return false
	}
	for i := range a {
		if a[i] != b[i] {
			return false
		}
	}
	return true
}

// c11Progress counts completed operations of every concurrent phase; c11Watchdog turns "no operation completed for the stall
// limit" into a report (stalls) and an exit instead of a process that hangs until the caller's timeout.
var c11Progress atomic.Int64

func c11Watchdog(rep *c11Report, outDir string, limit time.Duration) (stop func()) {
	done := make(chan struct{})
	go func() {
		last, lastChange := int64(-1), time.Now()
		for {
			select {
			case <-done:
				return
			case <-time.After(200 * time.Millisecond):
			}
			if p := c11Progress.Load(); p != last {
				last, lastChange = p, time.Now()
			} else if time.Since(lastChange) > limit {
				rep.Stalls = append(rep.Stalls, fmt.Sprintf("no operation of the concurrent phases completed for %v (%d had completed): goroutines are blocked on each other", limit, last))
				b, _ := json.MarshalIndent(rep, "", " ")
				os.WriteFile(filepath.Join(outDir, "report.json"), b, 0o644)
				fmt.Println("c11stress: STALL " + rep.Stalls[0])
				os.Exit(4)
			}
		}
	}()
	return func() { close(done) }
}

func c11stress(args []string) int {
	fs := flag.NewFlagSet("c11stress", flag.ExitOnError)
	seed := fs.Uint64("seed", 1, "seed")
	durMS := fs.Int("dur", 4000, "duration of the search phase in ms")
	outDir := fs.String("out", ".", "output directory")
	tier := fs.String("tier", "quick", "tier")
	repo := fs.String("repo", "/repo", "repository root (for a sample of the shipped database)")
	fs.Parse(args)
	os.MkdirAll(*outDir, 0o755)
	rep := &c11Report{Seed: *seed, Excluded: map[string]int{}, Calls: map[string]int64{}, Metrics: map[string]float64{}, Lru: map[string]int64{},
		GOMAXPROCS: runtime.GOMAXPROCS(0)}
	thorough := *tier == "thorough"

	// ---------------- Phase A
	r := NewRng(*seed, 0, "c11stress")
	n := 90
	ncases := 160
	if thorough {
		n, ncases = 400, 500
	}
	cmds := c11GenDB(r, n, *repo)
	yb, err := yaml.Marshal(cmds)
	if err != nil {
		fmt.Fprintln(os.Stderr, "yaml:", err)
		return 2
	}
	dbPath := filepath.Join(*outDir, "c11db.yml")
	if err := os.WriteFile(dbPath, yb, 0o644); err != nil {
		fmt.Fprintln(os.Stderr, err)
		return 2
	}
	db, err := database.LoadDatabase(dbPath)
	if err != nil {
		fmt.Fprintln(os.Stderr, "load:", err)
		return 2
	}
	rep.DBSize = len(db.Commands)
	cases := c11GenCases(r, ncases)
	keyer := cache.NewSearchCache(1, 0)
	byKey := map[string][]*c11Case{}
	for _, c := range cases {
		a := c11Conv(db, db.SearchUniversal(c.Query, c.Opts))
		b := c11Conv(db, db.SearchUniversal(c.Query, c.Opts))
		c.exp = a
		if !c11Equal(a, b) {
			c.skip = "not-deterministic-alone"
		}
		c.key = keyer.VerifKey(c.Query, c11CacheOpts(c.Opts))
		byKey[c.key] = append(byKey[c.key], c)
	}
	for _, group := range byKey {
		for _, c := range group[1:] {
			if !c11Equal(c.exp, group[0].exp) { // one cache entry, two answers: C05's subject, not C11's
				for _, d := range group {
					if d.skip == "" {
						d.skip = "cache-key-collision-alone"
					}
				}
			}
		}
	}
	// the cached path alone (miss, then hit) must already agree with the direct one
	{
		solo := database.NewCachedDatabase(db)
		for _, c := range cases {
			if c.skip != "" {
				continue
			}
			m := c11Conv(db, solo.SearchWithOptionsAndCache(c.Query, c.Opts))
			h := c11Conv(db, solo.SearchWithOptionsAndCache(c.Query, c.Opts))
			if !c11Equal(m, c.exp) || !c11Equal(h, c.exp) {
				c.skip = "cached-differs-alone"
			}
		}
	}
	var live []*c11Case
	for _, c := range cases {
		if c.skip != "" {
			rep.Excluded[c.skip]++
		} else {
			live = append(live, c)
		}
	}
	rep.Cases = len(live)
	if len(live) == 0 {
		fmt.Fprintln(os.Stderr, "no usable cases")
		return 2
	}

	// ---------------- Phase A0: an operation that has returned has taken effect (real-time order), on ONE goroutine.
	// A cached search stores its answer before it returns; an invalidation that is called afterwards therefore leaves the
	// cache empty, and it stays empty until the next search.  A store that is handed to a background goroutine (wave 7,
	// C11-A) lands after the invalidation that followed it: no sequential ordering of "search; invalidate; statistics"
	// that respects the order in which the calls returned shows a non-empty cache.
	{
		seq := database.NewCachedDatabase(db)
		tried := 0
		for _, c := range live {
			if len(c.exp) == 0 || tried >= 150 {
				continue
			}
			tried++
			seq.SearchWithOptionsAndCache(c.Query, c.Opts)
			seq.InvalidateCache()
			bad := -1
			for k := 0; k < 40 && bad < 0; k++ { // ~2 ms
				if sz := seq.GetCacheStats()["search"].Size; sz != 0 {
					bad = sz
				}
				time.Sleep(50 * time.Microsecond)
			}
			rep.Calls["order:search-invalidate-stats"]++
			if bad >= 0 {
				mu0 := fmt.Sprintf("after SearchWithOptionsAndCache(%q) returned and InvalidateCache() returned, with no other goroutine using the cache, GetCacheStats reports %d cached entries: the search's store took effect after the call had returned", c.Query, bad)
				if len(rep.OrderFails) < 5 {
					rep.OrderFails = append(rep.OrderFails, mu0)
				}
			}
		}
	}

	cdb := database.NewCachedDatabase(db)
	mdb := database.NewMonitoredDatabase(db)
	G := 12
	if thorough {
		G = 24
	}
	rep.Goroutines = G
	var nDirect, nCached, nMon, nInv, nSweep, nStats, nReport, nNonEmpty, nMis, monQLen atomic.Int64
	var mu sync.Mutex
	record := func(path string, c *c11Case, got []c11Res) {
		nMis.Add(1)
		mu.Lock()
		defer mu.Unlock()
		if len(rep.Mismatches) < 5 {
			ob, _ := json.Marshal(c.Opts)
			rep.Mismatches = append(rep.Mismatches, c11Mismatch{Path: path, QueryHex: Hx(c.Query), Query: c.Query, Options: string(ob), Expected: c.exp, Got: got})
		}
	}
	notePanic := func(where string) {
		if p := recover(); p != nil {
			mu.Lock()
			if len(rep.Panics) < 5 {
				rep.Panics = append(rep.Panics, where+": "+fmt.Sprint(p))
			}
			mu.Unlock()
		}
	}
	stopWatchdog := c11Watchdog(rep, *outDir, 20*time.Second)
	defer stopWatchdog()
	deadline := time.Now().Add(time.Duration(*durMS) * time.Millisecond)
	var wg sync.WaitGroup
	for g := 0; g < G; g++ {
		wg.Add(1)
		go func(g int) {
			defer wg.Done()
			defer notePanic("search goroutine")
			gr := NewRng(*seed, uint64(1000+g), "c11stress-g")
			for it := 0; ; it++ {
				c11Progress.Add(1)
				if it%8 == 0 && time.Now().After(deadline) {
					return
				}
				c := live[gr.Intn(len(live))]
				switch x := gr.Intn(100); {
				case x < 30:
					got := c11Conv(db, db.SearchUniversal(c.Query, c.Opts))
					nDirect.Add(1)
					if !c11Equal(got, c.exp) {
						record("SearchUniversal", c, got)
					}
					if len(got) > 0 {
						nNonEmpty.Add(1)
					}
				case x < 58:
					got := c11Conv(db, cdb.SearchWithOptionsAndCache(c.Query, c.Opts))
					nCached.Add(1)
					if !c11Equal(got, c.exp) {
						record("SearchWithOptionsAndCache", c, got)
					}
				case x < 86:
					got := c11Conv(db, mdb.SearchWithOptionsAndMonitoring(c.Query, c.Opts))
					nMon.Add(1)
					monQLen.Add(int64(len(c.Query)))
					if !c11Equal(got, c.exp) {
						record("SearchWithOptionsAndMonitoring", c, got)
					}
				case x < 87:
					cdb.InvalidateCache()
					mdb.InvalidateCache()
					nInv.Add(1)
				case x < 93:
					a, b := cdb.CleanupExpiredCache(), mdb.CleanupExpiredCache()
					nSweep.Add(1)
					if a["search"] < 0 || b["search"] < 0 {
						mu.Lock()
						rep.LruFails = append(rep.LruFails, "negative sweep count")
						mu.Unlock()
					}
				case x < 98:
					for _, st := range []map[string]cache.Stats{cdb.GetCacheStats(), mdb.GetCacheStats()} {
						s := st["search"]
						nStats.Add(1)
						if s.Size < 0 || s.Size > s.Capacity || s.Hits < 0 || s.Misses < 0 || s.Evictions < 0 {
							mu.Lock()
							if len(rep.LruFails) < 5 {
								rep.LruFails = append(rep.LruFails, fmt.Sprintf("implausible cache stats %+v", s))
							}
							mu.Unlock()
						}
					}
				default:
					_ = mdb.GetPerformanceReport()
					nReport.Add(1)
				}
			}
		}(g)
	}
	wg.Wait()
	// ---------------- cold starts: a freshly loaded database whose FIRST searches run concurrently (anything the engine
	// builds lazily on first use - an index, a memo of match targets - is then initialised under contention); every answer
	// must equal the one computed alone on the warmed database
	{
		rounds := 12
		if thorough {
			rounds = 60
		}
		cr := NewRng(*seed, 7777, "c11stress-cold")
		var fuzzyLive []*c11Case // cases that reach the typo fallback first: the paths with most lazily built state
		for _, c := range live {
			if c.Opts.UseFuzzy && len(c.exp) > 0 && len(c11Conv(db, db.SearchUniversal(c.Query, func() database.SearchOptions { o := c.Opts; o.UseFuzzy = false; return o }()))) == 0 {
				fuzzyLive = append(fuzzyLive, c)
			}
		}
		var nCold atomic.Int64
		for round := 0; round < rounds; round++ {
			fresh, err := database.LoadDatabase(dbPath)
			if err != nil {
				break
			}
			var fcdb *database.CachedDatabase
			if round%2 == 1 {
				fcdb = database.NewCachedDatabase(fresh)
			}
			start := make(chan struct{})
			var cw sync.WaitGroup
			for g := 0; g < G; g++ {
				var c *c11Case
				if len(fuzzyLive) > 0 && (round%3 != 2 || g%2 == 0) {
					c = fuzzyLive[cr.Intn(len(fuzzyLive))]
				} else {
					c = live[cr.Intn(len(live))]
				}
				cw.Add(1)
				go func(c *c11Case) {
					defer cw.Done()
					defer notePanic("cold-start goroutine")
					<-start
					var got []c11Res
					if fcdb != nil {
						got = c11Conv(fresh, fcdb.SearchWithOptionsAndCache(c.Query, c.Opts))
					} else {
						got = c11Conv(fresh, fresh.SearchUniversal(c.Query, c.Opts))
					}
					nCold.Add(1)
					c11Progress.Add(1)
					if !c11Equal(got, c.exp) {
						record("first concurrent searches on a freshly loaded database", c, got)
					}
				}(c)
			}
			close(start)
			cw.Wait()
		}
		rep.Calls["cold-start searches"] = nCold.Load()
		rep.Calls["cold-start typo cases"] = int64(len(fuzzyLive))
	}
	// ---------------- one options value shared by every goroutine: the boost table inside it is a map that all of them hand to
	// the engine at once (a server would build it once per project); expected answers come from private copies
	{
		shared := database.SearchOptions{Limit: 5, UseNLP: true, UseFuzzy: true,
			ContextBoosts: map[string]float64{"docker": 2.0, "git": 1.5, "list": 1.2, "qqzzxxjj": 3.0}}
		private := func() database.SearchOptions {
			o := shared
			o.ContextBoosts = map[string]float64{}
			for k, v := range shared.ContextBoosts {
				o.ContextBoosts[k] = v
			}
			return o
		}
		type sq struct {
			q   string
			exp []c11Res
		}
		var qs []sq
		seen := map[string]bool{}
		for _, c := range live {
			if !seen[c.Query] && len(qs) < 40 {
				seen[c.Query] = true
				a := c11Conv(db, db.SearchUniversal(c.Query, private()))
				if c11Equal(a, c11Conv(db, db.SearchUniversal(c.Query, private()))) {
					qs = append(qs, sq{c.Query, a})
				}
			}
		}
		var nShared atomic.Int64
		var sw sync.WaitGroup
		for g := 0; g < G && len(qs) > 0; g++ {
			sw.Add(1)
			go func(g int) {
				defer sw.Done()
				defer notePanic("shared-options goroutine")
				gr := NewRng(*seed, uint64(5000+g), "c11stress-shared")
				for it := 0; it < 150; it++ {
					c11Progress.Add(1)
					x := qs[gr.Intn(len(qs))]
					got := c11Conv(db, db.SearchUniversal(x.q, shared))
					nShared.Add(1)
					if !c11Equal(got, x.exp) {
						record("searches sharing one options value (boost table)", &c11Case{Query: x.q, Opts: shared, exp: x.exp}, got)
					}
				}
			}(g)
		}
		sw.Wait()
		if len(shared.ContextBoosts) != 4 {
			mu.Lock()
			rep.LruFails = append(rep.LruFails, fmt.Sprintf("the caller's boost table was modified by searches: now %d keys", len(shared.ContextBoosts)))
			mu.Unlock()
		}
		rep.Calls["shared-options searches"] = nShared.Load()
	}
	// ---------------- statistics readers hammering the cache while searches run (a reader that re-enters a lock it already holds
	// deadlocks as soon as a writer queues up between its two acquisitions), with a watchdog: no completed operation for 8 s is a stall
	{
		fresh := database.NewCachedDatabase(db)
		var progress atomic.Int64
		stop := make(chan struct{})
		var pw sync.WaitGroup
		for g := 0; g < 4; g++ {
			pw.Add(1)
			go func() {
				defer pw.Done()
				for {
					select {
					case <-stop:
						return
					default:
					}
					st := fresh.GetCacheStats()["search"]
					if st.Size < 0 || st.Size > st.Capacity {
						mu.Lock()
						rep.LruFails = append(rep.LruFails, fmt.Sprintf("implausible cache stats while polling %+v", st))
						mu.Unlock()
					}
					progress.Add(1)
				}
			}()
		}
		done := make(chan struct{})
		go func() {
			var sw sync.WaitGroup
			for g := 0; g < 8; g++ {
				sw.Add(1)
				go func(g int) {
					defer sw.Done()
					defer notePanic("polled-cache searcher")
					gr := NewRng(*seed, uint64(7000+g), "c11stress-poll")
					for it := 0; it < 250; it++ {
						c := live[gr.Intn(len(live))]
						if got := c11Conv(db, fresh.SearchWithOptionsAndCache(c.Query, c.Opts)); !c11Equal(got, c.exp) {
							record("cached search while statistics are polled", c, got)
						}
						if it%40 == 39 {
							fresh.InvalidateCache()
						}
						progress.Add(1)
						c11Progress.Add(1)
					}
				}(g)
			}
			sw.Wait()
			close(done)
		}()
		last, lastChange := int64(-1), time.Now()
	watch:
		for {
			select {
			case <-done:
				break watch
			case <-time.After(100 * time.Millisecond):
				if p := progress.Load(); p != last {
					last, lastChange = p, time.Now()
				} else if time.Since(lastChange) > 8*time.Second {
					rep.Stalls = append(rep.Stalls, fmt.Sprintf("no cache operation completed for 8s with 4 goroutines reading GetCacheStats and 8 running cached searches (%d operations had completed): the cache is deadlocked", last))
					b, _ := json.MarshalIndent(rep, "", " ")
					os.WriteFile(filepath.Join(*outDir, "report.json"), b, 0o644)
					fmt.Println("c11stress: STALL " + rep.Stalls[0])
					os.Exit(4)
				}
			}
		}
		close(stop)
		pw.Wait()
		rep.Calls["polled-cache operations"] = progress.Load()
	}
	// ---------------- bursts of requests that share query and scalar options and differ only in the collection-valued options
	// (platform list, boost table), fired together right after an invalidation: each must get ITS answer, not a neighbour's
	{
		type variant struct {
			o   database.SearchOptions
			exp []c11Res
		}
		type group struct {
			q  string
			vs []variant
		}
		var groups []group
		for _, c := range live {
			if len(groups) >= 12 || len(c.exp) == 0 {
				continue
			}
			base := c.Opts
			base.AllPlatforms = false
			mk := func(pl []string, boosts map[string]float64) database.SearchOptions {
				o := base
				o.Platforms, o.ContextBoosts = pl, boosts
				return o
			}
			w := strings.Fields(strings.ToLower(c.Query))
			if len(w) == 0 {
				continue
			}
			os4 := []database.SearchOptions{mk(nil, nil), mk([]string{"windows"}, nil), mk([]string{"linux", "macos"}, nil), mk(nil, map[string]float64{w[0]: 3.0})}
			g := group{q: c.Query}
			okG := true
			for _, o := range os4 {
				a := c11Conv(db, db.SearchUniversal(c.Query, o))
				if !c11Equal(a, c11Conv(db, db.SearchUniversal(c.Query, o))) {
					okG = false
				}
				g.vs = append(g.vs, variant{o, a})
			}
			distinct := false
			for _, v := range g.vs[1:] {
				if !c11Equal(v.exp, g.vs[0].exp) {
					distinct = true
				}
			}
			if okG && distinct {
				groups = append(groups, g)
			}
		}
		burst := database.NewCachedDatabase(db)
		var nBurst atomic.Int64
		for round := 0; round < 40 && len(groups) > 0; round++ {
			g := groups[round%len(groups)]
			burst.InvalidateCache()
			start := make(chan struct{})
			var bw sync.WaitGroup
			for rep2 := 0; rep2 < 2; rep2++ {
				for _, v := range g.vs {
					bw.Add(1)
					go func(v variant) {
						defer bw.Done()
						defer notePanic("burst goroutine")
						<-start
						got := c11Conv(db, burst.SearchWithOptionsAndCache(g.q, v.o))
						nBurst.Add(1)
						c11Progress.Add(1)
						if !c11Equal(got, v.exp) {
							record("simultaneous cache misses differing only in platform list / boost table", &c11Case{Query: g.q, Opts: v.o, exp: v.exp}, got)
						}
					}(v)
				}
			}
			close(start)
			bw.Wait()
		}
		rep.Calls["burst searches"] = nBurst.Load()
		rep.Calls["burst groups"] = int64(len(groups))
	}
	// ---------------- a sweep over hundreds of expired entries racing with Clear (what InvalidateCache does): a sweep that lets go of the
	// lock part-way must not go on with what it remembered; afterwards the cache must behave like a consistent LRU
	{
		trials := 40
		if thorough {
			trials = 300
		}
		for trial := 0; trial < trials && len(rep.LruFails) < 3; trial++ {
			lc := cache.NewLRUCache(1000, time.Hour)
			for i := 0; i < 400; i++ {
				lc.Put("old"+Itoa(i), i)
			}
			lc.VerifAge(2 * time.Hour)
			start := make(chan struct{})
			var sw sync.WaitGroup
			sw.Add(2)
			go func() { defer sw.Done(); defer notePanic("sweeper"); <-start; lc.CleanupExpired() }()
			go func() {
				defer sw.Done()
				defer notePanic("clearer")
				<-start
				if trial%2 == 1 {
					runtime.Gosched()
				}
				lc.Clear()
			}()
			close(start)
			sw.Wait()
			c11Progress.Add(1)
			func() {
				defer notePanic("after sweep-vs-clear")
				if sz, nk := lc.Size(), len(lc.Keys()); sz != nk || sz < 0 || sz > 400 {
					mu.Lock()
					rep.LruFails = append(rep.LruFails, fmt.Sprintf("after a sweep of 400 expired entries raced with Clear: Size()=%d, %d keys", sz, nk))
					mu.Unlock()
					return
				}
				for i := 0; i < 1100; i++ {
					lc.Put("new"+Itoa(i), i)
				}
				st := lc.Stats()
				if st.Size > st.Capacity || lc.Size() > 1000 || st.Evictions < 100 {
					mu.Lock()
					rep.LruFails = append(rep.LruFails, fmt.Sprintf("after a sweep raced with Clear, 1100 puts into a cache of 1000: %+v (the bound / eviction no longer work)", st))
					mu.Unlock()
					return
				}
				if v, ok := lc.Get("new1099"); !ok || v.(int) != 1099 {
					mu.Lock()
					rep.LruFails = append(rep.LruFails, "after a sweep raced with Clear: the entry stored last is not returned")
					mu.Unlock()
				}
			}()
		}
		rep.Calls["sweep-vs-clear trials"] = int64(trials)
	}
	rep.Calls["SearchUniversal"] = nDirect.Load()
	rep.Calls["SearchWithOptionsAndCache"] = nCached.Load()
	rep.Calls["SearchWithOptionsAndMonitoring"] = nMon.Load()
	rep.Calls["InvalidateCache"] = nInv.Load()
	rep.Calls["CleanupExpiredCache"] = nSweep.Load()
	rep.Calls["GetCacheStats"] = nStats.Load()
	rep.Calls["GetPerformanceReport"] = nReport.Load()
	rep.NonEmpty = nNonEmpty.Load()
	rep.NMismatch = nMis.Load()

	// metric totals
	sums := map[string]float64{}
	for _, m := range mdb.GetPerformanceReport().ApplicationMetrics {
		sums[m.Name] += m.Value
	}
	M := float64(nMon.Load())
	for _, k := range []string{"searches_total", "cache_hits_total", "cache_misses_total", "query_length_count", "query_length_sum"} {
		rep.Metrics[k] = sums[k]
	}
	rep.Metrics["monitored_calls"] = M
	check := func(name string, got, want float64) {
		if got != want {
			rep.MetricFails = append(rep.MetricFails, fmt.Sprintf("%s = %v, expected %v", name, got, want))
		}
	}
	check("sum over series of searches_total", sums["searches_total"], M)
	check("cache_hits_total + cache_misses_total", sums["cache_hits_total"]+sums["cache_misses_total"], M)
	check("query_length_count", sums["query_length_count"], M)
	check("query_length_sum", sums["query_length_sum"], float64(monQLen.Load()))
	// (the search_duration timer is not part of GetAllMetrics -- timers are kept in a registry of their own that
	//  the report does not walk -- so there is no exported total to compare for it)

	// ---------------- Phase B: raw LRU under load
	type lruCfg struct {
		capv  int
		ttl   time.Duration
		clear bool
	}
	cfgs := []lruCfg{{1, 0, false}, {2, 0, false}, {3, 0, true}, {5, time.Millisecond, false}, {64, 0, false}, {2, 200 * time.Microsecond, true}, {3, 50 * time.Millisecond, false}}
	per := 250 * time.Millisecond
	if thorough {
		per = 1500 * time.Millisecond
	}
	for ci, cfg := range cfgs {
		c := cache.NewLRUCache(cfg.capv, cfg.ttl)
		var gets, puts, hits atomic.Int64
		dl := time.Now().Add(per)
		var wg sync.WaitGroup
		fail := func(s string) {
			mu.Lock()
			if len(rep.LruFails) < 8 {
				rep.LruFails = append(rep.LruFails, fmt.Sprintf("cap=%d ttl=%v: %s", cfg.capv, cfg.ttl, s))
			}
			mu.Unlock()
		}
		for g := 0; g < 8; g++ {
			wg.Add(1)
			go func(g int) {
				defer wg.Done()
				defer notePanic("lru goroutine")
				gr := NewRng(*seed, uint64(5000+100*ci+g), "c11stress-lru")
				nk := cfg.capv + 2
				for it := 0; ; it++ {
					c11Progress.Add(1)
					if it%64 == 0 && time.Now().After(dl) {
						return
					}
					k := gr.Intn(nk)
					key := "k" + Itoa(k)
					switch x := gr.Intn(100); {
					case x < 35:
						c.Put(key, k*1000+gr.Intn(1000))
						puts.Add(1)
					case x < 70:
						v, ok := c.Get(key)
						gets.Add(1)
						if ok {
							hits.Add(1)
							if iv, isInt := v.(int); !isInt || iv/1000 != k {
								fail(fmt.Sprintf("Get(%s) returned %v, which was never stored under that key", key, v))
							}
						}
					case x < 78:
						c.Delete(key)
					case x < 84:
						if s := c.Size(); s > c.Capacity() || s < 0 {
							fail(fmt.Sprintf("Size() = %d with capacity %d", s, c.Capacity()))
						}
					case x < 90:
						if s := c.Stats(); s.Size > s.Capacity || s.Size < 0 || s.Hits < 0 || s.Misses < 0 {
							fail(fmt.Sprintf("implausible Stats %+v", s))
						}
					case x < 94:
						if ks := c.Keys(); len(ks) > c.Capacity() {
							fail(fmt.Sprintf("Keys() returned %d keys with capacity %d", len(ks), c.Capacity()))
						} else {
							sort.Strings(ks)
							for i := 1; i < len(ks); i++ {
								if ks[i] == ks[i-1] {
									fail("Keys() returned a key twice")
								}
							}
						}
					case x < 99:
						if nrem := c.CleanupExpired(); nrem < 0 || nrem > c.Capacity() {
							fail(fmt.Sprintf("CleanupExpired() = %d", nrem))
						}
					default:
						if cfg.clear {
							c.Clear()
						}
					}
				}
			}(g)
		}
		wg.Wait()
		s := c.Stats()
		rep.Lru["gets"] += gets.Load()
		rep.Lru["puts"] += puts.Load()
		rep.Lru["hits"] += hits.Load()
		rep.Lru["evictions"] += s.Evictions
		if !cfg.clear {
			if s.Hits+s.Misses != gets.Load() {
				fail(fmt.Sprintf("hits+misses = %d after %d Get calls (a counter update was lost)", s.Hits+s.Misses, gets.Load()))
			}
			if s.Hits != hits.Load() {
				fail(fmt.Sprintf("hits = %d but %d Get calls reported a hit", s.Hits, hits.Load()))
			}
		}
		if c.Size() > c.Capacity() {
			fail("final size above capacity")
		}
		// at rest the recency list and the key map must describe the same set of keys
		lk, mk := c.VerifOrder(), c.Keys()
		sort.Strings(lk)
		sort.Strings(mk)
		if strings.Join(lk, ",") != strings.Join(mk, ",") {
			fail(fmt.Sprintf("after the run the recency list holds [%s] but the key map holds [%s]", strings.Join(lk, ","), strings.Join(mk, ",")))
		}
	}

	// ---------------- Phase B2: a sweep that overlaps readers still sweeps.  One goroutine stores an entry that is expired at
	// once (lifetime 1 ns) and then calls CleanupExpired, while others only read (Size, Stats, Get of an absent key).  In every
	// sequential ordering the sweep comes after the store it follows in program order and finds exactly that entry; a sweep
	// that gives up when it cannot take the lock at once (wave 7, C11-B: TryLock) returns 0 and leaves the entry behind.
	{
		c := cache.NewLRUCache(64, time.Nanosecond)
		var stop atomic.Bool
		var wg sync.WaitGroup
		for g := 0; g < 6; g++ {
			wg.Add(1)
			go func() {
				defer wg.Done()
				defer notePanic("lru reader")
				for !stop.Load() {
					c.Size()
					c.Stats()
					c.Get("absent")
					c11Progress.Add(1)
				}
			}()
		}
		rounds := 400
		if thorough {
			rounds = 4000
		}
		skipped := 0
		for i := 0; i < rounds; i++ {
			c.Put("k"+Itoa(i), i)
			time.Sleep(2 * time.Microsecond)
			if n := c.CleanupExpired(); n != 1 {
				skipped++
				mu.Lock()
				if len(rep.LruFails) < 8 {
					rep.LruFails = append(rep.LruFails, fmt.Sprintf("cap=64 ttl=1ns: Put(k%d) returned, then CleanupExpired() returned %d while other goroutines were only reading; the expired entry was not swept (size now %d)", i, n, c.Size()))
				}
				mu.Unlock()
				c.Clear()
			}
			c11Progress.Add(1)
		}
		stop.Store(true)
		wg.Wait()
		rep.Lru["sweeps_under_readers"] += int64(rounds)
		rep.Lru["sweeps_that_skipped"] += int64(skipped)
	}

	// ---------------- Phase C: recorded histories
	H := 1500
	if thorough {
		H = 20000
	}
	hf, err := os.Create(filepath.Join(*outDir, "hist.txt"))
	if err != nil {
		fmt.Fprintln(os.Stderr, err)
		return 2
	}
	hr := NewRng(*seed, 77, "c11stress-hist")
	for h := 0; h < H; h++ {
		capv := Pick(hr, []int{1, 1, 2, 2, 3})
		nkeys := hr.Range(1, 3)
		T := hr.Range(2, 4)
		total := hr.Range(T, 8)
		plan := make([][]linOp, T)
		for i := 0; i < total; i++ {
			t := i
			if i >= T {
				t = hr.Intn(T)
			}
			name, key, val := linRandomOp(hr, nkeys)
			plan[t] = append(plan[t], linOp{tid: t, name: name, key: key, val: val})
		}
		c := cache.NewLRUCache(capv, 0)
		// a little sequential prefix so that the concurrent part starts from a non-trivial state
		var pre []linOp
		var seq atomic.Int64
		for i := hr.Intn(3); i > 0 && total+len(pre) < 8; i-- {
			name, key, val := linRandomOp(hr, nkeys)
			o := linOp{tid: 9, name: name, key: key, val: val}
			o.inv = seq.Add(1)
			o.out = lruApply(c, o.name, o.key, o.val)
			o.res = seq.Add(1)
			pre = append(pre, o)
		}
		var ready atomic.Int32
		var wg sync.WaitGroup
		yields := make([][]bool, T)
		for t := range plan {
			yields[t] = make([]bool, len(plan[t]))
			for i := range yields[t] {
				yields[t][i] = hr.Chance(1, 3)
			}
		}
		for t := range plan {
			wg.Add(1)
			go func(t int) {
				defer wg.Done()
				defer c11Progress.Add(1)
				defer notePanic("history goroutine")
				// spin barrier: all goroutines of the history start together
				ready.Add(1)
				for spins := 0; ready.Load() < int32(T); spins++ {
					if spins%64 == 63 {
						runtime.Gosched()
					}
				}
				for i := range plan[t] {
					o := &plan[t][i]
					if yields[t][i] {
						runtime.Gosched()
					}
					o.inv = seq.Add(1)
					o.out = lruApply(c, o.name, o.key, o.val)
					o.res = seq.Add(1)
				}
			}(t)
		}
		wg.Wait()
		all := append([]linOp{}, pre...)
		for t := range plan {
			all = append(all, plan[t]...)
		}
		sort.Slice(all, func(i, j int) bool { return all[i].inv < all[j].inv })
		overlap := false
		for i := range all {
			for j := range all {
				if i < j && all[i].inv < all[j].res && all[j].inv < all[i].res {
					overlap = true
				}
			}
		}
		if overlap {
			rep.Overlapping++
		}
		fmt.Fprintf(hf, "case %d linearize\nnew %d real\n", h, capv)
		for _, o := range all {
			fmt.Fprintln(hf, o.line())
		}
		fmt.Fprintln(hf, "check")
	}
	hf.Close()
	rep.Histories = H

	b, _ := json.MarshalIndent(rep, "", " ")
	if err := os.WriteFile(filepath.Join(*outDir, "report.json"), b, 0o644); err != nil {
		fmt.Fprintln(os.Stderr, err)
		return 2
	}
	fmt.Printf("c11stress: db=%d cases=%d direct=%d cached=%d monitored=%d mismatches=%d histories=%d (overlapping %d)\n",
		rep.DBSize, rep.Cases, nDirect.Load(), nCached.Load(), nMon.Load(), nMis.Load(), H, rep.Overlapping)
	return 0
}
