//go:build verif

package main

import (
	"sort"
	"strings"

	"github.com/sahilm/fuzzy"
)

// gosort: correspondence of Model/GoSort.lean (`fuzzyStable`, the transliteration of the toolchain's
// sort.Stable run with the fuzzy library's non-strict Less) with the real thing.  Ops:
//
//	sort <s0,s1,..|->          sort.Stable on a fuzzy.Matches value {Index:i, Score:s_i}  ->  ord <i0,i1,..|->
//	find <pattern hex> <t0,t1,..|->   fuzzy.Find(pattern, targets) (FindFromNoSort + sort.Stable, the library's own
//	                           call site)  ->  ms <idx=score,..|-> | panic      (targets ASCII: no rune table needed)
//
// The monitor (class fuzzy-sort-not-a-sorted-permutation, recorded for C07; C01 asks for it with hit_props) evaluates
// the sort contract C01 / C07 rely on, on the real output: a permutation of the input, scores non-increasing.
func init() {
	Register(&Domain{Name: "gosort", Gen: gosortGen, Exec: gosortExec})
}

// gosortLens: lengths at and around the block boundaries of `stable` (blockSize 20, doubled per pass)
var gosortLens = []int{0, 1, 2, 3, 19, 20, 21, 22, 39, 40, 41, 42, 59, 60, 61, 79, 80, 81, 82, 99, 100, 101, 119, 120, 121, 159, 160, 161, 162,
	199, 200, 239, 240, 241, 279, 280, 281, 299, 300, 319, 320, 321, 322}

func gosortScores(r *Rng, tier string) []int {
	var n int
	switch x := r.Intn(100); {
	case x < 45:
		n = Pick(r, gosortLens)
	case x < 70:
		n = r.Range(0, 64)
	case x < 95:
		n = r.Range(0, 330)
	default:
		if tier == "thorough" {
			n = r.Range(300, 1400)
		} else {
			n = r.Range(300, 700)
		}
	}
	s := make([]int, n)
	shape := r.Intn(100)
	switch {
	case shape < 8: // all equal
		v := r.Range(-50, 50)
		for i := range s {
			s[i] = v
		}
	case shape < 16: // already in the library's order (non-increasing), with ties
		v := r.Range(0, 100)
		for i := range s {
			s[i] = v
			if r.Chance(1, 3) {
				v -= r.Range(1, 3)
			}
		}
	case shape < 24: // reversed (non-decreasing), with ties
		v := r.Range(-100, 0)
		for i := range s {
			s[i] = v
			if r.Chance(1, 3) {
				v += r.Range(1, 3)
			}
		}
	case shape < 50: // two values
		a, b := r.Range(-5, 5), r.Range(-5, 5)
		for i := range s {
			if r.Bool() {
				s[i] = a
			} else {
				s[i] = b
			}
		}
	case shape < 75: // heavy ties: k distinct values
		k := r.Range(2, 6)
		for i := range s {
			s[i] = r.Intn(k) - 2
		}
	case shape < 85: // sorted runs of random length (blocks that are already ordered, out of order with each other)
		v := r.Range(-20, 20)
		for i := range s {
			if r.Chance(1, 15) {
				v = r.Range(-20, 20)
			}
			s[i] = v
			if r.Chance(1, 2) {
				v -= r.Range(0, 2)
			}
		}
	case shape < 93: // moderate ties
		for i := range s {
			s[i] = r.Range(-40, 40)
		}
	default: // nearly distinct, wide range (the library's scores go far below zero)
		for i := range s {
			s[i] = r.Range(-100000, 100000)
		}
	}
	return s
}

var gosortWords = []string{"git", "status", "log", "list", "ls", "tar", "zip", "find", "grep", "docker", "ps", "commit", "push", "pull",
	"file", "files", "dir", "show", "all", "a", "b", "ab", "ba", "aa", "x"}

func gosortJoinInts(xs []int) string {
	if len(xs) == 0 {
		return "-"
	}
	ps := make([]string, len(xs))
	for i, x := range xs {
		ps[i] = Itoa(x)
	}
	return strings.Join(ps, ",")
}

func gosortGen(r *Rng, tier string, idx int, args map[string]string) []string {
	var ops []string
	k := r.Range(1, 4)
	for i := 0; i < k; i++ {
		ops = append(ops, "sort "+gosortJoinInts(gosortScores(r, tier)))
	}
	if r.Chance(1, 2) {
		// the library's own call: few distinct targets, so many equal scores; pattern a sub-sequence of most of them
		n := Pick(r, []int{0, 1, 5, 19, 20, 21, 25, 40, 41, 45, 80, 81, 100, 130, 161})
		if r.Chance(1, 3) {
			n = r.Range(0, 120)
		}
		nd := r.Range(1, 6)
		pool := make([]string, nd)
		for j := range pool {
			w := r.Range(1, 3)
			ps := make([]string, w)
			for q := range ps {
				ps[q] = Pick(r, gosortWords)
			}
			pool[j] = strings.Join(ps, " ")
		}
		ts := make([]string, n)
		for j := range ts {
			ts[j] = Hx(Pick(r, pool))
		}
		pat := Pick(r, []string{"a", "s", "t", "l", "i", "g", "st", "ls", "it", "gt", "ab", "fl", ""})
		tl := "-"
		if n > 0 {
			tl = strings.Join(ts, ",")
		}
		ops = append(ops, "find "+Hx(pat)+" "+tl)
	}
	return ops
}

// gosortContract: the output is a permutation of the input matches and its scores never increase
func gosortContract(mon *Mon, what string, in []int, ms fuzzy.Matches) {
	seen := make([]bool, len(in))
	ok := len(ms) == len(in)
	for i, m := range ms {
		if m.Index < 0 || m.Index >= len(in) || seen[m.Index] || in[m.Index] != m.Score {
			ok = false
			break
		}
		seen[m.Index] = true
		if i > 0 && ms[i-1].Score < m.Score {
			ok = false
			break
		}
	}
	if !ok {
		mon.Hit("C07", "fuzzy-sort-not-a-sorted-permutation", map[string]interface{}{"op": what, "scores": in})
	}
}

func gosortExec(ops []string, mon *Mon) []string {
	out := make([]string, 0, len(ops))
	for _, o := range ops {
		f := strings.Split(o, " ")
		switch {
		case f[0] == "sort" && len(f) == 2:
			var scores []int
			if f[1] != "-" {
				for _, t := range strings.Split(f[1], ",") {
					scores = append(scores, Atoi(t))
				}
			}
			ms := make(fuzzy.Matches, len(scores))
			for i, s := range scores {
				ms[i] = fuzzy.Match{Index: i, Score: s}
			}
			sort.Stable(ms) // fuzzy.Matches implements sort.Interface with the library's own Less
			ord := make([]int, len(ms))
			ties, reversed := false, true
			for i, m := range ms {
				ord[i] = m.Index
				if i > 0 && ms[i-1].Score == m.Score {
					ties = true
					if ms[i-1].Index < m.Index {
						reversed = false
					}
				}
			}
			out = append(out, "ord "+gosortJoinInts(ord))
			gosortContract(mon, o, scores, ms)
			switch n := len(scores); {
			case n <= 1:
				mon.Tag("len-le-1")
			case n <= 20:
				mon.Tag("len-le-20-insertion-only")
			case n <= 40:
				mon.Tag("len-le-40-one-merge")
			case n <= 160:
				mon.Tag("len-le-160")
			default:
				mon.Tag("len-gt-160")
			}
			if len(scores) > 20 {
				mon.Tag("merged")
			}
			if ties {
				mon.Tag("ties")
				// an observation, not a property: with the non-strict Less equal scores come out in reverse input order
				if reversed {
					mon.Tag("ties-in-reverse-input-order")
				} else {
					mon.Tag("ties-not-in-reverse-input-order")
				}
			}
			if len(scores) > 20 && len(scores)%20 != 0 {
				mon.Tag("ragged-last-block")
			}
		case f[0] == "find" && len(f) == 3:
			pat := UnHx(f[1])
			var ts []string
			if f[2] != "-" {
				for _, t := range strings.Split(f[2], ",") {
					ts = append(ts, UnHx(t))
				}
			}
			line := func() (line string) {
				defer func() {
					if recover() != nil {
						line = "panic"
					}
				}()
				ms := fuzzy.Find(pat, ts)
				if len(ms) == 0 {
					return "ms -"
				}
				ps := make([]string, len(ms))
				for i, m := range ms {
					ps[i] = Itoa(m.Index) + "=" + Itoa(m.Score)
				}
				mon.Tag("find-matches")
				if len(ms) > 20 {
					mon.Tag("find-merged")
				}
				// contract on the library's answer: scores never increase, no index twice
				seen := map[int]bool{}
				for i, m := range ms {
					if seen[m.Index] || (i > 0 && ms[i-1].Score < m.Score) {
						mon.Hit("C07", "fuzzy-sort-not-a-sorted-permutation", map[string]interface{}{"op": o})
						break
					}
					seen[m.Index] = true
				}
				return "ms " + strings.Join(ps, ",")
			}()
			out = append(out, line)
		default:
			out = append(out, "bad-op")
		}
	}
	return out
}
