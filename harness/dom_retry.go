//go:build verif

package main

import (
	stderrors "errors"
	"fmt"
	"io"
	"math"
	"os"
	"path/filepath"
	"runtime"
	"strconv"
	"strings"
	"syscall"
	"time"

	"github.com/Vedant9500/WTF/internal/database"
	apperrors "github.com/Vedant9500/WTF/internal/errors"
	"github.com/Vedant9500/WTF/internal/recovery"
)

// retry: correspondence of recovery.LoadDatabaseWithFallback / database.LoadDatabaseWithPersonal /
// errors.NewDatabaseErrorWithContext / shouldRetry with Model/Retry.lean, plus the C15 monitor.
//
// Op lines
//
//	cfg <maxAttempts> <baseNs> <maxNs> <factor f:bits> | cfg default
//	     -> cfg d:<calculateDelay(1)> ... d:<calculateDelay(6)>
//	load <main> <personal> <backup>          file specs, see materialise()
//	     -> <class> n=<#commands> cmds=<hex of comma-joined Command strings> attempts=<n> err=<nil|type> warn=<0|1>
//	lwp <main> <personal>                    database.LoadDatabaseWithPersonal directly
//	     -> ok n=.. cmds=..  |  err type=<t> cause=<hex normalised root message> osne=.. isne=.. isperm=.. retry=..
//	sr <errspec>                             shouldRetry / os.IsNotExist / errors.Is on a synthetic error chain
//	     -> retry=.. osne=.. osperm=.. isne=.. isperm=..
//	cls <hex message | nil>                  errors.NewDatabaseErrorWithContext("read", "P", errors.New(msg))
//	     -> type=<t> cause=<0|1>
//
// File specs: missing | denied | dir | bad | mistyped | loop | good:<k> | flaky:<j>:<kind>:<k>
// (flaky = behaves like <kind> for the first j attempts, is a good file with k entries afterwards;
// the file is rewritten from the attempt observer).  The sandbox runs as root, for which mode 000 does
// not deny access: loads involving a `denied` file run with the thread's fsuid/fsgid set to 65534
// (setfsuid(2); the thread is locked), which yields a genuine EACCES from the kernel.
func init() {
	Register(&Domain{Name: "retry", Gen: genRetry, Exec: execRetry})
}

var retryBaseKinds = []string{"missing", "denied", "dir", "bad", "loop", "good"}

func genRetryCfg(r *Rng, mode string) string {
	maxA := r.Range(1, 5)
	base := Pick(r, []int64{0, 1, 500, 1000, 2000, 50_000})
	maxD := Pick(r, []int64{0, 1000, 3000, 20_000, 200_000})
	if r.Chance(1, 6) {
		// caps that are not a whole number of milliseconds (1.5 ms, 0.8 ms, 2.6 ms) reached from a base near them: any rounding
		// of the wait to a coarser unit after the cap was applied shows as a wait above the cap
		base = Pick(r, []int64{700_000, 1_000_000, 1_300_000})
		maxD = Pick(r, []int64{1_500_000, 800_000, 2_600_000, 1_499_999})
	}
	factor := Pick(r, []float64{1, 1.5, 2, 3, 10, 1.1, 1.0000001, 2.5, 1e200})
	if mode == "excluded" {
		// configurations NewDatabaseRecovery has to sanitise (alone and combined)
		pick := r.Intn(7)
		if pick == 0 || r.Chance(1, 4) {
			maxA = Pick(r, []int{0, -1, -7})
		}
		if pick == 1 || r.Chance(1, 4) {
			factor = Pick(r, []float64{0.5, 0.9, 0.25, 0, 0.999, -2, math.NaN(), math.Inf(-1), -1e300})
			base = Pick(r, []int64{1000, 2000, 50_000, 4096})
		}
		if pick == 2 || r.Chance(1, 4) {
			base = Pick(r, []int64{-1, -1000, -50_000})
		}
		if pick == 3 || r.Chance(1, 4) {
			maxD = Pick(r, []int64{-1, -1000})
		}
		if pick == 4 {
			base = 0
			factor = Pick(r, []float64{1e200, 1e308, 1e155, math.Inf(1)})
		}
		if pick == 5 {
			factor = Pick(r, []float64{math.Inf(1), 1e308, 1e300})
		}
		if maxA > 0 && maxA < 3 {
			maxA = r.Range(3, 5)
		}
	}
	return "cfg " + Itoa(maxA) + " " + Itoa64(base) + " " + Itoa64(maxD) + " " + F(factor)
}

func genSpec(r *Rng, kind string) string {
	switch kind {
	case "good":
		return "good:" + Itoa(Pick(r, []int{0, 1, 1, 2, 3}))
	case "bad":
		return Pick(r, []string{"bad", "mistyped"})
	}
	return kind
}

func genRetry(r *Rng, tier string, idx int, args map[string]string) []string {
	mode := args["mode"]
	if mode == "" {
		mode = "table"
	}
	var ops []string
	switch mode {
	case "table":
		// one retry configuration, then the COMPLETE fault table main x personal x backup
		ops = append(ops, genRetryCfg(r, mode))
		for _, m := range retryBaseKinds {
			for _, p := range retryBaseKinds {
				for _, b := range retryBaseKinds {
					ops = append(ops, "load "+genSpec(r, m)+" "+genSpec(r, p)+" "+genSpec(r, b))
				}
			}
		}
		// the same states under other spellings of the path (empty string, through a missing directory, trailing slash)
		for _, sp := range []string{"unset", "dotdot", "slash"} {
			ops = append(ops, "load "+genSpec(r, "good")+" "+sp+" "+genSpec(r, Pick(r, retryBaseKinds)))
			if sp != "slash" {
				ops = append(ops, "load "+sp+" "+genSpec(r, Pick(r, retryBaseKinds))+" missing")
			}
		}
	case "default":
		// the CLI's configuration (100 ms base delay): only a few loads, one of them retried
		ops = append(ops, "cfg default", "load good:2 good:1 missing", "load good:2 missing good:1", "load missing good:1 good:1",
			"load denied missing missing", "load good:1 denied good:2", "load bad good:1 good:1")
	case "transient":
		ops = append(ops, genRetryCfg(r, mode))
		n := 24
		for i := 0; i < n; i++ {
			j := r.Range(0, 5)
			kind := Pick(r, []string{"bad", "mistyped", "dir", "loop", "bad", "missing", "denied"})
			fl := "flaky:" + Itoa(j) + ":" + kind + ":" + Itoa(r.Range(0, 3))
			other := genSpec(r, Pick(r, []string{"good", "good", "missing", "bad", "dir"}))
			b := genSpec(r, Pick(r, retryBaseKinds))
			if r.Chance(2, 3) {
				ops = append(ops, "load "+fl+" "+other+" "+b)
			} else {
				ops = append(ops, "load "+genSpec(r, "good")+" "+fl+" "+b)
			}
		}
	case "excluded":
		ops = append(ops, genRetryCfg(r, mode))
		for i := 0; i < 12; i++ {
			ops = append(ops, "load "+genSpec(r, Pick(r, retryBaseKinds))+" "+genSpec(r, Pick(r, retryBaseKinds))+" "+genSpec(r, Pick(r, retryBaseKinds)))
		}
	case "errs":
		needles := []string{"no such file or directory", "permission denied", "yaml:", "unmarshal", "is a directory", "timeout", "x", " ", "YAML:", "no such file", "Permission denied"}
		types := []string{"database", "validation", "search", "config", "network", "filesystem", "permission"}
		causes := []string{"ne", "perm", "isdir", "loop", "parse"}
		var chain func(d int) string
		chain = func(d int) string {
			switch x := r.Intn(10); {
			case d > 3 || x < 3:
				if r.Chance(1, 5) {
					return "os:text:" + Hx(Pick(r, needles))
				}
				return "os:" + Pick(r, causes)
			case x < 7:
				return "app:" + Pick(r, types) + ":" + chain(d+1)
			case x < 8:
				return "db:" + chain(d+1)
			case x < 9:
				return "nil"
			default:
				return "plain"
			}
		}
		for i := 0; i < 30; i++ {
			switch r.Intn(3) {
			case 0:
				ops = append(ops, "lwp "+genSpec(r, Pick(r, retryBaseKinds))+" "+genSpec(r, Pick(r, retryBaseKinds)))
			case 1:
				c := chain(0)
				if c == "nil" {
					c = "plain"
				}
				ops = append(ops, "sr "+c)
			default:
				if r.Chance(1, 12) {
					ops = append(ops, "cls nil")
					continue
				}
				k := r.Range(0, 3)
				parts := []string{}
				for j := 0; j < k; j++ {
					parts = append(parts, Pick(r, needles))
				}
				ops = append(ops, "cls "+Hx(strings.Join(parts, Pick(r, []string{" ", ": ", ""}))))
			}
		}
	}
	return ops
}

// ---------------------------------------------------------------------------------------------

type fileSpec struct {
	kind  string // missing denied dir bad mistyped loop good
	k     int    // entries of a good file
	flaky int    // >0 or flakySet: behaves like kind for the first `flaky` attempts, then good:k
	isFl  bool
	spell string // how a path of that state is SPELLED in the call: "" (the plain path) | unset | dotdot | slash
}

func parseSpec(s string) (fileSpec, bool) {
	f := strings.Split(s, ":")
	switch f[0] {
	case "missing", "denied", "dir", "bad", "mistyped", "loop":
		return fileSpec{kind: f[0]}, len(f) == 1
	case "unset", "dotdot":
		// spellings of a file that is not there: the empty path; a path through a directory that does not exist
		// followed by ".." (the kernel refuses it although a purely lexical clean-up would arrive at a good file)
		return fileSpec{kind: "missing", spell: f[0]}, len(f) == 1
	case "slash":
		// a good file named with a trailing slash: ENOTDIR, neither missing nor denied
		return fileSpec{kind: "loop", spell: f[0]}, len(f) == 1
	case "good":
		if len(f) != 2 {
			return fileSpec{}, false
		}
		k, err := strconv.Atoi(f[1])
		return fileSpec{kind: "good", k: k}, err == nil && k >= 0
	case "flaky":
		if len(f) != 4 {
			return fileSpec{}, false
		}
		j, e1 := strconv.Atoi(f[1])
		k, e2 := strconv.Atoi(f[3])
		in, ok := parseSpec(f[2])
		return fileSpec{kind: in.kind, k: k, flaky: j, isFl: true}, e1 == nil && e2 == nil && ok && in.kind != "good" && j >= 0 && k >= 0
	}
	return fileSpec{}, false
}

func entryNames(prefix string, k int) []string {
	out := make([]string, k)
	for i := range out {
		out[i] = prefix + Itoa(i+1)
	}
	return out
}

var retryEmptyRot int

func goodYAML(prefix string, k int) string {
	if k == 0 {
		return "[]\n"
	}
	var sb strings.Builder
	for _, n := range entryNames(prefix, k) {
		fmt.Fprintf(&sb, "- command: %s\n  description: entry %s of the %s file\n  keywords: [%s, entry]\n", n, n, prefix, n)
	}
	return sb.String()
}

// putFile makes `path` look like `kind` (removing whatever was there).
func putFile(path, kind, prefix string, k int) error {
	os.Chmod(path, 0o644)
	os.RemoveAll(path)
	switch kind {
	case "missing":
		return nil
	case "denied":
		if err := os.WriteFile(path, []byte(goodYAML(prefix, 2)), 0o644); err != nil {
			return err
		}
		return os.Chmod(path, 0)
	case "dir":
		return os.Mkdir(path, 0o755)
	case "bad":
		return os.WriteFile(path, []byte("- command: [unclosed\n"), 0o644)
	case "mistyped":
		return os.WriteFile(path, []byte("just a string, not a list of commands\n"), 0o644)
	case "loop":
		return os.Symlink(filepath.Base(path), path)
	case "good":
		content := goodYAML(prefix, k)
		if k == 0 {
			// a file with no entries has several spellings: an empty list, a zero-byte file, a comment-only file, a bare
			// document marker - every one of them is a readable file holding zero commands
			retryEmptyRot++
			content = []string{"[]\n", "", "# my notebook: nothing saved yet\n", "---\n", "\n\n"}[retryEmptyRot%5]
		}
		return os.WriteFile(path, []byte(content), 0o644)
	}
	return fmt.Errorf("unknown kind %q", kind)
}

func setFsIDs(uid, gid int) {
	syscall.Setfsgid(gid)
	syscall.Setfsuid(uid)
}

// asUnprivileged runs fn with the calling thread's file-system uid/gid set to nobody (when root).
// Returns false if EACCES could not be obtained for probe.
func asUnprivileged(probe string, fn func(restore func(), drop func())) bool {
	if os.Geteuid() != 0 {
		fn(func() {}, func() {})
		return true
	}
	runtime.LockOSThread()
	defer runtime.UnlockOSThread()
	drop := func() { setFsIDs(65534, 65534) }
	restore := func() { setFsIDs(0, 0) }
	drop()
	defer restore()
	if probe != "" {
		f, err := os.Open(probe)
		if err == nil {
			f.Close()
			return false
		}
		if !stderrors.Is(err, os.ErrPermission) {
			return false
		}
	}
	fn(restore, drop)
	return true
}

var capFile *os.File

// captureStdout runs fn with os.Stdout redirected to a scratch file and returns what was printed.
func captureStdout(fn func()) string {
	if capFile == nil {
		f, err := os.CreateTemp("", "wtfverif-c15-out")
		if err != nil {
			panic(err)
		}
		os.Remove(f.Name())
		capFile = f
	}
	capFile.Truncate(0)
	capFile.Seek(0, io.SeekStart)
	old := os.Stdout
	os.Stdout = capFile
	defer func() { os.Stdout = old }()
	fn()
	capFile.Seek(0, io.SeekStart)
	b, _ := io.ReadAll(capFile)
	return string(b)
}

func boolTok(b bool) string { return B(b) }

func cmdNames(db *database.Database) []string {
	out := make([]string, len(db.Commands))
	for i := range db.Commands {
		out[i] = db.Commands[i].Command
	}
	return out
}

func errType(err error) string {
	if err == nil {
		return "nil"
	}
	if a, ok := err.(*apperrors.AppError); ok {
		return string(a.Type)
	}
	return "other"
}

// rootMessage: text of the innermost error with the path replaced by P and YAML detail elided.
func rootMessage(err error, paths ...string) string {
	for {
		u := stderrors.Unwrap(err)
		if u == nil {
			break
		}
		if _, isErrno := u.(syscall.Errno); isErrno {
			break // keep the *PathError text ("open P: ...")
		}
		err = u
	}
	s := err.Error()
	for _, p := range paths {
		s = strings.ReplaceAll(s, p, "P")
	}
	if strings.HasPrefix(s, "yaml: ") {
		s = "yaml: <detail>"
	}
	return s
}

type retryEnv struct {
	cfg    recovery.RetryConfig
	cfgSet bool
}

func sameStrings(a, b []string) bool {
	if len(a) != len(b) {
		return false
	}
	for i := range a {
		if a[i] != b[i] {
			return false
		}
	}
	return true
}

func execRetry(ops []string, mon *Mon) []string {
	env := &retryEnv{cfg: recovery.RetryConfig{MaxAttempts: 1}}
	out := make([]string, 0, len(ops))
	for _, o := range ops {
		f := strings.Fields(o)
		switch {
		case f[0] == "cfg" && len(f) == 2 && f[1] == "default":
			env.cfg, env.cfgSet = recovery.DefaultRetryConfig(), true
			out = append(out, execCfg(env, mon, o))
		case f[0] == "cfg" && len(f) == 5 && strings.HasPrefix(f[4], "f:"):
			bits, err := strconv.ParseUint(f[4][2:], 16, 64)
			if err != nil {
				out = append(out, "bad-op")
				continue
			}
			env.cfg = recovery.RetryConfig{MaxAttempts: Atoi(f[1]), BaseDelay: time.Duration(Atoi64(f[2])),
				MaxDelay: time.Duration(Atoi64(f[3])), BackoffFactor: math.Float64frombits(bits)}
			env.cfgSet = true
			out = append(out, execCfg(env, mon, o))
		case f[0] == "load" && len(f) == 4:
			out = append(out, execLoad(env, mon, o, f[1], f[2], f[3]))
		case f[0] == "lwp" && len(f) == 3:
			out = append(out, execLwp(f[1], f[2]))
		case f[0] == "sr" && len(f) == 2:
			out = append(out, execSr(f[1]))
		case f[0] == "cls" && len(f) == 2:
			var cause error
			if f[1] != "nil" {
				cause = stderrors.New(UnHx(f[1]))
			}
			e := apperrors.NewDatabaseErrorWithContext("read", "P", cause)
			a, ok := e.(*apperrors.AppError)
			if !ok {
				out = append(out, "not-an-AppError")
				continue
			}
			out = append(out, "type="+string(a.Type)+" cause="+boolTok(a.Cause != nil && a.Cause == cause))
		default:
			out = append(out, "bad-op")
		}
	}
	return out
}

func execCfg(env *retryEnv, mon *Mon, op string) string {
	dr := recovery.NewDatabaseRecovery(env.cfg)
	var sb strings.Builder
	sb.WriteString("cfg")
	ds := make([]time.Duration, 6)
	for i := 1; i <= 6; i++ {
		ds[i-1] = dr.VerifCalculateDelay(i)
		sb.WriteString(" d:" + Itoa64(int64(ds[i-1])))
	}
	// monitor: "waits that never decrease and never exceed the configured maximum", for EVERY configuration
	// the caller may pass (the configured maximum counts as 0 when negative; waits are never negative).
	c := env.cfg
	capNs := c.MaxDelay
	if capNs < 0 {
		capNs = 0
	}
	detail := func(i int) map[string]interface{} {
		return map[string]interface{}{"op": op, "attempt": i + 1, "delays_ns": ds, "max_attempts": c.MaxAttempts, "base_ns": int64(c.BaseDelay),
			"max_ns": int64(c.MaxDelay), "factor": fmt.Sprint(c.BackoffFactor)}
	}
	// which nonsensical setting explains a failure (class names kept from the time these were open findings)
	why := func(generic string) string {
		switch {
		case !(c.BackoffFactor >= 1):
			return "delays-decrease-factor-below-one"
		case c.BaseDelay < 0:
			return "delays-decrease-negative-base"
		case c.BaseDelay == 0 && math.IsInf(math.Pow(c.BackoffFactor, 5), 0):
			return "delay-nan-zero-base-float-overflow"
		}
		return generic
	}
	for i, d := range ds {
		if d > capNs {
			mon.Hit("C15", "delay-exceeds-max", detail(i))
			break
		}
		if d < 0 {
			mon.Hit("C15", why("negative-delay"), detail(i))
			break
		}
		if i > 0 && d < ds[i-1] {
			mon.Hit("C15", why("delays-decrease"), detail(i))
			break
		}
	}
	switch {
	case c.MaxAttempts <= 0:
		mon.Tag("cfg.nonpositive-max-attempts")
	case !(c.BackoffFactor >= 1):
		mon.Tag("cfg.factor-below-one-or-nan")
	case c.BaseDelay < 0:
		mon.Tag("cfg.negative-base")
	case c.MaxDelay < 0:
		mon.Tag("cfg.negative-cap")
	case c.BaseDelay == 0 && math.IsInf(math.Pow(c.BackoffFactor, 5), 0):
		mon.Tag("cfg.zero-base-float-overflow")
	case math.IsInf(c.BackoffFactor, 1):
		mon.Tag("cfg.infinite-factor")
	default:
		mon.Tag("cfg.regular")
	}
	return sb.String()
}

func execLoad(env *retryEnv, mon *Mon, op, ms, ps, bs string) string {
	specs := [3]fileSpec{}
	for i, s := range []string{ms, ps, bs} {
		sp, ok := parseSpec(s)
		if !ok || (i == 2 && (sp.isFl || sp.spell != "")) {
			return "bad-op"
		}
		specs[i] = sp
	}
	if specs[0].spell != "" && (specs[2].kind != "missing" || specs[0].spell == "slash") {
		// the backup path is derived from the spelling of the main path
		return "bad-op"
	}
	dir, err := os.MkdirTemp("", "wtfverif-c15-")
	if err != nil {
		return "tempdir-failed"
	}
	defer func() {
		filepath.Walk(dir, func(p string, info os.FileInfo, err error) error {
			if err == nil && info.Mode()&os.ModeSymlink == 0 {
				os.Chmod(p, 0o755)
			}
			return nil
		})
		os.RemoveAll(dir)
	}()
	os.Chmod(dir, 0o755)
	paths := [3]string{filepath.Join(dir, "main.yml"), filepath.Join(dir, "personal.yml"), filepath.Join(dir, "main.yml.backup")}
	prefixes := [3]string{"m", "p", "b"}
	needDenied, probe := false, ""
	for i, sp := range specs {
		if err := putFile(paths[i], sp.kind, prefixes[i], sp.k); err != nil {
			return "setup-failed:" + strings.ReplaceAll(err.Error(), " ", "_")
		}
		if sp.kind == "denied" {
			needDenied = true
			if probe == "" {
				probe = paths[i]
			}
		}
	}
	callPaths := [2]string{paths[0], paths[1]}
	for i := 0; i < 2; i++ {
		switch specs[i].spell {
		case "unset":
			callPaths[i] = ""
		case "dotdot":
			// a loadable file is what a lexical clean-up of the spelled path would find
			if err := putFile(paths[i], "good", "z", 2); err != nil {
				return "setup-failed:" + strings.ReplaceAll(err.Error(), " ", "_")
			}
			callPaths[i] = dir + "/no-such-dir/../" + filepath.Base(paths[i])
		case "slash":
			if err := putFile(paths[i], "good", "z", 2); err != nil {
				return "setup-failed:" + strings.ReplaceAll(err.Error(), " ", "_")
			}
			callPaths[i] = paths[i] + "/"
		}
		if specs[i].spell != "" {
			mon.Tag("spelled." + specs[i].spell)
		}
	}

	dr := recovery.NewDatabaseRecovery(env.cfg)
	var db *database.Database
	var lerr error
	attempts := 0
	var stamps []time.Time
	printed := ""
	run := func(restore, drop func()) {
		recovery.VerifAttemptObserver = func(attempt int) {
			stamps = append(stamps, time.Now())
			attempts++
			if attempt != attempts {
				mon.Hit("C15", "attempt-numbering", map[string]interface{}{"op": op, "observed": attempt, "count": attempts})
			}
			for i := 0; i < 2; i++ {
				if specs[i].isFl && attempt == specs[i].flaky+1 {
					restore()
					putFile(paths[i], "good", prefixes[i], specs[i].k)
					drop()
				}
			}
		}
		defer func() { recovery.VerifAttemptObserver = nil }()
		printed = captureStdout(func() { db, lerr = dr.LoadDatabaseWithFallback(callPaths[0], callPaths[1]) })
	}
	if needDenied {
		if !asUnprivileged(probe, run) {
			return "denied-unavailable"
		}
		mon.Tag("eacces-via-setfsuid")
	} else {
		run(func() {}, func() {})
	}

	// ---- result line ----------------------------------------------------------------------
	cls := "real"
	warn := strings.HasPrefix(printed, "Warning: ")
	switch {
	case lerr != nil:
		cls = "failed"
	case db == nil:
		cls = "nildb"
	case strings.Contains(printed, "using embedded default database instead"):
		cls = "embedded"
	case strings.Contains(printed, "using backup database instead"):
		cls = "backup"
	case strings.Contains(printed, "using minimal database instead"):
		cls = "minimal"
	case printed != "":
		cls = "unknown-output"
	}
	var names []string
	if db != nil {
		names = cmdNames(db)
	}
	line := cls + " n=" + Itoa(len(names)) + " cmds=" + Hx(strings.Join(names, ",")) + " attempts=" + Itoa(attempts) +
		" err=" + errType(lerr) + " warn=" + boolTok(warn)

	// ---- monitor: the property itself, evaluated on the real outputs --------------------------
	detail := func(extra map[string]interface{}) map[string]interface{} {
		d := map[string]interface{}{"op": op, "max_attempts": env.cfg.MaxAttempts, "class": cls, "attempts": attempts,
			"commands": names, "err": fmt.Sprint(lerr)}
		for k, v := range extra {
			d[k] = v
		}
		return d
	}
	mon.Tag("cls." + cls)
	mon.Tag("attempts." + Itoa(attempts))
	mon.Tag("main." + specs[0].kind + tern(specs[0].isFl, ".flaky", ""))
	// the number of attempts the configuration permits: at least one, whatever the caller asked for
	maxA := env.cfg.MaxAttempts
	if maxA < 1 {
		maxA = 1
	}
	if lerr != nil {
		mon.Hit("C15", "load-returned-error", detail(nil))
	}
	if db == nil {
		if env.cfg.MaxAttempts <= 0 && lerr == nil {
			mon.Hit("C15", "nonpositive-max-attempts", detail(nil))
		} else {
			mon.Hit("C15", "nil-database", detail(nil))
		}
		return line
	}
	if attempts < 1 {
		mon.Hit("C15", "no-attempt-made", detail(nil))
	}
	if attempts > maxA {
		mon.Hit("C15", "too-many-attempts", detail(nil))
	}
	// the state of main / personal at the attempt that decides (flaky files become good at attempt j+1)
	okAt := func(sp fileSpec, attempt int) (good bool, absent bool) {
		if sp.isFl {
			if attempt > sp.flaky {
				return true, false
			}
			return false, sp.kind == "missing"
		}
		return sp.kind == "good", sp.kind == "missing"
	}
	// expected: first attempt a <= maxA at which main is good and personal good/absent -> real
	expectReal, expectAttempts := false, 0
	for a := 1; a <= maxA; a++ {
		mg, _ := okAt(specs[0], a)
		pg, pa := okAt(specs[1], a)
		if mg && (pg || pa) {
			expectReal, expectAttempts = true, a
			break
		}
		// a failure that must not be retried ends the loop
		mk := specs[0].kind
		if !mg && (mk == "missing" || mk == "denied") {
			expectAttempts = a
			break
		}
		if mg && !pg && !pa && specs[1].kind == "denied" {
			expectAttempts = a
			break
		}
		expectAttempts = a
	}
	isReal := cls == "real"
	if expectReal {
		want := entryNames("m", specs[0].k)
		if pg, _ := okAt(specs[1], expectAttempts); pg {
			want = append(want, entryNames("p", specs[1].k)...)
		}
		if !isReal {
			mon.Hit("C15", "fallback-instead-of-real", detail(map[string]interface{}{"expected_commands": want}))
		} else if !sameStrings(names, want) {
			mon.Hit("C15", "real-db-wrong-content", detail(map[string]interface{}{"expected_commands": want}))
		}
		if specs[0].isFl || specs[1].isFl {
			mon.Tag("transient-recovered")
		}
	} else {
		if isReal {
			mon.Hit("C15", "real-instead-of-fallback", detail(nil))
		}
		if len(names) == 0 {
			mon.Hit("C15", "empty-fallback", detail(nil))
		}
		for _, n := range names {
			if strings.HasPrefix(n, "b") && len(n) == 2 && n[1] >= '1' && n[1] <= '9' {
				mon.Hit("C15", "fallback-not-built-in", detail(nil))
				break
			}
		}
	}
	// "a missing or permission-denied file is tried once"
	hopeless := !specs[0].isFl && (specs[0].kind == "missing" || specs[0].kind == "denied") ||
		(specs[0].isFl && specs[0].flaky >= 1 && (specs[0].kind == "missing" || specs[0].kind == "denied"))
	if hopeless && attempts != 1 {
		mon.Hit("C15", "hopeless-file-retried", detail(map[string]interface{}{"file": "main", "state": specs[0].kind}))
	}
	if !specs[0].isFl && specs[0].kind == "good" && !specs[1].isFl && specs[1].kind == "denied" && attempts != 1 {
		mon.Hit("C15", "hopeless-file-retried", detail(map[string]interface{}{"file": "personal", "state": "denied"}))
	}
	if attempts != expectAttempts {
		// not a clause of the property by itself (fewer attempts are allowed), so only a tag; the
		// correspondence with the model compares the exact number
		mon.Tag("attempts-differ-from-expected")
	}
	// every sleep lasted at least the configured delay (time.Sleep never returns early)
	for i := 1; i < len(stamps); i++ {
		want := dr.VerifCalculateDelay(i)
		if got := stamps[i].Sub(stamps[i-1]); want > 0 && got < want {
			mon.Hit("C15", "slept-less-than-delay", detail(map[string]interface{}{"between_attempts": []int{i, i + 1}, "gap_ns": int64(got), "delay_ns": int64(want)}))
		}
	}
	return line
}

func tern(c bool, a, b string) string {
	if c {
		return a
	}
	return b
}

func execLwp(ms, ps string) string {
	m, ok1 := parseSpec(ms)
	p, ok2 := parseSpec(ps)
	if !ok1 || !ok2 || m.isFl || p.isFl {
		return "bad-op"
	}
	dir, err := os.MkdirTemp("", "wtfverif-c15-")
	if err != nil {
		return "tempdir-failed"
	}
	defer func() {
		os.Chmod(filepath.Join(dir, "main.yml"), 0o644)
		os.Chmod(filepath.Join(dir, "personal.yml"), 0o644)
		os.RemoveAll(dir)
	}()
	os.Chmod(dir, 0o755)
	mp, pp := filepath.Join(dir, "main.yml"), filepath.Join(dir, "personal.yml")
	if putFile(mp, m.kind, "m", m.k) != nil || putFile(pp, p.kind, "p", p.k) != nil {
		return "setup-failed"
	}
	var db *database.Database
	var lerr error
	run := func(_, _ func()) { db, lerr = database.LoadDatabaseWithPersonal(mp, pp) }
	probe := ""
	if m.kind == "denied" {
		probe = mp
	} else if p.kind == "denied" {
		probe = pp
	}
	if probe != "" {
		if !asUnprivileged(probe, run) {
			return "denied-unavailable"
		}
	} else {
		run(nil, nil)
	}
	if lerr == nil {
		names := cmdNames(db)
		return "ok n=" + Itoa(len(names)) + " cmds=" + Hx(strings.Join(names, ","))
	}
	dr := recovery.NewDatabaseRecovery(recovery.RetryConfig{MaxAttempts: 1})
	return "err type=" + errType(lerr) + " cause=" + Hx(rootMessage(lerr, mp, pp)) + " osne=" + boolTok(os.IsNotExist(lerr)) +
		" isne=" + boolTok(stderrors.Is(lerr, os.ErrNotExist)) + " isperm=" + boolTok(stderrors.Is(lerr, os.ErrPermission)) +
		" retry=" + boolTok(dr.VerifShouldRetry(lerr))
}

// buildErr: os:<ne|perm|isdir|loop|parse|text:<hex>> | app:<type>:<chain> | db:<chain> | plain | nil
func buildErr(tok []string) (error, []string, bool) {
	if len(tok) == 0 {
		return nil, nil, false
	}
	switch tok[0] {
	case "nil":
		return nil, tok[1:], true
	case "plain":
		return fmt.Errorf("backup database not found at %s", "P"), tok[1:], true
	case "os":
		if len(tok) < 2 {
			return nil, nil, false
		}
		switch tok[1] {
		case "ne":
			return &os.PathError{Op: "open", Path: "P", Err: syscall.ENOENT}, tok[2:], true
		case "perm":
			return &os.PathError{Op: "open", Path: "P", Err: syscall.EACCES}, tok[2:], true
		case "isdir":
			return &os.PathError{Op: "read", Path: "P", Err: syscall.EISDIR}, tok[2:], true
		case "loop":
			return &os.PathError{Op: "open", Path: "P", Err: syscall.ELOOP}, tok[2:], true
		case "parse":
			return stderrors.New("yaml: <detail>"), tok[2:], true
		case "text":
			if len(tok) < 3 {
				return nil, nil, false
			}
			return stderrors.New(UnHx(tok[2])), tok[3:], true
		}
	case "app":
		if len(tok) < 3 {
			return nil, nil, false
		}
		inner, rest, ok := buildErr(tok[2:])
		return apperrors.NewAppError(apperrors.ErrorType(tok[1]), "synthetic", inner), rest, ok
	case "db":
		inner, rest, ok := buildErr(tok[1:])
		return apperrors.NewDatabaseError("read", "P", inner), rest, ok
	}
	return nil, nil, false
}

func execSr(spec string) string {
	e, rest, ok := buildErr(strings.Split(spec, ":"))
	if !ok || len(rest) != 0 || e == nil {
		return "bad-op"
	}
	dr := recovery.NewDatabaseRecovery(recovery.RetryConfig{MaxAttempts: 1})
	return "retry=" + boolTok(dr.VerifShouldRetry(e)) + " osne=" + boolTok(os.IsNotExist(e)) + " osperm=" + boolTok(os.IsPermission(e)) +
		" isne=" + boolTok(stderrors.Is(e, os.ErrNotExist)) + " isperm=" + boolTok(stderrors.Is(e, os.ErrPermission))
}
