//go:build verif

package main

import (
	"strings"

	"github.com/Vedant9500/WTF/internal/database"
)

// C06 on the real engine: natural-language enhancement never drops what the user typed.
//
// Monitor (after every search of the `search` domain):
//
//	nlp-lost-lexical-match   a command returned with UseNLP off is missing with UseNLP on (same query and options,
//	                         typo fallback off, default term cap, Limit >= database size, at most ten content words)
//	first-four-word-lost     with UseNLP on (any length, any cap, Limit >= database size) a document found by one of the
//	                         first four content words alone is missing from the answer
//	+ the analysis clauses of dom_nlp.go (enhanced-not-prefix, enhanced-duplicate, keywords-duplicate,
//	  keyword-not-from-text, analysis-not-deterministic) on the text the engine hands to ProcessQuery.
//
// Configurations the property does not speak about (caller-supplied term cap, more than ten content words) are
// executed too and only counted: tag `excluded-config-lost-match`.
func init() {
	searchMonitors = append(searchMonitors, monitorC06)
	searchStreams["c06"] = genSearchC06
}

func effLimitOf(o database.SearchOptions) int {
	if o.Limit <= 0 {
		return 10
	}
	return o.Limit
}

func sameButNLP(a, b database.SearchOptions) bool {
	if a.Limit != b.Limit || a.PipelineOnly != b.PipelineOnly || a.PipelineBoost != b.PipelineBoost || a.UseFuzzy != b.UseFuzzy ||
		a.FuzzyThreshold != b.FuzzyThreshold || a.TopTermsCap != b.TopTermsCap || a.AllPlatforms != b.AllPlatforms ||
		a.NoCrossPlatform != b.NoCrossPlatform || len(a.Platforms) != len(b.Platforms) || len(a.ContextBoosts) != len(b.ContextBoosts) {
		return false
	}
	for i := range a.Platforms {
		if a.Platforms[i] != b.Platforms[i] {
			return false
		}
	}
	for k, v := range a.ContextBoosts {
		if w, ok := b.ContextBoosts[k]; !ok || w != v {
			return false
		}
	}
	return true
}

func monitorC06(mon *Mon, cur *SearchRecord, prev []*SearchRecord) {
	if !cur.Opts.UseNLP || cur.Panic != "" || cur.Opts.UseFuzzy {
		return
	}
	n := len(cur.DB.Commands)
	if effLimitOf(cur.Opts) < n {
		return
	}
	nq := strings.ToLower(strings.TrimSpace(cur.Query))
	toks := database.VerifTokenize(nq)
	v := monitorAnalysis(mon, nq)
	onIDs := map[int]bool{}
	for _, id := range cur.IDs {
		onIDs[id] = true
	}
	appended := false
	{
		have := map[string]bool{}
		for _, t := range toks {
			have[t] = true
		}
		cnt := len(toks)
		for _, e := range v.Enhanced {
			if !have[e] && cnt < 8 {
				appended = true
			}
		}
	}
	if appended {
		mon.Tag("c06-appended")
	}
	if len(toks) > 10 {
		mon.Tag("c06-long-query")
	}
	// paired NLP-off run of the same request
	for i := len(prev) - 1; i >= 0; i-- {
		p := prev[i]
		if p.Query != cur.Query || p.Opts.UseNLP || p.Panic != "" || !sameButNLP(p.Opts, cur.Opts) {
			continue
		}
		mon.Tag("c06-pair")
		var lost []int
		for _, id := range p.IDs {
			if !onIDs[id] {
				lost = append(lost, id)
			}
		}
		inScope := cur.Opts.TopTermsCap <= 0 && len(toks) <= 10
		if inScope {
			mon.Tag("c06-pair-in-scope")
			if len(p.IDs) > 100 {
				mon.Tag("c06-pair-over-100-matches")
			}
			if appended && len(p.IDs) > 0 {
				mon.Tag("c06-nontrivial")
			}
			if len(cur.IDs) > len(p.IDs) {
				mon.Tag("c06-nlp-added-candidates")
			}
		}
		if len(lost) > 0 {
			if inScope {
				mon.Hit("C06", "nlp-lost-lexical-match", map[string]interface{}{"query": cur.Query, "tokens": toks, "enhanced": v.Enhanced,
					"limit": cur.Opts.Limit, "n": n, "lost": lost, "off": p.IDs, "on": cur.IDs})
			} else {
				mon.Tag("excluded-config-lost-match")
			}
		}
		break
	}
	// each of the first four content words still finds its documents (any length, any cap)
	o1 := cur.Opts
	o1.UseNLP = false
	seen := map[string]bool{}
	for i, t := range toks {
		if i >= 4 {
			break
		}
		if seen[t] {
			continue
		}
		seen[t] = true
		alone := cur.DB.SearchUniversal(t, o1)
		var lost []int
		for _, r := range alone {
			if id := cur.DB.VerifIndexOf(r.Command); !onIDs[id] {
				lost = append(lost, id)
			}
		}
		if len(alone) > 0 {
			mon.Tag("c06-first-four-checked")
		}
		if len(lost) > 0 {
			mon.Hit("C06", "first-four-word-lost", map[string]interface{}{"query": cur.Query, "word": t, "position": i, "tokens": toks,
				"cap": cur.Opts.TopTermsCap, "limit": cur.Opts.Limit, "n": n, "lost": lost, "on": cur.IDs})
		}
	}
}

// ---- directed stream ---------------------------------------------------------------------------

var c06Tools = []string{"mkdir", "rmdir", "rm", "ls", "dir", "cp", "mv", "find", "grep", "cat", "less", "more", "vim", "nano", "tar", "zip",
	"gzip", "unzip", "gunzip", "wget", "curl", "ps", "top", "kill", "pkill", "netstat", "ss", "ifconfig", "ip", "ipconfig", "df", "du", "awk",
	"sed", "tail", "apt", "pip", "npm", "chmod", "chown", "ssh", "scp", "rsync", "docker", "git"}

func c06Command(r *Rng, words []string) database.Command {
	if r.Chance(1, 3) {
		return genCommand(r)
	}
	c := database.Command{Command: Pick(r, c06Tools)}
	if r.Chance(2, 3) {
		c.Command += " " + Pick(r, words)
	}
	nd := r.Range(0, 6)
	ds := make([]string, nd)
	for i := range ds {
		if r.Chance(1, 6) {
			ds[i] = Pick(r, c06Tools)
		} else {
			ds[i] = Pick(r, words)
		}
	}
	c.Description = strings.Join(ds, " ")
	for i, k := 0, r.Intn(3); i < k; i++ {
		c.Keywords = append(c.Keywords, Pick(r, words))
	}
	for i, k := 0, r.Intn(2); i < k; i++ {
		c.Tags = append(c.Tags, Pick(r, c06Tools))
	}
	c.Platform = append([]string(nil), Pick(r, platPool)...)
	c.Pipeline = r.Chance(1, 10)
	return c
}

func c06Query(r *Rng, words, hintWords, dbWords []string, n int) string {
	ws := make([]string, 0, n)
	for len(ws) < n {
		switch x := r.Intn(100); {
		case x < 45 && len(dbWords) > 0:
			ws = append(ws, Pick(r, dbWords))
		case x < 70:
			ws = append(ws, Pick(r, words))
		case x < 80 && len(hintWords) > 0:
			ws = append(ws, Pick(r, hintWords))
		case x < 88:
			ws = append(ws, Pick(r, c06Tools))
		case x < 94:
			ws = append(ws, Pick(r, stopPool))
		default:
			ws = append(ws, Pick(r, []string{"dog", "qzx", "A1", "foo_bar", "e-mail", "Kill", "FİLE", "looK", "naïve", "a\xffb", "v2.0"}))
		}
	}
	q := strings.Join(ws, " ")
	if r.Chance(1, 10) {
		q = "  " + strings.ToUpper(q) + " "
	}
	if r.Chance(1, 12) {
		q += " without opening"
	}
	return q
}

func genSearchC06(r *Rng, tier string, idx int, args map[string]string) []string {
	words, hintWords := nlpVocab(args)
	maxN := 30
	if tier == "thorough" {
		maxN = 80
	}
	n := Pick(r, []int{0, 1, 3, 6, 10, 14, 20, maxN})
	// now and then a database in which more than a hundred entries share a word, searched with a limit above
	// a hundred: any fixed-size candidate window of the NLP stages (re-rank, cascade) then cuts into the matches
	big := r.Chance(1, 12)
	common := Pick(r, words)
	if big {
		n = Pick(r, []int{101, 104, 120, 140})
	}
	cmds := make([]database.Command, 0, n)
	for i := 0; i < n; i++ {
		if i > 0 && r.Chance(1, 8) {
			cmds = append(cmds, cmds[r.Intn(i)])
		} else {
			cmds = append(cmds, c06Command(r, words))
		}
		if big {
			cmds[i].Keywords = append(append([]string(nil), cmds[i].Keywords...), common)
			cmds[i].Platform = nil
		}
	}
	var dbWords []string
	for i := range cmds {
		c := &cmds[i]
		for _, t := range append(append([]string{c.Command, c.Description}, c.Keywords...), c.Tags...) {
			dbWords = append(dbWords, database.VerifTokenize(strings.ToLower(t))...)
		}
	}
	var reqs []SearchReq
	nq := r.Range(2, 4)
	for i := 0; i < nq; i++ {
		// lengths: mostly within the property's scope (<= 10 content words), some beyond, and the documented
		// excluded configuration (7 words, cap 7)
		nw := Pick(r, []int{1, 2, 3, 4, 5, 6, 7, 7, 8, 9, 10, 10, 11, 12, 15, 20})
		q := c06Query(r, words, hintWords, dbWords, nw)
		if big {
			q = common + " " + q
		}
		o := database.SearchOptions{}
		lims := []int{n, n + 1, n + 7, 50 + n}
		if n <= 10 {
			lims = append(lims, 0, -1)
		}
		o.Limit = Pick(r, lims)
		if o.Limit == 0 && n > 10 {
			o.Limit = n
		}
		o.TopTermsCap = Pick(r, []int{0, 0, 0, 0, 0, -1, 7, 3, 5, 8, 12})
		if nw == 7 && r.Chance(1, 2) {
			o.TopTermsCap = 7
		}
		if r.Chance(1, 4) {
			o.ContextBoosts = map[string]float64{Pick(r, words): Pick(r, []float64{1.5, 2, 0.5, 3})}
		}
		o.PipelineOnly = r.Chance(1, 12)
		o.PipelineBoost = Pick(r, []float64{0, 0, 1.5})
		o.AllPlatforms = r.Chance(1, 2)
		o.Platforms = append([]string(nil), Pick(r, [][]string{nil, nil, nil, {"windows"}, {"linux", "macos"}})...)
		o.NoCrossPlatform = r.Chance(1, 8)
		off, on := o, o
		off.UseNLP, on.UseNLP = false, true
		reqs = append(reqs, SearchReq{q, off}, SearchReq{q, on})
	}
	return SearchCaseOps(cmds, reqs, nil)
}
