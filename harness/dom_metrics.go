//go:build verif

package main

import (
	"bufio"
	"bytes"
	"encoding/json"
	"flag"
	"fmt"
	"math"
	"sort"
	"strings"
	"sync"
	"time"

	"github.com/Vedant9500/WTF/internal/database"
	"github.com/Vedant9500/WTF/internal/metrics"
)

// metrics: correspondence of metrics.Collector / Counter / Histogram / PerformanceMonitor with
// Model/Metrics.lean, plus the C18 monitor (the property evaluated on the real outputs with the
// harness's own bookkeeping), plus the tool `c18race` (concurrent half, meant for the -race build).
//
// Op grammar (one fresh Collector `c`, one fresh PerformanceMonitor and a table of custom-bucket
// histograms per case; <ident> = <hexname> <ntags> (<hexk> <hexv>)* in map insertion order):
//
//	ctr <ident> inc | add <n> | reset | value      -> <value> <#counter series>
//	lookup <kind> <k> <ident>                      -> <#distinct pointers over k lookups> <#series of kind>
//	key <ident>                                    -> <hex key>                      (hook)
//	hobs <ident> f:<bits>                          -> <count> f:<sum>
//	hpct <ident> f:<p>                             -> f:<value>
//	hgrid <ident>                                  -> 8 percentiles (p = 0 25 50 75 90 95 99 100)
//	xnew <id> <n> f:<bucket>*                      -> ok            (NewHistogramWithBuckets)
//	xobs <id> f:<v> | xpct <id> f:<p> | xgrid <id> -> as above; `panic` if Percentile panics
//	recsearch <durNs> <results> <hit> <qlen> | recdb <hexop> <durNs> <succ> | enable <0|1>   -> ok
//	totals                                         -> canonical dump of the monitor's collector (+ timers)
//	dump                                           -> canonical dump of c (GetAllMetrics)
//	mdbload <n> | mdbsearch <hexquery> <limit> <withOptions> | mdbenable <0|1>      -> ok   (database.MonitoredDatabase)
//	mdbtotals                                      -> <sum searches_total> <hits+misses> <query_length_count> <load,true> <sum db ops>
func init() {
	Register(&Domain{Name: "metrics", Gen: genMetrics, Exec: execMetrics})
	RegisterTool("c18race", toolC18Race)
}

type mIdent struct {
	name string
	tags [][2]string
}

func (id mIdent) tokens(r *Rng) string {
	// tags listed in a random insertion order
	p := make([][2]string, len(id.tags))
	copy(p, id.tags)
	if r != nil {
		for i := len(p) - 1; i > 0; i-- {
			j := r.Intn(i + 1)
			p[i], p[j] = p[j], p[i]
		}
	}
	var sb strings.Builder
	sb.WriteString(Hx(id.name))
	sb.WriteString(" " + Itoa(len(p)))
	for _, kv := range p {
		sb.WriteString(" " + Hx(kv[0]) + " " + Hx(kv[1]))
	}
	return sb.String()
}

var mNames = []string{"m", "requests_total", "a:b", "a=b", "x:y=z", "", "m:a=1", "\xff\xfe", "q", "searches_total"}
var mTagNames = []string{"a", "b", "c", "k:1", "k=", "=", ":", "", "zz", "A", "method", "status", "\xc3\xa9", "cache_hit"}
var mTagVals = []string{"1", "2", "", "x:y", "1:b=2", "=", "GET", "true", "false", "200", ":", "1:c=3"}
var mdbQueries = []string{"list files", "git commit", "", "zzzz", "compress folder", "docker run", "list files", "\xc3\xa9t\xc3\xa9"}
var mdbCommands = []database.Command{
	{Command: "ls -la", Description: "list files in a directory", Keywords: []string{"list", "files"}},
	{Command: "git commit -m msg", Description: "commit staged changes", Keywords: []string{"git", "commit"}, Niche: "git"},
	{Command: "tar -czf a.tgz dir", Description: "compress a folder", Keywords: []string{"compress", "folder", "tar"}},
	{Command: "docker run -it img", Description: "run a container", Keywords: []string{"docker", "run"}, Niche: "docker"},
	{Command: "find . -name x | xargs rm", Description: "find and delete files", Keywords: []string{"find", "delete"}, Pipeline: true},
}

// names that a hand-made series key could confuse with another (operation, outcome) pair: wave 7, C18-B kept resolved series in a
// map keyed by name + "_failed", so ("load", failed) and ("load_failed", succeeded) shared one series
var mDbOps = []string{"load", "save", "reload", "a:b", "x=1:success=true", "", "load:success=false", "load_failed", "save_failed", "load_false", "loadfalse", "load_true", "load_ok", "load.failed", "load-failed"}

func genIdent(r *Rng) mIdent {
	id := mIdent{name: Pick(r, mNames)}
	nt := Pick(r, []int{0, 1, 2, 2, 3, 3, 4, 5})
	perm := make([]int, len(mTagNames))
	for i := range perm {
		perm[i] = i
	}
	for i := len(perm) - 1; i > 0; i-- {
		j := r.Intn(i + 1)
		perm[i], perm[j] = perm[j], perm[i]
	}
	for i := 0; i < nt; i++ {
		id.tags = append(id.tags, [2]string{mTagNames[perm[i]], Pick(r, mTagVals)})
	}
	return id
}

func genObs(r *Rng) float64 {
	switch x := r.Intn(100); {
	case x < 25:
		return float64(r.Intn(60))
	case x < 40:
		return Pick(r, []float64{0.1, 0.5, 1, 2.5, 5, 10, 25, 50, 100, 250, 500, 1000, 2500, 5000, 10000})
	case x < 70:
		return r.Float() * 12000
	case x < 80:
		return r.Float()
	case x < 86:
		return -r.Float() * 10
	case x < 90:
		return float64(r.Intn(8)) / 8
	case x < 94:
		return 10000 + r.Float()*1e6
	case x < 96:
		return 1e300
	case x < 97:
		return math.Inf(1)
	case x < 98:
		return math.NaN()
	default:
		return 0
	}
}

func genPct(r *Rng) float64 {
	switch x := r.Intn(100); {
	case x < 45:
		return Pick(r, []float64{0, 1, 10, 25, 50, 75, 90, 95, 99, 99.9, 100})
	case x < 85:
		return r.Float() * 100
	default:
		return Pick(r, []float64{-10, -0.5, 100.0001, 150, 1e9, math.NaN(), math.Inf(1), math.Inf(-1), 1e300, -1e300})
	}
}

func genMetrics(r *Rng, tier string, idx int, args map[string]string) []string {
	var idents []mIdent
	for i, n := 0, r.Range(1, 4); i < n; i++ {
		idents = append(idents, genIdent(r))
	}
	if r.Chance(1, 4) { // two tag sets that render to one key (allowed direction)
		idents = append(idents, mIdent{"m", [][2]string{{"a", "1:b=2"}}}, mIdent{"m", [][2]string{{"a", "1"}, {"b", "2"}}})
	}
	if r.Chance(1, 3) {
		// a histogram whose name is the name a timer derives for its own histogram (<name>_duration), same tags: they are
		// different metrics of different kinds and must stay apart whatever the order in which they are first asked for
		b := Pick(r, idents)
		idents = append(idents, mIdent{b.name + "_duration", append([][2]string{}, b.tags...)}, b)
	}
	if r.Chance(1, 6) { // a name that looks like name+tag
		idents = append(idents, mIdent{"m:a=1", nil}, mIdent{"m", [][2]string{{"a", "1"}}})
	}
	if r.Chance(1, 5) { // same tags, different values / an extra tag
		b := genIdent(r)
		if len(b.tags) > 0 {
			c := mIdent{b.name, append([][2]string{}, b.tags...)}
			c.tags[0][1] = c.tags[0][1] + "x"
			idents = append(idents, b, c)
		}
	}
	n := r.Range(8, 40)
	if tier == "thorough" {
		n = r.Range(8, 120)
	}
	var ops []string
	nx := 0
	newX := func() {
		var bs []float64
		switch r.Intn(10) {
		case 0: // empty custom list: Percentile panics once something was observed
		case 1, 2: // unsorted
			for i, k := 0, r.Range(1, 5); i < k; i++ {
				bs = append(bs, float64(r.Intn(20)))
			}
		default:
			v := float64(r.Intn(3))
			for i, k := 0, r.Range(1, 6); i < k; i++ {
				bs = append(bs, v)
				v += float64(r.Range(0, 5)) + Pick(r, []float64{0, 0.5, 0.25})
			}
		}
		s := "xnew " + Itoa(nx) + " " + Itoa(len(bs))
		for _, b := range bs {
			s += " " + F(b)
		}
		ops = append(ops, s)
		nx++
	}
	for i := 0; i < n; i++ {
		id := Pick(r, idents)
		switch x := r.Intn(100); {
		case x < 30:
			var o string
			switch y := r.Intn(100); {
			case y < 60:
				o = "inc"
			case y < 82:
				o = "add " + Itoa(r.Range(-5, 50))
			case y < 85:
				o = "add " + Pick(r, []string{"9223372036854775807", "-9223372036854775808", "4611686018427387904"})
			case y < 90:
				o = "reset"
			default:
				o = "value"
			}
			ops = append(ops, "ctr "+id.tokens(r)+" "+o)
		case x < 38:
			ops = append(ops, "lookup "+Pick(r, []string{"counter", "counter", "gauge", "hist", "timer"})+" "+Itoa(r.Range(100, 130))+" "+id.tokens(r))
		case x < 43:
			ops = append(ops, "key "+id.tokens(r))
		case x < 60:
			ops = append(ops, "hobs "+id.tokens(r)+" "+F(genObs(r)))
		case x < 66:
			ops = append(ops, "hpct "+id.tokens(r)+" "+F(genPct(r)))
		case x < 69:
			ops = append(ops, "hgrid "+id.tokens(r))
		case x < 82:
			if nx == 0 || r.Chance(1, 5) {
				newX()
			} else {
				xid := Itoa(r.Intn(nx))
				switch y := r.Intn(10); {
				case y < 6:
					ops = append(ops, "xobs "+xid+" "+F(genObs(r)))
				case y < 9:
					ops = append(ops, "xpct "+xid+" "+F(genPct(r)))
				default:
					ops = append(ops, "xgrid "+xid)
				}
			}
		case x < 89:
			ops = append(ops, "recsearch "+Itoa64(int64(r.Intn(5_000_000_000)))+" "+Itoa(r.Intn(50))+" "+B(r.Bool())+" "+Itoa(r.Intn(200)))
		case x < 95:
			name := Pick(r, mDbOps)
			if r.Chance(1, 3) {
				name = Pick(r, []string{"load", "load_failed"}) // a pair a concatenated key confuses, often enough to meet in one case
			}
			ops = append(ops, "recdb "+Hx(name)+" "+Itoa64(int64(r.Intn(5_000_000_000)))+" "+B(r.Bool()))
		case x < 96:
			ops = append(ops, "enable "+B(r.Chance(2, 3)))
		case x < 98:
			ops = append(ops, "totals")
		default:
			ops = append(ops, "dump")
		}
	}
	ops = append(ops, "totals", "dump")
	if r.Chance(1, 3) { // the monitored database wrapper of search_monitored.go
		for i, k := 0, r.Range(2, 14); i < k; i++ {
			switch x := r.Intn(100); {
			case x < 20:
				ops = append(ops, "mdbload "+Itoa(r.Intn(6)))
			case x < 85:
				ops = append(ops, "mdbsearch "+Hx(Pick(r, mdbQueries))+" "+Itoa(r.Range(1, 5))+" "+B(r.Bool()))
			case x < 92:
				ops = append(ops, "mdbenable "+B(r.Chance(2, 3)))
			default:
				ops = append(ops, "mdbtotals")
			}
		}
		ops = append(ops, "mdbtotals")
	}
	return ops
}

// ---- execution ---------------------------------------------------------------------------------

func parseIdent(f []string) (id mIdent, rest []string, ok bool) {
	if len(f) < 2 {
		return id, nil, false
	}
	id.name = UnHx(f[0])
	nt := Atoi(f[1])
	if len(f) < 2+2*nt {
		return id, nil, false
	}
	for i := 0; i < nt; i++ {
		id.tags = append(id.tags, [2]string{UnHx(f[2+2*i]), UnHx(f[3+2*i])})
	}
	return id, f[2+2*nt:], true
}

// buildMap builds a fresh tag map, inserting the tags in an order that depends on `variant`.
func buildMap(tags [][2]string, variant int) map[string]string {
	if len(tags) == 0 {
		if variant%2 == 0 {
			return nil
		}
		return map[string]string{}
	}
	m := make(map[string]string)
	n := len(tags)
	for i := 0; i < n; i++ {
		j := (i + variant) % n
		if (variant/n)%2 == 1 {
			j = n - 1 - j
		}
		m[tags[j][0]] = tags[j][1]
	}
	return m
}

// canonical identity: injective rendering of (name, sorted tags)
func identKey(name string, tags map[string]string) string {
	ks := make([]string, 0, len(tags))
	for k := range tags {
		ks = append(ks, k)
	}
	sort.Strings(ks)
	var sb strings.Builder
	fmt.Fprintf(&sb, "%d:%s|%d", len(name), name, len(ks))
	for _, k := range ks {
		fmt.Fprintf(&sb, "|%d:%s=%d:%s", len(k), k, len(tags[k]), tags[k])
	}
	return sb.String()
}

func identStr(name string, tags map[string]string) string {
	ks := make([]string, 0, len(tags))
	for k := range tags {
		ks = append(ks, k)
	}
	sort.Strings(ks)
	s := Hx(name) + " " + Itoa(len(ks))
	for _, k := range ks {
		s += " " + Hx(k) + " " + Hx(tags[k])
	}
	return s
}

func dumpCollector(c *metrics.Collector, withTimers bool) string {
	var es []string
	for _, m := range c.GetAllMetrics() {
		t := "?"
		switch m.Type {
		case metrics.MetricTypeCounter:
			t = "C"
		case metrics.MetricTypeGauge:
			t = "G"
		case metrics.MetricTypeHistogram:
			t = "H"
		}
		es = append(es, t+" "+identStr(m.Name, m.Tags)+" "+F(m.Value))
	}
	if withTimers {
		for _, t := range c.VerifTimers() {
			es = append(es, "T "+identStr(t.Name, t.Tags)+" "+Itoa64(t.H.Count())+" "+F(t.H.Sum()))
		}
	}
	sort.Strings(es)
	s := Itoa(len(es))
	for _, e := range es {
		s += " ; " + e
	}
	return s
}

type mHistShadow struct {
	obs     []float64
	buckets []float64 // nil = default
	sorted  bool
}

func sameFloat(a, b float64) bool {
	return math.Float64bits(a) == math.Float64bits(b) || (math.IsNaN(a) && math.IsNaN(b))
}

func (s *mHistShadow) check(h *metrics.Histogram, mon *Mon, op string) {
	if h.Count() != int64(len(s.obs)) {
		mon.Hit("C18", "hist-count-wrong", map[string]interface{}{"count": h.Count(), "observations": len(s.obs), "op": op})
	}
	sum := 0.0
	for _, v := range s.obs {
		sum += v
	}
	if !sameFloat(sum, h.Sum()) {
		mon.Hit("C18", "hist-sum-wrong", map[string]interface{}{"sum": F(h.Sum()), "expected": F(sum), "op": op})
	}
}

func pctSafe(h *metrics.Histogram, p float64) (v float64, panicked bool) {
	defer func() {
		if r := recover(); r != nil {
			panicked = true
		}
	}()
	return h.Percentile(p), false
}

var gridPs = []float64{0, 25, 50, 75, 90, 95, 99, 100}

// grid evaluates Percentile over p = 0, 0.5, ..., 100 and checks it never decreases (sorted buckets only).
func (s *mHistShadow) grid(h *metrics.Histogram, mon *Mon, op string) string {
	if s.sorted {
		prev, prevP := math.Inf(-1), -1.0
		for i := 0; i <= 200; i++ {
			p := float64(i) / 2
			v, pan := pctSafe(h, p)
			if pan {
				mon.Tag("pct-panic")
				break
			}
			if v < prev {
				mon.Hit("C18", "percentile-not-monotone", map[string]interface{}{"p": prevP, "value": prev, "p2": p, "value2": v, "count": h.Count(), "op": op})
				break
			}
			prev, prevP = v, p
		}
		mon.Tag("pct-grid")
	} else {
		mon.Tag("pct-grid-unsorted-buckets")
	}
	out := make([]string, len(gridPs))
	for i, p := range gridPs {
		v, pan := pctSafe(h, p)
		if pan {
			out[i] = "panic"
		} else {
			out[i] = F(v)
		}
	}
	return strings.Join(out, " ")
}

func tagPct(mon *Mon, p float64) {
	if p >= 0 && p <= 100 {
		mon.Tag("pct-in-domain")
	} else {
		mon.Tag("pct-out-of-domain")
	}
}

type dbKey struct {
	op   string
	succ bool
}

func execMetrics(ops []string, mon *Mon) []string {
	c := metrics.NewCollector()
	pm := metrics.NewPerformanceMonitor()
	out := make([]string, 0, len(ops))

	// monitor bookkeeping (independent of the model)
	identPtr := map[string]map[string]interface{}{"counter": {}, "gauge": {}, "hist": {}, "timer": {}}
	ptrIdents := map[interface{}]map[string]bool{}
	ctrExpected := map[*metrics.Counter]int64{}
	hists := map[*metrics.Histogram]*mHistShadow{}
	xs := map[int]*metrics.Histogram{}
	xsh := map[int]*mHistShadow{}
	enabled := true
	var mdb *database.MonitoredDatabase
	mdbEnabled, mdbSearches, mdbLoads := true, int64(0), int64(0)
	getMdb := func() *database.MonitoredDatabase {
		if mdb == nil {
			mdb = database.NewMonitoredDatabase(&database.Database{})
		}
		return mdb
	}
	nSearch := map[bool]int64{}
	nDb := map[dbKey]int64{}
	variant := 0

	get := func(kind, name string, m map[string]string) interface{} {
		switch kind {
		case "counter":
			return c.Counter(name, m)
		case "gauge":
			return c.Gauge(name, m)
		case "hist":
			return c.Histogram(name, m)
		default:
			return c.Timer(name, m)
		}
	}
	// lookup with identity bookkeeping: same identity => same pointer, and no new series for a known identity
	lookup := func(kind string, id mIdent, op string) interface{} {
		variant++
		m := buildMap(id.tags, variant)
		ik := identKey(id.name, m)
		before := c.VerifSeriesCount(kind)
		p := get(kind, id.name, m)
		after := c.VerifSeriesCount(kind)
		if prev, known := identPtr[kind][ik]; known {
			if prev != p {
				mon.Hit("C18", "same-identity-different-metric", map[string]interface{}{"kind": kind, "name": id.name, "tags": m, "op": op})
			}
			if after != before {
				mon.Hit("C18", "series-created-for-known-identity", map[string]interface{}{"kind": kind, "name": id.name, "tags": m, "before": before, "after": after, "op": op})
			}
		} else {
			identPtr[kind][ik] = p
			if after > before+1 {
				mon.Hit("C18", "lookup-created-several-series", map[string]interface{}{"kind": kind, "before": before, "after": after, "op": op})
			}
		}
		if ptrIdents[p] == nil {
			ptrIdents[p] = map[string]bool{}
		}
		ptrIdents[p][ik] = true
		if len(ptrIdents[p]) > 1 {
			mon.Tag("key-collision-distinct-identities") // allowed direction, not flagged
		}
		if len(id.tags) >= 2 {
			mon.Tag("lookup-multitag")
		}
		return p
	}

	for _, o := range ops {
		f := strings.Split(o, " ")
		switch f[0] {
		case "ctr":
			id, rest, ok := parseIdent(f[1:])
			if !ok || len(rest) == 0 {
				out = append(out, "bad-op")
				continue
			}
			p := lookup("counter", id, o).(*metrics.Counter)
			switch rest[0] {
			case "inc":
				p.Inc()
				ctrExpected[p]++
				mon.Tag("ctr-inc")
			case "add":
				n := Atoi64(rest[1])
				p.Add(n)
				before := ctrExpected[p]
				ctrExpected[p] += n
				if (n > 0 && ctrExpected[p] < before) || (n < 0 && ctrExpected[p] > before) {
					mon.Tag("ctr-int64-overflow")
				}
			case "reset":
				p.Reset()
				ctrExpected[p] = 0
				mon.Tag("ctr-reset")
			case "value":
			default:
				out = append(out, "bad-op")
				continue
			}
			if p.Value() != ctrExpected[p] {
				mon.Hit("C18", "counter-value-wrong", map[string]interface{}{"value": p.Value(), "expected": ctrExpected[p], "op": o})
			}
			out = append(out, Itoa64(p.Value())+" "+Itoa(c.VerifSeriesCount("counter")))
		case "lookup":
			if len(f) < 5 {
				out = append(out, "bad-op")
				continue
			}
			kind, k := f[1], Atoi(f[2])
			id, rest, ok := parseIdent(f[3:])
			if !ok || len(rest) != 0 {
				out = append(out, "bad-op")
				continue
			}
			distinct := map[interface{}]bool{}
			for i := 0; i < k; i++ {
				distinct[lookup(kind, id, o)] = true
			}
			if len(distinct) != 1 {
				mon.Hit("C18", "repeated-lookup-distinct-metrics", map[string]interface{}{"kind": kind, "name": id.name, "tags": id.tags, "lookups": k, "distinct": len(distinct)})
			}
			mon.Tag("lookup-repeated")
			out = append(out, Itoa(len(distinct))+" "+Itoa(c.VerifSeriesCount(kind)))
		case "key":
			id, rest, ok := parseIdent(f[1:])
			if !ok || len(rest) != 0 {
				out = append(out, "bad-op")
				continue
			}
			k0 := c.VerifMetricKey(id.name, buildMap(id.tags, 0))
			for v := 1; v < 24; v++ {
				if k := c.VerifMetricKey(id.name, buildMap(id.tags, v)); k != k0 {
					mon.Hit("C18", "key-depends-on-map-order", map[string]interface{}{"name": id.name, "tags": id.tags, "key1": k0, "key2": k})
					break
				}
			}
			out = append(out, Hx(k0))
		case "hobs", "hpct", "hgrid":
			id, rest, ok := parseIdent(f[1:])
			if !ok {
				out = append(out, "bad-op")
				continue
			}
			h := lookup("hist", id, o).(*metrics.Histogram)
			sh := hists[h]
			if sh == nil {
				sh = &mHistShadow{sorted: true}
				hists[h] = sh
			}
			switch f[0] {
			case "hobs":
				v := parseF(rest[0])
				h.Observe(v)
				sh.obs = append(sh.obs, v)
				sh.check(h, mon, o)
				mon.Tag("hist-observe")
				if v > 10000 {
					mon.Tag("hist-overflow-bucket")
				}
				out = append(out, Itoa64(h.Count())+" "+F(h.Sum()))
			case "hpct":
				p := parseF(rest[0])
				tagPct(mon, p)
				out = append(out, F(h.Percentile(p)))
			default:
				out = append(out, sh.grid(h, mon, o))
			}
		case "xnew":
			id, nb := Atoi(f[1]), Atoi(f[2])
			bs := make([]float64, 0, nb)
			for i := 0; i < nb; i++ {
				bs = append(bs, parseF(f[3+i]))
			}
			xs[id] = metrics.NewHistogramWithBuckets("x", bs, nil)
			xsh[id] = &mHistShadow{buckets: bs, sorted: sort.Float64sAreSorted(bs) && len(bs) > 0}
			if len(bs) == 0 {
				mon.Tag("custom-empty-buckets")
			}
			out = append(out, "ok")
		case "xobs", "xpct", "xgrid":
			id := Atoi(f[1])
			h, sh := xs[id], xsh[id]
			if h == nil {
				out = append(out, "bad-op")
				continue
			}
			switch f[0] {
			case "xobs":
				v := parseF(f[2])
				h.Observe(v)
				sh.obs = append(sh.obs, v)
				sh.check(h, mon, o)
				mon.Tag("hist-observe-custom")
				out = append(out, Itoa64(h.Count())+" "+F(h.Sum()))
			case "xpct":
				p := parseF(f[2])
				tagPct(mon, p)
				if v, pan := pctSafe(h, p); pan {
					mon.Tag("pct-panic")
					out = append(out, "panic")
				} else {
					out = append(out, F(v))
				}
			default:
				out = append(out, sh.grid(h, mon, o))
			}
		case "recsearch":
			dur, rc, hit, ql := Atoi64(f[1]), Atoi(f[2]), f[3] == "1", Atoi(f[4])
			pm.RecordSearchOperation(time.Duration(dur), rc, hit, ql)
			if enabled {
				nSearch[hit]++
				mon.Tag("rec-search")
			} else {
				mon.Tag("rec-while-disabled")
			}
			out = append(out, "ok")
		case "recdb":
			op, dur, succ := UnHx(f[1]), Atoi64(f[2]), f[3] == "1"
			pm.RecordDatabaseOperation(op, time.Duration(dur), succ)
			if enabled {
				nDb[dbKey{op, succ}]++
				mon.Tag("rec-db")
			} else {
				mon.Tag("rec-while-disabled")
			}
			out = append(out, "ok")
		case "enable":
			enabled = f[1] == "1"
			pm.Enable(enabled)
			out = append(out, "ok")
		case "totals":
			checkMonitorTotals(pm.VerifCollector(), nSearch, nDb, mon, "sequential")
			out = append(out, dumpCollector(pm.VerifCollector(), true))
		case "dump":
			out = append(out, dumpCollector(c, false))
		case "mdbload":
			n := Atoi(f[1])
			cmds := append([]database.Command{}, mdbCommands[:n%(len(mdbCommands)+1)]...)
			_ = getMdb().LoadDatabaseWithMonitoring(cmds)
			if mdbEnabled {
				mdbLoads++
			}
			mon.Tag("mdb-load")
			out = append(out, "ok")
		case "mdbsearch":
			q, limit := UnHx(f[1]), Atoi(f[2])
			if f[3] == "1" {
				getMdb().SearchWithOptionsAndMonitoring(q, database.SearchOptions{Limit: limit, UseNLP: true})
			} else {
				getMdb().SearchWithMonitoring(q, limit)
			}
			if mdbEnabled {
				mdbSearches++
			}
			mon.Tag("mdb-search")
			out = append(out, "ok")
		case "mdbenable":
			mdbEnabled = f[1] == "1"
			getMdb().EnableMonitoring(mdbEnabled)
			out = append(out, "ok")
		case "mdbtotals":
			var sTotal, hm, ql, loadOK, dbAll float64
			for _, m := range getMdb().GetPerformanceReport().ApplicationMetrics {
				switch m.Name {
				case "searches_total":
					sTotal += m.Value
				case "cache_hits_total", "cache_misses_total":
					hm += m.Value
				case "query_length_count":
					ql += m.Value
				case "database_operations_total":
					dbAll += m.Value
					if tagsEq(m.Tags, map[string]string{"operation": "load", "success": "true"}) {
						loadOK += m.Value
					}
				}
			}
			if sTotal != float64(mdbSearches) || hm != float64(mdbSearches) || ql != float64(mdbSearches) {
				mon.Hit("C18", "monitored-db-total-mismatch", map[string]interface{}{"searches_total": sTotal, "hits+misses": hm, "query_length_count": ql, "searches_performed_while_enabled": mdbSearches})
			}
			if loadOK != float64(mdbLoads) || dbAll != float64(mdbLoads) {
				mon.Hit("C18", "monitored-db-total-mismatch", map[string]interface{}{"database_operations_total{load,true}": loadOK, "all": dbAll, "loads_performed_while_enabled": mdbLoads})
			}
			mon.Tag("mdb-totals")
			out = append(out, Itoa64(int64(sTotal))+" "+Itoa64(int64(hm))+" "+Itoa64(int64(ql))+" "+Itoa64(int64(loadOK))+" "+Itoa64(int64(dbAll)))
		default:
			out = append(out, "bad-op")
		}
	}
	return out
}

func parseF(t string) float64 {
	if !strings.HasPrefix(t, "f:") {
		panic("bad float token: " + t)
	}
	var b uint64
	if _, err := fmt.Sscanf(t[2:], "%x", &b); err != nil {
		panic("bad float token: " + t)
	}
	return math.Float64frombits(b)
}

func tagsEq(m map[string]string, want map[string]string) bool {
	if len(m) != len(want) {
		return false
	}
	for k, v := range want {
		if mv, ok := m[k]; !ok || mv != v {
			return false
		}
	}
	return true
}

// checkMonitorTotals evaluates the "totals equal the number of operations recorded" clause on what the
// monitor's collector reports (GetAllMetrics for counters / histograms, the hook for timers).
func checkMonitorTotals(c *metrics.Collector, nSearch map[bool]int64, nDb map[dbKey]int64, mon *Mon, mode string) {
	all := c.GetAllMetrics()
	bs := func(b bool) string { return fmt.Sprintf("%t", b) }
	hit := func(what string, got, want interface{}) {
		mon.Hit("C18", "monitor-total-mismatch", map[string]interface{}{"what": what, "reported": got, "recorded": want, "mode": mode})
	}
	// series with a given name and tag set: how many, and the sum of their values
	series := func(name string, tags map[string]string) (n int, sum float64) {
		for _, m := range all {
			if m.Name == name && tagsEq(m.Tags, tags) {
				n++
				sum += m.Value
			}
		}
		return
	}
	byName := func(name string) (n int, sum float64) {
		for _, m := range all {
			if m.Name == name {
				n++
				sum += m.Value
			}
		}
		return
	}
	total := nSearch[true] + nSearch[false]
	if _, s := byName("searches_total"); s != float64(total) {
		hit("sum over series of searches_total", s, total)
	}
	for _, b := range []bool{true, false} {
		n, s := series("searches_total", map[string]string{"cache_hit": bs(b)})
		if s != float64(nSearch[b]) {
			hit("searches_total{cache_hit="+bs(b)+"}", s, nSearch[b])
		}
		if n > 1 {
			mon.Hit("C18", "monitor-series-split", map[string]interface{}{"metric": "searches_total", "cache_hit": b, "series": n, "mode": mode})
		}
	}
	if _, s := series("cache_hits_total", nil); s != float64(nSearch[true]) {
		hit("cache_hits_total", s, nSearch[true])
	}
	if _, s := series("cache_misses_total", nil); s != float64(nSearch[false]) {
		hit("cache_misses_total", s, nSearch[false])
	}
	if _, s := series("query_length_count", nil); s != float64(total) {
		hit("query_length_count", s, total)
	}
	dbTotal := int64(0)
	for k, want := range nDb {
		dbTotal += want
		n, s := series("database_operations_total", map[string]string{"operation": k.op, "success": bs(k.succ)})
		if s != float64(want) {
			hit(fmt.Sprintf("database_operations_total{operation=%q,success=%t}", k.op, k.succ), s, want)
		}
		if n > 1 {
			mon.Hit("C18", "monitor-series-split", map[string]interface{}{"metric": "database_operations_total", "operation": k.op, "success": k.succ, "series": n, "mode": mode})
		}
	}
	if _, s := byName("database_operations_total"); s != float64(dbTotal) {
		hit("sum over series of database_operations_total", s, dbTotal)
	}
	// timers (not part of GetAllMetrics)
	tcount := func(name string, tags map[string]string) (n int, cnt int64) {
		for _, t := range c.VerifTimers() {
			if t.Name == name && tagsEq(t.Tags, tags) {
				n++
				cnt += t.H.Count()
			}
		}
		return
	}
	for _, b := range []bool{true, false} {
		if _, cnt := tcount("search_duration", map[string]string{"cache_hit": bs(b)}); cnt != nSearch[b] {
			hit("search_duration{cache_hit="+bs(b)+"} observations", cnt, nSearch[b])
		}
	}
	for k, want := range nDb {
		n, cnt := tcount("database_operation_duration", map[string]string{"operation": k.op, "success": bs(k.succ)})
		if cnt != want {
			hit(fmt.Sprintf("database_operation_duration{operation=%q,success=%t} observations", k.op, k.succ), cnt, want)
		}
		if n > 1 {
			mon.Hit("C18", "monitor-series-split", map[string]interface{}{"metric": "database_operation_duration", "operation": k.op, "success": k.succ, "series": n, "mode": mode})
		}
	}
	if len(nDb) > 0 {
		mon.Tag("totals-with-db-ops")
	}
	mon.Tag("totals-checked")
}

// ---- concurrent half: tool c18race -------------------------------------------------------------

type raceReport struct {
	OK          bool     `json:"ok"`
	Goroutines  int      `json:"goroutines"`
	Iterations  int      `json:"iterations_per_goroutine"`
	Incs        int64    `json:"counter_increments"`
	Observes    int64    `json:"observations"`
	Searches    int64    `json:"record_search_calls"`
	DbOps       int64    `json:"record_db_calls"`
	Lookups     int64    `json:"lookups"`
	Identities  int      `json:"identities"`
	Failures    []string `json:"failures"`
	ElapsedMs   int64    `json:"elapsed_ms"`
	MultiTagIds int      `json:"identities_with_2plus_tags"`
}

// toolC18Race hammers one Collector and one PerformanceMonitor from many goroutines (get-or-create of
// the same identities with freshly built, differently ordered tag maps; Inc; Observe; RecordSearch /
// RecordDatabaseOperation; concurrent readers) and then checks totals = number of calls and
// one series per identity.  Exit status 0 = all totals right; the caller additionally looks for
// race-detector reports (binary built with -race).
func toolC18Race(args []string) int {
	fs := flag.NewFlagSet("c18race", flag.ExitOnError)
	seed := fs.Uint64("seed", 1, "seed")
	G := fs.Int("g", 16, "goroutines")
	N := fs.Int("n", 3000, "iterations per goroutine")
	fs.Parse(args)
	t0 := time.Now()
	idents := []mIdent{
		{"plain", nil},
		{"one", [][2]string{{"k", "v"}}},
		{"two", [][2]string{{"operation", "load"}, {"success", "true"}}},
		{"three", [][2]string{{"a", "1"}, {"b", "2"}, {"c", "3"}}},
		{"five", [][2]string{{"e", "5"}, {"d", "4"}, {"c:x", "3"}, {"b=", "2"}, {"a", "1"}}},
		{"two", [][2]string{{"operation", "load"}, {"success", "false"}}},
		{"a:b", [][2]string{{"=", ":"}, {":", "="}}},
	}
	dbOps := []string{"load", "save", "x:y"}
	c := metrics.NewCollector()
	pm := metrics.NewPerformanceMonitor()
	type local struct {
		incs, obsN  []int64
		obsSum      []float64
		search      map[bool]int64
		db          map[dbKey]int64
		ctrPtr      []*metrics.Counter
		histPtr     []*metrics.Histogram
		lookups     int64
		ptrMismatch int
	}
	locals := make([]*local, *G)
	var wg sync.WaitGroup
	start := make(chan struct{})
	for g := 0; g < *G; g++ {
		l := &local{incs: make([]int64, len(idents)), obsN: make([]int64, len(idents)), obsSum: make([]float64, len(idents)),
			search: map[bool]int64{}, db: map[dbKey]int64{}, ctrPtr: make([]*metrics.Counter, len(idents)), histPtr: make([]*metrics.Histogram, len(idents))}
		locals[g] = l
		wg.Add(1)
		go func(g int) {
			defer wg.Done()
			r := NewRng(*seed, uint64(g), "c18race")
			<-start
			for i := 0; i < *N; i++ {
				j := r.Intn(len(idents))
				id := idents[j]
				p := c.Counter(id.name, buildMap(id.tags, r.Intn(1000)))
				l.lookups++
				if l.ctrPtr[j] == nil {
					l.ctrPtr[j] = p
				} else if l.ctrPtr[j] != p {
					l.ptrMismatch++
				}
				p.Inc()
				l.incs[j]++
				if i%3 == 0 {
					h := c.Histogram(id.name, buildMap(id.tags, r.Intn(1000)))
					l.lookups++
					if l.histPtr[j] == nil {
						l.histPtr[j] = h
					} else if l.histPtr[j] != h {
						l.ptrMismatch++
					}
					v := float64(r.Intn(64)) // small integers: the float sum is exact in any order
					h.Observe(v)
					l.obsN[j]++
					l.obsSum[j] += v
				}
				if i%4 == 0 {
					hit := r.Bool()
					pm.RecordSearchOperation(time.Duration(r.Intn(1000))*time.Microsecond, r.Intn(20), hit, r.Intn(80))
					l.search[hit]++
				}
				if i%5 == 0 {
					k := dbKey{Pick(r, dbOps), r.Bool()}
					pm.RecordDatabaseOperation(k.op, time.Duration(r.Intn(1000))*time.Microsecond, k.succ)
					l.db[k]++
				}
				if i%97 == 0 { // concurrent readers
					_ = c.GetAllMetrics()
					_ = p.Value()
					_ = pm.VerifCollector().GetAllMetrics()
				}
			}
		}(g)
	}
	close(start)
	wg.Wait()

	rep := raceReport{Goroutines: *G, Iterations: *N, Identities: len(idents)}
	fail := func(f string, a ...interface{}) { rep.Failures = append(rep.Failures, fmt.Sprintf(f, a...)) }
	for _, id := range idents {
		if len(id.tags) >= 2 {
			rep.MultiTagIds++
		}
	}
	nSearch := map[bool]int64{}
	nDb := map[dbKey]int64{}
	for j, id := range idents {
		var incs, obsN int64
		var obsSum float64
		var cp *metrics.Counter
		var hp *metrics.Histogram
		for g, l := range locals {
			incs += l.incs[j]
			obsN += l.obsN[j]
			obsSum += l.obsSum[j]
			if l.ctrPtr[j] != nil {
				if cp == nil {
					cp = l.ctrPtr[j]
				} else if cp != l.ctrPtr[j] {
					fail("identity %d (%q): goroutine %d obtained a different counter", j, id.name, g)
				}
			}
			if l.histPtr[j] != nil {
				if hp == nil {
					hp = l.histPtr[j]
				} else if hp != l.histPtr[j] {
					fail("identity %d (%q): goroutine %d obtained a different histogram", j, id.name, g)
				}
			}
		}
		rep.Incs += incs
		rep.Observes += obsN
		final := c.Counter(id.name, buildMap(id.tags, 0))
		if cp != nil && final != cp {
			fail("identity %d (%q): final lookup returned a different counter", j, id.name)
		}
		if final.Value() != incs {
			fail("identity %d (%q): counter value %d, increments applied %d", j, id.name, final.Value(), incs)
		}
		fh := c.Histogram(id.name, buildMap(id.tags, 1))
		if fh.Count() != obsN || fh.Sum() != obsSum {
			fail("identity %d (%q): histogram count/sum %d/%v, observed %d/%v", j, id.name, fh.Count(), fh.Sum(), obsN, obsSum)
		}
	}
	for g, l := range locals {
		rep.Lookups += l.lookups
		if l.ptrMismatch > 0 {
			fail("goroutine %d: %d lookups of a known identity returned a different metric", g, l.ptrMismatch)
		}
		for k, v := range l.search {
			nSearch[k] += v
		}
		for k, v := range l.db {
			nDb[k] += v
		}
	}
	rep.Searches = nSearch[true] + nSearch[false]
	for _, v := range nDb {
		rep.DbOps += v
	}
	if n := c.VerifSeriesCount("counter"); n != len(idents) {
		fail("%d counter series for %d identities", n, len(idents))
	}
	if n := c.VerifSeriesCount("hist"); n != len(idents) {
		fail("%d histogram series for %d identities", n, len(idents))
	}
	// many series of one type in one collector (a monitor that tags by operation name can easily produce thousands): identity and
	// event accounting must hold for the last series exactly as for the first
	{
		many := metrics.NewCollector()
		const nSeries = 1500
		bad := 0
		for j := 0; j < nSeries && bad < 3; j++ {
			tags := map[string]string{"operation": "op" + Itoa(j)}
			c1 := many.Counter("events_total", tags)
			c1.Inc()
			c2 := many.Counter("events_total", map[string]string{"operation": "op" + Itoa(j)})
			c2.Inc()
			h1 := many.Histogram("latency", tags)
			h1.Observe(1)
			h2 := many.Histogram("latency", map[string]string{"operation": "op" + Itoa(j)})
			h2.Observe(2)
			if c1 != c2 || c2.Value() != 2 {
				fail("series %d of %d counters: two lookups of one identity returned different counters / value %d after 2 increments", j, nSeries, c2.Value())
				bad++
			}
			if h1 != h2 || h2.Count() != 2 || h2.Sum() != 3 {
				fail("series %d of %d histograms: two lookups of one identity returned different histograms / count %d sum %v after 2 observations", j, nSeries, h2.Count(), h2.Sum())
				bad++
			}
		}
		if n := many.VerifSeriesCount("counter"); n != nSeries {
			fail("%d counter series for %d identities (many-series collector)", n, nSeries)
		}
	}
	// reuse the sequential totals predicate; collect its hits as failures
	hm := &hitCollector{}
	checkMonitorTotalsInto(pm.VerifCollector(), nSearch, nDb, hm)
	for _, h := range hm.hits {
		fail("monitor totals: %s", h)
	}
	rep.OK = len(rep.Failures) == 0
	rep.ElapsedMs = time.Since(t0).Milliseconds()
	b, _ := json.Marshal(rep)
	fmt.Println(string(b))
	if !rep.OK {
		return 3
	}
	return 0
}

type hitCollector struct{ hits []string }

// checkMonitorTotalsInto runs checkMonitorTotals with a Mon whose hits are captured as strings.
func checkMonitorTotalsInto(c *metrics.Collector, nSearch map[bool]int64, nDb map[dbKey]int64, hc *hitCollector) {
	var buf bytes.Buffer
	m := &Mon{w: bufio.NewWriter(&buf)}
	checkMonitorTotals(c, nSearch, nDb, m, "concurrent")
	m.w.Flush()
	for _, l := range strings.Split(buf.String(), "\n") {
		if strings.TrimSpace(l) != "" {
			hc.hits = append(hc.hits, l)
		}
	}
}
