//go:build verif

package main

import (
	"bytes"
	"encoding/json"
	"fmt"
	"os"
	"os/exec"
	"path/filepath"
	"runtime"
	"strconv"
	"strings"

	"github.com/sahilm/fuzzy"
	"gopkg.in/yaml.v3"

	"github.com/Vedant9500/WTF/internal/database"
)

// C04 — platform and pipeline filters hold for every result on every path.
//
// The predicate below is written from the property statement and does not call the engine's gate
// (passesFilters / isPlatformCompatible / checkPlatformVariant / isCrossPlatformTool / isPipelineCommand):
//
//   a returned command must not be one that declares platforms of which none is a platform in force
//   (the platforms asked for, otherwise the host) or 'cross-platform', unless it is a recognised
//   cross-platform tool; with cross-platform entries excluded the tag and the tool rule do not count;
//   nothing is checked when all platforms are requested.  In pipeline-only searches every result is a
//   pipeline command.
//
// The alias table is the documented meaning of the tags (README "Platform filtering"): a tag names a
// platform in force when it equals it ignoring case, is one of the platform's shell / kernel aliases, or
// starts with the platform's name.

var c04Aliases = map[string][]string{
	"linux":   {"unix", "bash", "zsh"},
	"macos":   {"darwin"},
	"windows": {"cmd", "powershell", "windows-cmd", "windows-powershell"},
}

func c04Host() string {
	if runtime.GOOS == "darwin" {
		return "macos"
	}
	return runtime.GOOS
}

// c04Names: does the declared tag name the platform `want`?
func c04Names(tag, want string) bool {
	if strings.EqualFold(tag, want) {
		return true
	}
	t, w := strings.ToLower(tag), strings.ToLower(want)
	al, known := c04Aliases[w]
	if !known {
		return false
	}
	for _, a := range al {
		if t == a {
			return true
		}
	}
	return strings.HasPrefix(t, w)
}

var c04Tools []string

func c04CrossTool(command string) bool {
	if c04Tools == nil {
		c04Tools = database.VerifCrossPlatformTools()
	}
	cl := strings.ToLower(command)
	for _, t := range c04Tools {
		if cl == t || strings.HasPrefix(cl, t+" ") {
			return true
		}
	}
	return false
}

// c04Allowed is the platform clause; why names the disjunct that admitted the command.
func c04Allowed(c *database.Command, host string, o database.SearchOptions) (ok bool, why string) {
	if o.AllPlatforms {
		return true, "all-platforms"
	}
	if len(c.Platform) == 0 {
		return true, "no-platform-declared"
	}
	force := o.Platforms
	if len(force) == 0 {
		force = []string{host}
	}
	crossTag := false
	for _, p := range c.Platform {
		if strings.EqualFold(p, "cross-platform") {
			crossTag = true
			continue
		}
		for _, w := range force {
			if c04Names(p, w) {
				return true, "declares-platform-in-force"
			}
		}
	}
	if o.NoCrossPlatform {
		return false, ""
	}
	if crossTag {
		return true, "cross-platform-tag"
	}
	if c04CrossTool(c.Command) {
		return true, "cross-platform-tool"
	}
	return false, ""
}

func c04IsPipeline(c *database.Command) bool {
	return c.Pipeline || strings.Contains(c.Command, "|") || strings.Contains(c.Command, "&&") ||
		strings.Contains(c.Command, ">>") || strings.Contains(strings.ToLower(c.Command), "pipe")
}

// c04LongLived: one Database object serving many searches in a row (a long-running process) and a CachedDatabase whose
// command list is replaced by one of the same length.  Anything the engine remembers between searches - a verdict memo with
// a generation counter, per-command flags computed once - must not let through what the CURRENT request excludes:
//
//	(1) an entry is admitted under --all-platforms, then g searches for other words follow (g around every power of two up
//	    to 2^16: a counter of any narrow width wraps somewhere there), then the entry's own word is searched under a platform
//	    request that excludes it;
//	(2) a pipeline-only search, UpdateDatabase with the same commands in reverse order, the same pipeline-only search.
var c04LongLivedRuns int

func c04LongLived(mon *Mon, cur *SearchRecord, host string) {
	defer func() { recover() }()
	c04LongLivedRuns++
	if c04LongLivedRuns > 8 { // a handful of databases per process is enough; the 2^16 gaps only on the first
		return
	}
	cmds := c03Clone(cur.DB.Commands)
	if len(cmds) == 0 {
		return
	}
	// (1)
	foreign := "plan9"
	if host == "plan9" {
		foreign = "windows"
	}
	x := database.Command{Command: "qqxuniq run", Description: "an entry of another system", Platform: []string{foreign}}
	other := database.Command{Command: "zzyother run", Description: "an entry every system has"}
	list := append(append([]database.Command{}, cmds...), x, other)
	database.VerifPopulateCache(list)
	d := &database.Database{Commands: list}
	strict := database.SearchOptions{Limit: 5}
	open := database.SearchOptions{Limit: 5, AllPlatforms: true}
	gaps := []int{0, 1, 127, 128, 255, 256, 511}
	if c04LongLivedRuns == 1 {
		gaps = append(gaps, 65535, 65536)
	}
	for _, gap := range gaps {
		d.SearchUniversal("qqxuniq", open)
		for i := 0; i < gap; i++ {
			d.SearchUniversal("zzyother", strict)
		}
		for i, r := range d.SearchUniversal("qqxuniq", strict) {
			if ok, _ := c04Allowed(r.Command, host, strict); !ok {
				rec := &SearchRecord{DB: d, Query: "qqxuniq", Opts: strict}
				det := c04Detail(rec, i, r.Command)
				det["path"] = "long-lived database: admitted under --all-platforms, then " + Itoa(gap) + " other searches, then searched under the host platform"
				mon.Hit("C04", "platform-filter-violated", det)
				return
			}
		}
	}
	mon.Tag("c04-long-lived-database")
	// (2)
	cdb := database.NewCachedDatabase(&database.Database{Commands: c03Clone(cmds)})
	po := cur.Opts
	po.PipelineOnly, po.AllPlatforms, po.Limit = true, true, len(cmds)+5
	qs := []string{cur.Query}
	for i := range cmds {
		if w := strings.Fields(cmds[i].Command); len(w) > 0 && len(qs) < 6 {
			qs = append(qs, w[0])
		}
	}
	for _, q := range qs {
		cdb.SearchWithOptionsAndCache(q, po)
	}
	rev := c03Clone(cmds)
	for i, j := 0, len(rev)-1; i < j; i, j = i+1, j-1 {
		rev[i], rev[j] = rev[j], rev[i]
	}
	cdb.UpdateDatabase(rev)
	for _, q := range qs {
		for i, r := range cdb.SearchWithOptionsAndCache(q, po) {
			if !c04IsPipeline(r.Command) {
				rec := &SearchRecord{DB: cdb.Database, Query: q, Opts: po}
				det := c04Detail(rec, i, r.Command)
				det["path"] = "pipeline-only search after UpdateDatabase replaced the commands by the same list in reverse order"
				mon.Hit("C04", "pipeline-filter-violated", det)
				return
			}
		}
	}
	mon.Tag("c04-same-size-update")
}

// offAnswer: the answer of the same request with the typo fallback switched off (path classification).
func offAnswer(rec *SearchRecord) (rs []database.SearchResult, panicked bool) {
	defer func() {
		if recover() != nil {
			rs, panicked = nil, true
		}
	}()
	o := rec.Opts
	o.UseFuzzy = false
	return rec.DB.SearchUniversal(rec.Query, o), false
}

func c04Detail(rec *SearchRecord, i int, c *database.Command) map[string]interface{} {
	return map[string]interface{}{"query": rec.Query, "result_index": i, "command": c.Command, "platform": c.Platform,
		"pipeline_flag": c.Pipeline, "host": c04Host(), "all_platforms": rec.Opts.AllPlatforms, "platforms": rec.Opts.Platforms,
		"no_cross_platform": rec.Opts.NoCrossPlatform, "pipeline_only": rec.Opts.PipelineOnly, "use_fuzzy": rec.Opts.UseFuzzy,
		"use_nlp": rec.Opts.UseNLP}
}

func init() {
	searchMonitors = append(searchMonitors, func(mon *Mon, cur *SearchRecord, prev []*SearchRecord) {
		if cur.Panic != "" {
			return
		}
		host := c04Host()
		for i, r := range cur.Results {
			ok, why := c04Allowed(r.Command, host, cur.Opts)
			if !ok {
				mon.Hit("C04", "platform-filter-violated", c04Detail(cur, i, r.Command))
			} else {
				mon.Tag("c04-admitted-by-" + why)
			}
			if cur.Opts.PipelineOnly && !c04IsPipeline(r.Command) {
				mon.Hit("C04", "pipeline-filter-violated", c04Detail(cur, i, r.Command))
			}
		}
		if len(prev) == 0 {
			c04LongLived(mon, cur, host)
		}
		// the exported gate the CLI applies to last-resort recovery answers, on the whole command list in database order
		// (runs of adjacent entries that must be rejected included): what it keeps is exactly what the predicate admits
		func() {
			if !(len(prev)%4 == 1 && len(cur.DB.Commands) > 0) {
				return
			}
			all := make([]database.SearchResult, len(cur.DB.Commands))
			for i := range cur.DB.Commands {
				all[i] = database.SearchResult{Command: &cur.DB.Commands[i], Score: 1}
			}
			var kept []database.SearchResult
			gateThere := func() (ok bool) {
				defer func() {
					if p := recover(); p != nil {
						if strings.Contains(fmt.Sprint(p), "verif-hook-unavailable") {
							mon.Tag("c04.filterresults-hook-unavailable")
							return
						}
						panic(p)
					}
				}()
				kept = database.VerifFilterResults(all, cur.Opts)
				return true
			}()
			if !gateThere {
				return
			}
			var want []*database.Command
			for i := range cur.DB.Commands {
				c := &cur.DB.Commands[i]
				if ok, _ := c04Allowed(c, host, cur.Opts); ok && (!cur.Opts.PipelineOnly || c04IsPipeline(c)) {
					want = append(want, c)
				}
			}
			same := len(kept) == len(want)
			for i := 0; same && i < len(want); i++ {
				same = kept[i].Command == want[i]
			}
			if !same {
				for i, r := range kept {
					if ok, _ := c04Allowed(r.Command, host, cur.Opts); !ok {
						d := c04Detail(cur, i, r.Command)
						d["path"] = "FilterResults (the gate of the CLI's recovery answers) over the whole command list"
						mon.Hit("C04", "platform-filter-violated", d)
						break
					} else if cur.Opts.PipelineOnly && !c04IsPipeline(r.Command) {
						d := c04Detail(cur, i, r.Command)
						d["path"] = "FilterResults (the gate of the CLI's recovery answers) over the whole command list"
						mon.Hit("C04", "pipeline-filter-violated", d)
						break
					}
				}
			}
			mon.Tag("c04-filterresults-whole-list")
		}()
		// cached answers: the same query under a run of filter-switch variants on ONE cache, most
		// permissive first; whatever was cached for another variant, each answer must satisfy ITS switches
		if len(cur.Results) > 0 && len(prev)%3 == 0 {
			cdb := database.NewCachedDatabase(cur.DB)
			variants := []database.SearchOptions{cur.Opts, cur.Opts, cur.Opts, cur.Opts, cur.Opts}
			variants[0].AllPlatforms, variants[0].NoCrossPlatform, variants[0].PipelineOnly = true, false, false
			variants[1].AllPlatforms, variants[1].NoCrossPlatform, variants[1].PipelineOnly = false, false, false
			variants[2].AllPlatforms, variants[2].NoCrossPlatform, variants[2].PipelineOnly = false, true, false
			variants[3].AllPlatforms, variants[3].NoCrossPlatform, variants[3].PipelineOnly = false, true, true
			variants[4].AllPlatforms, variants[4].NoCrossPlatform, variants[4].PipelineOnly = true, false, true
			for _, vo := range variants {
				rec := &SearchRecord{DB: cur.DB, Query: cur.Query, Opts: vo}
				rec.Results = cdb.SearchWithOptionsAndCache(cur.Query, vo)
				for i, r := range rec.Results {
					if ok, _ := c04Allowed(r.Command, host, vo); !ok {
						d := c04Detail(rec, i, r.Command)
						d["path"] = "cached (after more permissive requests for the same query)"
						mon.Hit("C04", "platform-filter-violated", d)
					}
					if vo.PipelineOnly && !c04IsPipeline(r.Command) {
						d := c04Detail(rec, i, r.Command)
						d["path"] = "cached"
						mon.Hit("C04", "pipeline-filter-violated", d)
					}
				}
			}
			mon.Tag("c04-cached-variants")
		}
		// distribution / non-triviality: which path answered, and did the filter have something to exclude
		disallowed := 0
		for i := range cur.DB.Commands {
			c := &cur.DB.Commands[i]
			if ok, _ := c04Allowed(c, host, cur.Opts); !ok || (cur.Opts.PipelineOnly && !c04IsPipeline(c)) {
				disallowed++
			}
		}
		if disallowed > 0 {
			mon.Tag("c04-db-has-excluded-entries")
		}
		if len(cur.Results) == 0 {
			return
		}
		path := "lexical"
		if cur.Opts.UseNLP {
			path = "nlp"
		}
		if cur.Opts.UseFuzzy {
			if off, p := offAnswer(cur); !p && len(off) == 0 {
				path = "fuzzy"
				// did the gate matter on this path: is some library match an excluded entry?
				func() {
					defer func() { recover() }()
					nq := strings.ToLower(strings.TrimSpace(cur.Query))
					for _, m := range fuzzy.Find(nq, fuzzyTargets(cur.DB)) {
						c := &cur.DB.Commands[m.Index]
						if ok, _ := c04Allowed(c, host, cur.Opts); !ok || (cur.Opts.PipelineOnly && !c04IsPipeline(c)) {
							mon.Tag("c04-fuzzy-match-excluded-by-filter")
							break
						}
					}
				}()
			}
		}
		mon.Tag("c04-answer-" + path)
		if disallowed > 0 {
			mon.Tag("c04-filtered-answer-" + path)
		}
		if len(cur.Opts.Platforms) > 0 {
			mon.Tag("c04-platforms-requested")
		}
		if cur.Opts.NoCrossPlatform {
			mon.Tag("c04-no-cross")
		}
		if cur.Opts.PipelineOnly {
			mon.Tag("c04-pipeline-only")
		}
	})
	searchStreams["c04"] = genC04
	searchStreams["c04x"] = genC04Exhaustive
	RegisterTool("c04cli", toolC04Cli)
	RegisterTool("c04gate", toolC04Gate)
}

// ---- directed stream ---------------------------------------------------------------------------

var c04Markers = []string{"quokka", "zephyr", "kumquat", "xylophone", "jabberwock", "wombat", "narwhal", "ocelot",
	"platypus", "gazpacho", "bivouac", "fjord"}

var c04PlatformSets = [][]string{{"windows"}, {"linux", "macos"}, {"darwin"}, {"LINUX"}, {"cross-platform"},
	// every platform the tool knows by name, at once: still a platform request (entries of other systems stay out,
	// --no-cross-platform still applies), not a synonym of --all-platforms
	{"linux", "macos", "windows"}, {"Windows", "MACOS", "linux", "linux"}}

// dropLetters removes one or two inner letters: the result is a proper subsequence of w (so the typo
// matcher accepts w) and no word of the database.
func dropLetters(r *Rng, w string) string {
	n := 1
	if len(w) > 6 && r.Bool() {
		n = 2
	}
	for k := 0; k < n && len(w) > 3; k++ {
		i := r.Range(1, len(w)-2)
		w = w[:i] + w[i+1:]
	}
	return w
}

func c04Database(r *Rng, extra int) ([]database.Command, []string) {
	var cmds []database.Command
	for _, tags := range platPool {
		c := genCommand(r)
		if c.Command == "" {
			c.Command = Pick(r, toolPool)
		}
		c.Platform = append([]string(nil), tags...)
		cmds = append(cmds, c)
	}
	for i := 0; i < extra; i++ {
		cmds = append(cmds, genCommand(r))
	}
	// markers: rare words, each attached to exactly one command that declares a platform
	var declared []int
	for i := range cmds {
		if len(cmds[i].Platform) > 0 {
			declared = append(declared, i)
		}
	}
	ms := append([]string(nil), c04Markers...)
	for i := len(ms) - 1; i > 0; i-- {
		j := r.Intn(i + 1)
		ms[i], ms[j] = ms[j], ms[i]
	}
	ms = ms[:4]
	for _, m := range ms {
		c := &cmds[Pick(r, declared)]
		if r.Bool() {
			c.Description += " " + m
		} else {
			c.Command += " " + m
		}
		if r.Chance(1, 3) {
			c.Command += " | sort"
		}
	}
	return cmds, ms
}

func genC04(r *Rng, tier string, idx int, args map[string]string) []string {
	extra := r.Range(0, 8)
	if tier == "thorough" {
		extra = r.Range(0, 30)
	}
	cmds, ms := c04Database(r, extra)
	var dbWords []string
	for _, c := range cmds {
		for _, w := range strings.Fields(c.Command + " " + c.Description) {
			if len(w) >= 3 {
				dbWords = append(dbWords, w)
			}
		}
	}
	queries := []string{
		Pick(r, dbWords),      // lexical
		dropLetters(r, ms[0]), // answered only by the typo fallback
		"  " + strings.ToUpper(dropLetters(r, ms[1])) + "\t", // the same, re-cased and padded
		ms[2], // lexical hit on exactly one, platform-bound, entry
		"show " + ms[3] + " " + Pick(r, wordPool), // NLP words + marker
		genQuery(r, dbWords),
	}
	var reqs []SearchReq
	for _, q := range queries {
		base := database.SearchOptions{Limit: Pick(r, []int{0, 3, 10, 50}), UseFuzzy: true,
			FuzzyThreshold: Pick(r, []int{0, 0, -30, -100}), UseNLP: r.Bool(), PipelineBoost: Pick(r, []float64{0, 1.5})}
		pls := Pick(r, c04PlatformSets)
		for m := 0; m < 16; m++ {
			o := base
			o.AllPlatforms = m&1 != 0
			o.NoCrossPlatform = m&2 != 0
			o.PipelineOnly = m&4 != 0
			if m&8 != 0 {
				o.Platforms = append([]string(nil), pls...)
			}
			reqs = append(reqs, SearchReq{Query: q, Opts: o})
		}
	}
	return SearchCaseOps(cmds, reqs, nil)
}

// ---- exhaustive enumeration of the gate: tag pool x command kinds x every option combination ------

// c04Pool: tag lists x command kinds of the exhaustive enumeration, and the platform requests
func c04Pool(tier string) (cmds []database.Command, plats [][]string) {
	pool := append([][]string(nil), platPool...)
	if tier == "thorough" {
		singles := []string{"linux", "macos", "windows", "cross-platform", "darwin", "powershell", "bash", "LINUX", "Cross-Platform",
			"plan9", "cmd", "unix", "zsh", "windows-cmd", "windows-powershell", "Windows10", "MacOS-arm", "linuxmint", "Kinux",
			"LİNUX", "ＬＩＮＵＸ", "cross-platform ", "", "KELVIN", "Kinux", "DARWIN", "PowerShell", "a\xffb"}
		for _, s := range singles {
			pool = append(pool, []string{s})
		}
		for _, a := range singles[:14] {
			for _, b := range singles[:14] {
				if a != b {
					pool = append(pool, []string{a, b})
				}
			}
		}
	}
	kinds := []database.Command{
		{Command: "mytool run", Description: "plain"},
		{Command: "git log", Description: "tool"},
		{Command: "GIT", Description: "tool exact upper"},
		{Command: "gitk --all", Description: "not a tool"},
		{Command: "ls | wc -l", Description: "tool and pipe"},
		{Command: "mytool PIPE it", Description: "pipe word"},
		{Command: "mytool a && b", Description: "and", Pipeline: false},
		{Command: "mytool flag", Description: "flag", Pipeline: true},
		{Command: "mytool serve &", Description: "lone ampersand: not a pipeline"},
		{Command: "mytool x > out 2>&1", Description: "lone redirect: not a pipeline"},
		{Command: "mytool x >> log", Description: "append redirect"},
	}
	for _, tags := range pool {
		for _, k := range kinds {
			c := k
			c.Platform = append([]string(nil), tags...)
			cmds = append(cmds, c)
		}
	}
	plats = append([][]string{nil}, c04PlatformSets...)
	if tier == "thorough" {
		plats = append(plats, []string{"macos"}, []string{"Windows", "plan9"}, []string{"DARWIN"}, []string{"bash"}, []string{""})
	}
	return cmds, plats
}

func genC04Exhaustive(r *Rng, tier string, idx int, args map[string]string) []string {
	if idx != 0 {
		return []string{"host " + Hx(database.VerifCurrentPlatform())}
	}
	cmds, plats := c04Pool(tier)
	var extra []string
	for i := range cmds {
		for m := 0; m < 8; m++ {
			for _, pl := range plats {
				extra = append(extra, "passes "+Itoa(i)+" "+B(m&1 != 0)+" "+hxList(pl)+" "+B(m&2 != 0)+" "+B(m&4 != 0))
			}
		}
	}
	reqs := []SearchReq{}
	for _, pl := range plats {
		reqs = append(reqs, SearchReq{Query: "mytool", Opts: database.SearchOptions{Limit: len(cmds), Platforms: pl}})
	}
	return SearchCaseOps(cmds, reqs, extra)
}

// c04gate: the real gate (passesFilters through its verif accessor) against the property's predicate
// above, over the same finite pool.  `admits_disallowed` is a direct violation of the property by the gate;
// `rejects_allowed` means the gate is stricter than the documented meaning of the tags (no violation, but
// the monitor's reading of the tags and the engine's have drifted apart).
func toolC04Gate(args []string) int {
	tier := "quick"
	if len(args) > 0 {
		tier = args[0]
	}
	cmds, plats := c04Pool(tier)
	type row struct {
		Command  string   `json:"command"`
		Platform []string `json:"platform"`
		Pipeline bool     `json:"pipeline_flag"`
		Opts     string   `json:"options"`
	}
	var res struct {
		Checked int   `json:"checked"`
		Admits  []row `json:"admits_disallowed"`
		Rejects []row `json:"rejects_allowed"`
		NA, NR  int
	}
	host := c04Host()
	for i := range cmds {
		c := &cmds[i]
		for m := 0; m < 8; m++ {
			for _, pl := range plats {
				o := database.SearchOptions{AllPlatforms: m&1 != 0, NoCrossPlatform: m&2 != 0, PipelineOnly: m&4 != 0, Platforms: pl}
				ok, _ := c04Allowed(c, host, o)
				want := ok && (!o.PipelineOnly || c04IsPipeline(c))
				got := database.VerifPassesFilters(c, o)
				res.Checked++
				if got == want {
					continue
				}
				r := row{c.Command, c.Platform, c.Pipeline, fmt.Sprintf("all=%v nocross=%v pipeonly=%v platforms=%q", o.AllPlatforms, o.NoCrossPlatform, o.PipelineOnly, pl)}
				if got {
					res.NA++
					if len(res.Admits) < 5 {
						res.Admits = append(res.Admits, r)
					}
				} else {
					res.NR++
					if len(res.Rejects) < 5 {
						res.Rejects = append(res.Rejects, r)
					}
				}
			}
		}
	}
	json.NewEncoder(os.Stdout).Encode(res)
	return 0
}

// ---- CLI stream: the real binary with --platform / --no-cross-platform / -a -----------------------
//
//	wtfverif tool c04cli <wtf binary> <work dir> <seed> <runs>
//
// Every printed command is checked, also when the CLI's recovery search answered (stdout then carries
// "Warning: Search had issues"; reported separately so the verdict can name the path).
//
// Writes a generated database as YAML, runs `wtf --database <yml> --format json [flags] <query>` in an
// isolated HOME / XDG_CONFIG_HOME and applies the predicate above to every printed command.  One JSON
// line per run on stdout.

type c04CliRun struct {
	Args       []string `json:"args"`
	Query      string   `json:"query"`
	Printed    int      `json:"printed"`
	Recovery   bool     `json:"recovery"`
	Violations []string `json:"violations"`
	Excluded   int      `json:"db_entries_excluded"`
	Error      string   `json:"error,omitempty"`
}

func toolC04Cli(args []string) int {
	if len(args) < 4 {
		fmt.Fprintln(os.Stderr, "usage: c04cli <wtf> <workdir> <seed> <runs>")
		return 2
	}
	bin, work := args[0], args[1]
	seed, _ := strconv.ParseUint(args[2], 10, 64)
	runs := Atoi(args[3])
	r := NewRng(seed, 0, "c04cli")
	home := filepath.Join(work, "home")
	os.MkdirAll(filepath.Join(home, ".config"), 0o755)
	words := []string{"list", "files", "compress", "archive", "search", "copy", "network", "process", "disk", "install"}
	tools := []string{"mytool", "git", "docker", "ipconfig", "apt", "brew", "dir", "ls", "Get-ChildItem", "pipeview"}
	plats := [][]string{nil, {"linux"}, {"macos"}, {"windows"}, {"cross-platform"}, {"linux", "macos"}, {"darwin"}, {"powershell"},
		{"bash"}, {"LINUX"}, {"Cross-Platform"}, {"plan9"}, {"windows", "cross-platform"}, {"cmd"}, {"macos-arm"}}
	var cmds []database.Command
	for i := 0; i < 45; i++ {
		w1, w2 := Pick(r, words), Pick(r, words)
		c := database.Command{Command: Pick(r, tools) + " " + w1, Description: w1 + " " + w2 + " entry" + Itoa(i),
			Keywords: []string{w1, w2}, Platform: append([]string(nil), plats[i%len(plats)]...)}
		if r.Chance(1, 6) {
			c.Command += " | sort"
		}
		cmds = append(cmds, c)
	}
	// platform-bound entries with rare tool names: queries for them are answered by nothing the request
	// allows, so the CLI's recovery search (substring scan of every command) is what would print them
	directed := []struct {
		cmd, desc string
		plat      []string
		query     string
		flags     []string
	}{
		{"apt-get update", "refresh package lists entry-d0", []string{"linux"}, "apt-get", []string{"--platform", "windows", "--no-cross-platform"}},
		{"ipconfig /all", "show adapters entry-d1", []string{"windows"}, "ipconfig", []string{"-p", "linux"}},
		{"brew upgrade", "upgrade formulae entry-d2", []string{"macos"}, "brew upgrade", []string{}},
		{"Get-ChildItem -Recurse", "enumerate items entry-d3", []string{"powershell"}, "Get-ChildItem", []string{"--platform", "macos"}},
		{"zypper refresh", "refresh repos entry-d4", []string{"cross-platform"}, "zypper", []string{"--platform", "windows", "--no-cross-platform"}},
		{"launchctl list", "list agents entry-d5", []string{"darwin"}, "launchctl", []string{"--no-cross-platform"}},
	}
	for _, d := range directed {
		cmds = append(cmds, database.Command{Command: d.cmd, Description: d.desc, Keywords: []string{"entry"}, Platform: d.plat})
	}
	data, err := yaml.Marshal(cmds)
	if err != nil {
		fmt.Fprintln(os.Stderr, err)
		return 2
	}
	dbPath := filepath.Join(work, "c04-db.yml")
	if err := os.WriteFile(dbPath, data, 0o644); err != nil {
		fmt.Fprintln(os.Stderr, err)
		return 2
	}
	byKey := map[string]*database.Command{}
	for i := range cmds {
		byKey[cmds[i].Command+"\x00"+cmds[i].Description] = &cmds[i]
	}
	flagSets := [][]string{{}, {"--platform", "windows"}, {"--platform", "windows", "--no-cross-platform"}, {"-a"},
		{"-p", "linux,macos"}, {"--platform", "darwin", "--no-cross-platform"}, {"--no-cross-platform"}, {"-p", "LINUX"},
		{"--platform", "cross-platform"}, {"-a", "--platform", "windows", "--no-cross-platform"}}
	enc := json.NewEncoder(os.Stdout)
	host := c04Host()
	for k := 0; k < runs; k++ {
		fl := flagSets[k%len(flagSets)]
		q := Pick(r, words)
		switch r.Intn(4) {
		case 0:
			q += " " + Pick(r, words)
		case 1:
			q = dropLetters(r, q) // typo fallback
		}
		if k < len(directed) { // the first runs aim at the recovery path
			fl, q = directed[k].flags, directed[k].query
		}
		o := database.SearchOptions{}
		for i := 0; i < len(fl); i++ {
			switch fl[i] {
			case "-a":
				o.AllPlatforms = true
			case "--no-cross-platform":
				o.NoCrossPlatform = true
			case "--platform", "-p":
				o.Platforms = strings.Split(fl[i+1], ",")
				i++
			}
		}
		res := c04CliRun{Args: fl, Query: q, Violations: []string{}}
		for i := range cmds {
			if ok, _ := c04Allowed(&cmds[i], host, o); !ok {
				res.Excluded++
			}
		}
		// both spellings of the search command: `wtf [flags] <query>` and `wtf search [flags] <query>`
		// (the latter always when the query's first word is itself a sub-command name)
		argv := []string{}
		if k%3 == 2 || q == "search" || strings.HasPrefix(q, "search ") {
			argv = append(argv, "search")
		}
		argv = append(argv, "--database", dbPath, "--format", "json")
		argv = append(argv, fl...)
		argv = append(argv, q)
		cmd := exec.Command(bin, argv...)
		cmd.Dir = work
		cmd.Env = []string{"HOME=" + home, "XDG_CONFIG_HOME=" + filepath.Join(home, ".config"), "PATH=/usr/bin:/bin", "NO_COLOR=1"}
		var stdout, stderr bytes.Buffer
		cmd.Stdout, cmd.Stderr = &stdout, &stderr
		if err := cmd.Run(); err != nil {
			res.Error = err.Error() + ": " + strings.TrimSpace(stderr.String())
			enc.Encode(res)
			continue
		}
		out := stdout.String()
		res.Recovery = strings.Contains(out, "Warning: Search had issues")
		if j := strings.Index(out, "\n[\n"); j >= 0 {
			var items []struct {
				Command     string `json:"command"`
				Description string `json:"description"`
			}
			if err := json.Unmarshal([]byte(out[j+1:]), &items); err != nil {
				res.Error = "unparsable JSON output: " + err.Error()
			}
			res.Printed = len(items)
			for _, it := range items {
				c, ok := byKey[it.Command+"\x00"+it.Description]
				if !ok {
					res.Violations = append(res.Violations, "printed command is not a database entry: "+it.Command)
					continue
				}
				if ok, _ := c04Allowed(c, host, o); !ok {
					res.Violations = append(res.Violations, fmt.Sprintf("%q platform=%v", c.Command, c.Platform))
				}
			}
		} else if !strings.Contains(out, "No commands found") {
			res.Error = "unrecognised output: " + strings.TrimSpace(out)
		}
		enc.Encode(res)
	}
	return 0
}
