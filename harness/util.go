//go:build verif

package main

import (
	"encoding/hex"
	"hash/fnv"
	"math"
	"strconv"
)

// Rng is splitmix64; every random choice of a case derives from (seed, case index, domain).
type Rng struct{ s uint64 }

func NewRng(seed, idx uint64, dom string) *Rng {
	h := fnv.New64a()
	h.Write([]byte(dom))
	r := &Rng{s: seed*0x9E3779B97F4A7C15 ^ idx*0xBF58476D1CE4E5B9 ^ h.Sum64()}
	r.Next()
	r.Next()
	return r
}
func (r *Rng) Next() uint64 {
	r.s += 0x9E3779B97F4A7C15
	z := r.s
	z = (z ^ (z >> 30)) * 0xBF58476D1CE4E5B9
	z = (z ^ (z >> 27)) * 0x94D049BB133111EB
	return z ^ (z >> 31)
}
func (r *Rng) Intn(n int) int {
	if n <= 0 {
		return 0
	}
	return int(r.Next() % uint64(n))
}
func (r *Rng) Range(lo, hi int) int     { return lo + r.Intn(hi-lo+1) } // inclusive
func (r *Rng) Bool() bool               { return r.Next()&1 == 1 }
func (r *Rng) Chance(num, den int) bool { return r.Intn(den) < num }
func (r *Rng) Float() float64           { return float64(r.Next()>>11) / float64(1<<53) }
func Pick[T any](r *Rng, xs []T) T      { return xs[r.Intn(len(xs))] }

// Hx encodes a byte string as one protocol token ("-" for the empty string).
func Hx(s string) string {
	if s == "" {
		return "-"
	}
	return hex.EncodeToString([]byte(s))
}

// UnHx decodes a protocol token.
func UnHx(t string) string {
	if t == "-" {
		return ""
	}
	b, err := hex.DecodeString(t)
	if err != nil {
		panic("bad hex token: " + t)
	}
	return string(b)
}

// F encodes a float64 as f:<16 hex digits of its IEEE bits> (compared with tolerance by the differ).
func F(x float64) string { return "f:" + strconv.FormatUint(math.Float64bits(x), 16) }

func Itoa(i int) string { return strconv.Itoa(i) }
func Atoi(s string) int {
	v, err := strconv.Atoi(s)
	if err != nil {
		panic("bad int token: " + s)
	}
	return v
}
func B(b bool) string {
	if b {
		return "1"
	}
	return "0"
}

func Itoa64(i int64) string { return strconv.FormatInt(i, 10) }
func Atoi64(s string) int64 {
	v, err := strconv.ParseInt(s, 10, 64)
	if err != nil {
		panic("bad int64 token: " + s)
	}
	return v
}
