//go:build verif

package main

import (
	"encoding/json"
	"fmt"
	"os"
	"os/signal"
	"path/filepath"
	"strings"
	"syscall"
	"time"

	"github.com/Vedant9500/WTF/internal/cli"
	"github.com/Vedant9500/WTF/internal/database"
	"github.com/Vedant9500/WTF/internal/history"

	"gopkg.in/yaml.v3"
)

// atomicwrite (C09): the real notebook writer (cli.writePersonalDatabase) and history.Save on the real file system, with the
// write cut after k bytes by RLIMIT_FSIZE (SIGXFSZ ignored, so the write call itself fails with EFBIG
// after a short write), against Model/AtomicWrite.lean's planned-fault run of the regenerated program.
// The monitor evaluates C09 directly: target = old or new; error => old; success => new; no temp left.
func init() {
	Register(&Domain{Name: "atomicwrite", Gen: genAtomicWrite, Exec: execAtomicWrite})
	RegisterTool("loadnb", toolLoadNotebook)
	RegisterTool("loadhist", toolLoadHistory)
}

var awWords = []string{"tar", "-czf", "backup.tgz", "/home/user", "grep", "-r", "'pattern'", "|", "sort", "docker ps", "--format", "{{.Names}}",
	"find . -name '*.go'", "list: files", "# not a comment", "archive", "compress", "search text", "Straße", "日本", "a\tb", "x"}

func awEntry(r *Rng, i int) database.Command {
	w := func(n int) string {
		ps := make([]string, n)
		for j := range ps {
			ps[j] = Pick(r, awWords)
		}
		return strings.Join(ps, " ")
	}
	c := database.Command{Command: "c" + Itoa(i) + " " + w(r.Range(1, 6)), Description: w(r.Range(0, 12)), Pipeline: r.Bool()}
	for j := r.Intn(4); j > 0; j-- {
		c.Keywords = append(c.Keywords, Pick(r, awWords))
	}
	if r.Bool() {
		c.Niche = Pick(r, awWords)
	}
	if r.Chance(1, 3) {
		c.Platform = []string{"linux", "macos"}
	}
	return c
}

// genAtomicWrite: old notebook (missing / empty list / n entries) and the list after one more save, both as the
// YAML documents yaml.v3 produces; the fault is a write cut after k bytes, a missing directory, or none.
func genAtomicWrite(r *Rng, tier string, idx int, args map[string]string) []string {
	n := r.Range(3, 8)
	ops := []string{}
	for i := 0; i < n; i++ {
		if r.Chance(1, 6) {
			lim := -1
			if r.Chance(3, 4) {
				lim = r.Intn(21)
			}
			op := "hsave " + Itoa(r.Intn(5)) + " " + Itoa(lim)
			if lim >= 1 && r.Chance(1, 2) {
				// the limit is lifted a moment after the write hit it (space freed, quota raised): a writer that tries again
				// must not leave the bytes of its first attempt in the file; a writer that does not must report the failure
				op += " transient"
			}
			ops = append(ops, op)
			continue
		}
		maxOld := 6
		if tier == "thorough" {
			maxOld = 60
		}
		var cmds []database.Command
		old := "none"
		if r.Chance(4, 5) {
			for j := Pick(r, []int{0, 1, 2, 3, r.Intn(maxOld + 1)}); j > 0; j-- {
				cmds = append(cmds, awEntry(r, len(cmds)))
			}
			b, err := yaml.Marshal(cmds)
			if err != nil {
				panic(err)
			}
			old = Hx(string(b))
		}
		if len(cmds) > 0 && r.Chance(1, 3) {
			cmds[r.Intn(len(cmds))].Description = "replaced " + Pick(r, awWords)
		} else {
			cmds = append(cmds, awEntry(r, len(cmds)))
		}
		nb, err := yaml.Marshal(cmds)
		if err != nil {
			panic(err)
		}
		newLen := len(nb)
		fi, k := -1, 0
		switch x := r.Intn(10); {
		case x < 7: // the write fails after k bytes, k in 0..len-1 (edges favoured)
			fi = 1
			k = Pick(r, []int{0, 1, newLen - 1, newLen / 2, r.Intn(newLen), r.Intn(newLen)})
		case x < 8 && old == "none": // CreateTemp fails (directory missing)
			fi = 0
		}
		op := fmt.Sprintf("plan %s %s %d %d", old, Hx(string(nb)), fi, k)
		if old != "none" && fi != 0 && r.Chance(1, 4) {
			// the notebook path is a symbolic link to the real file (dotfiles managers do that): reading through the path must
			// still give the old or the new content after a cut write
			op += " symlink"
		}
		ops = append(ops, op)
	}
	return ops
}

var awHard uint64

func awLimit(k int64) {
	var cur syscall.Rlimit
	syscall.Getrlimit(syscall.RLIMIT_FSIZE, &cur)
	if awHard == 0 {
		awHard = cur.Max
	}
	lim := syscall.Rlimit{Cur: cur.Max, Max: cur.Max}
	if k >= 0 {
		lim.Cur = uint64(k)
	}
	if err := syscall.Setrlimit(syscall.RLIMIT_FSIZE, &lim); err != nil {
		panic("setrlimit: " + err.Error())
	}
}

func awTemps(dir, base string) (n int, first string) {
	ents, _ := os.ReadDir(dir)
	for _, e := range ents {
		if e.Name() != base {
			if n == 0 {
				b, _ := os.ReadFile(filepath.Join(dir, e.Name()))
				first = string(b)
			}
			n++
		}
	}
	return
}

func awRead(p string) string {
	b, err := os.ReadFile(p)
	if err != nil {
		return "none"
	}
	return Hx(string(b))
}

func execAtomicWrite(ops []string, mon *Mon) []string {
	signal.Ignore(syscall.SIGXFSZ)
	out := make([]string, 0, len(ops))
	root, err := os.MkdirTemp("", "wtfverif-aw-")
	if err != nil {
		panic(err)
	}
	defer os.RemoveAll(root)
	for n, o := range ops {
		f := strings.Fields(o)
		dir := filepath.Join(root, Itoa(n))
		os.MkdirAll(dir, 0o755)
		switch f[0] {
		case "plan":
			old, nw, fi, k := f[1], UnHx(f[2]), Atoi(f[3]), Atoi(f[4])
			path := filepath.Join(dir, "personal.yml")
			if fi == 0 {
				path = filepath.Join(dir, "missing", "personal.yml")
			}
			if old != "none" {
				if len(f) > 5 && f[5] == "symlink" {
					os.MkdirAll(dir+"-dotfiles", 0o755) // not beside the notebook: everything else in its directory counts as a stray temp file
					real := filepath.Join(dir+"-dotfiles", "personal.yml")
					os.WriteFile(real, []byte(UnHx(old)), 0o644)
					os.Symlink(real, path)
					mon.Tag("notebook-is-symlink")
				} else {
					os.WriteFile(path, []byte(UnHx(old)), 0o644)
				}
			}
			lim := int64(-1)
			if fi == 1 {
				lim = int64(k)
				mon.Tag("write-cut")
				if k == 0 {
					mon.Tag("write-cut-at-0")
				}
			} else if fi == 0 {
				mon.Tag("createtemp-fails")
			} else {
				mon.Tag("no-fault")
			}
			var cmds []database.Command
			if err := yaml.Unmarshal([]byte(nw), &cmds); err != nil {
				panic("generator produced unreadable YAML: " + err.Error())
			}
			awLimit(lim)
			err := cli.VerifWritePersonalDatabase(path, cmds)
			awLimit(-1)
			res := "success"
			if err != nil {
				res = "error"
			}
			got := awRead(path)
			nt, first := awTemps(filepath.Dir(path), "personal.yml")
			temp := "none"
			if nt > 0 {
				temp = Hx(first)
				if first == "" {
					temp = "-"
				}
			}
			out = append(out, res+" "+got+" temp="+temp)
			// monitor
			det := map[string]interface{}{"op": o, "result": res, "content": got}
			if got != old && got != Hx(nw) {
				mon.Hit("C09", "torn-write", det)
			}
			if err != nil && got != old {
				mon.Hit("C09", "error-but-changed", det)
			}
			if err == nil && got != Hx(nw) {
				mon.Hit("C09", "success-without-effect", det)
			}
			if nt > 0 {
				mon.Hit("C09", "temp-left-after-return", det)
			}
			if err == nil && fi >= 0 {
				mon.Hit("C09", "fault-not-reported", det)
			}
		case "hsave":
			nOld, lim := Atoi(f[1]), int64(Atoi(f[2]))
			path := filepath.Join(dir, "search_history.json")
			sh := history.NewSearchHistory(path, 100)
			for i := 0; i < nOld; i++ {
				sh.AddEntry("query "+Itoa(i), i, "", time.Duration(i)*time.Millisecond)
			}
			if err := sh.Save(); err != nil {
				panic(err)
			}
			old := awRead(path)
			sh.AddEntry("the new query", 3, "ctx", 5*time.Millisecond)
			if lim >= 0 {
				mon.Tag("history-write-cut")
			} else {
				mon.Tag("history-no-fault")
			}
			awLimit(lim)
			done := make(chan struct{})
			fin := make(chan struct{})
			if len(f) > 3 && f[3] == "transient" {
				mon.Tag("history-write-cut-transient")
				go func() {
					defer close(fin) // the op must not end before this goroutine has: it would lift the limit of the NEXT op
					for {
						select {
						case <-done:
							return
						default:
						}
						if ents, e := os.ReadDir(dir); e == nil {
							for _, en := range ents {
								if info, e2 := en.Info(); e2 == nil && en.Name() != "search_history.json" && info.Size() >= lim {
									time.Sleep(20 * time.Millisecond) // the failing write call has returned by now
									awLimit(-1)
									return
								}
							}
						}
						time.Sleep(200 * time.Microsecond)
					}
				}()
			}
			err := sh.Save()
			close(done)
			if len(f) > 3 && f[3] == "transient" {
				<-fin
			}
			awLimit(-1)
			got := awRead(path)
			cls := "other"
			re := history.NewSearchHistory(path, 100)
			lerr := re.Load()
			switch {
			case got == old:
				cls = "old"
			case lerr == nil && len(re.Entries) == nOld+1 && re.Entries[nOld].Query == "the new query":
				cls = "new"
			}
			res := "success"
			if err != nil {
				res = "error"
			}
			nt, _ := awTemps(dir, "search_history.json")
			temp := "none"
			if nt > 0 {
				temp = Itoa(nt)
			}
			out = append(out, res+" "+cls+" temp="+temp)
			det := map[string]interface{}{"op": o, "result": res, "class": cls}
			if cls == "other" || lerr != nil {
				mon.Hit("C09", "torn-write", det)
			}
			if err != nil && cls != "old" {
				mon.Hit("C09", "error-but-changed", det)
			}
			if err == nil && cls != "new" {
				mon.Hit("C09", "success-without-effect", det)
			}
			if nt > 0 {
				mon.Hit("C09", "temp-left-after-return", det)
			}
		default:
			out = append(out, "bad-op")
		}
	}
	return out
}

// tool loadnb <path>: database.LoadDatabase on a notebook file; prints one JSON object.
func toolLoadNotebook(args []string) int {
	res := map[string]interface{}{}
	db, err := database.LoadDatabase(args[0])
	if err != nil {
		res["ok"], res["error"] = false, err.Error()
		if _, serr := os.Stat(args[0]); os.IsNotExist(serr) {
			res["missing"] = true
		}
	} else {
		es := []map[string]interface{}{}
		for _, c := range db.Commands {
			es = append(es, awCmdJSON(c))
		}
		res["ok"], res["entries"] = true, es
	}
	b, _ := json.Marshal(res)
	fmt.Println(string(b))
	return 0
}

func awHexList(xs []string) []string {
	o := make([]string, len(xs))
	for i, x := range xs {
		o[i] = Hx(x)
	}
	return o
}

func awCmdJSON(c database.Command) map[string]interface{} {
	return map[string]interface{}{"command": Hx(c.Command), "description": Hx(c.Description), "keywords": awHexList(c.Keywords),
		"tags": awHexList(c.Tags), "niche": Hx(c.Niche), "platform": awHexList(c.Platform), "pipeline": c.Pipeline}
}

// tool loadhist <path>: history.Load; prints one JSON object (queries hex-encoded).
func toolLoadHistory(args []string) int {
	res := map[string]interface{}{}
	sh := history.NewSearchHistory(args[0], 100)
	if err := sh.Load(); err != nil {
		res["ok"], res["error"] = false, err.Error()
	} else {
		qs := []string{}
		for _, e := range sh.Entries {
			qs = append(qs, Hx(e.Query))
		}
		res["ok"], res["queries"], res["max_size"] = true, qs, sh.MaxSize
	}
	b, _ := json.Marshal(res)
	fmt.Println(string(b))
	return 0
}
