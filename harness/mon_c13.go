//go:build verif

package main

import (
	"math"
	"os"
	"sort"
	"strings"

	wtfctx "github.com/Vedant9500/WTF/internal/context"
	"github.com/Vedant9500/WTF/internal/database"
	"github.com/Vedant9500/WTF/internal/nlp"
)

// C13, engine half, on the REAL engine (independent of the model):
//   * searchStreams["c13"]: paired requests — the same (database, query, options) with a boost map
//     (random word subsets with factors >= 1, and the real GetContextBoosts() maps of generated
//     directories) and without, at Limit >= |db| and at small limits, NLP on and off;
//   * a monitor on every pair of searches of one case that differ only in ContextBoosts.

func init() {
	searchStreams["c13"] = genSearchC13
	searchMonitors = append(searchMonitors, monitorC13)
}

var c13Words = []string{"git", "commit", "branch", "docker", "container", "image", "build", "run", "npm", "node", "install", "python", "pip",
	"go", "mod", "test", "cargo", "make", "cmake", "compile", "kubectl", "pod", "deploy", "terraform", "plan", "apply", "ansible", "playbook",
	"webpack", "bundle", "dev", "service", "package", "list", "files", "find", "search", "compress", "archive", "show", "create", "delete"}

func c13Word(r *Rng) string {
	if r.Chance(2, 3) {
		return Pick(r, c13Words)
	}
	return rword(r)
}

func genCommandC13(r *Rng) database.Command {
	c := genCommand(r)
	// mix in words the context tables boost
	if r.Chance(2, 3) {
		c.Command = Pick(r, []string{"git", "docker", "npm", "go", "make", "cargo", "kubectl", "pip", "terraform", "mytool"}) + " " + c13Word(r)
	}
	n := r.Range(0, 5)
	ws := make([]string, n)
	for i := range ws {
		ws[i] = c13Word(r)
	}
	if n > 0 {
		c.Description = strings.Join(ws, " ")
	}
	if r.Chance(1, 2) {
		c.Keywords = append(c.Keywords, c13Word(r))
	}
	if r.Chance(1, 3) {
		c.Tags = append(c.Tags, c13Word(r))
	}
	return c
}

// realContextBoosts runs the real analyzer on a generated directory.
func realContextBoosts(r *Rng) map[string]float64 {
	d := genCtxDir(r, ctxDefaultLits, "quick")
	root, err := d.materialize()
	if err != nil {
		return nil
	}
	defer os.RemoveAll(root)
	c, err := wtfctx.NewAnalyzer().AnalyzeDirectory(root)
	if err != nil || c == nil {
		return nil
	}
	return c.GetContextBoosts()
}

func genBoostsC13(r *Rng, dbWords, qWords []string) map[string]float64 {
	if r.Chance(1, 4) {
		if m := realContextBoosts(r); len(m) > 0 {
			return m
		}
	}
	m := map[string]float64{}
	// one map in seven also carries factors outside the property's range (< 1, zero, negative): only the
	// candidate clause and the model correspondence apply to those pairs (they pin the `b > 0` guard)
	odd := r.Chance(1, 7)
	for i, n := 0, r.Range(1, 5); i < n; i++ {
		var w string
		switch x := r.Intn(10); {
		case x < 5 && len(qWords) > 0:
			w = Pick(r, qWords)
		case x < 8 && len(dbWords) > 0:
			w = Pick(r, dbWords)
		default:
			w = Pick(r, []string{"zzz", "nomatch", "compress", "list", "Git", ""})
		}
		m[strings.ToLower(w)] = Pick(r, []float64{1, 1.1, 1.3, 1.5, 1.8, 2, 2.0, 2.5, 3, 10, 1000, 1.0000000000000002})
		if odd && (i == 0 || r.Bool()) {
			m[strings.ToLower(w)] = Pick(r, []float64{0.5, 0.25, 0.9, 0.999, 0, -1, 1e-9})
		}
	}
	return m
}

func genSearchC13(r *Rng, tier string, idx int, args map[string]string) []string {
	maxN := 25
	if tier == "thorough" {
		maxN = 80
	}
	n := Pick(r, []int{1, 2, 3, 5, 8, 12, maxN})
	n = r.Range((n+1)/2, n)
	cmds := make([]database.Command, 0, n)
	for i := 0; i < n; i++ {
		if i > 0 && r.Chance(1, 8) {
			cmds = append(cmds, cmds[r.Intn(i)])
		} else {
			cmds = append(cmds, genCommandC13(r))
		}
	}
	var dbWords []string
	for i := range cmds {
		for _, t := range []string{cmds[i].Command, cmds[i].Description, strings.Join(cmds[i].Keywords, " "), strings.Join(cmds[i].Tags, " ")} {
			dbWords = append(dbWords, database.VerifTokenize(t)...)
		}
	}
	var reqs []SearchReq
	for qi, nq := 0, r.Range(2, 4); qi < nq; qi++ {
		var q string
		switch x := r.Intn(10); {
		case x < 6 && len(dbWords) > 0:
			k := r.Range(1, 3)
			ws := make([]string, k)
			for i := range ws {
				ws[i] = Pick(r, dbWords)
			}
			if r.Chance(1, 3) {
				ws = append(ws, Pick(r, []string{"list", "find", "compress", "show", "create", "delete", "install", "search"}))
			}
			q = strings.Join(ws, " ")
		case x < 8:
			q = c13Word(r) + " " + c13Word(r)
		default:
			q = genQuery(r, dbWords)
		}
		longQ := false
		if r.Chance(1, 5) && len(dbWords) > 0 {
			// more distinct content words than the term cap: term selection decides which words are
			// searched at all; a boost on one of the trailing words must not influence that choice
			longQ = true
			seen := map[string]bool{}
			var ws []string
			for tries := 0; len(ws) < r.Range(11, 16) && tries < 200; tries++ {
				w := Pick(r, dbWords)
				if r.Chance(1, 4) {
					w = Pick(r, c13Words)
				}
				if !seen[w] {
					seen[w] = true
					ws = append(ws, w)
				}
			}
			q = strings.Join(ws, " ")
		}
		qWords := database.VerifTokenize(strings.ToLower(q))
		o := genOptions(r)
		o.PipelineBoost = Pick(r, []float64{0, 0, 1.5, 2})
		o.UseNLP = r.Bool()
		o.ContextBoosts = genBoostsC13(r, dbWords, qWords)
		if longQ && len(qWords) > 5 { // boost words from the tail of the query
			o.ContextBoosts = map[string]float64{}
			for i, n := 0, r.Range(1, 3); i < n; i++ {
				o.ContextBoosts[qWords[r.Range(4, len(qWords)-1)]] = Pick(r, []float64{1.5, 2, 3, 10, 1000})
			}
			o.TopTermsCap = Pick(r, []int{0, 0, 5, 8})
		}
		big := len(cmds) + 1 + r.Intn(4)
		limits := []int{big}
		if r.Chance(1, 2) {
			limits = append(limits, Pick(r, []int{1, 2, 3, 5, 0}))
		}
		for _, lim := range limits {
			o.Limit = lim
			with := o
			without := o
			without.ContextBoosts = nil
			reqs = append(reqs, SearchReq{Query: q, Opts: with}, SearchReq{Query: q, Opts: without})
			if r.Chance(1, 3) { // the same pair with NLP flipped
				w2, wo2 := with, without
				w2.UseNLP, wo2.UseNLP = !with.UseNLP, !with.UseNLP
				reqs = append(reqs, SearchReq{Query: q, Opts: w2}, SearchReq{Query: q, Opts: wo2})
			}
		}
	}
	return SearchCaseOps(cmds, reqs, nil)
}

// ---- monitor ------------------------------------------------------------------------------------

func sameExceptBoosts(a, b database.SearchOptions) bool {
	eq := func(x, y []string) bool {
		if len(x) != len(y) {
			return false
		}
		for i := range x {
			if x[i] != y[i] {
				return false
			}
		}
		return true
	}
	return a.Limit == b.Limit && a.PipelineOnly == b.PipelineOnly && math.Float64bits(a.PipelineBoost) == math.Float64bits(b.PipelineBoost) &&
		a.UseFuzzy == b.UseFuzzy && a.FuzzyThreshold == b.FuzzyThreshold && a.UseNLP == b.UseNLP && a.TopTermsCap == b.TopTermsCap &&
		a.AllPlatforms == b.AllPlatforms && eq(a.Platforms, b.Platforms) && a.NoCrossPlatform == b.NoCrossPlatform
}

// indexedTokens: the tokens of the four indexed fields of a command (the fields indexCommand reads).
func indexedTokens(c *database.Command) map[string]bool {
	pick := func(lower, raw string) string {
		if lower != "" {
			return lower
		}
		return raw
	}
	pickL := func(lower, raw []string) string {
		if len(lower) > 0 {
			return strings.Join(lower, " ")
		}
		return strings.Join(raw, " ")
	}
	out := map[string]bool{}
	for _, t := range []string{pick(c.CommandLower, c.Command), pick(c.DescriptionLower, c.Description),
		pickL(c.KeywordsLower, c.Keywords), pickL(c.TagsLower, c.Tags)} {
		for _, w := range database.VerifTokenize(t) {
			out[w] = true
		}
	}
	return out
}

// c13SharedMap: the CLI hands ONE boost table (the detected project context) to its searches.  After an NLP search was
// given that table, a later search given the same table must answer exactly as with a pristine copy of it: the table
// here boosts a word no command contains, so with and without it the answers must be identical - unless an earlier
// search wrote its own per-query emphasis into the caller's table.
func c13SharedMap(mon *Mon, cur *SearchRecord) {
	defer func() { recover() }() // panics are C10's subject
	shared := map[string]float64{"qqzzxxjj": 2.0}
	o1 := cur.Opts
	o1.UseNLP, o1.ContextBoosts = true, shared
	cur.DB.SearchUniversal(cur.Query, o1)
	for _, nlpOn := range []bool{false, true} {
		with, fresh := cur.Opts, cur.Opts
		with.UseNLP, fresh.UseNLP = nlpOn, nlpOn
		with.ContextBoosts, fresh.ContextBoosts = shared, map[string]float64{"qqzzxxjj": 2.0}
		a, b := cur.DB.SearchUniversal(cur.Query, with), cur.DB.SearchUniversal(cur.Query, fresh)
		if !sameAnswer(cur.DB, a, cur.DB, b) {
			keys := []string{}
			for k := range shared {
				keys = append(keys, k)
			}
			sort.Strings(keys)
			mon.Hit("C13", "context-lowered-score", map[string]interface{}{"query": cur.Query, "nlp": nlpOn, "what": "a boost table reused after an NLP search answers differently from a pristine copy of it",
				"table_now": keys, "with_reused": answerIDs(cur.DB, a), "with_pristine": answerIDs(cur.DB, b)})
			return
		}
	}
	mon.Tag("c13-shared-table-reused")
}

func monitorC13(mon *Mon, cur *SearchRecord, prev []*SearchRecord) {
	if cur.Panic != "" {
		return
	}
	if cur.Opts.UseNLP && len(cur.Results) > 0 {
		c13SharedMap(mon, cur)
	}
	// the most recent earlier search of this case that differs from cur only in the boosts, one side without any
	var other *SearchRecord
	for i := len(prev) - 1; i >= 0; i-- {
		p := prev[i]
		if p.Panic == "" && p.Query == cur.Query && sameExceptBoosts(p.Opts, cur.Opts) &&
			(len(p.Opts.ContextBoosts) == 0) != (len(cur.Opts.ContextBoosts) == 0) {
			other = p
			break
		}
	}
	if other == nil {
		return
	}
	with, without := cur, other
	if len(cur.Opts.ContextBoosts) == 0 {
		with, without = other, cur
	}
	B := with.Opts.ContextBoosts
	det := func(extra map[string]interface{}) map[string]interface{} {
		ks := make([]string, 0, len(B))
		for k := range B {
			ks = append(ks, k)
		}
		sort.Strings(ks)
		m := map[string]interface{}{"query": cur.Query, "boost_words": ks, "nlp": cur.Opts.UseNLP, "limit": cur.Opts.Limit,
			"ids_with": with.IDs, "ids_without": without.IDs}
		for k, v := range extra {
			m[k] = v
		}
		return m
	}
	mon.Tag("c13-pair")
	if cur.Opts.UseNLP {
		mon.Tag("c13-pair-nlp")
	}
	lim := cur.Opts.Limit
	if lim <= 0 {
		lim = 10
	}
	// clause 1: same candidates (compared at a limit that does not cut) — for ANY boost values
	if lim >= len(cur.DB.Commands) {
		mon.Tag("c13-pair-full-limit")
		a, b := map[int]bool{}, map[int]bool{}
		for _, id := range with.IDs {
			a[id] = true
		}
		for _, id := range without.IDs {
			b[id] = true
		}
		same := len(a) == len(b)
		for id := range a {
			if !b[id] {
				same = false
			}
		}
		if !same {
			mon.Hit("C13", "context-changed-candidates", det(nil))
		}
	}
	// clauses 2 and 3 need every factor finite and >= 1
	for _, f := range B {
		if math.IsNaN(f) || math.IsInf(f, 0) || f < 1 {
			return
		}
	}
	mon.Tag("c13-pair-factors-ge1")
	// hypothesis of theorem `monotone` on the real values: the per-document NLP factors are non-negative
	if cur.Opts.UseNLP {
		pq := nlp.NewQueryProcessor().ProcessQuery(strings.ToLower(strings.TrimSpace(cur.Query)))
		for _, id := range with.IDs {
			if id < 0 {
				continue
			}
			c := &cur.DB.Commands[id]
			ib, cb := database.VerifIntentBoost(c, pq), cur.DB.VerifCascadeBoost(c, pq)
			if !(ib >= 0) || !(cb >= 0) {
				mon.Hit("C13", "hypothesis-nlp-factor-negative", det(map[string]interface{}{"doc": id, "intent_boost": ib, "cascade_boost": cb}))
			}
		}
	}
	scoreWithout := map[int]float64{}
	for i, id := range without.IDs {
		if _, dup := scoreWithout[id]; !dup {
			scoreWithout[id] = without.Results[i].Score
		}
	}
	seen := map[int]bool{}
	for i, id := range with.IDs {
		s0, ok := scoreWithout[id]
		if !ok || seen[id] || id < 0 {
			continue
		}
		seen[id] = true
		sB := with.Results[i].Score
		toks := indexedTokens(&cur.DB.Commands[id])
		contains := ""
		for w := range B {
			if toks[w] {
				contains = w
				break
			}
		}
		if contains != "" {
			if sB < s0 || math.IsNaN(sB) {
				mon.Hit("C13", "context-lowered-score", det(map[string]interface{}{"doc": id, "word": contains, "score_with": sB, "score_without": s0}))
			}
			if sB > s0 {
				mon.Tag("c13-raised")
			}
		} else {
			if math.Float64bits(sB) != math.Float64bits(s0) {
				mon.Hit("C13", "context-changed-unrelated-score", det(map[string]interface{}{"doc": id, "score_with": sB, "score_without": s0}))
			}
			mon.Tag("c13-untouched")
		}
	}
}
