//go:build verif

package main

import (
	"sort"
	"strings"
	"time"

	"github.com/Vedant9500/WTF/internal/cache"
)

// lru: step-by-step correspondence of cache.LRUCache with Model/Lru.lean, plus the C12 monitor
// (an independent bookkeeping of what the property promises, evaluated on the real outputs).
func init() {
	Register(&Domain{Name: "lru", Gen: genLru, Exec: execLru})
}

func genLru(r *Rng, tier string, idx int, args map[string]string) []string {
	caps := []int{-1, 0, 1, 2, 3, 7}
	if args["bigcap"] != "" {
		caps = []int{0, -5, 100, 101, 150}
	}
	capv := Pick(r, caps)
	// ttl in ns: unlimited (0, negative), long, short (10.5s: integral-second steps never hit it exactly)
	ttls := []int64{0, -1, 1000_500_000_000, 10_500_000_000, 2_500_000_000}
	ttl := Pick(r, ttls)
	nkeys := r.Range(1, 6)
	if capv <= 0 {
		nkeys = r.Range(1, 8)
	}
	if args["bigcap"] != "" {
		nkeys = 160
	}
	n := r.Range(5, 40)
	if tier == "thorough" {
		n = r.Range(5, 120)
	}
	if args["bigcap"] != "" {
		n = 400
	}
	ops := []string{"new " + Itoa(capv) + " " + Itoa64(ttl)}
	key := func() string { return "k" + Itoa(r.Intn(nkeys)) }
	if args["bigcap"] == "" && r.Chance(1, 4) {
		// lifetime walk: few keys, a short lifetime, many small clock steps between reads and writes,
		// so that entries are read repeatedly on both sides of their expiry
		ttl = Pick(r, []int64{10_500_000_000, 2_500_000_000})
		nkeys = r.Range(1, 3)
		ops[0] = "new " + Itoa(Pick(r, []int{2, 3, 7})) + " " + Itoa64(ttl)
		for i := 0; i < n; i++ {
			switch x := r.Intn(100); {
			case x < 20:
				ops = append(ops, "put "+key()+" "+Itoa(r.Intn(1000)))
			case x < 55:
				ops = append(ops, "get "+key())
			case x < 85:
				ops = append(ops, "adv "+Itoa64(int64(Pick(r, []int{1, 1, 2, 2, 3, 4}))*1_000_000_000))
			case x < 92:
				ops = append(ops, "cleanup")
			case x < 96:
				ops = append(ops, "stats")
			default:
				ops = append(ops, "size")
			}
		}
		return ops
	}
	for i := 0; i < n; i++ {
		switch x := r.Intn(100); {
		case x < 34:
			ops = append(ops, "put "+key()+" "+Itoa(r.Intn(1000)))
		case x < 60:
			ops = append(ops, "get "+key())
		case x < 68:
			ops = append(ops, "del "+key())
		case x < 70:
			ops = append(ops, "clear")
		case x < 77:
			ops = append(ops, "cleanup")
		case x < 82:
			ops = append(ops, "size")
		case x < 87:
			ops = append(ops, "stats")
		case x < 90:
			ops = append(ops, "keys")
		case x < 93:
			ops = append(ops, "order")
		default:
			ops = append(ops, "adv "+Itoa64(int64(Pick(r, []int{1, 2, 3, 4, 7, 11, 500}))*1_000_000_000))
		}
	}
	return ops
}

type lruShadow struct {
	val     int
	stored  int64 // virtual time of the put that stored val
	created int64 // virtual time of the put that created the entry (an overwrite keeps it): the earliest instant its age can count from
	used    int   // logical tick of last hit / put
}

func execLru(ops []string, mon *Mon) []string {
	var c *cache.LRUCache
	var ttl int64
	var now int64 // virtual clock (ns)
	tick := 0
	shadow := map[string]*lruShadow{}
	gets, hits := int64(0), int64(0)
	out := make([]string, 0, len(ops))
	for _, o := range ops {
		f := strings.Fields(o)
		if c == nil && f[0] != "new" {
			out = append(out, "bad-op")
			continue
		}
		tick++
		switch f[0] {
		case "new":
			ttl = Atoi64(f[2])
			c = cache.NewLRUCache(Atoi(f[1]), time.Duration(ttl))
			shadow = map[string]*lruShadow{}
			now, gets, hits = 0, 0, 0
			out = append(out, "ok "+Itoa(c.Capacity()))
			if c.Capacity() <= 0 {
				mon.Hit("C12", "capacity-nonpositive", o)
			}
		case "adv":
			d := Atoi64(f[1])
			c.VerifAge(time.Duration(d))
			now += d
			out = append(out, "ok")
		case "put":
			k, v := f[1], Atoi(f[2])
			before := c.VerifOrder()
			c.Put(k, v)
			after := c.VerifOrder()
			_, existed := shadow[k]
			if !existed && len(before) >= c.Capacity() {
				mon.Tag("evict")
				// the victim must be the entry used longest ago (per the shadow's own bookkeeping)
				victim := ""
				for kk, s := range shadow {
					if victim == "" || s.used < shadow[victim].used {
						victim = kk
					}
				}
				gone := diffKeys(before, after)
				if len(gone) != 1 || gone[0] != victim {
					mon.Hit("C12", "wrong-victim", map[string]interface{}{"expected": victim, "gone": gone, "op": o})
				}
				for _, g := range gone {
					delete(shadow, g)
				}
			} else if gone := diffKeys(before, after); len(gone) != 0 {
				mon.Hit("C12", "put-removed-without-need", map[string]interface{}{"gone": gone, "op": o})
				for _, g := range gone {
					delete(shadow, g)
				}
			}
			if s, ok := shadow[k]; ok {
				s.val, s.stored, s.used = v, now, tick
			} else {
				shadow[k] = &lruShadow{val: v, stored: now, created: now, used: tick}
			}
			out = append(out, "ok")
		case "get":
			k := f[1]
			v, ok := c.Get(k)
			gets++
			if ok {
				hits++
				mon.Tag("hit")
				s, had := shadow[k]
				if !had {
					mon.Hit("C12", "get-returned-absent-key", o)
				} else {
					if v.(int) != s.val {
						mon.Hit("C12", "get-returned-stale-value", map[string]interface{}{"got": v, "latest": s.val, "op": o})
					}
					if ttl > 0 && now-s.stored > ttl {
						mon.Hit("C12", "get-returned-older-than-ttl", map[string]interface{}{"age_ns": now - s.stored, "ttl": ttl, "op": o})
					}
					s.used = tick
				}
				out = append(out, "some "+Itoa(v.(int)))
			} else {
				if s, had := shadow[k]; had {
					// allowed only if the entry expired
					if ttl <= 0 || now-s.created <= ttl {
						mon.Hit("C12", "get-missed-live-entry", map[string]interface{}{"key": k, "age_ns": now - s.created, "ttl": ttl, "op": o})
					}
					mon.Tag("expired-on-get")
					delete(shadow, k)
				}
				out = append(out, "none")
			}
		case "del":
			ok := c.Delete(f[1])
			_, had := shadow[f[1]]
			if ok != had {
				mon.Hit("C12", "delete-result-wrong", o)
			}
			delete(shadow, f[1])
			out = append(out, B(ok))
		case "clear":
			c.Clear()
			shadow = map[string]*lruShadow{}
			gets, hits = 0, 0
			out = append(out, "ok")
		case "cleanup":
			before := c.VerifOrder()
			n := c.CleanupExpired()
			after := c.VerifOrder()
			gone := diffKeys(before, after)
			if n != len(gone) {
				mon.Hit("C12", "cleanup-count-wrong", map[string]interface{}{"returned": n, "gone": gone})
			}
			if n > 0 {
				mon.Tag("swept")
			}
			for _, g := range gone {
				// an entry's age counts from its creation at the earliest (created <= stored): whatever the
				// sweep removes must have been created more than one lifetime ago
				if s, ok := shadow[g]; ok && (ttl <= 0 || now-s.created <= ttl) {
					mon.Hit("C12", "sweep-removed-unexpired", map[string]interface{}{"key": g, "age_ns": now - s.created, "ttl": ttl, "gone": gone})
				}
				delete(shadow, g)
			}
			out = append(out, Itoa(n))
		case "size":
			out = append(out, Itoa(c.Size()))
		case "stats":
			s := c.Stats()
			if s.Hits+s.Misses != gets || s.Hits != hits {
				mon.Hit("C12", "stats-hit-miss-wrong", map[string]interface{}{"stats": s, "gets": gets, "hits": hits})
			}
			if s.Size != c.Size() {
				mon.Hit("C12", "stats-size-wrong", s)
			}
			out = append(out, Itoa64(s.Hits)+" "+Itoa64(s.Misses)+" "+Itoa64(s.Evictions)+" "+Itoa(s.Size)+" "+Itoa(s.Capacity))
		case "keys":
			ks := c.Keys()
			sort.Strings(ks)
			for i := 1; i < len(ks); i++ {
				if ks[i] == ks[i-1] {
					mon.Hit("C12", "duplicate-key", ks)
				}
			}
			out = append(out, strings.Join(ks, ",")+";")
		case "order":
			out = append(out, strings.Join(c.VerifOrder(), ",")+";")
		default:
			out = append(out, "bad-op")
		}
		if c != nil && c.Size() > c.Capacity() {
			mon.Hit("C12", "size-exceeds-capacity", map[string]interface{}{"size": c.Size(), "cap": c.Capacity(), "op": o})
		}
	}
	return out
}

func diffKeys(before, after []string) []string {
	in := map[string]bool{}
	for _, k := range after {
		in[k] = true
	}
	var gone []string
	for _, k := range before {
		if !in[k] {
			gone = append(gone, k)
		}
	}
	return gone
}
