//go:build verif

package main

import (
	"encoding/json"
	"fmt"
	"os"
	"strings"
	"unicode"
	"unicode/utf8"

	"github.com/sahilm/fuzzy"
)

// fuzzy: correspondence of Model/Fuzzy.lean (`matchOne`) with github.com/sahilm/fuzzy `Find` on one
// target — match / no match / panic, score, matched indexes — plus the C07 acceptance monitor:
// for a NUL-free target the library matches exactly when the pattern's runes occur in the target in
// order ignoring case (an independent greedy scan using strings.EqualFold on single runes).
func init() {
	Register(&Domain{Name: "fuzzy", Gen: genFuzzy, Exec: execFuzzy})
	RegisterTool("c07unicode", toolC07Unicode)
}

var fzAlphabet = []string{"a", "A", "b", "-", " ", "é"}

var fzPatterns = []string{"a", "ls", "gst", "tk", "git", "GIT", "dckr", "lst", "fnd", "cmprs", "é", "É", "ss", "K", "k", "ſ", "s",
	"i", "İ", "ı", "-", "..", " ", "a b", "foo", "fb", "FB", "_", "/", "x", "zz", "日", "\xff", "a\xff", "tar xzf", "unzp"}

var fzTargets = []string{"", "a", "ls -la list files", "git status show working tree status", "The Black Knight", "fooBar", "foo_bar",
	"foo-bar baz", "FooBarBaz", "docker ps -a List Containers", "tar -xzf archive.tar.gz extract", "École é É", "straße STRASSE",
	"Kelvin K k \u212a", "İstanbul ı i I", "ſ s S", "日本語 テキスト", "a\xffb", "\xc3", "find . -name '*.go' | xargs grep foo",
	"unzip file.zip", "compress", "aaa", "AaAa", "a-a a", "ab ab ab", "  ", "--", "path/to/file.txt", "C:\\Users\\me"}

func fzRandom(r *Rng, lo, hi int) string {
	n := r.Range(lo, hi)
	var sb strings.Builder
	pool := []string{"a", "b", "c", "s", "t", "A", "B", "S", "T", "-", "_", " ", ".", "/", "\\", "é", "É", "ß", "\u212a", "k", "K", "İ",
		"i", "ſ", "日", "\xff", "1"}
	for i := 0; i < n; i++ {
		sb.WriteString(Pick(r, pool))
	}
	return sb.String()
}

// subsequence of a word of the target (so most generated pairs match)
func fzSubseq(r *Rng, t string) string {
	rs := []rune(t)
	var out []rune
	for _, c := range rs {
		if r.Chance(1, 3) && len(out) < 6 {
			if r.Chance(1, 4) {
				c = unicode.ToUpper(c)
			}
			out = append(out, c)
		}
	}
	return string(out)
}

func genFuzzy(r *Rng, tier string, idx int, args map[string]string) []string {
	var pairs [][2]string
	if args["exhaustive"] != "" {
		// case idx = one pattern; all targets of length <= 5 over the alphabet
		pats := fzWords(3)
		if idx >= len(pats) {
			return []string{"fz1 - -"}
		}
		maxT := 5
		if args["maxt"] != "" {
			maxT = Atoi(args["maxt"])
		}
		for _, t := range fzWords(maxT) {
			pairs = append(pairs, [2]string{pats[idx], t})
		}
	} else {
		n := r.Range(8, 30)
		for i := 0; i < n; i++ {
			var p, t string
			switch x := r.Intn(100); {
			case x < 30:
				p, t = Pick(r, fzPatterns), Pick(r, fzTargets)
			case x < 55:
				t = Pick(r, fzTargets)
				p = fzSubseq(r, t)
			case x < 75:
				t = fzRandom(r, 0, 12)
				p = fzSubseq(r, t)
			case x < 78:
				// a long target and a pattern that follows it for 38..70 characters in a row: the library's `int` score wraps
				// (the adjacency bonus triples per adjacent match), and so must the model
				t = ""
				for len(t) < 75 {
					t += Pick(r, fzTargets) + Pick(r, []string{"-", " ", "_", "/"})
				}
				k := r.Range(38, 70)
				a := r.Range(0, len(t)-k)
				p = t[a : a+k]
				if r.Chance(1, 2) && len(p) > 3 { // one character dropped somewhere
					d := r.Range(1, len(p)-2)
					p = p[:d] + p[d+1:]
				}
			case x < 92:
				p, t = fzRandom(r, 0, 4), fzRandom(r, 0, 14)
			default: // NUL in the target: the library's end-of-text sentinel
				t = fzRandom(r, 0, 4) + "\x00" + fzRandom(r, 0, 4)
				p = fzRandom(r, 1, 3)
			}
			pairs = append(pairs, [2]string{p, t})
		}
	}
	texts := []string{}
	for _, pt := range pairs {
		texts = append(texts, pt[0], pt[1])
	}
	ops := runeInfoLines(texts)
	for _, pt := range pairs {
		ops = append(ops, "fz1 "+Hx(pt[0])+" "+Hx(pt[1]))
	}
	return ops
}

// fzWords: all strings over the alphabet of length <= n, shortest first
func fzWords(n int) []string {
	out := []string{""}
	prev := []string{""}
	for l := 1; l <= n; l++ {
		var cur []string
		for _, w := range prev {
			for _, a := range fzAlphabet {
				cur = append(cur, w+a)
			}
		}
		out = append(out, cur...)
		prev = cur
	}
	return out
}

// runeFoldEq: two runes are equal ignoring case (simple folding), via the strings package
func runeFoldEq(a, b rune) bool {
	return a == b || strings.EqualFold(string(a), string(b))
}

// occursFolded: the runes of p occur in t in order, ignoring case (greedy left-to-right scan)
func occursFolded(p, t string) bool {
	pr := []rune(p)
	k := 0
	for _, c := range t {
		if k < len(pr) && runeFoldEq(c, pr[k]) {
			k++
		}
	}
	return k == len(pr)
}

// fzFind1 runs the real library on one target
func fzFind1(p, t string) (line string, matched bool, score int, panicked bool) {
	defer func() {
		if recover() != nil {
			line, matched, panicked = "panic", false, true
		}
	}()
	ms := fuzzy.Find(p, []string{t})
	if len(ms) == 0 {
		return "none", false, 0, false
	}
	idx := "-"
	if len(ms[0].MatchedIndexes) > 0 {
		parts := make([]string, len(ms[0].MatchedIndexes))
		for i, x := range ms[0].MatchedIndexes {
			parts[i] = Itoa(x)
		}
		idx = strings.Join(parts, ",")
	}
	return "m " + Itoa(ms[0].Score) + " " + idx, true, ms[0].Score, false
}

func execFuzzy(ops []string, mon *Mon) []string {
	out := make([]string, 0, len(ops))
	for _, o := range ops {
		f := strings.Split(o, " ")
		switch {
		case f[0] == "ri" && len(f) == 5:
			if Atoi(f[3]) == 0 || Atoi(f[1]) < 0x80 {
				mon.Hit("C07", "rune-table-condition-violated", map[string]interface{}{"line": o})
			}
			out = append(out, "ok")
		case f[0] == "fz1" && len(f) == 3:
			p, t := UnHx(f[1]), UnHx(f[2])
			line, matched, _, panicked := fzFind1(p, t)
			out = append(out, line)
			nulFree := !strings.ContainsRune(t, 0)
			det := func() map[string]interface{} {
				return map[string]interface{}{"pattern": p, "target": t, "library": line}
			}
			switch {
			case panicked && nulFree:
				mon.Hit("C07", "matcher-panic-on-nul-free-target", det())
			case panicked:
				mon.Tag("panic-with-nul")
			case nulFree && p != "" && matched != occursFolded(p, t):
				mon.Hit("C07", "matcher-acceptance-not-subsequence", det())
			}
			if matched {
				mon.Tag("match")
			} else if !panicked {
				mon.Tag("no-match")
			}
			if !utf8.ValidString(t) || !utf8.ValidString(p) {
				mon.Tag("invalid-utf8")
			}
			for _, c := range p + t {
				if c >= 0x80 {
					mon.Tag("non-ascii")
					break
				}
			}
		default:
			out = append(out, "bad-op")
		}
	}
	return out
}

// c07unicode: the two Unicode facts C07 relies on, checked for every code point.
//
//	(1) the SimpleFold orbit of a non-zero rune does not contain 0 and its least element is non-zero
//	    (the model's table condition FoldOK; the matcher's rune 0 is "end of text");
//	(2) unicode.ToLower(r) lies in r's SimpleFold orbit for every r except the listed ones
//	    (so matching the lower-cased query under simple folding is matching the query ignoring case).
func toolC07Unicode(args []string) int {
	type res struct {
		Checked       int   `json:"checked"`
		FoldHitsZero  []int `json:"fold_orbit_contains_zero"`
		LowerNotInOrb []int `json:"lower_not_in_fold_orbit"`
		EqualFoldDiff []int `json:"stringsEqualFold_differs_from_orbit"`
	}
	var out res
	for r := rune(0); r <= unicode.MaxRune; r++ {
		out.Checked++
		lower := unicode.ToLower(r)
		inOrbit := lower == r
		zero := false
		for f := unicode.SimpleFold(r); f != r; f = unicode.SimpleFold(f) {
			if f == lower {
				inOrbit = true
			}
			if f == 0 {
				zero = true
			}
		}
		if r != 0 && zero {
			out.FoldHitsZero = append(out.FoldHitsZero, int(r))
		}
		if !inOrbit {
			out.LowerNotInOrb = append(out.LowerNotInOrb, int(r))
		}
		// the monitor's rune equality (strings.EqualFold on single runes) is orbit membership
		if utf8.ValidRune(r) && r != utf8.RuneError {
			if strings.EqualFold(string(r), string(lower)) != inOrbit {
				out.EqualFoldDiff = append(out.EqualFoldDiff, int(r))
			}
		}
	}
	b, _ := json.Marshal(out)
	fmt.Fprintln(os.Stdout, string(b))
	return 0
}
