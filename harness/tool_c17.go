//go:build verif

package main

// c17expect (C17): the answer the CLI must print, computed IN-PROCESS from the same tree.
//
//	wtfverif tool c17expect [scratch-dir]   < requests.jsonl   > responses.jsonl
//
// One JSON request per line (what a `wtf [search]` invocation was given: isolated HOME, working directory,
// --database value, the query words joined with one space, --limit, the platform flags, and the constant
// fields of the CLI's database.SearchOptions literal as the translator read them from search.go).
// For each request the tool goes through the same library calls as searchCmd.Run —
// validation.ValidateQuery, validation.ValidateLimit, config.DefaultConfig/GetDatabasePath,
// context.NewAnalyzer().AnalyzeCurrentDirectory, recovery.NewDatabaseRecovery(DefaultRetryConfig()).
// LoadDatabaseWithFallback, db.SearchUniversal, recovery.NewSearchRecovery().RecoverFromSearchFailure,
// the gate predicate passesFilters that database.FilterResults applies (through the verif hook VerifPassesFilters, so the
// expectation does not depend on FilterResults itself) — and reports every intermediate value (ids = index into db.Commands, float bits,
// the text of every entry that appears in an answer together with the strconv / encoding/json renderings the
// Lean driver takes as oracle values).  It deliberately does NOT truncate, re-sort, render or touch the history:
// those are the CLI's own steps, which the check compares against `Model/Cli.lean` and the monitors.
//
// Everything the library prints (loader / recovery warnings) is diverted to a scratch file.

import (
	"bufio"
	"encoding/hex"
	"encoding/json"
	"fmt"
	"math"
	"os"
	"reflect"
	"strings"

	"github.com/Vedant9500/WTF/internal/config"
	wtfcontext "github.com/Vedant9500/WTF/internal/context"
	"github.com/Vedant9500/WTF/internal/database"
	"github.com/Vedant9500/WTF/internal/recovery"
	"github.com/Vedant9500/WTF/internal/validation"
)

func init() { RegisterTool("c17expect", c17expect) }

type c17Req struct {
	Home      string                 `json:"home"`
	Cwd       string                 `json:"cwd"`
	DB        string                 `json:"db"`
	Query     string                 `json:"query_hex"`
	Limit     int                    `json:"limit"`
	Platforms []string               `json:"platforms"`
	All       bool                   `json:"all"`
	NoCross   bool                   `json:"nocross"`
	Opts      map[string]interface{} `json:"opts"`
}

type c17Hit struct {
	ID        int     `json:"id"`
	Bits      string  `json:"bits"` // IEEE bits of the score, hex
	Score     float64 `json:"score"`
	F1        string  `json:"f1"`         // fmt.Sprintf("%.1f", score)
	JSONScore string  `json:"json_score"` // json.Marshal(score)
	Pass      bool    `json:"pass"`       // passes the platform / pipeline gate (passesFilters) under the CLI's options
}

type c17Doc struct {
	Command     string   `json:"command"` // hex
	Description string   `json:"description"`
	Niche       string   `json:"niche"`
	Keywords    []string `json:"keywords"`
	Platform    []string `json:"platform"`
	JCommand    string   `json:"j_command"` // hex of json.Marshal(text)
	JDescr      string   `json:"j_description"`
	JNiche      string   `json:"j_niche"`
	JKeywords   []string `json:"j_keywords"`
	JPlatform   []string `json:"j_platform"`
}

type c17Resp struct {
	QueryOK     bool               `json:"query_ok"`
	Clean       string             `json:"clean_hex"`
	LimitOK     bool               `json:"limit_ok"`
	LimitValid  int                `json:"limit_valid"`
	Limit       int                `json:"limit_in_force"`
	LoadOK      bool               `json:"load_ok"`
	DBPath      string             `json:"db_path"`
	DBSize      int                `json:"db_size"`
	Fallback    bool               `json:"fallback"` // the loader printed its "using ... instead" warning
	CtxDesc     string             `json:"ctx_desc_hex"`
	Boosts      map[string]float64 `json:"boosts"`
	Engine      []c17Hit           `json:"engine"`
	NoFuzzy     int                `json:"engine_without_fuzzy"` // size of the answer with UseFuzzy=false (path tag only)
	RecoveryErr bool               `json:"recovery_err"`
	Recovery    []c17Hit           `json:"recovery"` // raw answer of RecoverFromSearchFailure (only when the engine answer is empty)
	Docs        map[string]c17Doc  `json:"docs"`
	Panic       string             `json:"panic,omitempty"`
}

func c17hx(s string) string { return hex.EncodeToString([]byte(s)) }

func c17js(v interface{}) string {
	b, err := json.Marshal(v)
	if err != nil {
		return c17hx("!" + err.Error())
	}
	return c17hx(string(b))
}

func c17doc(c *database.Command) c17Doc {
	d := c17Doc{Command: c17hx(c.Command), Description: c17hx(c.Description), Niche: c17hx(c.Niche),
		JCommand: c17js(c.Command), JDescr: c17js(c.Description), JNiche: c17js(c.Niche),
		Keywords: []string{}, Platform: []string{}, JKeywords: []string{}, JPlatform: []string{}}
	for _, k := range c.Keywords {
		d.Keywords = append(d.Keywords, c17hx(k))
		d.JKeywords = append(d.JKeywords, c17js(k))
	}
	for _, p := range c.Platform {
		d.Platform = append(d.Platform, c17hx(p))
		d.JPlatform = append(d.JPlatform, c17js(p))
	}
	return d
}

func c17setOpts(o *database.SearchOptions, m map[string]interface{}) error {
	v := reflect.ValueOf(o).Elem()
	for k, val := range m {
		f := v.FieldByName(k)
		if !f.IsValid() || !f.CanSet() {
			return fmt.Errorf("no option field %q", k)
		}
		switch f.Kind() {
		case reflect.Bool:
			b, ok := val.(bool)
			if !ok {
				return fmt.Errorf("field %s: not a bool", k)
			}
			f.SetBool(b)
		case reflect.Int:
			x, ok := val.(float64)
			if !ok {
				return fmt.Errorf("field %s: not a number", k)
			}
			f.SetInt(int64(x))
		case reflect.Float64:
			x, ok := val.(float64)
			if !ok {
				return fmt.Errorf("field %s: not a number", k)
			}
			f.SetFloat(x)
		default:
			return fmt.Errorf("field %s: unsupported kind", k)
		}
	}
	return nil
}

func c17one(req *c17Req, scratch *os.File) (resp c17Resp) {
	resp.Docs = map[string]c17Doc{}
	resp.Engine, resp.Recovery = []c17Hit{}, []c17Hit{}
	defer func() {
		if r := recover(); r != nil {
			resp.Panic = fmt.Sprint(r)
		}
	}()
	qb, err := hex.DecodeString(req.Query)
	if err != nil {
		resp.Panic = "bad query hex"
		return
	}
	os.Setenv("HOME", req.Home)
	if err := os.Chdir(req.Cwd); err != nil {
		resp.Panic = "chdir: " + err.Error()
		return
	}
	clean, err := validation.ValidateQuery(string(qb))
	if err != nil {
		return
	}
	resp.QueryOK, resp.Clean = true, c17hx(clean)
	valid, err := validation.ValidateLimit(req.Limit)
	resp.LimitValid = valid
	if err != nil {
		return
	}
	resp.LimitOK = true
	cfg := config.DefaultConfig()
	if valid > 0 {
		cfg.MaxResults = valid
	}
	if req.DB != "" {
		cfg.DatabasePath = req.DB
	}
	resp.Limit = cfg.MaxResults
	pc, _ := wtfcontext.NewAnalyzer().AnalyzeCurrentDirectory()
	dbPath := cfg.GetDatabasePath()
	resp.DBPath = dbPath
	scratch.Truncate(0)
	scratch.Seek(0, 0)
	db, err := recovery.NewDatabaseRecovery(recovery.DefaultRetryConfig()).LoadDatabaseWithFallback(dbPath, cfg.GetPersonalDatabasePath())
	if st, e := scratch.Stat(); e == nil && st.Size() > 0 {
		resp.Fallback = true
	}
	if err != nil {
		return
	}
	resp.LoadOK, resp.DBSize = true, db.Size()
	opts := database.SearchOptions{Limit: cfg.MaxResults, AllPlatforms: req.All, Platforms: req.Platforms, NoCrossPlatform: req.NoCross}
	if err := c17setOpts(&opts, req.Opts); err != nil {
		resp.Panic = "options: " + err.Error()
		return
	}
	if pc != nil {
		opts.ContextBoosts = pc.GetContextBoosts()
		resp.CtxDesc = c17hx(pc.GetContextDescription())
		resp.Boosts = opts.ContextBoosts
	}
	idOf := func(c *database.Command) int {
		for i := range db.Commands {
			if &db.Commands[i] == c {
				return i
			}
		}
		return -1
	}
	hit := func(r database.SearchResult) c17Hit {
		id := idOf(r.Command)
		if r.Command != nil {
			resp.Docs[fmt.Sprint(id)] = c17doc(r.Command)
		}
		jb, _ := json.Marshal(r.Score)
		return c17Hit{ID: id, Bits: fmt.Sprintf("%016x", math.Float64bits(r.Score)), Score: r.Score, F1: fmt.Sprintf("%.1f", r.Score),
			JSONScore: string(jb), Pass: r.Command != nil && database.VerifPassesFilters(r.Command, opts)}
	}
	results := db.SearchUniversal(clean, opts)
	for _, r := range results {
		resp.Engine = append(resp.Engine, hit(r))
	}
	if opts.UseFuzzy {
		o2 := opts
		o2.UseFuzzy = false
		resp.NoFuzzy = len(db.SearchUniversal(clean, o2))
	} else {
		resp.NoFuzzy = len(results)
	}
	if len(results) == 0 {
		rec, rerr := recovery.NewSearchRecovery().RecoverFromSearchFailure(clean, nil, db)
		resp.RecoveryErr = rerr != nil
		for _, r := range rec {
			resp.Recovery = append(resp.Recovery, hit(r))
		}
	}
	return
}

func c17expect(args []string) int {
	out := bufio.NewWriterSize(os.Stdout, 1<<20)
	defer out.Flush()
	dir := ""
	if len(args) > 0 {
		dir = args[0] // scratch directory (the check passes its run directory)
	}
	scratch, err := os.CreateTemp(dir, "c17expect-*.out")
	if err != nil {
		fmt.Fprintln(os.Stderr, err)
		return 2
	}
	defer os.Remove(scratch.Name())
	realStdout := os.Stdout
	os.Stdout = scratch // the library prints warnings with fmt.Printf
	defer func() { os.Stdout = realStdout }()
	sc := bufio.NewScanner(os.Stdin)
	sc.Buffer(make([]byte, 1<<20), 1<<28)
	enc := json.NewEncoder(out)
	for sc.Scan() {
		line := strings.TrimSpace(sc.Text())
		if line == "" {
			continue
		}
		var req c17Req
		if err := json.Unmarshal([]byte(line), &req); err != nil {
			enc.Encode(c17Resp{Panic: "bad request: " + err.Error()})
			continue
		}
		resp := c17one(&req, scratch)
		enc.Encode(resp)
		out.Flush()
	}
	return 0
}
