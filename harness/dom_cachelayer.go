//go:build verif

package main

import (
	"bufio"
	"fmt"
	"hash/fnv"
	"math"
	"os"
	"reflect"
	"sort"
	"strconv"
	"strings"
	"time"
	"unicode/utf8"

	"github.com/Vedant9500/WTF/internal/cache"
	"github.com/Vedant9500/WTF/internal/database"
)

// cachelayer (property C05): histories of search / monitored search / invalidate / enable / cleanup /
// update / clock-advance operations against the real database.NewCachedDatabase / NewMonitoredDatabase.
//
//	cmd <command> <description> <keywords> <tags> <platforms> <pipeline>     stage one command (hex fields, lists "a,b" or nil)
//	new c|m                      wrap the staged commands in a CachedDatabase / MonitoredDatabase
//	update                       UpdateDatabase / LoadDatabaseWithMonitoring with the staged commands
//	search  <q> <oracle> <Field=value>*      SearchWithOptionsAndCache
//	msearch <q> <oracle> <Field=value>*      SearchWithOptionsAndMonitoring
//	searchl <q> <oracle> <limit>             SearchWithCache          msearchl: SearchWithMonitoring
//	inval | enable 0|1 | cleanup | adv <ns> | stats | order
//
// <oracle> is the id of the answer of a fresh, uncached SearchUniversal for that request on the commands then in
// force (computed at generation time by running the engine; "-" = no results).  The Lean model receives the
// engine's answer only through it.  Search output: <answer id> <Δhits> <Δmisses> <size> <hits> <misses> <evictions>.
//
// The monitor (the property itself, independent of the model): every answer returned by the layer is compared
// with an uncached SearchUniversal(q, o) on the same *Database at that moment (command identity by pointer,
// score bits).
func init() {
	Register(&Domain{Name: "cachelayer", Gen: c05GenCacheLayer, Exec: c05ExecCacheLayer})
	Register(&Domain{Name: "cachealias", Gen: c05GenCacheAlias, Exec: c05ExecCacheAlias})
	RegisterTool("c05-reoracle", c05ToolReoracle)
}

// ---------------------------------------------------------------------------------------------
// option records <-> tokens (reflection, so that a field added to SearchOptions is driven too)
// ---------------------------------------------------------------------------------------------

var c05OptType = reflect.TypeOf(database.SearchOptions{})

func c05HexList(xs []string) string {
	h := make([]string, len(xs))
	for i, s := range xs {
		h[i] = Hx(s)
	}
	return strings.Join(h, ",")
}

func c05OptTokens(o database.SearchOptions) []string {
	v := reflect.ValueOf(o)
	var out []string
	for i := 0; i < v.NumField(); i++ {
		f, name := v.Field(i), c05OptType.Field(i).Name
		switch f.Kind() {
		case reflect.Int:
			if f.Int() != 0 {
				out = append(out, name+"="+Itoa64(f.Int()))
			}
		case reflect.Bool:
			if f.Bool() {
				out = append(out, name+"=1")
			}
		case reflect.Float64:
			if b := math.Float64bits(f.Float()); b != 0 {
				out = append(out, name+"=f:"+strconv.FormatUint(b, 16))
			}
		case reflect.String:
			if f.Len() > 0 {
				out = append(out, name+"="+Hx(f.String()))
			}
		case reflect.Slice:
			if !f.IsNil() {
				out = append(out, name+"=["+c05HexList(f.Interface().([]string))+"]")
			}
		case reflect.Map:
			if !f.IsNil() {
				m := f.Interface().(map[string]float64)
				ks := make([]string, 0, len(m))
				for k := range m {
					ks = append(ks, k)
				}
				sort.Strings(ks)
				ps := make([]string, len(ks))
				for i, k := range ks {
					ps[i] = Hx(k) + ":" + strconv.FormatUint(math.Float64bits(m[k]), 16)
				}
				out = append(out, name+"={"+strings.Join(ps, ",")+"}")
			}
		}
	}
	return out
}

func c05ParseOpts(toks []string) database.SearchOptions {
	var o database.SearchOptions
	v := reflect.ValueOf(&o).Elem()
	for _, t := range toks {
		i := strings.IndexByte(t, '=')
		if i < 0 {
			panic("bad option token " + t)
		}
		f := v.FieldByName(t[:i])
		if !f.IsValid() {
			panic("unknown option field " + t[:i])
		}
		s := t[i+1:]
		switch f.Kind() {
		case reflect.Int:
			f.SetInt(Atoi64(s))
		case reflect.Bool:
			f.SetBool(s == "1")
		case reflect.Float64:
			b, err := strconv.ParseUint(strings.TrimPrefix(s, "f:"), 16, 64)
			if err != nil {
				panic("bad float token " + t)
			}
			f.SetFloat(math.Float64frombits(b))
		case reflect.String:
			f.SetString(UnHx(s))
		case reflect.Slice:
			if s == "nil" {
				continue
			}
			xs := []string{}
			if in := s[1 : len(s)-1]; in != "" {
				for _, h := range strings.Split(in, ",") {
					xs = append(xs, UnHx(h))
				}
			}
			f.Set(reflect.ValueOf(xs))
		case reflect.Map:
			if s == "nil" {
				continue
			}
			m := map[string]float64{}
			if in := s[1 : len(s)-1]; in != "" {
				for _, p := range strings.Split(in, ",") {
					kv := strings.Split(p, ":")
					b, err := strconv.ParseUint(kv[1], 16, 64)
					if err != nil {
						panic("bad map token " + t)
					}
					m[UnHx(kv[0])] = math.Float64frombits(b)
				}
			}
			f.Set(reflect.ValueOf(m))
		}
	}
	return o
}

func c05NonFinite(o database.SearchOptions) bool {
	v := reflect.ValueOf(o)
	bad := func(x float64) bool { return math.IsNaN(x) || math.IsInf(x, 0) }
	for i := 0; i < v.NumField(); i++ {
		f := v.Field(i)
		switch f.Kind() {
		case reflect.Float64:
			if bad(f.Float()) {
				return true
			}
		case reflect.Map:
			for _, x := range f.Interface().(map[string]float64) {
				if bad(x) {
					return true
				}
			}
		}
	}
	return false
}

// ---------------------------------------------------------------------------------------------
// commands
// ---------------------------------------------------------------------------------------------

type c05Cmd struct {
	Command, Description string
	Keywords, Tags, Plat []string
	Pipeline             bool
}

func c05List(xs []string) string {
	if xs == nil {
		return "nil"
	}
	if len(xs) == 0 {
		return "[]"
	}
	return c05HexList(xs)
}

func c05UnList(s string) []string {
	switch s {
	case "nil":
		return nil
	case "[]":
		return []string{}
	}
	var out []string
	for _, h := range strings.Split(s, ",") {
		out = append(out, UnHx(h))
	}
	return out
}

func (c c05Cmd) line() string {
	return "cmd " + Hx(c.Command) + " " + Hx(c.Description) + " " + c05List(c.Keywords) + " " + c05List(c.Tags) + " " + c05List(c.Plat) + " " + B(c.Pipeline)
}

// c05Command builds a database.Command the way the loader does (lower-cased caches filled in).
func c05Command(f []string) database.Command {
	c := database.Command{Command: UnHx(f[1]), Description: UnHx(f[2]), Keywords: c05UnList(f[3]), Tags: c05UnList(f[4]), Platform: c05UnList(f[5]), Pipeline: f[6] == "1"}
	c.CommandLower = strings.ToLower(c.Command)
	c.DescriptionLower = strings.ToLower(c.Description)
	c.KeywordsLower = make([]string, len(c.Keywords))
	for i, k := range c.Keywords {
		c.KeywordsLower[i] = strings.ToLower(k)
	}
	c.TagsLower = make([]string, len(c.Tags))
	for i, k := range c.Tags {
		c.TagsLower[i] = strings.ToLower(k)
	}
	return c
}

var c05Core = []c05Cmd{
	{"ls -la", "list all files in a directory", []string{"list", "files", "directory"}, nil, nil, false},
	{"dir /s", "list all files in a directory", []string{"list", "files"}, nil, []string{"windows"}, false},
	{"lsblk -f", "list block devices and disk partitions", []string{"disk", "list"}, []string{"storage"}, []string{"linux"}, false},
	{"tar -czf archive.tar.gz dir", "compress a directory into an archive", []string{"compress", "archive", "tar"}, nil, nil, false},
	{"Compress-Archive -Path dir -DestinationPath a.zip", "compress a directory into an archive", []string{"compress", "zip"}, nil, []string{"powershell"}, false},
	{"find . -name '*.txt' | xargs grep pattern", "find text in files and search pattern", []string{"find", "search", "text"}, nil, []string{"linux", "macos"}, true},
	{"ps aux | grep name", "show running process by name", []string{"process", "show"}, nil, []string{"linux"}, true},
	{"tasklist /fi name", "show running process by name", []string{"process", "show"}, nil, []string{"Windows"}, false},
	{"git commit -m msg", "commit staged changes with a message", []string{"git", "commit"}, []string{"vcs"}, []string{"cross-platform"}, false},
	{"docker ps -a", "list all docker containers", []string{"docker", "list", "container"}, nil, nil, false},
	{"netstat -an", "show network connections", []string{"network", "show"}, nil, []string{"windows"}, false},
	{"diskutil list", "list disk partitions", []string{"disk", "list"}, nil, []string{"macos"}, false},
	{"cat file >> out.log", "append file content to a log", []string{"append", "file"}, nil, nil, false},
	{"sort names.txt | uniq -c", "count duplicate lines in a text file", []string{"count", "text", "lines"}, nil, []string{"bash"}, true},
}

var c05Vocab = []string{"list", "files", "directory", "compress", "archive", "find", "search", "text", "show", "process",
	"network", "disk", "partitions", "git", "commit", "docker", "containers", "count", "lines", "copy", "remove", "install",
	"package", "download", "server", "running", "pattern", "message", "changes", "connections"}

var c05PlatPool = [][]string{nil, nil, nil, {"linux"}, {"windows"}, {"macos"}, {"cross-platform"}, {"linux", "macos"}, {"LINUX"}, {"powershell"}, {"bash"}, {"plan9"}, {}}

func c05RandCmd(r *Rng) c05Cmd {
	tool := Pick(r, []string{"foo", "barctl", "zed", "cp", "curl", "kubectl", "xq", "mytool"})
	n := r.Range(3, 6)
	ws := make([]string, n)
	for i := range ws {
		ws[i] = Pick(r, c05Vocab)
	}
	c := c05Cmd{Command: tool + " --" + Pick(r, c05Vocab), Description: strings.Join(ws, " "), Plat: Pick(r, c05PlatPool), Pipeline: r.Chance(1, 5)}
	for i := r.Intn(3); i > 0; i-- {
		c.Keywords = append(c.Keywords, Pick(r, c05Vocab))
	}
	if r.Chance(1, 4) {
		c.Tags = []string{Pick(r, c05Vocab)}
	}
	if r.Chance(1, 6) {
		c.Command += " | " + Pick(r, []string{"sort", "head -n 3", "wc -l"})
	}
	return c
}

// c05LastCrowd: the stock query whose words the last generated database has a crowd of entries for ("" if none)
var c05LastCrowd string
var c05LastBig bool

func c05GenDB(r *Rng, tier string) []c05Cmd {
	c05LastCrowd, c05LastBig = "", false
	var db []c05Cmd
	for _, c := range c05Core {
		if r.Chance(4, 5) {
			db = append(db, c)
		}
	}
	extra := r.Range(0, 8)
	if tier == "thorough" {
		extra = r.Range(0, 40)
	}
	for i := 0; i < extra; i++ {
		if len(db) > 0 && r.Chance(1, 6) {
			db = append(db, db[r.Intn(len(db))]) // exact duplicate: ties
		} else {
			db = append(db, c05RandCmd(r))
		}
	}
	if r.Chance(1, 6) {
		// a crowd of entries sharing the words of one stock query: more candidates than the smallest re-rank
		// window (10), so that answers for different limits are NOT prefixes of one another under NLP
		cq := Pick(r, c05Queries[:8])
		c05LastCrowd = cq
		w := strings.Fields(cq)
		m := r.Range(12, 22)
		if c05LastBig = r.Chance(1, 3); c05LastBig {
			m = r.Range(105, 140) // more matches than any limit the CLI accepts: answers longer than 100 results
		}
		for i := 0; i < m; i++ {
			c := c05RandCmd(r)
			c.Description = strings.Join(w, " ") + " " + c.Description
			c.Plat = nil
			db = append(db, c)
		}
	}
	for i := len(db) - 1; i > 0; i-- {
		j := r.Intn(i + 1)
		db[i], db[j] = db[j], db[i]
	}
	return db
}

func c05MutateDB(r *Rng, db []c05Cmd, tier string) []c05Cmd {
	out := append([]c05Cmd{}, db...)
	switch r.Intn(8) {
	case 7: // replaced by the empty list (then usually refilled by a later update)
		return nil
	case 0: // identical content
	case 1:
		if len(out) > 0 {
			i := r.Intn(len(out))
			out = append(out[:i], out[i+1:]...)
		}
	case 2:
		out = append(out, c05RandCmd(r))
	case 3:
		out = append(out, Pick(r, c05Core))
	case 4:
		if len(out) > 1 {
			i, j := r.Intn(len(out)), r.Intn(len(out))
			out[i], out[j] = out[j], out[i]
		}
	case 5:
		if len(out) > 0 {
			i := r.Intn(len(out))
			out[i].Plat = Pick(r, c05PlatPool)
			out[i].Pipeline = !out[i].Pipeline
		}
	default:
		return c05GenDB(r, tier)
	}
	return out
}

// ---------------------------------------------------------------------------------------------
// requests
// ---------------------------------------------------------------------------------------------

var c05Queries = []string{"list files", "compress directory", "find text", "show process", "disk", "git commit", "docker containers",
	"network connections", "list all files in a directory", "how to compress a directory", "show me all running processes",
	"find files containing text", "count duplicate lines", "résumé files", "list σ files"}

// misspellings (one letter dropped): no index term matches, so only the typo fallback can answer
var c05Typos = []string{"compres", "procss", "netwrk", "partitons", "contaners", "direcory", "comit", "archve", "duplcate", "dockr"}

var c05Degenerate = []string{"", "the", "a of", "??", "x"}

func c05BaseQuery(r *Rng) string {
	switch x := r.Intn(100); {
	case x < 50:
		return Pick(r, c05Queries)
	case x < 75:
		return Pick(r, c05Typos)
	case x < 82:
		return Pick(r, c05Degenerate)
	case x < 90: // long query: exercises the term cap
		n := r.Range(12, 18)
		ws := make([]string, n)
		for i := range ws {
			ws[i] = Pick(r, c05Vocab)
		}
		return strings.Join(ws, " ")
	case x < 95:
		return Pick(r, c05Queries) + " " + Pick(r, c05Typos)
	default:
		return Pick(r, []string{"list\xff files", "disk \xc3", "find\x00text"})
	}
}

// c05Variant returns a query with the same normal form ToLower(TrimSpace(q)): case changes (incl. U+0130 for i and
// U+212A for k, which lower-case to ASCII), leading / trailing white space (incl. NBSP, U+3000, U+0085).
func c05Variant(r *Rng, q string) string {
	out := q
	if r.Chance(2, 3) {
		var sb strings.Builder
		for _, c := range q { // q is valid UTF-8 here, or the bytes are copied unchanged below
			switch {
			case c >= 'a' && c <= 'z' && r.Chance(1, 3):
				if c == 'i' && r.Chance(1, 4) {
					sb.WriteString("İ")
				} else if c == 'k' && r.Chance(1, 3) {
					sb.WriteString("K")
				} else {
					sb.WriteRune(c - 32)
				}
			case c == 'é' && r.Bool():
				sb.WriteRune('É')
			case c == 'σ' && r.Bool():
				sb.WriteRune('Σ')
			default:
				sb.WriteRune(c)
			}
		}
		if utf8.ValidString(q) {
			out = sb.String()
		}
	}
	pads := []string{" ", "  ", "\t", "\n", "\u00a0", "\u3000", "\u0085", " \t "}
	if r.Chance(1, 2) {
		out = Pick(r, pads) + out
	}
	if r.Chance(1, 2) {
		out = out + Pick(r, pads)
	}
	return out
}

// words of the stock queries, and command names the NLP layer ADDS to such queries as hints (a boost on an added term changes
// the answer although the word is not in the query text)
var c05BoostWords = []string{"list", "files", "compress", "text", "process", "disk", "docker",
	"tar", "zip", "gzip", "ls", "dir", "find", "grep", "ps", "rm", "mkdir", "df", "du", "netstat", "ss"}

func c05SetField(r *Rng, o *database.SearchOptions, name string, nan bool) {
	f := reflect.ValueOf(o).Elem().FieldByName(name)
	switch f.Kind() {
	case reflect.Int:
		dom := []int64{0, 1, 2, -1}
		switch name {
		case "Limit":
			dom = []int64{0, 1, 2, 3, 5, 10, -1}
		case "FuzzyThreshold":
			dom = []int64{0, -30, -5, -100, 10}
		case "TopTermsCap":
			dom = []int64{0, 1, 2, 3, 10, -1}
		}
		f.SetInt(Pick(r, dom))
	case reflect.Bool:
		f.SetBool(!f.Bool())
	case reflect.Float64:
		dom := []float64{0, math.Copysign(0, -1), 1.5, 2, 0.5, -1}
		if nan {
			dom = []float64{math.NaN(), math.Float64frombits(0xfff8000000000002), math.Inf(1), math.Inf(-1), 2}
		}
		f.SetFloat(Pick(r, dom))
	case reflect.String:
		f.SetString(Pick(r, []string{"", "a", "b"}))
	case reflect.Slice:
		dom := [][]string{nil, {}, {"windows"}, {"linux"}, {"macos"}, {"windows", "linux"}, {"Windows"}, {"bash"}, {"powershell"}, {"lin\xffux"}, {"lin\xfeux"}, {"lin\ufffdux"}}
		f.Set(reflect.ValueOf(append([]string(nil), Pick(r, dom)...)))
		if r.Chance(1, 8) {
			f.Set(reflect.ValueOf([]string{}))
		}
	case reflect.Map:
		w1, w2 := Pick(r, c05BoostWords), Pick(r, c05BoostWords)
		dom := []map[string]float64{nil, {}, {w1: 2}, {w1: 0.5, w2: 3}, {w1: 0}, {w1: -1}, {w1: 2, "b\xffd": 1}, {w1: 2, "b\xfed": 1}, {w1: 2, "b\ufffdd": 1}}
		if nan {
			dom = []map[string]float64{{w1: math.NaN()}, {w1: math.Inf(1)}, {w1: math.Inf(-1)}, {w1: 2, w2: math.NaN()}, {"x": math.NaN()},
				{"x": math.Float64frombits(0x7ff8000000000002)}, {"x": math.Float64frombits(0xfff8000000000001)}, {"x": math.NaN(), "b\xffd": 1}, {"x": math.NaN(), "b\xfed": 1}}
		}
		f.Set(reflect.ValueOf(Pick(r, dom)))
	}
}

func c05FieldNames() []string {
	out := make([]string, c05OptType.NumField())
	for i := range out {
		out[i] = c05OptType.Field(i).Name
	}
	return out
}

func c05BaseOpts(r *Rng, nan bool) database.SearchOptions {
	var o database.SearchOptions
	o.Limit = Pick(r, []int{0, 2, 3, 5, 10})
	o.UseFuzzy = r.Chance(2, 3)
	o.UseNLP = r.Chance(1, 2)
	if o.UseFuzzy && r.Bool() {
		o.FuzzyThreshold = -30
	}
	names := c05FieldNames()
	for i := r.Intn(3); i > 0; i-- {
		c05SetField(r, &o, Pick(r, names), false)
	}
	if nan {
		if r.Bool() {
			c05SetField(r, &o, "PipelineBoost", true)
		} else {
			c05SetField(r, &o, "ContextBoosts", true)
		}
		if !c05NonFinite(o) {
			o.ContextBoosts = map[string]float64{"x": math.NaN()}
		}
	}
	return o
}

type c05Req struct {
	q string
	o database.SearchOptions
}

// ---------------------------------------------------------------------------------------------
// oracle: a fresh uncached engine on the commands in force
// ---------------------------------------------------------------------------------------------

func c05AnsID(db *database.Database, res []database.SearchResult) string {
	if len(res) == 0 {
		return "-"
	}
	h := fnv.New64a()
	var buf [16]byte
	for _, r := range res {
		idx := int64(-1)
		for i := range db.Commands {
			if r.Command == &db.Commands[i] {
				idx = int64(i)
				break
			}
		}
		for k := 0; k < 8; k++ {
			buf[k] = byte(idx >> (8 * k))
			buf[8+k] = byte(math.Float64bits(r.Score) >> (8 * k))
		}
		h.Write(buf[:])
	}
	return "a" + strconv.FormatUint(h.Sum64(), 16)
}

func c05SearchLine(l string) (kind string, q string, o database.SearchOptions, ok bool) {
	f := strings.Fields(l)
	if len(f) < 3 {
		return "", "", o, false
	}
	switch f[0] {
	case "search", "msearch":
		return f[0], UnHx(f[1]), c05ParseOpts(f[3:]), true
	case "searchl", "msearchl":
		if len(f) != 4 {
			return "", "", o, false
		}
		return f[0], UnHx(f[1]), database.SearchOptions{Limit: Atoi(f[3])}, true
	}
	return "", "", o, false
}

// c05Reoracle recomputes the oracle token of every search line by simulating the commands in force and running
// a fresh uncached engine for each request.
func c05Reoracle(lines []string) []string {
	out := make([]string, len(lines))
	var pending []database.Command
	var db *database.Database
	for i, l := range lines {
		out[i] = l
		f := strings.Fields(l)
		if len(f) == 0 {
			continue
		}
		switch f[0] {
		case "cmd":
			if len(f) == 7 {
				pending = append(pending, c05Command(f))
			}
		case "new", "update":
			if f[0] == "new" || db != nil {
				db = &database.Database{Commands: pending}
				pending = nil
			}
		case "search", "msearch", "searchl", "msearchl":
			if _, q, o, ok := c05SearchLine(l); ok && db != nil {
				f[2] = c05AnsID(db, db.SearchUniversal(q, o))
				out[i] = strings.Join(f, " ")
			}
		}
	}
	return out
}

func c05ToolReoracle(args []string) int {
	sc := bufio.NewScanner(os.Stdin)
	sc.Buffer(make([]byte, 1<<20), 1<<28)
	var lines []string
	for sc.Scan() {
		lines = append(lines, sc.Text())
	}
	for _, l := range c05Reoracle(lines) {
		fmt.Println(l)
	}
	return 0
}

// ---------------------------------------------------------------------------------------------
// generator
// ---------------------------------------------------------------------------------------------

func c05SearchOp(r *Rng, kind string, q string, o database.SearchOptions) string {
	toks := c05OptTokens(o)
	limitOnly := true
	for _, t := range toks {
		if !strings.HasPrefix(t, "Limit=") {
			limitOnly = false
		}
	}
	if limitOnly && r.Chance(1, 3) {
		return kind + "l " + Hx(q) + " ? " + Itoa(o.Limit)
	}
	return strings.TrimRight(kind+" "+Hx(q)+" ? "+strings.Join(toks, " "), " ")
}

func c05GenCacheLayer(r *Rng, tier string, idx int, args map[string]string) []string {
	nan := args["nan"] != ""
	evict := args["evict"] != ""
	var focus []string
	if args["focus"] != "" {
		for _, f := range strings.Split(args["focus"], ",") {
			if _, ok := c05OptType.FieldByName(f); ok {
				focus = append(focus, f)
			}
		}
	}
	focusQuery := args["focusquery"] != ""
	names := c05FieldNames()
	db := c05GenDB(r, tier)
	var ops []string
	for _, c := range db {
		ops = append(ops, c.line())
	}
	mon := r.Chance(1, 2)
	if mon {
		ops = append(ops, "new m")
	} else {
		ops = append(ops, "new c")
	}
	// a small pool of base requests, so that repeats, variants and single-field deltas of the same request recur
	nbase := r.Range(2, 5)
	base := make([]c05Req, nbase)
	for i := range base {
		base[i] = c05Req{c05BaseQuery(r), c05BaseOpts(r, nan)}
		if focusQuery {
			base[i].q = Pick(r, c05Typos)
			base[i].o.UseFuzzy = true
		}
	}
	// derived requests are remembered too (a delta is then repeated later)
	pool := append([]c05Req{}, base...)
	if cq := c05LastCrowd; cq != "" && !focusQuery {
		// a ladder of limits for one NLP request with more candidates than the smallest re-rank window: the
		// answers for different limits are not prefixes of one another, so no entry may serve two of them
		o := c05BaseOpts(r, nan)
		o.UseNLP, o.UseFuzzy, o.PipelineOnly, o.AllPlatforms, o.TopTermsCap = true, false, false, true, 0
		ladders := [][]int{{10, 1, 3, 2, 10, 1}, {5, 2, 1, 0, 3}, {0, 1, 2, 10, 3}}
		if c05LastBig {
			o.UseNLP = r.Bool()
			ladders = [][]int{{120, 120, 100, 120}, {1000, 150, 1000, 101, 101}, {130, 10, 130, 130}}
		}
		for _, l := range ladders[r.Intn(3)] {
			o.Limit = l
			ops = append(ops, c05SearchOp(r, "search", cq, o))
		}
		pool = append(pool, c05Req{cq, o})
	}
	n := r.Range(8, 40)
	if tier == "thorough" {
		n = r.Range(8, 120)
	}
	if evict {
		n = 1250
	}
	advLeft := 6
	if tier == "thorough" {
		advLeft = 9
	}
	kindOf := func() string {
		if mon && r.Chance(2, 3) {
			return "msearch"
		}
		return "search"
	}
	uniq := 0
	for i := 0; i < n; i++ {
		x := r.Intn(100)
		if evict && x >= 62 && x < 96 {
			x = 0
		}
		switch {
		case x < 62:
			req := Pick(r, pool)
			if evict && r.Chance(9, 10) { // many distinct keys: fill the LRU past its capacity
				uniq++
				req = c05Req{Pick(r, c05Queries) + " " + Pick(r, c05Vocab) + Itoa(uniq), req.o}
			}
			y := r.Intn(100)
			switch {
			case y < 30: // exact repeat
			case y < 48 || focusQuery: // same normal form, other spelling
				req.q = c05Variant(r, req.q)
			case y < 55 && strings.Contains(strings.TrimSpace(req.q), " "):
				// a DIFFERENT request that is almost the same text: inner spacing changed (the typo fallback
				// matches the query text spaces included, so these must never share an entry)
				q := strings.TrimSpace(req.q)
				i := strings.Index(q, " ")
				req.q = q[:i] + Pick(r, []string{"  ", "   ", " \t", "\t"}) + strings.TrimLeft(q[i:], " ")
			case y < 90: // exactly one option field changed
				o := req.o
				// copy reference fields before changing anything (requests must not share maps)
				name := Pick(r, names)
				if len(focus) > 0 && r.Chance(3, 4) {
					name = Pick(r, focus)
				}
				before := strings.Join(c05OptTokens(o), " ")
				for try := 0; try < 6; try++ {
					c05SetField(r, &o, name, false)
					if strings.Join(c05OptTokens(o), " ") != before {
						break
					}
				}
				if nan && !c05NonFinite(o) {
					o.ContextBoosts = map[string]float64{"x": math.NaN()}
				}
				req.o = o
				if len(pool) < 24 {
					pool = append(pool, req)
				}
			default: // new request
				req = c05Req{c05BaseQuery(r), c05BaseOpts(r, nan)}
				if len(pool) < 24 {
					pool = append(pool, req)
				}
			}
			ops = append(ops, c05SearchOp(r, kindOf(), req.q, req.o))
		case x < 68:
			ops = append(ops, "inval")
		case x < 72:
			ops = append(ops, "enable 0")
			// usually a few searches while off, then on again
			for k := r.Intn(3); k > 0; k-- {
				req := Pick(r, pool)
				ops = append(ops, c05SearchOp(r, kindOf(), req.q, req.o))
			}
			if r.Chance(4, 5) {
				ops = append(ops, "enable 1")
			}
		case x < 74:
			ops = append(ops, "enable 1")
		case x < 80:
			ops = append(ops, "cleanup")
		case x < 88:
			if advLeft > 0 {
				advLeft--
				// never a whole number of seconds: sums of <= 9 steps stay >= 0.1 s away from the lifetime
				secs := Pick(r, []int64{1, 50, 150, 299, 300, 400})
				ops = append(ops, "adv "+Itoa64(secs*1_000_000_000+100_000_000))
			} else {
				ops = append(ops, "stats")
			}
		case x < 95:
			db = c05MutateDB(r, db, tier)
			for _, c := range db {
				ops = append(ops, c.line())
			}
			ops = append(ops, "update")
		case x < 98:
			ops = append(ops, "stats")
		default:
			ops = append(ops, "order")
		}
	}
	if evict {
		ops = append(ops, "stats", "order")
	}
	return c05Reoracle(ops)
}

// ---------------------------------------------------------------------------------------------
// execution on the real code + monitor
// ---------------------------------------------------------------------------------------------

type c05Layer struct {
	cdb  *database.CachedDatabase
	mdb  *database.MonitoredDatabase
	mgr  *cache.Manager
	lru  *cache.LRUCache
	on   bool
	seen map[string]string // LRU key -> op line of the request whose answer was last stored under it
	reg  map[string]int    // LRU key -> op number of the request that first stored it
}

func c05EqualResults(a, b []database.SearchResult) bool {
	if len(a) != len(b) {
		return false
	}
	for i := range a {
		if a[i].Command != b[i].Command || math.Float64bits(a[i].Score) != math.Float64bits(b[i].Score) {
			return false
		}
	}
	return true
}

func c05Show(db *database.Database, res []database.SearchResult) []string {
	out := make([]string, len(res))
	for i, r := range res {
		idx := -1
		for k := range db.Commands {
			if r.Command == &db.Commands[k] {
				idx = k
			}
		}
		cmd := "?"
		if r.Command != nil {
			cmd = r.Command.Command
		}
		out[i] = fmt.Sprintf("#%d %q %v", idx, cmd, r.Score)
	}
	return out
}

// c05NormReq identifies a request up to what the property allows to share an entry: normalised query + option tokens.
func c05NormReq(q string, o database.SearchOptions) (string, map[string]string) {
	m := map[string]string{}
	for _, t := range c05OptTokens(o) {
		i := strings.IndexByte(t, '=')
		m[t[:i]] = t[i+1:]
	}
	return strings.ToLower(strings.TrimSpace(q)), m
}

func c05ExecCacheLayer(ops []string, mon *Mon) []string {
	var pending []database.Command
	var L *c05Layer
	out := make([]string, 0, len(ops))
	type seenReq struct {
		q string
		m map[string]string
	}
	var reqs []seenReq
	n := 0
	stats := func() cache.Stats { return L.cdb.GetCacheStats()["search"] }
	for _, line := range ops {
		n++
		f := strings.Fields(line)
		if len(f) == 0 {
			out = append(out, "bad-op")
			continue
		}
		if f[0] == "cmd" {
			if len(f) != 7 {
				out = append(out, "bad-op")
				continue
			}
			pending = append(pending, c05Command(f))
			out = append(out, "ok")
			continue
		}
		if f[0] == "new" && len(f) == 2 {
			db := &database.Database{Commands: pending}
			pending = nil
			L = &c05Layer{on: true, seen: map[string]string{}, reg: map[string]int{}}
			if f[1] == "m" {
				L.mdb = database.NewMonitoredDatabase(db)
				L.cdb = L.mdb.CachedDatabase
			} else {
				L.cdb = database.NewCachedDatabase(db)
			}
			L.mgr = L.cdb.VerifC05CacheManager()
			L.lru = L.mgr.GetSearchCache().VerifLRU()
			reqs = nil
			out = append(out, "ok")
			continue
		}
		if L == nil {
			out = append(out, "bad-op")
			continue
		}
		switch f[0] {
		case "search", "msearch", "searchl", "msearchl":
			kind, q, o, ok := c05SearchLine(line)
			if !ok || (strings.HasPrefix(kind, "m") && L.mdb == nil) {
				out = append(out, "bad-op")
				continue
			}
			before := stats()
			keysBefore := map[string]bool{}
			for _, k := range L.lru.VerifOrder() {
				keysBefore[k] = true
			}
			var res []database.SearchResult
			switch kind {
			case "search":
				res = L.cdb.SearchWithOptionsAndCache(q, o)
			case "msearch":
				res = L.mdb.SearchWithOptionsAndMonitoring(q, o)
				mon.Tag("monitored")
			case "searchl":
				res = L.cdb.SearchWithCache(q, o.Limit)
				mon.Tag("limit-only-api")
			case "msearchl":
				res = L.mdb.SearchWithMonitoring(q, o.Limit)
				mon.Tag("monitored")
				mon.Tag("limit-only-api")
			}
			after := stats()
			order := L.lru.VerifOrder()
			dh, dm := after.Hits-before.Hits, after.Misses-before.Misses
			db := L.cdb.Database
			fresh := db.SearchUniversal(q, o)
			fresh2 := db.SearchUniversal(q, o)
			if !c05EqualResults(fresh, fresh2) {
				mon.Hit("C05", "engine-nondeterministic", map[string]interface{}{"op": line, "first": c05Show(db, fresh), "second": c05Show(db, fresh2)})
			}
			nonfinite := c05NonFinite(o)
			if !c05EqualResults(res, fresh) {
				d := map[string]interface{}{"op": line, "query": q, "options": c05OptTokens(o), "returned": c05Show(db, res), "uncached": c05Show(db, fresh), "hit": dh > 0}
				cls := "uncached-answer-differs"
				if dh > 0 {
					cls = "cached-answer-differs"
					if len(order) > 0 {
						if by, ok := L.seen[order[0]]; ok {
							d["entry_stored_by"] = by
							_, bq, bo, _ := c05SearchLine(by)
							nq1, m1 := c05NormReq(bq, bo)
							nq2, m2 := c05NormReq(q, o)
							if nq1 != nq2 || !reflect.DeepEqual(m1, m2) || bq != q {
								cls = "shared-entry-different-answer"
							}
						}
					}
				}
				if nonfinite {
					cls = "nan-key-fallback"
				}
				mon.Hit("C05", cls, d)
			}
			if !L.on && (dh != 0 || dm != 0 || after.Size != before.Size) {
				mon.Hit("C05", "disabled-cache-used", map[string]interface{}{"op": line, "before": before, "after": after})
			}
			for _, k := range order {
				if _, ok := L.reg[k]; !ok {
					L.reg[k] = n
				}
			}
			if L.on && dh == 0 && len(res) > 0 && len(order) > 0 {
				L.seen[order[0]] = line // this request's answer was just stored under that key
			}
			// distribution
			switch {
			case !L.on:
				mon.Tag("search-while-disabled")
			case dh > 0:
				mon.Tag("hit")
			default:
				mon.Tag("miss")
			}
			if len(res) == 0 {
				mon.Tag("empty-answer")
			}
			if nonfinite {
				mon.Tag("nonfinite-options")
			}
			nq, m := c05NormReq(q, o)
			isNew, delta, variant := true, false, false
			for _, p := range reqs {
				if p.q == nq {
					diff := 0
					for _, name := range c05FieldNames() {
						if p.m[name] != m[name] {
							diff++
						}
					}
					if diff == 0 {
						isNew = false
					}
					if diff == 1 {
						delta = true
					}
				}
			}
			if isNew {
				reqs = append(reqs, seenReq{nq, m})
				if delta {
					mon.Tag("single-field-delta")
				}
			} else if dh > 0 && q != nq {
				variant = true
			}
			if variant {
				mon.Tag("hit-through-variant")
			}
			for _, t := range c05Typos {
				if nq == t && len(res) > 0 {
					mon.Tag("typo-fallback-answer")
					break
				}
			}
			out = append(out, fmt.Sprintf("%s %d %d %d %d %d %d", c05AnsID(db, res), dh, dm, after.Size, after.Hits, after.Misses, after.Evictions))
			if after.Evictions > before.Evictions {
				mon.Tag("evict")
			}
			if L.on && dh == 0 && dm > 0 && len(res) > 0 && len(order) > 0 && keysBefore[order[0]] {
				mon.Tag("expired-on-get") // the request's key was present, yet the lookup missed: the entry had outlived the lifetime
			}
		case "inval":
			L.cdb.InvalidateCache()
			if s := stats(); s.Size != 0 {
				mon.Hit("C05", "entry-survived-invalidate", map[string]interface{}{"op": line, "size": s.Size})
			}
			out = append(out, "ok")
		case "enable":
			L.on = len(f) > 1 && f[1] == "1"
			L.cdb.EnableCache(L.on)
			if L.cdb.IsCacheEnabled() != L.on {
				mon.Hit("C05", "enable-flag-wrong", line)
			}
			out = append(out, "ok")
		case "cleanup":
			before := stats()
			m := L.cdb.CleanupExpiredCache()
			if m["search"] > 0 {
				mon.Tag("swept")
			}
			if s := stats(); before.Size-s.Size != m["search"] {
				mon.Hit("C05", "cleanup-count-wrong", map[string]interface{}{"op": line, "reported": m["search"], "before": before.Size, "after": s.Size})
			}
			out = append(out, Itoa(m["search"]))
		case "update":
			cmds := pending
			pending = nil
			if L.mdb != nil {
				L.mdb.LoadDatabaseWithMonitoring(cmds)
			} else {
				L.cdb.UpdateDatabase(cmds)
			}
			mon.Tag("update")
			if s := stats(); s.Size != 0 {
				mon.Hit("C05", "entry-survived-update", map[string]interface{}{"op": line, "size": s.Size})
			}
			out = append(out, "ok")
		case "adv":
			L.lru.VerifAge(time.Duration(Atoi64(f[1])))
			out = append(out, "ok")
		case "stats":
			s := stats()
			out = append(out, fmt.Sprintf("%d %d %d %d %d %s", s.Hits, s.Misses, s.Evictions, s.Size, s.Capacity, B(L.cdb.IsCacheEnabled())))
		case "order":
			ks := L.lru.VerifOrder()
			is := make([]string, len(ks))
			for i, k := range ks {
				if v, ok := L.reg[k]; ok {
					is[i] = Itoa(v)
				} else {
					is[i] = "?"
				}
			}
			out = append(out, strings.Join(is, ",")+";")
		default:
			out = append(out, "bad-op")
		}
	}
	return out
}

// ---------------------------------------------------------------------------------------------
// cachealias: does the cache keep references to the caller's map / slice?  (values in the model)
//   alias <q> <Field=value>*   search; mutate the caller's ContextBoosts map and Platforms slice in place; search
//                              again with the mutated record and with a fresh copy of the original record; every
//                              answer is compared with the uncached engine.
// ---------------------------------------------------------------------------------------------

func c05GenCacheAlias(r *Rng, tier string, idx int, args map[string]string) []string {
	db := c05GenDB(r, tier)
	var ops []string
	for _, c := range db {
		ops = append(ops, c.line())
	}
	ops = append(ops, Pick(r, []string{"new c", "new m"}))
	for i := r.Range(2, 8); i > 0; i-- {
		o := c05BaseOpts(r, false)
		w := Pick(r, c05BoostWords)
		o.ContextBoosts = map[string]float64{w: Pick(r, []float64{2, 3, 0.5})}
		o.Platforms = []string{Pick(r, []string{"windows", "linux", "macos"})}
		o.AllPlatforms = false
		ops = append(ops, "alias "+Hx(Pick(r, c05Queries))+" "+strings.Join(c05OptTokens(o), " "))
	}
	return ops
}

func c05ExecCacheAlias(ops []string, mon *Mon) []string {
	var pending []database.Command
	var cdb *database.CachedDatabase
	var mdb *database.MonitoredDatabase
	out := make([]string, 0, len(ops))
	for _, line := range ops {
		f := strings.Fields(line)
		switch {
		case len(f) == 7 && f[0] == "cmd":
			pending = append(pending, c05Command(f))
			out = append(out, "ok")
		case len(f) == 2 && f[0] == "new":
			db := &database.Database{Commands: pending}
			pending = nil
			mdb = nil
			if f[1] == "m" {
				mdb = database.NewMonitoredDatabase(db)
				cdb = mdb.CachedDatabase
			} else {
				cdb = database.NewCachedDatabase(db)
			}
			out = append(out, "ok")
		case len(f) >= 2 && f[0] == "alias" && cdb != nil:
			q := UnHx(f[1])
			o := c05ParseOpts(f[2:])
			orig := c05ParseOpts(f[2:]) // independent copy of the original values
			search := func(o database.SearchOptions) []database.SearchResult {
				if mdb != nil {
					return mdb.SearchWithOptionsAndMonitoring(q, o)
				}
				return cdb.SearchWithOptionsAndCache(q, o)
			}
			check := func(step string, o database.SearchOptions, res []database.SearchResult) {
				fresh := cdb.Database.SearchUniversal(q, o)
				if !c05EqualResults(res, fresh) {
					mon.Hit("C05", "aliasing-wrong-answer", map[string]interface{}{"op": line, "step": step, "options": c05OptTokens(o),
						"returned": c05Show(cdb.Database, res), "uncached": c05Show(cdb.Database, fresh)})
				}
			}
			r1 := search(o)
			check("first", o, r1)
			id1 := c05AnsID(cdb.Database, r1)
			// the caller now reuses its map and slice for something else
			for k := range o.ContextBoosts {
				o.ContextBoosts[k] = 7
			}
			o.ContextBoosts["docker"] = 9
			if len(o.Platforms) > 0 {
				if o.Platforms[0] == "windows" {
					o.Platforms[0] = "linux"
				} else {
					o.Platforms[0] = "windows"
				}
			}
			// the caller also scribbles over the slice it was handed
			for i := range r1 {
				r1[i].Score = -1
			}
			r2 := search(o)
			check("mutated-record", o, r2)
			r3 := search(orig)
			check("original-values-again", orig, r3)
			mon.Tag("alias-probe")
			out = append(out, fmt.Sprintf("%s %s %s", id1, c05AnsID(cdb.Database, r2), c05AnsID(cdb.Database, r3)))
		default:
			out = append(out, "bad-op")
		}
	}
	return out
}
