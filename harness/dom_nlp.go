//go:build verif

package main

import (
	"reflect"
	"strings"
	"unicode/utf8"

	"github.com/Vedant9500/WTF/internal/nlp"
)

// nlp: correspondence of nlp.ProcessQuery + GetEnhancedKeywords (exported API only) with Model/Nlp.lean,
// plus the C06 monitor clauses that speak about the analysis itself:
//
//	enhanced-not-prefix        GetEnhancedKeywords() does not begin with pq.Keywords
//	enhanced-duplicate         a term occurs twice in GetEnhancedKeywords()
//	keywords-duplicate         a term occurs twice in pq.Keywords
//	keyword-not-from-text      a keyword is neither a word of the cleaned query nor the first synonym of one
//	analysis-not-deterministic the same text analysed twice gave different results
//
// ops:  ri <cp> <lower> <foldrep> <flags>   |   pq <hex query>
// The vocabulary comes from the regenerated tables (-arg words=a,b,c / hintwords=... passed by lib/props/c06.py
// from the translator's facts); without it a built-in pool is used.
func init() {
	Register(&Domain{Name: "nlp", Gen: genNlp, Exec: execNlp})
}

var nlpBuiltin = []string{"find", "search", "list", "show", "display", "view", "see", "read", "look", "check", "create", "make", "delete",
	"remove", "manage", "install", "compress", "extract", "unpack", "copy", "move", "kill", "file", "files", "folder", "folders", "directory",
	"contents", "content", "archive", "zip", "tar", "process", "processes", "ip", "network", "interface", "permission", "permissions",
	"print", "cat", "download", "upload", "running", "compile", "deploy", "test", "unarchive", "windows", "text", "log", "logs", "editor",
	"edit", "replace", "package", "server", "remote", "disk", "usage", "inside", "config", "setup", "chmod", "the", "a", "of", "to", "how", "with"}

var nlpOdd = []string{"x", "ab", "A1", "foo_bar", "foo-bar", "foo.bar", "ÉCOLE", "straße", "Kelvin", "İx", "naïve", "日本", "a\xffb", "\xc3",
	"C++", "(test)", "e-mail", "v2.0", "LS", "Tar", "_", "-", ".", "--", "a_b-c.d", "\u00a0", "\u2028", "\u0085", "\u3000", "\x0b", "\x0c", "\x00", "ſee", "looK",
	"vİew", "Kill", "FİLE", "\xe2\x84", "\xf0\x9f\x98\x80", "dog", "qzx", "42", "3files", "file2", "tar.gz", "re-read", "show_me"}

var nlpSeps = []string{" ", " ", " ", " ", " ", " ", "  ", "\t", "\n", ", ", "? ", " - ", "; ", " / ", "\r\n", "  ", "! ", ": ", " (", ") ", "\x0b", "\x0c "}

func nlpVocab(args map[string]string) (words, hintWords []string) {
	if w := args["words"]; w != "" {
		words = strings.Split(w, ",")
	} else {
		words = nlpBuiltin
	}
	if w := args["hintwords"]; w != "" {
		hintWords = strings.Split(w, ",")
	}
	return
}

func nlpMangle(r *Rng, w string) string {
	switch x := r.Intn(100); {
	case x < 72:
		return w
	case x < 80:
		return strings.ToUpper(w)
	case x < 85:
		return strings.ToUpper(w[:1]) + w[1:]
	case x < 89: // letters whose lower case is ASCII
		w = strings.Replace(w, "k", "K", 1)
		return strings.Replace(w, "i", "İ", 1)
	case x < 92:
		return w + Pick(r, []string{"_", "-", ".", "_x", "-y", ".z", "s", "2"})
	case x < 95:
		return Pick(r, []string{"_", "-", ".", "(", "\"", "'"}) + w
	case x < 97:
		return w + Pick(r, []string{"\xff", "\xc3", "\xe2\x84", "é"})
	default:
		i := r.Intn(len(w) + 1)
		return w[:i] + Pick(r, []string{"\xff", "_", "-", ".", "'", "é"}) + w[i:]
	}
}

// nlpSentence draws one query; `must` (if non-empty) is always part of it.
func nlpSentence(r *Rng, words, hintWords []string, must string) string {
	n := Pick(r, []int{1, 1, 2, 2, 3, 3, 4, 5, 6, 7, 8, 9, 10, 11, 12, 12, 14, 20})
	ws := make([]string, 0, n+2)
	for i := 0; i < n; i++ {
		switch x := r.Intn(100); {
		case x < 62:
			ws = append(ws, nlpMangle(r, Pick(r, words)))
		case x < 74 && len(hintWords) > 0:
			ws = append(ws, nlpMangle(r, Pick(r, hintWords)))
		case x < 84:
			ws = append(ws, Pick(r, stopPool))
		default:
			ws = append(ws, Pick(r, nlpOdd))
		}
	}
	if must != "" {
		ws[r.Intn(len(ws))] = must
	}
	if r.Chance(1, 9) {
		ws = append(ws, "")
		i := r.Intn(len(ws))
		copy(ws[i+1:], ws[i:])
		ws[i] = Pick(r, []string{"without opening", "without editing", "WITHOUT OPENING", "without  opening", "withoutopening", "without\topening", "without openİng"})
	}
	var sb strings.Builder
	if r.Chance(1, 8) {
		sb.WriteString(Pick(r, []string{" ", "\t", "\n ", " ", "  "}))
	}
	sep := ""
	if r.Chance(1, 10) {
		sep = Pick(r, []string{"_", "-", ".", ",", "/"})
	}
	for i, w := range ws {
		if i > 0 {
			if sep != "" {
				sb.WriteString(sep)
			} else {
				sb.WriteString(Pick(r, nlpSeps))
			}
		}
		sb.WriteString(w)
	}
	if r.Chance(1, 8) {
		sb.WriteString(Pick(r, []string{" ", "?", "\n", "!!", " \t"}))
	}
	q := sb.String()
	if r.Chance(1, 6) { // what SearchUniversal hands to ProcessQuery
		q = strings.ToLower(strings.TrimSpace(q))
	}
	return q
}

func genNlp(r *Rng, tier string, idx int, args map[string]string) []string {
	words, hintWords := nlpVocab(args)
	var qs []string
	switch args["stream"] {
	case "exh": // exhaustive: case idx = first word (idx == len(words): the one-word queries), second word = every word
		if idx >= len(words) {
			qs = append(qs, words...)
			qs = append(qs, "")
		} else {
			for _, w := range words {
				qs = append(qs, words[idx]+" "+w)
			}
		}
	default:
		n := r.Range(6, 12)
		for i := 0; i < n; i++ {
			must := ""
			if i == 0 { // every table word is used by some case once the run has >= len(words) cases
				must = words[idx%len(words)]
			} else if i == 1 && len(hintWords) > 0 {
				must = hintWords[idx%len(hintWords)]
			}
			qs = append(qs, nlpSentence(r, words, hintWords, must))
		}
		if idx%50 == 0 {
			qs = append(qs, "", " ", "\xff", "the a of", "?!", strings.Repeat("show ", 30), "ip windows", "manage ip", "ip")
		}
	}
	ops := runeInfoLines(append(append([]string(nil), qs...), "Kİſ"))
	for _, q := range qs {
		ops = append(ops, "pq "+Hx(q))
	}
	return ops
}

func dupOf(xs []string) (string, bool) {
	seen := map[string]bool{}
	for _, s := range xs {
		if seen[s] {
			return s, true
		}
		seen[s] = true
	}
	return "", false
}

type nlpView struct {
	Cleaned                    string
	Actions, Targets, Keywords []string
	Intent                     string
	Enhanced                   []string
}

func nlpAnalyse(p *nlp.QueryProcessor, q string) nlpView {
	pq := p.ProcessQuery(q)
	cp := func(xs []string) []string {
		if xs == nil {
			return nil
		}
		return append([]string{}, xs...)
	}
	// the analysis as it is BEFORE it is expanded (copies: the expansion must not write into it)
	return nlpView{pq.Cleaned, cp(pq.Actions), cp(pq.Targets), cp(pq.Keywords), string(pq.Intent), pq.GetEnhancedKeywords()}
}

// nlpExpansionStable: expanding an analysis is a pure function of it - the analysis is unchanged afterwards and a second
// expansion gives the same list (an append into a sub-slice of one of its lists would overwrite the analysis in place)
func nlpExpansionStable(mon *Mon, q string) {
	pq := nlp.NewQueryProcessor().ProcessQuery(q)
	a0, t0, k0 := append([]string{}, pq.Actions...), append([]string{}, pq.Targets...), append([]string{}, pq.Keywords...)
	e1 := append([]string{}, pq.GetEnhancedKeywords()...)
	same := func(x, y []string) bool { return len(x) == len(y) && (len(x) == 0 || reflect.DeepEqual(x, y)) }
	if !same(a0, pq.Actions) || !same(t0, pq.Targets) || !same(k0, pq.Keywords) {
		mon.Hit("C06", "analysis-not-deterministic", map[string]interface{}{"query": q, "what": "GetEnhancedKeywords changed the analysis it was called on",
			"actions_before": a0, "actions_after": pq.Actions, "targets_before": t0, "targets_after": pq.Targets})
		return
	}
	for i := 0; i < 2; i++ {
		if e2 := pq.GetEnhancedKeywords(); !same(e1, e2) {
			mon.Hit("C06", "analysis-not-deterministic", map[string]interface{}{"query": q, "what": "a second expansion of the same analysis differs", "first": e1, "again": e2})
			return
		}
	}
	if len(a0) > 3 {
		mon.Tag("nlp-more-than-three-actions")
	}
}

// monitorAnalysis evaluates the analysis clauses of C06 on the real code for one query text.
func monitorAnalysis(mon *Mon, q string) nlpView {
	p := nlp.NewQueryProcessor()
	v := nlpAnalyse(p, q)
	det := func(extra string) map[string]interface{} {
		return map[string]interface{}{"query": q, "keywords": v.Keywords, "enhanced": v.Enhanced, "what": extra}
	}
	if len(v.Enhanced) < len(v.Keywords) || !reflect.DeepEqual(append([]string{}, v.Enhanced[:len(v.Keywords)]...), append([]string{}, v.Keywords...)) {
		mon.Hit("C06", "enhanced-not-prefix", det(""))
	}
	if s, dup := dupOf(v.Enhanced); dup {
		mon.Hit("C06", "enhanced-duplicate", det(s))
	}
	if s, dup := dupOf(v.Keywords); dup {
		mon.Hit("C06", "keywords-duplicate", det(s))
	}
	// user's own text: every keyword is a word of the cleaned text or the first synonym of one
	ws := strings.Fields(strings.ToLower(v.Cleaned))
	okw := map[string]bool{}
	for _, w := range ws {
		okw[w] = true
		if syn := p.GetSynonyms(w); len(syn) > 0 {
			okw[syn[0]] = true
		}
	}
	for _, k := range v.Keywords {
		if !okw[k] {
			mon.Hit("C06", "keyword-not-from-text", det(k))
		}
	}
	nlpExpansionStable(mon, q)
	// the same text analysed again: same processor, and fresh processors (fresh maps, fresh iteration seeds)
	for i := 0; i < 3; i++ {
		pp := p
		if i > 0 {
			pp = nlp.NewQueryProcessor()
		}
		if w := nlpAnalyse(pp, q); !reflect.DeepEqual(v, w) {
			mon.Hit("C06", "analysis-not-deterministic", map[string]interface{}{"query": q, "first": v, "again": w})
			break
		}
	}
	return v
}

func execNlp(ops []string, mon *Mon) []string {
	out := make([]string, 0, len(ops))
	for _, o := range ops {
		f := strings.Split(o, " ")
		switch f[0] {
		case "ri":
			out = append(out, "ok")
		case "pq":
			if len(f) != 2 {
				out = append(out, "bad-op")
				continue
			}
			q := UnHx(f[1])
			v := monitorAnalysis(mon, q)
			out = append(out, "pq "+Hx(v.Cleaned)+" "+hxList(v.Actions)+" "+hxList(v.Targets)+" "+hxList(v.Keywords)+" "+hxList(v.Enhanced)+" "+Hx(v.Intent))
			if len(v.Actions) > 0 {
				mon.Tag("actions")
			}
			if len(v.Targets) > 0 {
				mon.Tag("targets")
			}
			if len(v.Keywords) > 0 {
				mon.Tag("keywords")
			}
			if len(v.Enhanced) > len(v.Keywords) {
				mon.Tag("expanded")
			}
			if n := len(strings.Fields(v.Cleaned)); n >= 12 {
				mon.Tag("words-ge-12")
			} else if n == 0 {
				mon.Tag("no-words")
			}
			if v.Intent != "general" {
				mon.Tag("intent-" + v.Intent)
			}
			if !utf8.ValidString(q) {
				mon.Tag("invalid-utf8")
			} else if len(q) != utf8.RuneCountInString(q) {
				mon.Tag("non-ascii")
			}
			for _, e := range v.Enhanced {
				if e == "ipconfig" {
					mon.Tag("ipconfig")
				}
			}
		default:
			out = append(out, "bad-op")
		}
	}
	return out
}
