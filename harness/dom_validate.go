//go:build verif

package main

import (
	stderrors "errors"
	"fmt"
	"strings"
	"unicode"
	"unicode/utf8"

	"github.com/Vedant9500/WTF/internal/constants"
	apperrors "github.com/Vedant9500/WTF/internal/errors"
	"github.com/Vedant9500/WTF/internal/validation"
)

// validate: correspondence of validation.ValidateQuery / ValidateLimit with Model/Validate.lean and
// the C14 monitor (the property's clauses evaluated on the real outputs with Go's own unicode/utf8
// functions, independently of the model).
//
// ops     q <hex>    -> ok <hex> | err empty|toolong|badchars|other
//
//	qq <hex>   -> as q, followed (when accepted) by the result of validating the output again
//	lim <int>  -> ok <n> | err <n>
//	dec <hex>  -> runes of `range`: c<hex cp> / b<hex invalid byte>, comma separated ("-" if none)
//	tbl space|control -> unicode.IsSpace / unicode.IsControl over all code points, as hex ranges
//
// generator modes (-arg mode=…): random (default), enum (all strings of <= len symbols over a 16-symbol
// alphabet, -arg len=L), decode (systematic decoder inputs), tables.
func init() {
	Register(&Domain{Name: "validate", Gen: genValidate, Exec: execValidate})
	RegisterTool("c14-cases", toolC14Cases)
	RegisterTool("c14-unicode", func([]string) int {
		fmt.Println("space", c14Ranges(unicode.IsSpace))
		fmt.Println("control", c14Ranges(unicode.IsControl))
		return 0
	})
}

const c14Metas = "<>|&;$" // the property text's metacharacters (the monitor does not read them from the code)

// ---------------------------------------------------------------------------------------------
// alphabets
// ---------------------------------------------------------------------------------------------

var c14Spaces = []rune{0x09, 0x0A, 0x0B, 0x0C, 0x0D, 0x20, 0x85, 0xA0, 0x1680, 0x2000, 0x2001, 0x2002, 0x2003, 0x2004,
	0x2005, 0x2006, 0x2007, 0x2008, 0x2009, 0x200A, 0x2028, 0x2029, 0x202F, 0x205F, 0x3000}

func c14Controls() []rune {
	var rs []rune
	for r := rune(0); r <= 0x1F; r++ {
		rs = append(rs, r)
	}
	for r := rune(0x7F); r <= 0x9F; r++ {
		rs = append(rs, r)
	}
	return rs
}

// code points next to the tables' edges and look-alikes that are neither space nor control
var c14NearMiss = []rune{0x1F + 1, 0x7E, 0xA1, 0x9F + 1, 0x167F, 0x1681, 0x180E, 0x1FFF, 0x200B, 0x200C, 0x200D, 0x2027, 0x202A,
	0x202E, 0x2030, 0x205E, 0x2060, 0x2FFF, 0x3001, 0xFEFF, 0xAD, 0xFF1C, 0xFF1E, 0xFF5C, 0xFF06, 0xFF1B, 0xFF04,
	0xFFFD, 0xD7FF, 0xE000, 0xFFFF, 0x10000, 0x10FFFF, 0x7FF, 0x800, 0x80}

var c14Words = []string{"a", "ls", "git", "commit", "find", "files", "-la", "x", "é", "漢字", "😀", "ß", "İ", "tar.gz", "/etc", "'q'", "\"", "#", "%", "(", ")", "*", "?", "!", "=", "\\", "`", "~", "^", "{", "}", "[", "]", ":", ",", "."}

// every shape of malformed UTF-8 named in DESIGN.md section 6 (C14)
var c14Invalid = []string{
	"\x80", "\xbf", "\xa0", "\x85", // stray continuation bytes (A0 / 85 would be NBSP / NEL after C2)
	"\xc2", "\xc3", "\xdf", "\xe0", "\xe1", "\xe2", "\xe3", "\xed", "\xef", "\xf0", "\xf1", "\xf4", // lead byte alone
	"\xc0\x80", "\xc1\xbf", "\xc0\xa0", "\xe0\x80\x80", "\xe0\x9f\xbf", "\xe0\x80\xa0", "\xf0\x80\x80\x80", "\xf0\x8f\xbf\xbf", "\xf0\x80\x80\xa0", // overlong (incl. overlong space)
	"\xed\xa0\x80", "\xed\xbf\xbf", "\xed\xb0\x80", // surrogates
	"\xf4\x90\x80\x80", "\xf5\x80\x80\x80", "\xf7\xbf\xbf\xbf", "\xf8\x88\x80\x80\x80", "\xfc\x84\x80\x80\x80\x80", "\xfe", "\xff", // > U+10FFFF and never-valid bytes
	"\xe2\x82", "\xe2", "\xf0\x9f\x98", "\xf0\x9f", "\xe3\x80", "\xe1\x9a", "\xe2\x80", // truncated (3000, 1680, 2028 cut short)
	"\xc2\x20", "\xe2\x80\x20", "\xf0\x9f\x98\x24", "\xe2\x3c\xa8", // truncated then ASCII (space / metacharacter)
}

// incomplete sequences and the continuation bytes that would complete them: with a control character in between
// (which validation removes) the two halves must NOT join into a new character.  C2+80 = U+0080 (control),
// C2+85 = NEL (control and white space), C2+A0 = NBSP, E1 9A+80 = U+1680, E2 80+A8 = U+2028, E2 80+8B = U+200B,
// E3 80+80 = U+3000 (white space), C2+A9 = ©, E2 82+AC = €, F0 9F 98+80 = an emoji, C2+BC / EF BC+9C = "¼" / fullwidth "<".
var c14SplitPairs = [][2]string{
	{"\xc2", "\x80"}, {"\xc2", "\x85"}, {"\xc2", "\xa0"}, {"\xc2", "\x9f"}, {"\xc2", "\xa9"}, {"\xc2", "\xbc"},
	{"\xe1\x9a", "\x80"}, {"\xe1", "\x9a\x80"}, {"\xe2\x80", "\xa8"}, {"\xe2", "\x80\xa9"}, {"\xe2\x80", "\x8b"}, {"\xe2\x80", "\x80"},
	{"\xe3\x80", "\x80"}, {"\xe3", "\x80\x80"}, {"\xe2\x82", "\xac"}, {"\xef\xbc", "\x9c"}, {"\xef\xbf", "\xbd"},
	{"\xf0\x9f\x98", "\x80"}, {"\xf0\x9f", "\x98\x80"}, {"\xf0", "\x9f\x98\x80"}, {"\xc3", "\xa9"},
}

var c14EnumAlphabet = []string{"a", " ", "\t", "\r", "\x00", "$", "\u00a0", "\u0085", "\u3000", "\x80", "\xa0", "\xc2", "\xe3", "\xff", "\u200b", "<"}

// ---------------------------------------------------------------------------------------------
// generator
// ---------------------------------------------------------------------------------------------

const (
	c14EnumChunk   = 256
	c14DecodeChunk = 2048
)

func c14EnumTotal(l int) int {
	t, p := 0, 1
	for k := 0; k <= l; k++ {
		t += p
		p *= len(c14EnumAlphabet)
	}
	return t
}

// i-th string (shortlex order) over the enumeration alphabet
func c14EnumString(i int) string {
	k, p := 0, 1
	for i >= p {
		i -= p
		p *= len(c14EnumAlphabet)
		k++
	}
	var sb strings.Builder
	syms := make([]int, k)
	for j := k - 1; j >= 0; j-- {
		syms[j] = i % len(c14EnumAlphabet)
		i /= len(c14EnumAlphabet)
	}
	for _, s := range syms {
		sb.WriteString(c14EnumAlphabet[s])
	}
	return sb.String()
}

var c14TailBytes = []byte{0x00, 0x24, 0x41, 0x7F, 0x80, 0x8F, 0x90, 0x9F, 0xA0, 0xBF, 0xC0, 0xC2, 0xE0, 0xFF}
var c14SecondBytesQuick = []byte{0x00, 0x20, 0x41, 0x7F, 0x80, 0x81, 0x85, 0x8F, 0x90, 0x9F, 0xA0, 0xBF, 0xC0, 0xC2, 0xDF, 0xE0, 0xED, 0xF0, 0xF4, 0xF5, 0xFF}
var c14FourLeadsQuick = []byte{0xC2, 0xDF, 0xE0, 0xE1, 0xEC, 0xED, 0xEE, 0xEF, 0xF0, 0xF1, 0xF3, 0xF4, 0xF5, 0xFF}

func c14DecodeSets(tier string) (second []byte, fourLeads []byte) {
	if tier != "thorough" {
		return c14SecondBytesQuick, c14FourLeadsQuick
	}
	for b := 0; b < 256; b++ {
		second = append(second, byte(b))
	}
	for b := 0xC0; b < 256; b++ {
		fourLeads = append(fourLeads, byte(b))
	}
	return
}

// systematic decoder inputs: every 1- and 2-byte string; 3-byte strings lead(C0..FF) x second x tail;
// 4-byte strings lead x second x tail x tail.
func c14DecodeTotal(tier string) int {
	sec, fl := c14DecodeSets(tier)
	nt := len(c14TailBytes)
	return 256 + 65536 + 64*len(sec)*nt + len(fl)*len(sec)*nt*nt
}

func c14DecodeString(tier string, i int) string {
	sec, fl := c14DecodeSets(tier)
	nt := len(c14TailBytes)
	if i < 256 {
		return string([]byte{byte(i)})
	}
	i -= 256
	if i < 65536 {
		return string([]byte{byte(i >> 8), byte(i)})
	}
	i -= 65536
	if n3 := 64 * len(sec) * nt; i < n3 {
		b2 := c14TailBytes[i%nt]
		i /= nt
		b1 := sec[i%len(sec)]
		i /= len(sec)
		return string([]byte{byte(0xC0 + i), b1, b2})
	} else {
		i -= n3
	}
	b3 := c14TailBytes[i%nt]
	i /= nt
	b2 := c14TailBytes[i%nt]
	i /= nt
	b1 := sec[i%len(sec)]
	i /= len(sec)
	return string([]byte{fl[i%len(fl)], b1, b2, b3})
}

func toolC14Cases(args []string) int {
	if len(args) < 2 {
		fmt.Println("usage: c14-cases enum <len> | decode <tier>")
		return 2
	}
	switch args[0] {
	case "enum":
		fmt.Println((c14EnumTotal(Atoi(args[1])) + c14EnumChunk - 1) / c14EnumChunk)
	case "decode":
		fmt.Println((c14DecodeTotal(args[1]) + c14DecodeChunk - 1) / c14DecodeChunk)
	default:
		return 2
	}
	return 0
}

func c14Atom(r *Rng) string {
	switch x := r.Intn(100); {
	case x < 38:
		return Pick(r, c14Words)
	case x < 58:
		return string(Pick(r, c14Spaces))
	case x < 68:
		return string(Pick(r, c14Controls()))
	case x < 76:
		return Pick(r, c14Invalid)
	case x < 82:
		return string(Pick(r, c14NearMiss))
	case x < 85:
		return string(c14Metas[r.Intn(len(c14Metas))])
	case x < 93:
		return " "
	default:
		return string([]byte{byte(r.Intn(256))})
	}
}

// atoms that never cause rejection (so long accepted strings are common)
func c14BenignAtom(r *Rng) string {
	switch x := r.Intn(100); {
	case x < 55:
		return Pick(r, c14Words)
	case x < 80:
		return " "
	case x < 88:
		return string(Pick(r, c14Spaces))
	case x < 94:
		return string(Pick(r, c14Controls()))
	default:
		return Pick(r, c14Invalid)
	}
}

func c14Concat(r *Rng, n int, atom func(*Rng) string) string {
	var sb strings.Builder
	for i := 0; i < n; i++ {
		sb.WriteString(atom(r))
	}
	return sb.String()
}

// pad s to exactly n bytes (or cut it) with a filler placed before, after, or in the middle
func c14PadTo(r *Rng, s string, n int) string {
	if len(s) >= n {
		return s[:n]
	}
	fillers := []string{"a", " ", "\t", "\x00", "\r", "\u00e9", "\u3000", "\xff", "ab ", "\u0085", "x\n"}
	f := Pick(r, fillers)
	need := n - len(s)
	var sb strings.Builder
	for sb.Len()+len(f) <= need {
		sb.WriteString(f)
	}
	for sb.Len() < need {
		sb.WriteByte("a "[r.Intn(2)])
	}
	fill := sb.String()
	switch r.Intn(3) {
	case 0:
		return fill + s
	case 1:
		return s + fill
	default:
		k := r.Intn(len(s) + 1)
		return s[:k] + fill + s[k:]
	}
}

func c14RandomQuery(r *Rng, idx int) string {
	special := append(append([]rune{}, c14Spaces...), c14Controls()...)
	switch x := r.Intn(100); {
	case x < 30: // short, all classes
		return c14Concat(r, r.Intn(13), c14Atom)
	case x < 40: // short, mostly accepted
		return c14Concat(r, r.Range(1, 16), c14BenignAtom)
	case x < 58: // every white-space / control code point in turn, in a few fixed shapes, next to metacharacters too
		s := string(special[(idx+r.Intn(3))%len(special)])
		t := string(Pick(r, special))
		m := string(c14Metas[r.Intn(len(c14Metas))])
		w := Pick(r, c14Words)
		shapes := []string{s, s + w, w + s, w + s + w, s + w + s, w + s + t + w, s + t, w + " " + s + " " + w, m + s, s + m, w + s + m, s + m + t,
			w + m + s, s + s + w + t + t, " " + s + w, w + s + " ", "\xc2" + s, s + "\xa0", w + t + s + w + s + t, "\xc2" + s + "\xa0", "\xc2" + s + "\x80"}
		return Pick(r, shapes)
	case x < 66: // a control character (or several) between the two halves of a split multi-byte sequence
		var sb strings.Builder
		for k := r.Range(1, 3); k > 0; k-- {
			if r.Chance(1, 2) {
				sb.WriteString(Pick(r, c14Words))
			} else if r.Chance(1, 4) {
				sb.WriteString(string(Pick(r, c14Spaces)))
			}
			p := Pick(r, c14SplitPairs)
			sb.WriteString(p[0])
			for j := r.Range(1, 2); j > 0; j-- {
				sb.WriteString(string(Pick(r, c14Controls()))) // incl. \t, \n (kept) and U+0080..U+009F (two bytes, C2 xx)
			}
			sb.WriteString(p[1])
			if r.Chance(1, 2) {
				sb.WriteString(Pick(r, c14Words))
			}
		}
		return sb.String()
	case x < 82: // byte length at the limit
		core := c14Concat(r, r.Intn(20), c14BenignAtom)
		if r.Chance(1, 6) {
			core = c14Concat(r, r.Intn(20), c14Atom)
		}
		n := Pick(r, []int{998, 999, 999, 1000, 1000, 1000, 1001, 1001, 1002, 1003})
		return c14PadTo(r, core, n)
	case x < 93: // many invalid bytes: were each written as U+FFFD (3 bytes) the *output* would be near / over the limit (K01)
		target := Pick(r, []int{996, 998, 999, 1000, 1001, 1002, 1002, 1003, 1005}) // 3-bytes-each output length aimed at
		k := r.Range(300, 334)                                                      // number of invalid bytes
		if 3*k > target {
			k = target / 3
		}
		bad := Pick(r, []string{"\xff", "\x80", "\xc2", "\xe2\x80", "\xf0\x9f\x98"}) // repeated, every byte is invalid on its own
		s := strings.Repeat(bad, k/len(bad)+1)[:k]
		if rest := target - 3*k; rest > 0 {
			j := r.Intn(k + 1)
			s = s[:j] + strings.Repeat("a", rest) + s[j:]
		}
		if r.Chance(1, 3) {
			s = Pick(r, []string{" ", "\t", "\r\n", "\u3000"}) + s + Pick(r, []string{" ", "\n", "\x00"})
		}
		return s
	default: // white space / controls only, or a single visible character deep inside them
		s := c14Concat(r, r.Range(1, 10), func(r *Rng) string { return string(Pick(r, special)) })
		if r.Bool() {
			k := r.Intn(len(s) + 1)
			for k < len(s) && !utf8.RuneStart(s[k]) {
				k++
			}
			s = s[:k] + Pick(r, []string{"a", "\xff", "\u200b", "\ufffd", "$", "\x80"}) + s[k:]
		}
		return s
	}
}

func c14RandomLimit(r *Rng) int64 {
	fixed := []int64{-1 << 63, -1<<31 - 1, -101, -100, -2, -1, 0, 0, 1, 2, 5, 10, 50, 99, 100, 100, 101, 101, 102, 1000, 1 << 31, 1<<63 - 1}
	switch r.Intn(4) {
	case 0:
		return int64(r.Range(-10, 110))
	case 1:
		return int64(r.Next())
	default:
		return Pick(r, fixed)
	}
}

func genValidate(r *Rng, tier string, idx int, args map[string]string) []string {
	switch args["mode"] {
	case "tables":
		return []string{"tbl space", "tbl control"}
	case "enum":
		l := 3
		if args["len"] != "" {
			l = Atoi(args["len"])
		}
		tot := c14EnumTotal(l)
		var ops []string
		for i := idx * c14EnumChunk; i < (idx+1)*c14EnumChunk && i < tot; i++ {
			ops = append(ops, "qq "+Hx(c14EnumString(i)))
		}
		return ops
	case "decode":
		tot := c14DecodeTotal(tier)
		var ops []string
		for i := idx * c14DecodeChunk; i < (idx+1)*c14DecodeChunk && i < tot; i++ {
			ops = append(ops, "dec "+Hx(c14DecodeString(tier, i)))
		}
		return ops
	}
	var ops []string
	n := r.Range(4, 8)
	for i := 0; i < n; i++ {
		q := c14RandomQuery(r, idx*8+i)
		ops = append(ops, "qq "+Hx(q))
		if r.Chance(1, 5) {
			ops = append(ops, "dec "+Hx(q))
		}
	}
	for i := r.Range(1, 3); i > 0; i-- {
		ops = append(ops, "lim "+Itoa64(c14RandomLimit(r)))
	}
	return ops
}

// ---------------------------------------------------------------------------------------------
// real code + monitor
// ---------------------------------------------------------------------------------------------

func c14Ranges(p func(rune) bool) string {
	var out []string
	start := rune(-1)
	for c := rune(0); c <= 0x10FFFF; c++ {
		if p(c) {
			if start < 0 {
				start = c
			}
		} else if start >= 0 {
			out = append(out, fmt.Sprintf("%x-%x", start, c-1))
			start = -1
		}
	}
	if start >= 0 {
		out = append(out, fmt.Sprintf("%x-%x", start, 0x10FFFF))
	}
	if len(out) == 0 {
		return "-"
	}
	return strings.Join(out, ",")
}

func c14ErrKind(err error) string {
	var ae *apperrors.AppError
	if stderrors.As(err, &ae) {
		switch {
		case strings.HasPrefix(ae.Message, "empty query"):
			return "empty"
		case strings.HasPrefix(ae.Message, "query too long"):
			return "toolong"
		case strings.HasPrefix(ae.Message, "invalid characters"):
			return "badchars"
		}
	}
	return "other"
}

func c14Show(out string, err error) string {
	if err != nil {
		return "err " + c14ErrKind(err)
	}
	return "ok " + Hx(out)
}

func c14Short(s string) string {
	if len(s) > 48 {
		return Hx(s[:24]) + ".." + Hx(s[len(s)-24:])
	}
	return Hx(s)
}

// the property's acceptance condition, evaluated on the input alone
func c14ShouldAccept(q string) bool {
	if len(q) > 1000 || strings.ContainsAny(q, c14Metas) {
		return false
	}
	for _, r := range q { // blank once control characters are removed?
		if !unicode.IsControl(r) && !unicode.IsSpace(r) {
			return true
		}
	}
	return false
}

// c14WouldJoin: deleting the control characters of q without touching the other bytes gives a text with fewer
// characters than q has non-control characters, i.e. bytes that are invalid in q would join into a character
// (coverage tag only: the inputs on which "copy the invalid byte" and "replace the invalid byte" differ in kind).
func c14WouldJoin(q string) bool {
	var sb strings.Builder
	n := 0
	for i := 0; i < len(q); {
		r, w := utf8.DecodeRuneInString(q[i:])
		if !unicode.IsControl(r) {
			sb.WriteString(q[i : i+w])
			n++
		}
		i += w
	}
	return utf8.RuneCountInString(sb.String()) != n
}

func c14MonitorQuery(mon *Mon, opIdx int, q, out string, err error) {
	det := func(extra string) map[string]interface{} {
		return map[string]interface{}{"op": opIdx, "input": c14Short(q), "input_len": len(q), "output": c14Short(out), "output_len": len(out),
			"valid_utf8": utf8.ValidString(q), "note": extra}
	}
	want := c14ShouldAccept(q)
	if want != (err == nil) {
		mon.Hit("C14", "accept-mismatch", det(fmt.Sprintf("property says accepted=%v, code says %s", want, c14Show(out, err))))
	}
	// tags
	if !utf8.ValidString(q) {
		mon.Tag("invalid-utf8")
	}
	if len(q) >= 999 && len(q) <= 1001 {
		mon.Tag("len-999..1001")
	}
	if c14WouldJoin(q) {
		mon.Tag("split-join") // removing the control characters byte-wise would join invalid bytes into a new character
	}
	if err != nil {
		mon.Tag("err-" + c14ErrKind(err))
		return
	}
	mon.Tag("accepted")
	if out != q {
		mon.Tag("altered")
	}
	// accepted => clean
	prevSpace := false
	first := true
	for _, r := range out {
		if unicode.IsControl(r) {
			mon.Hit("C14", "clean-control", det(fmt.Sprintf("output contains control character U+%04X", r)))
			break
		}
		sp := unicode.IsSpace(r)
		if sp && first {
			mon.Hit("C14", "clean-untrimmed", det("output starts with white space"))
		}
		if sp && prevSpace {
			mon.Hit("C14", "clean-repeated-space", det("output contains two adjacent white-space characters"))
			break
		}
		prevSpace, first = sp, false
	}
	if prevSpace {
		mon.Hit("C14", "clean-untrimmed", det("output ends with white space"))
	}
	if strings.ContainsAny(out, c14Metas) {
		mon.Hit("C14", "clean-meta", det("output contains a shell metacharacter"))
	}
	if utf8.RuneCountInString(out) > utf8.RuneCountInString(q) {
		mon.Hit("C14", "clean-longer", det(fmt.Sprintf("output has %d characters, input %d", utf8.RuneCountInString(out), utf8.RuneCountInString(q))))
	}
	// validating an already validated query returns it unchanged
	out2, err2 := validation.ValidateQuery(out)
	if err2 != nil || out2 != out {
		if !utf8.ValidString(q) && len(out) > constants.MaxQueryLength && err2 != nil && c14ErrKind(err2) == "toolong" {
			mon.Tag("idem-expansion")
			mon.Hit("C14", "idem-invalid-utf8-expansion", det(fmt.Sprintf("accepted %d-byte input with invalid UTF-8 comes back as %d bytes, which is rejected (%s) when validated again",
				len(q), len(out), c14Show(out2, err2))))
		} else {
			mon.Hit("C14", "idem-broken", det("second validation gives "+c14Show(out2, err2)))
		}
	}
}

func c14MonitorLimit(mon *Mon, opIdx int, n int, m int, err error) {
	det := map[string]interface{}{"op": opIdx, "limit": n, "returned": m, "error": err != nil}
	if err == nil {
		mon.Tag("lim-ok")
		if m < 1 || m > 100 {
			mon.Hit("C14", "limit-out-of-range", det)
		}
		if n == 0 && m != constants.DefaultSearchLimit {
			mon.Hit("C14", "limit-zero-not-default", det)
		}
	} else {
		mon.Tag("lim-err")
		if n == 0 {
			mon.Hit("C14", "limit-zero-rejected", det)
		}
	}
	if n >= 1 && n <= 100 && (err != nil || m != n) {
		mon.Hit("C14", "limit-valid-not-accepted", det)
	}
}

func execValidate(ops []string, mon *Mon) []string {
	out := make([]string, 0, len(ops))
	for i, o := range ops {
		f := strings.Split(o, " ")
		switch {
		case len(f) == 2 && (f[0] == "q" || f[0] == "qq"):
			q := UnHx(f[1])
			r, err := validation.ValidateQuery(q)
			c14MonitorQuery(mon, i, q, r, err)
			line := c14Show(r, err)
			if f[0] == "qq" && err == nil {
				r2, err2 := validation.ValidateQuery(r)
				line += " " + c14Show(r2, err2)
			}
			out = append(out, line)
		case len(f) == 2 && f[0] == "lim":
			n64 := Atoi64(f[1])
			n := int(n64)
			m, err := validation.ValidateLimit(n)
			c14MonitorLimit(mon, i, n, m, err)
			if err != nil {
				out = append(out, "err "+Itoa(m))
			} else {
				out = append(out, "ok "+Itoa(m))
			}
		case len(f) == 2 && f[0] == "dec":
			s := UnHx(f[1])
			var parts []string
			for j, r := range s {
				_, w := utf8.DecodeRuneInString(s[j:])
				if r == utf8.RuneError && w == 1 {
					parts = append(parts, fmt.Sprintf("b%x", s[j]))
				} else {
					parts = append(parts, fmt.Sprintf("c%x", r))
				}
			}
			mon.Tag("dec")
			if len(parts) == 0 {
				out = append(out, "-")
			} else {
				out = append(out, strings.Join(parts, ","))
			}
		case len(f) == 2 && f[0] == "tbl" && f[1] == "space":
			out = append(out, c14Ranges(unicode.IsSpace))
		case len(f) == 2 && f[0] == "tbl" && f[1] == "control":
			out = append(out, c14Ranges(unicode.IsControl))
		default:
			out = append(out, "bad-op")
		}
	}
	return out
}
