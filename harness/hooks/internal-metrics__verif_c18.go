//go:build verif

package metrics

// Read-only accessors for the C18 check (overlaid into internal/metrics at build time; never part of
// a normal build).

// VerifMetricKey exposes the series key of an identity.
func (mc *Collector) VerifMetricKey(name string, tags map[string]string) string {
	return mc.metricKey(name, tags)
}

// VerifSeriesCount returns the number of stored series of one kind (counter|gauge|hist|timer).
func (mc *Collector) VerifSeriesCount(kind string) int {
	mc.mu.RLock()
	defer mc.mu.RUnlock()
	switch kind {
	case "counter":
		return len(mc.counters)
	case "gauge":
		return len(mc.gauges)
	case "hist":
		return len(mc.histograms)
	case "timer":
		return len(mc.timers)
	}
	return -1
}

// VerifTimer is one stored timer series (GetAllMetrics does not report timers).
type VerifTimer struct {
	Name string
	Tags map[string]string
	H    *Histogram
}

// VerifTimers lists the stored timers (in map order; callers sort).
func (mc *Collector) VerifTimers() []VerifTimer {
	mc.mu.RLock()
	defer mc.mu.RUnlock()
	out := make([]VerifTimer, 0, len(mc.timers))
	for _, t := range mc.timers {
		out = append(out, VerifTimer{Name: t.name, Tags: t.tags, H: t.histogram})
	}
	return out
}

// VerifCollector exposes the collector behind a performance monitor.
func (pm *PerformanceMonitor) VerifCollector() *Collector { return pm.collector }
