//go:build verif

package database

import "github.com/Vedant9500/WTF/internal/nlp"

// Read-only accessors for the verification harness (build tag verif only).

// VerifIDF exposes bm25IDF (math.Log enters the model as a table).
func VerifIDF(n, df int) float64 { return bm25IDF(n, df) }

// VerifTokenize exposes the index/query tokenizer.
func VerifTokenize(s string) []string { return normalizeAndTokenize(s) }

// VerifCurrentPlatform exposes the host platform name the filters use.
func VerifCurrentPlatform() string { return getCurrentPlatform() }

// VerifPassesFilters exposes the platform/pipeline gate.
func VerifPassesFilters(cmd *Command, options SearchOptions) bool {
	return passesFilters(cmd, getCurrentPlatform(), options)
}

// VerifIntentBoost exposes calculateIntentBoost.
func VerifIntentBoost(cmd *Command, pq *nlp.ProcessedQuery) float64 {
	return calculateIntentBoost(cmd, pq)
}

// VerifCascadeBoost exposes the cascading boost factor of one command.
func (db *Database) VerifCascadeBoost(cmd *Command, pq *nlp.ProcessedQuery) float64 {
	return db.calculateBoostForCommand(cmd, db.buildBoostContext(pq))
}

// VerifTFIDF returns the complete TF-IDF ranking for a query (nil, false if no searcher is built).
func (db *Database) VerifTFIDF(query string) ([]nlp.TFIDFResult, bool) {
	if db.tfidf == nil {
		return nil, false
	}
	return db.tfidf.Search(query, len(db.Commands)), true
}

// VerifBM25Params exposes the BM25F parameters in force (k1, b per field, w per field, minIDF).
func (db *Database) VerifBM25Params() [10]float64 {
	if db.uIndex == nil {
		db.BuildUniversalIndex()
	}
	p := db.uIndex.params
	return [10]float64{p.k1, p.b.cmd, p.b.desc, p.b.keys, p.b.tags, p.w.cmd, p.w.desc, p.w.keys, p.w.tags, p.minIDF}
}

// VerifIndexOf maps a result's command pointer back to its position in db.Commands (-1 if foreign).
func (db *Database) VerifIndexOf(cmd *Command) int {
	for i := range db.Commands {
		if &db.Commands[i] == cmd {
			return i
		}
	}
	return -1
}

// VerifPopulateCache fills the lower-case cache fields the way the loader does.
func VerifPopulateCache(cmds []Command) {
	for i := range cmds {
		c := &cmds[i]
		c.CommandLower = toLowerVerif(c.Command)
		c.DescriptionLower = toLowerVerif(c.Description)
		c.KeywordsLower = make([]string, len(c.Keywords))
		for j, k := range c.Keywords {
			c.KeywordsLower[j] = toLowerVerif(k)
		}
		c.TagsLower = make([]string, len(c.Tags))
		for j, k := range c.Tags {
			c.TagsLower[j] = toLowerVerif(k)
		}
	}
}

// VerifBuildAll builds index and re-ranker the way LoadDatabase does.
func (db *Database) VerifBuildAll() {
	db.BuildUniversalIndex()
	db.buildTFIDFSearcher()
}
