//go:build verif

package database

import "sort"

// VerifCrossPlatformTools exposes the keys of crossPlatformTools (read-only copy, sorted) so the C04
// monitor can apply the tool rule of the property without calling the engine's own gate.
func VerifCrossPlatformTools() []string {
	out := make([]string, 0, len(crossPlatformTools))
	for k := range crossPlatformTools {
		out = append(out, k)
	}
	sort.Strings(out)
	return out
}
