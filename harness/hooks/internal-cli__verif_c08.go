//go:build verif

package cli

import (
	"github.com/Vedant9500/WTF/internal/database"
	"github.com/spf13/cobra"
)

// VerifSaveToPersonalDatabase exposes the notebook update (read, replace-or-append, write) to the C08 harness.
func VerifSaveToPersonalDatabase(dbPath string, entry database.Command) error {
	return saveToPersonalDatabase(dbPath, entry)
}

// VerifParseSaveArgs runs cobra/pflag's own parsing of a `save` / `save-pipeline` command line (persistent
// flags merged the way Execute does) and returns what the handler would be handed: positional arguments and
// the flag values it fetches.  One-shot (the flag sets keep their values): used from a tool process only.
func VerifParseSaveArgs(pipeline bool, argv []string) (args []string, keywords []string, category string, platforms []string,
	pipelineFlag bool, description string, err error) {
	var c *cobra.Command = saveCmd
	if pipeline {
		c = savePipelineCmd
	}
	if err = c.ParseFlags(argv); err != nil {
		return
	}
	args = c.Flags().Args()
	if err = c.ValidateArgs(args); err != nil {
		return
	}
	keywords, _ = c.Flags().GetStringSlice("keywords")
	category, _ = c.Flags().GetString("category")
	platforms, _ = c.Flags().GetStringSlice("platforms")
	if pipeline {
		description, _ = c.Flags().GetString("description")
	} else {
		pipelineFlag, _ = c.Flags().GetBool("pipeline")
	}
	return
}
