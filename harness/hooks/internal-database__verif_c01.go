//go:build verif

package database

// Read-only accessor for the C01 check (build tag verif only).

// VerifLegacyScore exposes calculateScore, the legacy scorer behind SearchWithPipelineOptions /
// SearchWithOptions.  The model treats it as an uninterpreted per-document function; the harness
// feeds its values to the driver.
func VerifLegacyScore(cmd *Command, queryWords []string, contextBoosts map[string]float64) float64 {
	return calculateScore(cmd, queryWords, contextBoosts)
}
