//go:build verif

package database

// VerifFilterResults calls FilterResults, the exported gate the CLI applies to last-resort recovery answers.  It is a hook
// of its own: in a tree that does not have that function this file is replaced by a panicking stub (core.build_harness), the
// harness still builds, and only the whole-list stage of the C04 monitor is lost - the CLI runs of the check still find the
// recovery answers that ignore the filters.
func VerifFilterResults(results []SearchResult, options SearchOptions) []SearchResult {
	return FilterResults(results, options)
}
