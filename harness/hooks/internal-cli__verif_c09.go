//go:build verif

package cli

import "github.com/Vedant9500/WTF/internal/database"

// VerifWritePersonalDatabase exposes the notebook writer (marshal, read-back check, file replacement)
// to the C09 harness, which runs it with the write cut short by RLIMIT_FSIZE.
func VerifWritePersonalDatabase(dbPath string, commands []database.Command) error {
	return writePersonalDatabase(dbPath, commands)
}
