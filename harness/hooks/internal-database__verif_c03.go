//go:build verif

package database

import (
	"encoding/hex"
	"math"
	"sort"
	"strconv"
	"strings"
)

// VerifIndexSnapshot dumps the inverted index in force (read-only; nil index -> "idx nil") in a
// canonical, space-separated form:
//
//	idx n=<N> lens=<c/d/k/t,...|-> avg <f:cmd> <f:desc> <f:keys> <f:tags> df=<hexterm=n,...|-> post=<hexterm:doc/c/d/k/t+doc/...,...|->
//
// entries sorted as strings, postings in stored order, floats as f:<hex bits>.
// For an empty database the averages are printed as "avg - - - -" (they are never read).
func (db *Database) VerifIndexSnapshot() string {
	idx := db.uIndex
	if idx == nil {
		return "idx nil"
	}
	var sb strings.Builder
	sb.WriteString("idx n=" + strconv.Itoa(idx.N))
	sb.WriteString(" lens=")
	if len(idx.docLens) == 0 {
		sb.WriteString("-")
	}
	for i, l := range idx.docLens {
		if i > 0 {
			sb.WriteByte(',')
		}
		sb.WriteString(strconv.Itoa(int(l.cmd)) + "/" + strconv.Itoa(int(l.desc)) + "/" + strconv.Itoa(int(l.keys)) + "/" + strconv.Itoa(int(l.tags)))
	}
	f := func(x float64) string { return "f:" + strconv.FormatUint(math.Float64bits(x), 16) }
	if idx.N == 0 {
		sb.WriteString(" avg - - - -")
	} else {
		sb.WriteString(" avg " + f(idx.avgLen.cmd) + " " + f(idx.avgLen.desc) + " " + f(idx.avgLen.keys) + " " + f(idx.avgLen.tags))
	}
	hx := func(s string) string {
		if s == "" {
			return "-"
		}
		return hex.EncodeToString([]byte(s))
	}
	// entries are rendered first and sorted as whole strings (the model side does the same)
	dfs := make([]string, 0, len(idx.df))
	for t, n := range idx.df {
		dfs = append(dfs, hx(t)+"="+strconv.Itoa(n))
	}
	sort.Strings(dfs)
	sb.WriteString(" df=")
	if len(dfs) == 0 {
		sb.WriteString("-")
	}
	sb.WriteString(strings.Join(dfs, ","))
	posts := make([]string, 0, len(idx.postings))
	for t, ps := range idx.postings {
		var e strings.Builder
		e.WriteString(hx(t) + ":")
		for j, p := range ps {
			if j > 0 {
				e.WriteByte('+')
			}
			e.WriteString(strconv.Itoa(int(p.docID)) + "/" + strconv.Itoa(int(p.tf.cmd)) + "/" + strconv.Itoa(int(p.tf.desc)) + "/" + strconv.Itoa(int(p.tf.keys)) + "/" + strconv.Itoa(int(p.tf.tags)))
		}
		posts = append(posts, e.String())
	}
	sort.Strings(posts)
	sb.WriteString(" post=")
	if len(posts) == 0 {
		sb.WriteString("-")
	}
	sb.WriteString(strings.Join(posts, ","))
	return sb.String()
}

// VerifRerankerCurrent reports whether the re-ranker's pointer map describes exactly the current
// command slice (every &Commands[i] -> i, nothing else), or - for an empty database - no searcher
// is installed.  Read-only.
func (db *Database) VerifRerankerCurrent() bool {
	if len(db.Commands) == 0 {
		return db.tfidf == nil || len(db.cmdIndex) == 0
	}
	if db.tfidf == nil || len(db.cmdIndex) != len(db.Commands) {
		return false
	}
	for i := range db.Commands {
		if j, ok := db.cmdIndex[&db.Commands[i]]; !ok || j != i {
			return false
		}
	}
	return true
}
