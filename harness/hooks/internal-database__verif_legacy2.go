//go:build verif

package database

// Read-only accessors for the legacy2 correspondence domain (build tag verif only): the unexported
// pieces of the legacy scorer and of the hybrid search, so that the model can be compared with the
// real code piece by piece and not only end to end.

// VerifLegacy2Parts returns the five summands of calculateWordScore for one query word and the
// category factor getCategoryBoostForWord contributes for it.
func VerifLegacy2Parts(cmd *Command, word string) [6]float64 {
	return [6]float64{
		calculateCommandScore(word, cmd.CommandLower),
		calculateDomainScore(word, cmd),
		calculateKeywordScore(word, cmd.KeywordsLower),
		calculateDescriptionScore(word, cmd.DescriptionLower),
		calculateTagScore(word, cmd.TagsLower),
		getCategoryRelevanceBoost(cmd, []string{word}),
	}
}

// VerifLegacy2WordScore exposes calculateWordScore.
func VerifLegacy2WordScore(cmd *Command, word string) float64 { return calculateWordScore(word, cmd) }

// VerifLegacy2Category exposes getCategoryRelevanceBoost.
func VerifLegacy2Category(cmd *Command, words []string) float64 {
	return getCategoryRelevanceBoost(cmd, words)
}

// VerifLegacy2PlatformScore exposes (db).calculateCommandScore: the platform gate of SearchWithOptions
// plus the score; ok=false is the nil return.
func (db *Database) VerifLegacy2PlatformScore(cmd *Command, words []string, boosts map[string]float64) (float64, bool) {
	r := db.calculateCommandScore(cmd, words, boosts, getCurrentPlatform())
	if r == nil {
		return 0, false
	}
	return r.Score, true
}

// VerifLegacy2Combine runs combineAndDeduplicateResults on lists given by positions and scores.
func (db *Database) VerifLegacy2Combine(exactIdx []int, exactScores []float64, fuzzyIdx []int, fuzzyScores []float64, limit int) []SearchResult {
	mk := func(idx []int, sc []float64) []SearchResult {
		out := make([]SearchResult, len(idx))
		for i := range idx {
			out[i] = SearchResult{Command: &db.Commands[idx[i]], Score: sc[i]}
		}
		return out
	}
	return db.combineAndDeduplicateResults(mk(exactIdx, exactScores), mk(fuzzyIdx, fuzzyScores), limit)
}

// VerifLegacy2FuzzyRaw exposes performFuzzySearch (before any truncation by the caller).
func (db *Database) VerifLegacy2FuzzyRaw(query string, options SearchOptions) []SearchResult {
	return db.performFuzzySearch(query, options)
}

// VerifLegacy2IsCommonWord exposes isCommonWord.
func VerifLegacy2IsCommonWord(w string) bool { return isCommonWord(w) }

// VerifLegacy2HasSearcher reports whether SearchWithNLP will take the shared-searcher branch.
func (db *Database) VerifLegacy2HasSearcher() bool { return db.tfidf != nil && db.cmdIndex != nil }
