//go:build verif

package recovery

// C15 verification accessor (read-only): exposes the retry classifier so that the harness can compare
// it with the model on arbitrary error chains.
func (dr *DatabaseRecovery) VerifShouldRetry(err error) bool { return dr.shouldRetry(err) }
