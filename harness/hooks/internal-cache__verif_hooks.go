//go:build verif

package cache

import "time"

// VerifAge makes every entry d older (the model's clock is advanced by ageing the real entries,
// because LRUCache reads time.Now() directly).
func (c *LRUCache) VerifAge(d time.Duration) {
	c.mu.Lock()
	defer c.mu.Unlock()
	for e := c.evictList.Front(); e != nil; e = e.Next() {
		en := e.Value.(*Entry)
		en.CreatedAt = en.CreatedAt.Add(-d)
		en.AccessedAt = en.AccessedAt.Add(-d)
	}
}

// VerifOrder returns the keys of the eviction list, most recently used first.
func (c *LRUCache) VerifOrder() []string {
	c.mu.RLock()
	defer c.mu.RUnlock()
	out := make([]string, 0, c.evictList.Len())
	for e := c.evictList.Front(); e != nil; e = e.Next() {
		out = append(out, e.Value.(*Entry).Key)
	}
	return out
}

// VerifLRU exposes the LRU behind a search cache.
func (sc *SearchCache) VerifLRU() *LRUCache { return sc.cache }

// VerifKey exposes the cache key of a request.
func (sc *SearchCache) VerifKey(query string, options SearchOptions) string {
	return sc.generateCacheKey(query, options)
}
