//go:build verif

package database

import (
	"strings"

	"github.com/Vedant9500/WTF/internal/nlp"
)

// Read-only accessors for the `boosts` correspondence domain (build tag verif only): the pieces of
// calculateIntentBoost and calculateBoostForCommand, so that the harness can print the branch taken.

// VerifBoostsIntentParts returns applyIntentBoost, applyActionBoosts, applyTargetBoosts for (cmd, pq) - the three
// factors calculateIntentBoost multiplies.
func VerifBoostsIntentParts(cmd *Command, pq *nlp.ProcessedQuery) [3]float64 {
	cmdLower := strings.ToLower(cmd.Command)
	descLower := strings.ToLower(cmd.Description)
	return [3]float64{applyIntentBoost(cmdLower, descLower, pq.Intent), applyActionBoosts(cmdLower, descLower, pq.Actions),
		applyTargetBoosts(cmdLower, descLower, pq.Targets)}
}

// VerifBoostsContext exposes buildBoostContext(pq): action / target / keyword terms, hints, contexts, intent.
func (db *Database) VerifBoostsContext(pq *nlp.ProcessedQuery) (a, t, k, h, c []string, intent string) {
	ctx := db.buildBoostContext(pq)
	return ctx.actionTerms, ctx.targetTerms, ctx.keywordTerms, ctx.commandHints, ctx.contexts, string(ctx.intent)
}

// VerifBoostsCascadeHits says which kinds of match a command has against the boost context of pq (the conditions of the
// six `boost +=` lines, evaluated with a unit boost value): hint, action term, context, target term, keyword term, intent.
func (db *Database) VerifBoostsCascadeHits(cmd *Command, pq *nlp.ProcessedQuery) [6]bool {
	ctx := db.buildBoostContext(pq)
	searchText := strings.ToLower(cmd.Command + " " + cmd.Description + " " + strings.Join(cmd.Keywords, " "))
	return [6]bool{
		calcHintBoost(cmd.Command, ctx.commandHints, 1) != 0,
		calcTermBoost(searchText, ctx.actionTerms, 1) != 0,
		calcContextBoost(cmd.Command, searchText, ctx.contexts, 1) != 0,
		calcTermBoost(searchText, ctx.targetTerms, 1) != 0,
		calcTermBoost(searchText, ctx.keywordTerms, 1) != 0,
		getIntentBoost(ctx.intent, searchText) != 0,
	}
}

// VerifBoostsCommandBase exposes getCommandBase.
func VerifBoostsCommandBase(cmd string) string { return getCommandBase(cmd) }

// VerifBoostsContainsWord exposes containsWord.
func VerifBoostsContainsWord(text, word string) bool { return containsWord(text, word) }
