//go:build verif

package database

import "github.com/Vedant9500/WTF/internal/embedding"

// VerifSetEmbeddingIndex attaches (or, with nil, detaches) an in-memory embedding index.
// The field is unexported and LoadEmbeddings only reads fixed asset paths.
func (db *Database) VerifSetEmbeddingIndex(idx *embedding.Index) { db.embeddingIndex = idx }

// VerifEmbeddingIndex returns the attached index (nil if none).
func (db *Database) VerifEmbeddingIndex() *embedding.Index { return db.embeddingIndex }

// VerifPostSemantic runs applyPostScoringBoosts with NLP off and no processed query, i.e. exactly
// its last step: `if db.HasEmbeddings() && len(results) > 0 { applySemanticBoost }`.
func (db *Database) VerifPostSemantic(results []SearchResult, query string) []SearchResult {
	return db.applyPostScoringBoosts(results, nil, query, SearchOptions{})
}
