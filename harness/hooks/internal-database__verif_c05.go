//go:build verif

package database

import "github.com/Vedant9500/WTF/internal/cache"

// VerifC05CacheManager exposes the cache manager behind a CachedDatabase (statistics, recency order
// and the ageing hook of the LRU are read through it by the C05 harness).
func (cdb *CachedDatabase) VerifC05CacheManager() *cache.Manager { return cdb.cacheManager }
