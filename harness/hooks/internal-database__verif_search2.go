//go:build verif

package database

import "strings"

func toLowerVerif(s string) string { return strings.ToLower(s) }
