//go:build verif

package cache

import (
	"encoding/json"
	"fmt"
	"strings"
)

var verifKeyjsonCache = NewSearchCache(1, 0)

// VerifKeyjsonKey is the real key of a request (generateCacheKey itself).
func VerifKeyjsonKey(query string, options SearchOptions) string {
	return verifKeyjsonCache.generateCacheKey(query, options)
}

// VerifKeyjsonPrefix is the constant prefix of every key.
func VerifKeyjsonPrefix() string { return verifKeyjsonCache.keyPrefix }

// VerifKeyjsonText returns the bytes generateCacheKey hashes.  The function returns only the hash, so its first half is
// repeated here with the same anonymous struct type (the shape of the original is asserted by the translator, sites
// keyjson:keyStruct and keyjson:marshal); the harness checks for every request that prefix + hex(sha256(text)) is the
// key VerifKeyjsonKey returns, so a text that is not the one hashed shows as a correspondence mismatch.
func VerifKeyjsonText(query string, options SearchOptions) (text []byte, fallback bool, normalized string) {
	normalizedQuery := strings.ToLower(strings.TrimSpace(query))
	keyData := struct {
		Query   string        `json:"query"`
		Options SearchOptions `json:"options"`
	}{
		Query:   normalizedQuery,
		Options: options,
	}
	jsonData, err := json.Marshal(keyData)
	if err != nil {
		return []byte(fmt.Sprintf("%#v", keyData)), true, normalizedQuery
	}
	return jsonData, false, normalizedQuery
}
